"""T-gen generator `translated`: the mini-translator of DESIGN.md 2.2 (restricted go/ssa -> Lean 4).

  translated -> lean/Aqv/Gen/Translated.lean : Lean definitions of a short list of pure, loop-free Go functions, produced by
                go/extract/cmd/ssa2lean from the go/ssa form of the tree under test (docs/notes/translator.md: grammar, type
                mapping, how to add a function).  For every `Aqv.Gen.Translated.f` there is a theorem `f_translated_eq` in
                lean/Aqv/Lemmas/Translated/<Area>.lean tying it to the hand-written model function, and one `…_code_is_model`
                theorem in the property files that consume it (C06, C07, C08, C11, C12, C13, C14, C18), so `check.py Cxx`
                re-proves the tie against what the source says now.

  * A function of FUNCTIONS that falls outside the grammar is REFUSED by the tool: no definition is generated for it (the
    reason is printed and recorded in a comment of the generated file), so exactly the theorems about that function stop
    compiling and the properties that consume them report a broken obligation.  Nothing is approximated.
  * EXPECT_REFUSED is the self-test of the grammar check: these must be refused (loops); if one of them is ever translated
    the generator fails for everybody (translator bug).
  * EXTERN: callees deliberately left untranslated; they appear as explicit function parameters of the generated definition.

The result is a pure function of the non-test Go sources of the tree, the translator sources and the lists below, so it is
cached under .work/gen-translated/ keyed by a content hash of all three (unchanged tree: < 1 s; a changed tree is re-analysed,
~10 s).  Helper names (generator, write_if_changed, ROOT, REPO, ENV) are injected by tools/gen.py.
"""
import os, hashlib, subprocess, sys, time

FUNCTIONS = [
    # core/vm (C07, C08)
    "core/vm.toWordSize",
    "core/vm.callGas",
    "core/vm.memoryGasCost",            # pulls in core/vm.(*Memory).Len
    "core/vm.bigUint64",
    "core/vm.calcMemSize",
    "core/vm.gasMLoad", "core/vm.gasMStore", "core/vm.gasMStore8", "core/vm.gasCreate", "core/vm.gasReturn", "core/vm.gasRevert",
    "core/vm.(*Contract).UseGas",
    "core/vm.gasBalance", "core/vm.gasExtCodeSize", "core/vm.gasSLoad",
    "core/vm.(*ecrecover).RequiredGas", "core/vm.(*sha256hash).RequiredGas", "core/vm.(*ripemd160hash).RequiredGas",
    "core/vm.(*dataCopy).RequiredGas", "core/vm.(*fakebn256Add).RequiredGas", "core/vm.(*fakebn256ScalarMul).RequiredGas",
    "core/vm.(*fakebn256Pairing).RequiredGas",
    "common/math.SafeAdd", "common/math.SafeSub", "common/math.SafeMul",
    "common/math.BigMax", "common/math.BigMin", "common/math.S256",
    # rlp (C11)
    "rlp.headsize",
    # rpc (C18)
    "rpc.isProtectedMethodName",
    # core (C06)
    "core.(*GasPool).SubGas", "core.(*GasPool).AddGas", "core.(*GasPool).Gas",
    "core.(*StateTransition).useGas", "core.(*StateTransition).gasUsed",
    # core/types, crypto (C12)
    "core/types.isProtectedV", "core/types.deriveChainId", "crypto.ValidateSignatureValues",
    # consensus/aquahash, params (C13, C14, C08)
    "consensus/aquahash.calcDifficultyStarting", "consensus/aquahash.calcDifficultyHF1",
    "params.isForked", "params.(*ChainConfig).IsHF", "params.(*ChainConfig).GetBlockVersion", "params.(*ChainConfig).GetHF",
    "params.(*ChainConfig).IsHomestead", "params.(*ChainConfig).IsByzantium", "params.(*ChainConfig).IsConstantinople",
    "params.(*ChainConfig).IsEIP150", "params.(*ChainConfig).IsEIP155", "params.(*ChainConfig).IsEIP158", "params.(*ChainConfig).IsDAOFork",
]
EXTERN = ["rlp.intsize"]
EXPECT_REFUSED = ["rlp.intsize", "core.IntrinsicGas", "core/bloombits.calcBloomIndexes",   # loops
                  "rlp.puthead",                                                           # heap write (slice element)
                  "core/vm.RunPrecompiledContract",                                        # dynamic (interface) call
                  "core/vm.getData"]                                                       # slice indexing



def _hash_tree(extract_dir):
    h = hashlib.sha256()
    h.update(repr((FUNCTIONS, EXTERN, EXPECT_REFUSED)).encode())
    for fn in ("go.mod", "go.sum"):
        p = os.path.join(extract_dir, fn)
        if os.path.exists(p):
            h.update(open(p, "rb").read())
    for base, only_go in ((REPO, True), (os.path.join(extract_dir, "cmd", "ssa2lean"), False)):
        for dp, dns, fns in os.walk(base):
            dns[:] = sorted(d for d in dns if d not in (".git", "node_modules", "testdata") and not d.startswith("."))
            for fn in sorted(fns):
                if only_go and not (fn.endswith(".go") and not fn.endswith("_test.go")) and fn not in ("go.mod", "go.sum"):
                    continue
                p = os.path.join(dp, fn)
                h.update(os.path.relpath(p, base).encode() + b"\0")
                with open(p, "rb") as f:
                    h.update(hashlib.sha256(f.read()).digest())
    return h.hexdigest()[:24]


@generator("translated")
def gen_translated():
    t0 = time.time()
    work = os.path.join(ROOT, ".work", "gen-translated")
    os.makedirs(work, exist_ok=True)
    extract_dir = os.path.join(ROOT, "go", "extract")
    key = _hash_tree(extract_dir)
    cache = os.path.join(work, "cache-" + key + ".lean")
    log = os.path.join(work, "cache-" + key + ".log")
    if os.path.exists(cache):
        text, msgs = open(cache).read(), open(log).read() if os.path.exists(log) else ""
        print("gen: translated: extractor result reused (tree hash %s unchanged, %.2fs)" % (key, time.time() - t0))
    else:
        exe = os.path.join(work, "ssa2lean")
        p = subprocess.run(["go", "build", "-o", exe, "./cmd/ssa2lean"], cwd=extract_dir, env=ENV, stdout=subprocess.PIPE,
                           stderr=subprocess.STDOUT, text=True)
        if p.returncode != 0:
            print(p.stdout[-3000:])
            raise SystemExit("gen translated: the translator does not build")
        env = dict(ENV)
        env["VERIF_REPO"] = REPO
        out = os.path.join(work, "out-%d.lean" % os.getpid())
        p = subprocess.run([exe, "-keep-going", "-o", out, "-extern", ",".join(EXTERN), "-refuse", ",".join(EXPECT_REFUSED)] + FUNCTIONS,
                           cwd=work, env=env, stdout=subprocess.PIPE, stderr=subprocess.PIPE, text=True, timeout=900)
        msgs = p.stderr
        if p.returncode != 0 or not os.path.exists(out):
            print(msgs[-4000:])
            raise SystemExit("gen translated: ssa2lean failed on the tree under test (rc=%d)" % p.returncode)
        text = open(out).read()
        os.remove(out)
        old = sorted((fn for fn in os.listdir(work) if fn.startswith("cache-") and fn.endswith(".lean")),
                     key=lambda fn: os.path.getmtime(os.path.join(work, fn)))
        for fn in old[:-7]:  # keep the results of the last few trees (scratch worktrees alternate with /repo)
            os.remove(os.path.join(work, fn))
            if os.path.exists(os.path.join(work, fn[:-5] + ".log")):
                os.remove(os.path.join(work, fn[:-5] + ".log"))
        with open(cache, "w") as f:
            f.write(text)
        with open(log, "w") as f:
            f.write(msgs)
        print("gen: translated: %d functions requested, analysed in %.1fs" % (len(FUNCTIONS), time.time() - t0))
    for l in msgs.splitlines():
        if l.startswith("REFUSED"):
            print("gen: translated: " + l[:400])
    write_if_changed("Translated", text)

#!/bin/bash
# seed_queue.sh "<Cxx> <n> <checks,comma-separated>" ... : verify (if not yet) and run each seed against its checks, sequentially
for item in "$@"; do
  set -- $item; P=$1; N=$2; CH=$(echo $3 | tr ',' ' ')
  if [ ! -f /verif/seeded/$P-$N/verified.json ]; then
    git -C /tmp/seed-$P checkout -q -- . 2>/dev/null
    /verif/tools/seed_verify.sh $P $N 2>&1 | tail -3
    git -C /tmp/seed-$P checkout -q -- .
  fi
  if [ -f /verif/seeded/$P-$N/verified.json ]; then /verif/tools/seed_run.sh $P $N $CH 2>&1 | tail -1; else echo "UNCONFIRMED $P-$N"; fi
done

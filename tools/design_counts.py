#!/usr/bin/env python3
"""design_counts.py — refresh the 'Theorems (Props)' column of DESIGN.md §12.4 from lean/Aqv/Props/Cxx.lean (count of `theorem`)."""
import re, os
ROOT = os.path.dirname(os.path.dirname(os.path.abspath(__file__)))
p = os.path.join(ROOT, "DESIGN.md"); s = open(p).read()
a = s.index("### 12.4"); b = s.index("### 12.5")
sec = s[a:b]; out = []
for line in sec.splitlines():
    m = re.match(r"\| (C\d\d) \|", line)
    if m:
        cells = line.split(" | ")
        n = len(re.findall(r"^theorem ", open(os.path.join(ROOT, "lean/Aqv/Props", m.group(1) + ".lean")).read(), re.M))
        cells[2] = str(n)
        line = " | ".join(cells)
    out.append(line)
open(p, "w").write(s[:a] + "\n".join(out) + "\n" + s[b:])

#!/bin/bash
# seed_verify.sh <Cxx> <n> : independently confirm a seeded change delivered in /tmp/seed-Cxx/SEED/n
#   clean tree: demo passes; with patch: builds, demo fails, package tests of touched packages pass.  Then copy to /verif/seeded.
set -u
P=$1; N=$2; WT=/tmp/seed-$P; S=$WT/SEED/$N
export GOFLAGS=-mod=mod GOPROXY=off; unset GOSUMDB GOTOOLCHAIN
cd $WT || exit 2
git checkout -q -- . ; git clean -fdq -e SEED -e TASK.md
echo "== clean demo"; bash $S/demo.sh > /tmp/seedv-$P-$N-clean.log 2>&1; C=$?; echo "clean demo exit=$C"
git apply --check $S/patch.diff || { echo "PATCH DOES NOT APPLY"; exit 3; }
git apply $S/patch.diff
PKGS=$(git diff --name-only | grep '\.go$' | xargs -n1 dirname | sort -u | sed 's|^|./|' | tr '\n' ' ')
echo "== touched packages: $PKGS"
go build ./... > /tmp/seedv-$P-$N-build.log 2>&1; B=$?; echo "build exit=$B"
echo "== patched demo"; bash $S/demo.sh > /tmp/seedv-$P-$N-patched.log 2>&1; D=$?; echo "patched demo exit=$D"
git status --short | grep -v '^??' | head -5
echo "== package tests"; go test -count=1 $PKGS 2>&1 | grep -E "^(ok|FAIL|---|panic)" | head -20; T=${PIPESTATUS[0]}
echo "tests exit=$T"
if [ $C -eq 0 ] && [ $B -eq 0 ] && [ $D -ne 0 ] && [ $T -eq 0 ]; then
  echo "CONFIRMED $P/$N"
  mkdir -p /verif/seeded/$P-$N && cp -r $S/* /verif/seeded/$P-$N/ 2>/dev/null
  echo "{\"verified\": {\"clean_demo_exit\": $C, \"build_exit\": $B, \"patched_demo_exit\": $D, \"pkg_tests_exit\": $T, \"packages\": \"$PKGS\"}}" > /verif/seeded/$P-$N/verified.json
else
  echo "NOT CONFIRMED $P/$N"
fi
# leave the patch applied for the check run; caller resets

#!/usr/bin/env python3
"""prints the prompt for an independent seeding sub-agent for property <id> (property text only, nothing from /verif)."""
import json, sys
pid = sys.argv[1]
wt = sys.argv[2]
for l in open('/verif/properties.jsonl'):
    d = json.loads(l)
    if d['id'] == pid:
        break
print(f"""You are helping to evaluate a verification effort by playing the role of a developer who introduces a subtle regression.

Code base: a Go project (aquachain, a go-ethereum-derived blockchain full node). You have your OWN scratch git worktree of it at `{wt}` (already created, detached HEAD). Work ONLY inside that directory. Do not look at or touch anything under /verif or /repo (other than through your worktree). There is no network; use `export GOFLAGS=-mod=mod GOPROXY=off` before go commands (do not set GOSUMDB or GOTOOLCHAIN).

The semantic property that should hold for this code base:

  Title: {d['title']}
  Statement: {d['statement']}
  Quantified over: {d['quantifier']['text']}
  Why the existing tests cannot settle it: {d['why_tests_cant']}
  Anchors (files/mechanisms): {json.dumps(d['anchors'])}

Your task: produce TWO different, independent source changes (each a small, realistic-looking edit of non-test Go code such as a maintainer could make by mistake in a refactoring, optimisation or "simplification") such that, for EACH change on its own:
  1. the project still compiles (`go build ./...` for the touched packages and their dependents; `go vet` is not required);
  2. the EXISTING unit tests of the touched package(s) and of the obvious dependent packages still pass (`go test -count=1 ./<pkg>/...`); do not edit or delete any existing test;
  3. the property above is violated — but only under something SPECIFIC: a particular interleaving, a crash or fault at a particular point, a multi-step sequence of operations, an unusual input or boundary value, or two cooperating code sites that each look fine alone. Do NOT make a change that ordinary use would expose at once (e.g. breaking every transaction or every block).
  4. you provide a DEMONSTRATION: a new Go test file (or small program) that FAILS with your change applied and PASSES on the unmodified code, exercising the real code through its API at the level the property talks about.
Prefer changes in different mechanisms/files for the two variants, and prefer violations of different clauses of the property.

Deliver, inside your worktree, a directory `SEED/1/` and `SEED/2/`, each containing:
  - `patch.diff`  — `git diff` of the source change only (NOT including the demo), applicable with `git apply` at the worktree root on the original HEAD;
  - the demonstration file(s) plus `demo.sh` — a script that, run at the root of a tree, copies the demo into place, runs it and exits non-zero iff the property violation shows (i.e. exits 0 on the original code, non-zero with the patch);
  - `meta.json` — {{"property": "{pid}", "clause": "<which clause is broken>", "needs": "<what specific input/sequence/interleaving/fault is needed to manifest>", "files": [...], "ran": ["<commands you ran and their outcome>"]}}.
When done, make sure the worktree's tracked files are back to the ORIGINAL state (`git checkout -- .`; the SEED/ directory is untracked and stays). Verify each patch applies cleanly on the clean tree, that the demo passes without it and fails with it, and that the package tests pass with it. Your final message: a 5-line summary per variant (file, idea, what it needs to manifest, test commands run).""")

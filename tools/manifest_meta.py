# hook commits in /repo (build tag `verif`), listed in MANIFEST.hooks.source_commits
HOOK_COMMITS = ["bd432b9 verif hook: count keystore signing operations (build tag verif)", "0d7ce94 verif hook: scheduler yield points in event.Feed (build tag verif)"]
# reasons for properties that are not claimed (kept current)
NOT_BUILT = {}

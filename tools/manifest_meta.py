HOOK_COMMITS = []
NOT_BUILT = {}
GEN = "Trusted: Lean kernel (axioms propext/Classical.choice/Quot.sound only, audited each run), the hand-written model's fidelity as validated by the correspondence run, the Go harness; crypto primitives, math/big and the Go runtime are modelled not verified."
META = {
    "C11": {
        "technique": "Lean 4 proof (round trip + canonicity of the RLP model, unbounded) tied to rlp/ by differential correspondence",
        "text": "Theorems dec_enc, enc_dec, one_encoding_per_value, enc_injective hold for all items/byte strings in the Lean model of the RLP "
                "encoder and strict decoder; every run re-checks them and runs the real rlp package and the compiled model on the same >100k inputs "
                "(exhaustive small scope + random + mutations) requiring identical accept/reject and values; typed targets incl. all consensus types "
                "are judged directly against the round-trip/canonicity statement.",
        "note": GEN + " Typed (reflection-driven) decoders are not modelled in Lean yet: for them the property is judged on the real code per input (exploration strength), stated in the evidence.",
    },
}

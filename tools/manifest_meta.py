# hook commits in /repo (build tag `verif`), listed in MANIFEST.hooks.source_commits
HOOK_COMMITS = []
# reasons for properties that are not claimed (kept current)
NOT_BUILT = {}

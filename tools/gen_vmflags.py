"""T-gen generator `vmflags` (property C07): lean/Aqv/Gen/VmFlags.lean from the compiled core/vm + params packages.

Source: go/overlay/core/vm/dump_flags.go (VerifC07DumpJSON) injected into the tree under test with `go build -overlay` and
called by go/harness/cmd/c07dump; every value is read from the running program, nothing is parsed from Go source text.
(A small `go build` instead of the framework's `go test` helper: linking the core/vm test binary takes minutes per run.)

Rendered Lean (namespace Aqv.Gen.VmFlags):
  GasFn / MemFn / ExecFn   generated ENUMERATIONS of the Go function names that occur in any instruction set (closures by
                           the name of their maker; MemFn.none = nil memorySize). The hand-written model matches on these
                           constructors, so a gas/memory/execute function that is added, removed or renamed in the tree makes
                           the model (and with it every C07 theorem) fail to build instead of being silently ignored.
  OpF                      one valid opcode: op byte, pops, pushes, gasFn, constGas (value of a constant gas function, else 0),
                           memFn, execFn, halts/jumps/writes/reverts/returns
  Epoch, frontier … spring : List OpF (valid opcodes only, ascending), table, lookup
  constants (Nat), GasTable + gasTableHomestead/gasTableHF1, precompile address lists,
  configs : the chain configurations the C07 harness runs with the instruction set / gas table / rule flags NewEVM selected.
"""


def _b(x):
    return "true" if x else "false"


def _ctor(prefix, name):
    return "none" if name == "" else name


def _dump():
    import os, json, subprocess, re, shutil
    work = os.path.join(ROOT, ".work", "gen-vmflags")
    os.makedirs(work, exist_ok=True)
    with open(os.path.join(work, "go.mod"), "w") as f:
        f.write("module verifharness\n\ngo 1.24.0\n\nrequire gitlab.com/aquachain/aquachain v0.0.0\n\n"
                f"replace gitlab.com/aquachain/aquachain => {REPO}\n")
    shutil.copy(os.path.join(REPO, "go.sum"), os.path.join(work, "go.sum"))
    ov = os.path.join(work, "overlay.json")
    with open(ov, "w") as f:
        json.dump({"Replace": {os.path.join(REPO, "core/vm", "zz_verif_dump_flags.go"): os.path.join(ROOT, "go", "overlay", "core/vm/dump_flags.go")}}, f)
    exe = os.path.join(work, "c07dump")
    p = subprocess.run(["go", "build", "-modfile", os.path.join(work, "go.mod"), "-overlay", ov, "-o", exe, "./cmd/c07dump"],
                       cwd=os.path.join(ROOT, "go", "harness"), env=ENV, stdout=subprocess.PIPE, stderr=subprocess.STDOUT, text=True, timeout=1800)
    if p.returncode != 0:
        print(p.stdout[-3000:])
        raise SystemExit("gen vmflags: building c07dump against the tree under test failed")
    p = subprocess.run([exe], stdout=subprocess.PIPE, stderr=subprocess.STDOUT, text=True, timeout=300)
    m = re.search(r"VERIF-DUMP-BEGIN\n(.*?)\nVERIF-DUMP-END", p.stdout, re.S)
    if p.returncode != 0 or not m:
        print(p.stdout[-3000:])
        raise SystemExit("gen vmflags: c07dump failed")
    return json.loads(m.group(1))


def _access():
    """go/extract/cmd/vmaccess: stack-read depths and memory ranges of the execute / gas / memory-size functions, derived from the
    SOURCE of core/vm with go/ssa. The result is a pure function of the non-test sources of core/vm (and of the extractor), so it is
    cached under .work keyed by their hash; a different tree (scratch worktree, edited file) is re-analysed."""
    import os, json, subprocess, hashlib, glob
    work = os.path.join(ROOT, ".work", "gen-vmflags")
    os.makedirs(work, exist_ok=True)
    extract_dir = os.path.join(ROOT, "go", "extract")
    h = hashlib.sha256()
    files = sorted(f for f in glob.glob(os.path.join(REPO, "core", "vm", "*.go")) if not f.endswith("_test.go"))
    files += sorted(glob.glob(os.path.join(extract_dir, "cmd", "vmaccess", "*.go"))) + [os.path.join(extract_dir, "go.mod"), os.path.join(REPO, "go.mod")]
    for f in files:
        h.update(os.path.basename(f).encode() + b"\0")
        h.update(open(f, "rb").read())
    key = h.hexdigest()[:16]
    cache = os.path.join(work, "access-" + key + ".json")
    if os.path.exists(cache):
        print("gen: vmaccess result reused (core/vm source hash %s unchanged)" % key)
        return json.load(open(cache))
    exe = os.path.join(work, "vmaccess")
    p = subprocess.run(["go", "build", "-o", exe, "./cmd/vmaccess"], cwd=extract_dir, env=ENV, stdout=subprocess.PIPE, stderr=subprocess.STDOUT, text=True)
    if p.returncode != 0:
        print(p.stdout[-3000:])
        raise SystemExit("gen vmflags: extractor vmaccess does not build")
    env = dict(ENV)
    env["VERIF_REPO"] = REPO
    p = subprocess.run([exe], cwd=work, env=env, stdout=subprocess.PIPE, stderr=subprocess.PIPE, text=True, timeout=900)
    if p.returncode != 0:
        print(p.stderr[-3000:])
        raise SystemExit("gen vmflags: vmaccess failed on the tree under test (rc=%d)" % p.returncode)
    d = json.loads(p.stdout)
    old = sorted((fn for fn in os.listdir(work) if fn.startswith("access-")), key=lambda fn: os.path.getmtime(os.path.join(work, fn)))
    for fn in old[:-7]:
        os.remove(os.path.join(work, fn))
    with open(cache, "w") as f:
        json.dump(d, f)
    return d


def _opnd(o):
    if o["const"] < 0 or o.get("back", 0) < 0:
        raise SystemExit("gen vmflags: negative memory operand %r" % o)
    if o["kind"] == "back":
        return ".back %d %d" % (o.get("back", 0), o["const"])
    return ".const %d" % o["const"]


class _Access:
    def __init__(self, acc):
        if acc.get("refused"):
            raise SystemExit("gen vmflags: vmaccess refused: " + "; ".join(acc["refused"][:5]))
        self.raw = acc
        self.funcs = {}
        for f in acc["funcs"]:
            if f["name"] in self.funcs:
                raise SystemExit("gen vmflags: two analysed functions are called %s" % f["name"])
            self.funcs[f["name"]] = f
        self.makers = {}
        for m in acc["makers"]:
            k = (m["opcode"], m["field"])
            v = (m["maker"], tuple(m["args"] or []))
            if self.makers.setdefault(k, v) != v:
                raise SystemExit("gen vmflags: opcode %#x gets different %s closures in different constructors" % k)

    def reads(self, name, opcode, field):
        """stack height the function needs on entry, closures instantiated with the constant arguments of their maker"""
        if name == "":
            return 0
        f = self.funcs.get(name)
        if f is None:
            raise SystemExit("gen vmflags: %s is used by an instruction table but was not analysed by vmaccess (broken tie)" % name)
        if f.get("stackRefused"):
            raise SystemExit("gen vmflags: cannot analyse the stack accesses of %s: %s (broken tie)" % (name, f["stackRefused"]))
        binding = {}
        if f.get("params") and any(l.get("co") for l in (f.get("needs") or [])):
            mk = self.makers.get((opcode, field))
            if mk is None or mk[0] != name or len(mk[1]) != len(f["params"]):
                raise SystemExit("gen vmflags: no constant arguments known for closure %s at opcode %#x (broken tie)" % (name, opcode))
            binding = dict(zip(f["params"], mk[1]))
        need = 0
        for l in f.get("needs") or []:
            v = l["c"] + sum(c * binding[p] for p, c in (l.get("co") or {}).items())
            need = max(need, v)
        return need

    def ranges(self, name):
        f = self.funcs[name]
        if f.get("memRefused"):
            raise SystemExit("gen vmflags: cannot analyse the memory accesses of %s: %s (broken tie)" % (name, f["memRefused"]))
        out = []
        for r in f.get("ranges") or []:
            t = "(%s, %s)" % (_opnd(r["off"]), _opnd(r["size"]))
            if t not in out:
                out.append(t)
        return out


@generator("vmflags")
def gen_vmflags():
    d = _dump()
    acc = _Access(_access())
    names = d["setNames"]
    gasfns, memfns, execfns = set(), set(), set()
    for n in names:
        for o in d["sets"][n]:
            gasfns.add(o["gasFn"])
            memfns.add(o["memFn"])
            execfns.add(o["execFn"])
    L = []
    L.append("/- GENERATED by tools/gen_vmflags.py from the compiled core/vm and params packages of the tree under test.")
    L.append("   Do not edit: regenerated on every run of `check.py C07`. See tools/gen_vmflags.py for the meaning of every definition. -/")
    L.append("namespace Aqv.Gen.VmFlags")
    L.append("")
    for tname, vals in (("GasFn", gasfns), ("MemFn", memfns), ("ExecFn", execfns)):
        L.append(f"inductive {tname} where")
        for v in sorted(vals):
            L.append(f"  | {_ctor(tname, v)}")
        L.append("deriving DecidableEq, Repr")
        L.append("")
    L.append("/-- an integer operand of an execute function in terms of its ENTRY stack: stack.Back(k) + c, or a constant -/")
    L.append("inductive Opnd where")
    L.append("  | back (k c : Nat)")
    L.append("  | const (c : Nat)")
    L.append("deriving DecidableEq, Repr")
    L.append("")
    L.append("structure OpF where")
    L.append("  op : Nat")
    L.append("  pops : Nat")
    L.append("  pushes : Nat")
    L.append("  gasFn : GasFn")
    L.append("  constGas : Nat")
    L.append("  memFn : MemFn")
    L.append("  execFn : ExecFn")
    L.append("  halts : Bool")
    L.append("  jumps : Bool")
    L.append("  writes : Bool")
    L.append("  reverts : Bool")
    L.append("  returns : Bool")
    L.append("  -- derived from the SOURCE of core/vm by go/extract/cmd/vmaccess (go/ssa):")
    L.append("  execReads : Nat                    -- stack height the execute function needs (pops, peeks, Back/dup/swap depth, all paths)")
    L.append("  gasReads : Nat                     -- … the gas function needs")
    L.append("  memReads : Nat                     -- … the memory-size function needs")
    L.append("  execRanges : List (Opnd × Opnd)    -- (offset, size) of every memory.Get/GetPtr/Set call and store[i] access of the execute function")
    L.append("deriving DecidableEq, Repr")
    L.append("")
    L.append("inductive Epoch where")
    for n in names:
        L.append(f"  | {n}")
    L.append("deriving DecidableEq, Repr")
    L.append("")
    L.append("def Epoch.all : List Epoch := [" + ", ".join("." + n for n in names) + "]")
    L.append("")
    for n in names:
        L.append(f"def {n} : List OpF := [")
        rows = []
        for o in d["sets"][n]:
            rows.append("  ⟨0x%02x, %d, %d, .%s, %d, .%s, .%s, %s, %s, %s, %s, %s, %d, %d, %d, [%s]⟩  -- %s" % (
                o["op"], o["pops"], o["pushes"], _ctor("GasFn", o["gasFn"]), o["constGas"] or 0, _ctor("MemFn", o["memFn"]),
                _ctor("ExecFn", o["execFn"]), _b(o["halts"]), _b(o["jumps"]), _b(o["writes"]), _b(o["reverts"]), _b(o["returns"]),
                acc.reads(o["execFn"], o["op"], "execute"), acc.reads(o["gasFn"], o["op"], "gasCost"), acc.reads(o["memFn"], o["op"], "memorySize"),
                ", ".join(acc.ranges(o["execFn"])), o["name"]))
        # the comment must follow the separating comma
        fixed = []
        for i, r in enumerate(rows):
            body, _, cmt = r.partition("  -- ")
            fixed.append(body + ("," if i + 1 < len(rows) else "") + "  -- " + cmt)
        L.append("\n".join(fixed))
        L.append("]")
        L.append("")
    # ---- big.Int -> int64/uint64 conversions (vmaccess) ----
    L.append("/-- where the big.Int of a conversion comes from: an entry stack operand, a big.Int computed from operands, the result of")
    L.append("    math.BigMin, a parameter of a helper, or something that is not an operand (block context, U256-normalised value …) -/")
    L.append("inductive ConvSrc where")
    L.append("  | back (k : Nat)")
    L.append("  | derived")
    L.append("  | min")
    L.append("  | param (i : Nat)")
    L.append("  | other")
    L.append("deriving DecidableEq, Repr")
    L.append("")
    L.append("/-- what the converted machine integer feeds: a comparison, an argument of a Memory accessor / memory.store index, a slice bound,")
    L.append("    an index of another slice, `*pc`, a stored value, an argument of another call, the function result -/")
    L.append("inductive ConvUse where")
    L.append("  | cmp | mem | slice | index | pc | store | arg | ret | other")
    L.append("deriving DecidableEq, Repr")
    L.append("")
    L.append("/-- `direct`: an `if` on a call taking the same big.Int (Cmp, BitLen, destinations.has …) dominates the conversion;")
    L.append("    `sum`: such an `if` on a big.Int.Add of which it is an addend; `min`: the value is the result of math.BigMin -/")
    L.append("inductive ConvGuard where")
    L.append("  | none | direct | sum | min")
    L.append("deriving DecidableEq, Repr")
    L.append("")
    L.append("structure Conv where")
    L.append("  fn : String        -- function containing the conversion (closures by maker name)")
    L.append("  method : String    -- Uint64 | Int64")
    L.append("  src : ConvSrc")
    L.append("  uses : List ConvUse")
    L.append("  guard : ConvGuard")
    L.append("  guardFn : String   -- the function called on the big.Int in the dominating condition (Cmp, BitLen, has …)")
    L.append("  detail : String    -- callee names of `arg` uses / of the guarding call (documentation)")
    L.append("deriving DecidableEq, Repr")
    L.append("")
    def _src(x):
        if x.startswith("back:"):
            return "(.back %s)" % x[5:]
        if x.startswith("param:"):
            return "(.param %s)" % x[6:]
        return "." + x
    def _use(u):
        k = u.split(":")[0]
        return "." + (k if k in ("cmp", "mem", "slice", "index", "pc", "store", "arg") else "other")
    rows = []
    for c in acc.raw.get("convs") or []:
        uses = []
        for u in c.get("uses") or []:
            uu = ".ret" if u == "other:*ssa.Return" else _use(u)
            if uu not in uses:
                uses.append(uu)
        detail = ",".join(u for u in (c.get("uses") or []) if ":" in u) + ("|" + c["guard"] if c["guard"] != "none" else "")
        rows.append("  ⟨%s, %s, %s, [%s], .%s, %s, %s⟩" % (lean_str(c["fn"]), lean_str(c["method"]), _src(c["src"]), ", ".join(uses),
                                                         c["guard"].split(":")[0], lean_str(c["guard"].partition(":")[2]), lean_str(detail)))
    L.append("def convs : List Conv := [")
    L.append(",\n".join(rows))
    L.append("]")
    L.append("")
    L.append("/-- a big.Int handed by an execute / gas function to a non-method helper of package vm -/")
    L.append("structure HelperCall where")
    L.append("  fn : String")
    L.append("  helper : String")
    L.append("  arg : Nat")
    L.append("  opnd : Option Nat   -- some k: the entry stack operand Back(k)")
    L.append("  global : String     -- name of a package-level big.Int (big32 …), else \"\"")
    L.append("deriving DecidableEq, Repr")
    L.append("")
    rows = []
    for h in acc.raw.get("helpers") or []:
        o = h["opnd"]
        rows.append("  ⟨%s, %s, %d, %s, %s⟩" % (lean_str(h["fn"]), lean_str(h["helper"]), h["arg"],
                                                 "some %s" % o[5:] if o.startswith("back:") else "none",
                                                 lean_str(o[7:] if o.startswith("global:") else "")))
    L.append("def helperCalls : List HelperCall := [")
    L.append(",\n".join(rows))
    L.append("]")
    L.append("")
    L.append("/-- memory ranges per execute function name (the same data as OpF.execRanges, keyed by function) -/")
    L.append("def fnRanges : List (String × List (Opnd × Opnd)) := [")
    rows = []
    for name in sorted(acc.funcs):
        f = acc.funcs[name]
        if f.get("hasMemory") and not f.get("memRefused") and not f.get("stackRefused") and f.get("ranges"):
            rows.append("  (%s, [%s])" % (lean_str(name), ", ".join(acc.ranges(name))))
    L.append(",\n".join(rows))
    L.append("]")
    L.append("")
    L.append("/-- functions with a *Stack parameter whose conversions could not be analysed (stack analysis refused) -/")
    L.append("def convUnanalysed : List String := [" + ", ".join(lean_str(n) for n in sorted(acc.funcs) if acc.funcs[n].get("stackRefused")) + "]")
    L.append("")
    L.append("def table : Epoch → List OpF")
    for n in names:
        L.append(f"  | .{n} => {n}")
    L.append("")
    L.append("def lookup (e : Epoch) (op : Nat) : Option OpF := (table e).find? (fun i => i.op == op)")
    L.append("")
    for k in sorted(d["consts"]):
        L.append(f"def {k[0].lower() + k[1:]} : Nat := {d['consts'][k]}")
    L.append("")
    fields = ["ExtcodeSize", "ExtcodeCopy", "Balance", "SLoad", "Calls", "Suicide", "ExpByte", "CreateBySuicide"]
    L.append("structure GasTable where")
    for f in fields:
        L.append(f"  {f[0].lower() + f[1:]} : Nat")
    L.append("deriving DecidableEq, Repr")
    L.append("")
    for tn, ln in (("homestead", "gasTableHomestead"), ("hf1", "gasTableHF1")):
        gt = d["gasTables"][tn]
        L.append(f"def {ln} : GasTable := ⟨" + ", ".join(str(gt[f]) for f in fields) + "⟩")
    L.append("")
    L.append("def gasTables : List GasTable := [gasTableHomestead, gasTableHF1]")
    L.append("")
    L.append("def precompilesHomestead : List Nat := [" + ", ".join(str(x) for x in d["precompiles"]["homestead"]) + "]")
    L.append("def precompilesByzantium : List Nat := [" + ", ".join(str(x) for x in d["precompiles"]["byzantium"]) + "]")
    L.append("")
    L.append("structure Cfg where")
    L.append("  name : String")
    L.append("  height : Nat")
    L.append("  sets : List Epoch     -- instruction sets content-equal to the table NewInterpreter selected (first = most specific name)")
    L.append("  gasTable : GasTable")
    L.append("  homestead : Bool")
    L.append("  eip150 : Bool")
    L.append("  eip158 : Bool")
    L.append("  byzantium : Bool")
    L.append("deriving Repr")
    L.append("")
    L.append("def configs : List Cfg := [")
    rows = []
    for c in d["configs"]:
        if c["gasTable"] not in ("homestead", "hf1"):
            raise SystemExit("gen vmflags: configuration %s selects an unknown gas table" % c["name"])
        gt = "gasTableHomestead" if c["gasTable"] == "homestead" else "gasTableHF1"
        rows.append(f"  ⟨{lean_str(c['name'])}, {c['height']}, [" + ", ".join("." + s for s in (c["sets"] or [])) + f"], {gt}, " +
                    ", ".join(_b(c[k]) for k in ("homestead", "eip150", "eip158", "byzantium")) + "⟩")
    L.append(",\n".join(rows))
    L.append("]")
    L.append("")
    L.append("end Aqv.Gen.VmFlags")
    write_if_changed("VmFlags", "\n".join(L) + "\n")

#!/usr/bin/env python3
"""check.py <Cxx> [--tier quick|thorough] [--replay FILE]

One run of a property check (DESIGN.md section 2.1):
  1. regenerate Aqv/Gen/* for the property from /repo's working tree (T-gen)
  2. re-prove: lake build of the property's theorem module + audit of axioms + forbidden-token scan
  3. build the Go harness from /repo's working tree (-tags verif, -overlay accessors)
  4. correspondence: harness (real code) -> cases.txt ; Lean model driver -> verdict per case
  5. classify: direct Spec violations, model/code disagreements, broken obligations; match known findings
  6. write evidence/<id>.json ; print VIOLATION / KNOWN-FINDING lines ; exit 0/1
"""
import sys, os, json, subprocess, time, re, hashlib, fcntl, shutil, argparse, glob

ROOT = os.path.dirname(os.path.dirname(os.path.abspath(__file__)))
REPO = os.environ.get("VERIF_REPO", "/repo")
LEAN = os.path.join(ROOT, "lean")
HARNESS = os.path.join(ROOT, "go", "harness")
sys.path.insert(0, os.path.join(ROOT, "tools"))
from props import ALL as PROPS  # noqa: E402  (disabled properties can be run; only enabled ones are claimed in MANIFEST)

ALLOWED_AXIOMS = {"propext", "Classical.choice", "Quot.sound"}
FORBIDDEN = re.compile(r"\b(sorry|admit|native_decide|bv_decide|implemented_by)\b|^\s*axiom\s|\bunsafe\s|maxHeartbeats\s+0\b")

GOENV = dict(os.environ)
GOENV.update({"GOFLAGS": "-mod=mod", "GOPROXY": "off"})
GOENV.pop("GOSUMDB", None)
GOENV.pop("GOTOOLCHAIN", None)


def sh(cmd, cwd=None, env=None, timeout=None, stdin=None):
    t0 = time.time()
    try:
        p = subprocess.run(cmd, cwd=cwd, env=env, timeout=timeout, stdin=stdin, stdout=subprocess.PIPE, stderr=subprocess.STDOUT, text=True)
        return p.returncode, p.stdout, time.time() - t0
    except subprocess.TimeoutExpired as e:
        out = e.stdout.decode() if isinstance(e.stdout, bytes) else (e.stdout or "")
        return 124, out + "\n[timeout]", time.time() - t0


class LakeLock:
    """serialises lake invocations (concurrent checks share one workspace)."""

    def __enter__(self):
        os.makedirs(os.path.join(ROOT, ".work"), exist_ok=True)
        self.f = open(os.path.join(ROOT, ".work", "lake.lock"), "w")
        fcntl.flock(self.f, fcntl.LOCK_EX)
        return self

    def __exit__(self, *a):
        fcntl.flock(self.f, fcntl.LOCK_UN)
        self.f.close()


def strip_comments(src):
    # remove /- ... -/ (nested) and -- line comments and string literals (cheap, good enough for the token scan)
    out, i, depth, n = [], 0, 0, len(src)
    while i < n:
        if src.startswith("/-", i):
            depth += 1
            i += 2
        elif depth and src.startswith("-/", i):
            depth -= 1
            i += 2
        elif depth:
            i += 1
        elif src.startswith("--", i):
            j = src.find("\n", i)
            i = n if j < 0 else j
        elif src[i] == '"':
            j = i + 1
            while j < n and src[j] != '"':
                j += 2 if src[j] == "\\" else 1
            i = j + 1
        else:
            out.append(src[i])
            i += 1
    return "".join(out)


def lean_module_files(mod):
    """transitive project-local imports of a module."""
    seen, todo = [], [mod]
    while todo:
        m = todo.pop()
        if m in seen:
            continue
        p = os.path.join(LEAN, *m.split(".")) + ".lean"
        if not os.path.exists(p):
            continue
        seen.append(m)
        for mm in re.findall(r"^import\s+(\S+)", open(p).read(), re.M):
            if mm.startswith("Aqv") or mm.startswith("Driver"):
                todo.append(mm)
    return seen


def theorems_of(mod):
    p = os.path.join(LEAN, *mod.split(".")) + ".lean"
    src = strip_comments(open(p).read())
    ns = re.search(r"^namespace\s+(\S+)", src, re.M)
    prefix = (ns.group(1) + ".") if ns else ""
    return [prefix + t for t in re.findall(r"^\s*theorem\s+([^\s:({\[]+)", src, re.M)]


def main():
    ap = argparse.ArgumentParser()
    ap.add_argument("prop")
    ap.add_argument("--tier", default=os.environ.get("VERIF_TIER", "quick"))
    ap.add_argument("--replay", default=None)
    args = ap.parse_args()
    pid = args.prop.upper()
    if pid not in PROPS:
        print(f"unknown property {pid}")
        sys.exit(2)
    cfg = PROPS[pid]
    tier = args.tier if args.tier in ("quick", "thorough") else "quick"
    try:
        seed = int(os.environ.get("VERIF_SEED", "1"))
    except ValueError:
        seed = 1
    if args.replay:
        # a replay file records the concrete failing input (for the reader) and the (seed, tier) of the run that found it;
        # generation is a pure function of (seed, tier), so re-running with them re-executes the failing case on the current tree
        try:
            rp = json.load(open(args.replay))
            seed = int(rp.get("seed", rp.get("searched", {}).get("seed", seed)))
            tier = rp.get("tier", rp.get("searched", {}).get("tier", tier))
            print(f"replay: {args.replay} -> seed={seed} tier={tier} kind={rp.get('kind')}")
        except Exception as e:  # noqa
            print(f"replay: cannot read {args.replay}: {e}")
            sys.exit(2)
    t_start = time.time()
    work = os.path.join(ROOT, ".work", pid)
    # one run per property at a time (a second invocation waits): the work directory is wiped at start
    os.makedirs(os.path.join(ROOT, ".work"), exist_ok=True)
    _idlock = open(os.path.join(ROOT, ".work", pid + ".lock"), "w")
    fcntl.flock(_idlock, fcntl.LOCK_EX)
    shutil.rmtree(work, ignore_errors=True)
    os.makedirs(work, exist_ok=True)
    os.makedirs(os.path.join(ROOT, "evidence"), exist_ok=True)
    log = open(os.path.join(work, "check.log"), "w")

    def say(*a):
        s = " ".join(str(x) for x in a)
        print(s, flush=True)
        log.write(s + "\n")
        log.flush()

    problems = []  # list of dicts: {kind, sig, input, detail}
    broken = []  # broken obligations / correspondences (names)
    cov = {}

    # ---- 1. T-gen -------------------------------------------------------------------------------------------------
    gen_info = {}
    if cfg.get("gen"):
        rc, out, dt = sh([sys.executable, os.path.join(ROOT, "tools", "gen.py")] + cfg["gen"], cwd=ROOT, env=GOENV, timeout=900)
        log.write(out)
        gen_info = {"generators": cfg["gen"], "rc": rc, "wall_s": round(dt, 1)}
        if rc != 0:
            broken.append("T-gen extractor failed for " + ",".join(cfg["gen"]))
            say("gen: FAILED\n" + out[-2000:])
        else:
            say(f"gen: ok ({dt:.1f}s) " + out.strip().splitlines()[-1] if out.strip() else "gen: ok")

    # ---- 2. re-prove ----------------------------------------------------------------------------------------------
    mod = cfg["lean"]
    exe = cfg.get("exe")
    thms = theorems_of(mod)
    with LakeLock():
        targets = [mod] + ([exe] if exe else [])
        rc, out, dt = sh(["lake", "build"] + targets, cwd=LEAN, timeout=3000)
        log.write(out)
        lean_ok = rc == 0
        say(f"lean: lake build {' '.join(targets)} -> rc={rc} ({dt:.1f}s)")
        if not lean_ok:
            errs = [l for l in out.splitlines() if "error" in l][:20]
            say("\n".join(errs))
            # try the exe alone so that the search can still use the model
            if exe:
                rc2, out2, _ = sh(["lake", "build", exe], cwd=LEAN, timeout=3000)
                log.write(out2)
        # audit
        discharged, axioms_used, bad_axioms = 0, {}, {}
        if lean_ok:
            audit = os.path.join(work, "Audit.lean")
            with open(audit, "w") as f:
                f.write(f"import {mod}\n")
                for t in thms:
                    f.write(f"#print axioms {t}\n")
            rc, out, dt = sh(["lake", "env", "lean", audit], cwd=LEAN, timeout=1200)
            log.write(out)
            cur = None
            text = out.replace("\n  ", " ")
            for t in thms:
                m = re.search(r"'" + re.escape(t) + r"' (does not depend on any axioms|depends on axioms: \[([^\]]*)\])", text)
                if not m:
                    bad_axioms[t] = ["<no audit output>"]
                    continue
                axs = [a.strip() for a in (m.group(2) or "").split(",") if a.strip()]
                axioms_used[t] = axs
                extra = [a for a in axs if a not in ALLOWED_AXIOMS]
                if extra:
                    bad_axioms[t] = extra
                else:
                    discharged += 1
            if tier == "thorough":
                rc, out, dt = sh(["lake", "env", "leanchecker", mod], cwd=LEAN, timeout=3000)
                log.write(out)
                cov["leanchecker"] = {"rc": rc, "wall_s": round(dt, 1)}
                say(f"lean: leanchecker {mod} -> rc={rc} ({dt:.1f}s)")
                if rc != 0:
                    broken.append("leanchecker rejected " + mod)
    # forbidden tokens in every project-local module the theorems depend on
    tokens = []
    for m in lean_module_files(mod):
        p = os.path.join(LEAN, *m.split(".")) + ".lean"
        for ln, line in enumerate(strip_comments(open(p).read()).splitlines(), 1):
            if FORBIDDEN.search(line):
                tokens.append(f"{m}:{ln}: {line.strip()[:80]}")
    if tokens:
        broken.append("forbidden tokens: " + "; ".join(tokens[:5]))
    if not lean_ok:
        broken.append(f"lake build {mod} failed (proof obligations of {pid} no longer check)")
    for t, axs in bad_axioms.items():
        broken.append(f"theorem {t} depends on disallowed axioms {axs}")
    say(f"lean: {discharged}/{len(thms)} theorems of {mod} discharged; axioms ⊆ {sorted(ALLOWED_AXIOMS)}: {not bad_axioms}")

    # ---- 3. harness -----------------------------------------------------------------------------------------------
    stats, disagreements, ncases, agree = {}, [], 0, 0
    distinct_nontrivial = 0
    if cfg.get("harness"):
        bindir = os.path.join(ROOT, ".work", "bin")
        os.makedirs(bindir, exist_ok=True)
        hbin = os.path.join(bindir, cfg["harness"] + "-" + pid)
        if os.path.exists(hbin):
            os.remove(hbin)
        # the harness module is bound to the tree under test through a generated modfile (VERIF_REPO selects the tree)
        modfile = os.path.join(work, "go.mod")
        with open(modfile, "w") as f:
            f.write("module verifharness\n\ngo 1.24.0\n\nrequire gitlab.com/aquachain/aquachain v0.0.0\n\n"
                    f"replace gitlab.com/aquachain/aquachain => {REPO}\n")
        shutil.copy(os.path.join(REPO, "go.sum"), os.path.join(work, "go.sum"))
        cmd = ["go", "build", "-modfile", modfile, "-tags", "verif"]
        ov = make_overlay(cfg.get("overlay", []), work)
        if ov:
            cmd += ["-overlay", ov]
        if cfg.get("race") and tier == "thorough":
            cmd += ["-race"]
        cmd += ["-o", hbin, "./cmd/" + cfg["harness"]]
        rc, out, dt = sh(cmd, cwd=HARNESS, env=GOENV, timeout=1800)
        log.write(out)
        say(f"go: build harness {cfg['harness']} -> rc={rc} ({dt:.1f}s)")
        if rc != 0:
            say(out[-3000:])
            broken.append(f"harness {cfg['harness']} no longer builds against the working tree (correspondence broken)")
        else:
            hcmd = [hbin, "-seed", str(seed), "-tier", tier, "-out", work]
            if args.replay:
                hcmd += ["-replay", os.path.abspath(args.replay)]
            henv = dict(GOENV)
            henv["VERIF_ROOT"] = ROOT
            henv["VERIF_REPO"] = REPO
            rc, out, dt = sh(hcmd, cwd=work, env=henv, timeout=cfg.get("timeout", {}).get(tier, 3000))
            log.write(out)
            say(f"go: harness run -> rc={rc} ({dt:.1f}s) " + (out.strip().splitlines()[-1] if out.strip() else ""))
            sp = os.path.join(work, "stats.json")
            if rc != 0 or not os.path.exists(sp):
                say(out[-3000:])
                problems.append({"kind": "harness-crash", "sig": "harness-crash", "input": {"seed": seed, "tier": tier},
                                 "detail": "harness exited rc=%d: %s" % (rc, out[-600:])})
            else:
                stats = json.load(open(sp))
                for v in stats.get("violations") or []:
                    problems.append(v)
            # ---- 4. model ----
            cases = os.path.join(work, "cases.txt")
            if exe and os.path.exists(cases) and os.path.getsize(cases) > 0:
                mbin = os.path.join(LEAN, ".lake", "build", "bin", exe)
                if not os.path.exists(mbin):
                    broken.append(f"model driver {exe} missing (model no longer builds)")
                else:
                    with open(cases) as fin, open(os.path.join(work, "model.out"), "w") as fout:
                        t0 = time.time()
                        p = subprocess.run([mbin], stdin=fin, stdout=fout, stderr=subprocess.PIPE, timeout=cfg.get("timeout", {}).get(tier, 3000))
                        say(f"model: {exe} -> rc={p.returncode} ({time.time()-t0:.1f}s)")
                        if p.returncode != 0:
                            broken.append(f"model driver {exe} crashed: {p.stderr.decode()[-300:]}")
                    seen_nt = set()
                    trivial = set(cfg.get("trivial_outputs", ["err"]))
                    with open(cases) as fc, open(os.path.join(work, "model.out")) as fm:
                        for cl, ml in zip(fc, fm):
                            ncases += 1
                            cl = cl.rstrip("\n")
                            ml = ml.rstrip("\n")
                            inp, _, goout = cl.partition("\t")
                            mout, _, verdict = ml.partition("\t")
                            if goout.split(" ")[0] not in trivial:
                                seen_nt.add(inp)
                            if verdict == "agree":
                                agree += 1
                                continue
                            d = {"kind": "model-disagreement", "sig": inp, "input": inp, "go": goout, "model": mout, "verdict": verdict}
                            if verdict.startswith("spec-reject"):
                                d["kind"] = "spec-violation"
                            disagreements.append(d)
                    distinct_nontrivial = len(seen_nt)
                    if ncases != stats.get("cases", ncases):
                        broken.append(f"model answered {ncases} of {stats.get('cases')} cases")
            elif os.path.exists(cases):
                # harness-only property: count distinct non-trivial from the case file
                seen_nt = set()
                trivial = set(cfg.get("trivial_outputs", ["err"]))
                with open(cases) as fc:
                    for cl in fc:
                        ncases += 1
                        inp, _, goout = cl.rstrip("\n").partition("\t")
                        if goout.split(" ")[0] not in trivial:
                            seen_nt.add(inp)
                distinct_nontrivial = len(seen_nt)

    if cfg.get("harness") and max(ncases, stats.get("cases", 0)) < cfg.get("min_cases", 1) and not any("harness" in b for b in broken):
        broken.append(f"harness {cfg['harness']} produced {max(ncases, stats.get('cases', 0))} cases (< {cfg.get('min_cases', 1)}): nothing was compared")
    # ---- 5. classify ---------------------------------------------------------------------------------------------
    known = load_known(pid)
    reported, known_hit, viol_lines = [], {}, []
    for d in disagreements:
        problems.append({"kind": d["kind"], "sig": d["sig"], "input": d["input"],
                         "detail": f"go={d['go']!r} model={d['model']!r} verdict={d['verdict']}"})
    genuine, corr_only = [], []
    for p in problems:
        k = match_known(known, p)
        if k:
            known_hit.setdefault(k["id"], (k, 0))
            known_hit[k["id"]] = (k, known_hit[k["id"]][1] + 1)
            continue
        if p["kind"] == "model-disagreement":
            corr_only.append(p)
        else:
            genuine.append(p)
    for kid, (k, n) in known_hit.items():
        say(f"KNOWN-FINDING: property={pid} {k['what']} [{kid}; reproduced {n}x]")
    # expected-but-not-reproduced findings are only informational
    rdir = os.path.join(ROOT, "replays", pid)
    exit_code = 0

    def write_replay(name, obj):
        os.makedirs(rdir, exist_ok=True)
        path = os.path.join(rdir, name + ".json")
        with open(path, "w") as f:
            json.dump(obj, f, indent=1)
        return path

    if genuine:
        # group by kind, report the first (smallest input) of each kind
        bykind = {}
        for p in genuine:
            bykind.setdefault(p["kind"], []).append(p)
        for kind, ps in bykind.items():
            ps.sort(key=lambda p: len(json.dumps(p["input"])))
            p = ps[0]
            h = hashlib.sha1(json.dumps(p, sort_keys=True).encode()).hexdigest()[:10]
            path = write_replay(f"{kind}-{h}", {"property": pid, "kind": kind, "input": p["input"], "sig": p["sig"], "detail": p["detail"],
                                                 "seed": seed, "tier": tier, "count": len(ps),
                                                 "replay_cmd": f"VERIF_SEED={seed} python3 tools/check.py {pid} --tier {tier}"})
            say(f"VIOLATION property={pid} replay={path}")
            say(f"  {kind}: {str(p['detail'])[:300]}")
            exit_code = 1
    if (corr_only or broken) and not genuine:
        what = broken + [f"correspondence Go≈Impl differs on {len(corr_only)} case(s), e.g. {corr_only[0]['sig'][:200]}" for _ in [0] if corr_only]
        path = write_replay("unproved-" + hashlib.sha1(json.dumps(what).encode()).hexdigest()[:10],
                            {"property": pid, "kind": "obligation-or-correspondence-broken", "no_longer_checks": what,
                             "searched": {"cases": ncases, "seed": seed, "tier": tier}, "examples": corr_only[:5]})
        say(f"VIOLATION property={pid} replay={path} no-failing-input-found")
        for w in what[:6]:
            say("  " + w[:300])
        exit_code = 1
    elif broken and genuine:
        for w in broken[:6]:
            say("  also broken: " + w[:300])

    # ---- 6. evidence ---------------------------------------------------------------------------------------------
    samples = (stats.get("samples") or [])[:8]
    if not samples:
        samples = thms[:5]
    evidence = {
        "property_id": pid, "tier": tier, "seed": seed, "level": "proof",
        "coverage": {
            "obligations": len(thms), "discharged": discharged,
            "checker_cmd": f"cd lean && lake build {mod} && lake env lean <audit: #print axioms of every theorem in {mod}>" + (" && lake env leanchecker " + mod if tier == "thorough" else ""),
            "trusted_base": cfg.get("trusted_base", []) + [
                "Lean 4.33.0 kernel; axioms permitted: propext, Classical.choice, Quot.sound (audited per theorem on this run)",
                "tools/check.py, the Go harness and the compiled Lean model driver (correspondence only, never a proof step)"],
            "theorems": thms, "axioms_used": axioms_used, "broken": broken,
            "evaluations": max(ncases, stats.get("cases", 0)), "distinct_nontrivial": distinct_nontrivial,
            "rule": cfg.get("rule", ""), "samples": samples,
            "correspondence": {"cases": ncases, "agree": agree, "disagreements": len(disagreements),
                               "direct_spec_violations": len(stats.get("violations") or []), "hist": stats.get("hist", {}),
                               "notes": stats.get("notes", {}), "tie": cfg.get("tie", {})},
            "gen": gen_info, "known_findings_reproduced": sorted(known_hit.keys()),
        },
        "assumptions": cfg.get("assumptions", []),
        "wall_s": round(time.time() - t_start, 2),
        "violations": 0 if exit_code == 0 else max(1, len(genuine)),
    }
    cov.update(evidence["coverage"])
    evidence["coverage"] = cov
    with open(os.path.join(ROOT, "evidence", pid + ".json"), "w") as f:
        json.dump(evidence, f, indent=1)
    if cfg.get("gen") and os.path.realpath(REPO) != os.path.realpath("/repo"):
        # the run regenerated lean/Aqv/Gen/* from another tree: restore the files generated from /repo
        env2 = dict(GOENV)
        env2.pop("VERIF_REPO", None)
        sh([sys.executable, os.path.join(ROOT, "tools", "gen.py")] + cfg["gen"], cwd=ROOT, env=env2, timeout=900)
    say(f"{pid}: {'OK' if exit_code == 0 else 'FAIL'} obligations {discharged}/{len(thms)}, cases {ncases} (agree {agree}), "
        f"known findings {len(known_hit)}, wall {time.time()-t_start:.1f}s")
    sys.exit(exit_code)


def make_overlay(entries, work):
    """entries: list of 'pkgdir/file.go' under go/overlay; each is injected into /repo/<pkgdir>/zz_verif_<file>.go"""
    if not entries:
        return None
    rep = {}
    for e in entries:
        src = os.path.join(ROOT, "go", "overlay", e)
        pkgdir, fn = os.path.split(e)
        rep[os.path.join(REPO, pkgdir, "zz_verif_" + fn)] = src
    path = os.path.join(work, "overlay.json")
    with open(path, "w") as f:
        json.dump({"Replace": rep}, f)
    return path


def load_known(pid):
    out = []
    p = os.path.join(ROOT, "findings", "KNOWN_FINDINGS.jsonl")
    if os.path.exists(p):
        for line in open(p):
            line = line.strip()
            if not line or line.startswith("#"):
                continue
            k = json.loads(line)
            if k.get("property") == pid and k.get("status") == "finding":
                out.append(k)
    return out


def match_known(known, p):
    for k in known:
        m = k.get("match", {})
        if "kind" in m and m["kind"] != p["kind"]:
            continue
        if "sig_regex" in m and not re.search(m["sig_regex"], str(p["sig"])):
            continue
        if "detail_regex" in m and not re.search(m["detail_regex"], str(p["detail"])):
            continue
        return k
    return None


if __name__ == "__main__":
    main()

#!/bin/bash
# Offline setup: build the Lean project (theorems + model drivers) and prime the Go build cache.
set -e
cd "$(dirname "$0")/.."
export GOFLAGS=-mod=mod GOPROXY=off
mkdir -p .work/bin evidence
( cd lean && lake build Aqv Driver $(grep -o 'name = "aqmodel_[a-z0-9_]*"' lakefile.toml | cut -d'"' -f2) )
cp /repo/go.sum go/harness/go.sum
( cd go/harness && go build ./... )
echo setup ok

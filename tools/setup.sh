#!/bin/bash
# Offline setup: build the Lean theorems + model drivers of every enabled property, prime the Go build cache.
set -e
cd "$(dirname "$0")/.."
export GOFLAGS=-mod=mod GOPROXY=off
unset GOSUMDB GOTOOLCHAIN
mkdir -p .work/bin evidence
TARGETS=$(python3 -c "
import sys; sys.path.insert(0,'tools')
from props import PROPS
t=[]
for k,c in PROPS.items():
    t.append(c['lean'])
    if c.get('exe'): t.append(c['exe'])
print(' '.join(t))")
tools/lk build $TARGETS
cp /repo/go.sum go/harness/go.sum
( cd go/harness && go build ./... ) || true
( cd /repo && go build ./core/... ./rlp/... ./trie/... ./p2p/... ./rpc/... ./consensus/... ./aqua/accounts/... ) || true
echo setup ok

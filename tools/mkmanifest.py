#!/usr/bin/env python3
"""Regenerates MANIFEST.json from tools/props.py and tools/manifest_meta.py (kept valid at all times)."""
import json, os, sys
ROOT = os.path.dirname(os.path.dirname(os.path.abspath(__file__)))
sys.path.insert(0, os.path.join(ROOT, "tools"))
from props import PROPS, META
from manifest_meta import NOT_BUILT, HOOK_COMMITS

all_ids = [json.loads(l)["id"] for l in open(os.path.join(ROOT, "properties.jsonl"))]
checks = []
for pid in all_ids:
    if pid not in PROPS:
        continue
    m = META[pid]
    checks.append({
        "property_id": pid,
        "quick_cmd": f"python3 tools/check.py {pid} --tier quick",
        "thorough_cmd": f"python3 tools/check.py {pid} --tier thorough",
        "evidence_file": f"/verif/evidence/{pid}.json",
        "replay_cmd_template": f"python3 tools/check.py {pid} --replay {{path}}",
        "engine": "lean4-aqv",
        "level_claimed": {"category": "proof", "text": m["text"], "design_ref": m.get("design_ref", "DESIGN.md section 4 / " + pid)},
        "level_note": m["note"],
        "technique": m["technique"],
    })
man = {
    "version": 1,
    "setup_cmd": "bash tools/setup.sh",
    "hooks": {"guard": "verif", "enable": "go build -tags verif (plus -overlay accessor files from /verif/go/overlay; /repo is not modified)",
              "baseline_off_cmd": "cd /repo && GOFLAGS=-mod=mod go test -vet=off -count=1 -timeout 25m ./...",
              "source_commits": HOOK_COMMITS, "add_only": True},
    "engines": [{"name": "lean4-aqv", "path": "/verif/lean", "serves_properties": [c["property_id"] for c in checks],
                 "kind_free_text": "Lean 4 model + theorems (lake project aqv); Go correspondence harness (go/harness) drives the real code and the compiled model over a line protocol; tools/check.py orchestrates, audits axioms and writes evidence"}],
    "checks": checks,
    "notes": "All checks: python3 tools/check.py <id> [--tier quick|thorough] [--replay file]. Known findings: findings/KNOWN_FINDINGS.jsonl.",
    "not_applicable": [{"property_id": pid, "reason": NOT_BUILT.get(pid, "check not built yet in this session (model and theorems pending); no claim is made")}
                       for pid in all_ids if pid not in PROPS],
}
json.dump(man, open(os.path.join(ROOT, "MANIFEST.json"), "w"), indent=1)
print("MANIFEST.json:", len(checks), "checks,", len(man["not_applicable"]), "not claimed")

#!/usr/bin/env python3
"""translator_selftest.py — differential self-test of the mini-translator (go/extract/cmd/ssa2lean).

The package go/extract/cmd/ssa2lean/testdata/selftest/p exercises every construct of the accepted grammar (wrap-around arithmetic,
conversions, shifts, division panics, strings, φ-nodes, pointer receivers, struct fields, local structs, maps, math/big, nil).
The script translates it, runs the REAL Go functions on a few hundred inputs (cmd/run prints one `#guard` per call with the value
Go computed) and lets Lean evaluate the generated definitions on the same inputs.  Any disagreement is a translator bug.
Not part of any property check; run it after changing the translator:   python3 tools/translator_selftest.py
"""
import os, subprocess, sys
ROOT = os.path.dirname(os.path.dirname(os.path.abspath(__file__)))
ENV = dict(os.environ, GOFLAGS="-mod=mod", GOPROXY="off")
ENV.pop("GOSUMDB", None); ENV.pop("GOTOOLCHAIN", None)
FUNCS = ["p.Arith", "p.Conv", "p.Shifts", "p.SignedShift", "p.Div", "p.Neg", "p.Str", "p.Diamond", "p.(*Counter).Add", "p.(*Counter).Twice",
         "p.(*Box).Touch", "p.(*Box).Look", "p.ByValue", "p.Local", "p.BigOps", "p.MaybeNil", "p.Panics", "p.Words", "p.InPlace"]
work = os.path.join(ROOT, ".work", "translator-selftest")
os.makedirs(work, exist_ok=True)
ext = os.path.join(ROOT, "go", "extract")
td = os.path.join(ext, "cmd", "ssa2lean", "testdata", "selftest")
exe = os.path.join(work, "ssa2lean")
subprocess.run(["go", "build", "-o", exe, "./cmd/ssa2lean"], cwd=ext, env=ENV, check=True)
out = os.path.join(work, "SelfDefs.lean")
p = subprocess.run([exe, "-o", out] + FUNCS, env=dict(ENV, VERIF_REPO=td), stderr=subprocess.PIPE, text=True)
if p.returncode != 0:
    print(p.stderr); sys.exit("selftest: translation refused")
guards = subprocess.run(["go", "run", "./cmd/run"], cwd=td, env=ENV, stdout=subprocess.PIPE, text=True, check=True).stdout
test = os.path.join(work, "SelfTest.lean")
with open(test, "w") as f:
    f.write(open(out).read())
    f.write("\nopen Aqv.Gen.Translated\nset_option maxRecDepth 4000\n" + guards)
r = subprocess.run(["lake", "env", "lean", os.path.relpath(test, os.path.join(ROOT, "lean"))], cwd=os.path.join(ROOT, "lean"),
                   stdout=subprocess.PIPE, stderr=subprocess.STDOUT, text=True)
n = guards.count("#guard")
if r.returncode != 0 or "error" in r.stdout:
    print(r.stdout[:4000])
    sys.exit(f"selftest: FAILED ({n} guards)")
print(f"selftest: ok — {len(FUNCS)} functions, {n} Go-computed results reproduced by the generated Lean definitions")

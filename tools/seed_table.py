#!/usr/bin/env python3
"""Writes docs/SEEDED.md: one row per confirmed seeded change (seeded/<id>-<n>/) with what it needs and which checks catch it."""
import json, os, re, glob
ROOT = os.path.dirname(os.path.dirname(os.path.abspath(__file__)))
rows = []
for d in sorted(glob.glob(os.path.join(ROOT, "seeded", "C*-*"))):
    name = os.path.basename(d)
    try:
        meta = json.load(open(os.path.join(d, "meta.json")))
    except Exception:
        meta = {}
    ver = os.path.exists(os.path.join(d, "verified.json"))
    res = open(os.path.join(d, "check_result.txt")).read() if os.path.exists(os.path.join(d, "check_result.txt")) else ""
    caught, cur = [], None
    for line in res.splitlines():
        m = re.match(r"### .*check.py (\S+)", line)
        if m:
            cur = m.group(1)
        elif line.startswith("VIOLATION") and cur and cur not in caught:
            caught.append(cur)
    kinds = sorted(set(re.findall(r"^  ([a-z0-9\-:]+):", res, re.M)))[:4]
    note = ""
    np = os.path.join(d, "strengthened.txt")
    if os.path.exists(np):
        note = open(np).read().strip().replace("\n", " ").replace("|", "/")[:700]
    files = ", ".join(meta.get("files", []))[:80] if isinstance(meta.get("files"), list) else str(meta.get("files", ""))[:80]
    clause = str(meta.get("clause", ""))[:160].replace("|", "/").replace("\n", " ")
    needs = str(meta.get("needs", ""))[:260].replace("|", "/").replace("\n", " ")
    mp = os.path.join(d, "moot.txt")
    if os.path.exists(mp):
        res_txt = "MOOT: " + open(mp).read().strip().replace("\n", " ")[:300]
        rows.append((name, files, clause, needs, "confirmed" if ver else "UNCONFIRMED", res_txt, note))
        continue
    rows.append((name, files, clause, needs, "confirmed" if ver else "UNCONFIRMED", ("caught by " + ", ".join(caught) + (" (" + ", ".join(kinds) + ")" if kinds else "")) if caught else ("MISSED" if res else "not run"), note))
with open(os.path.join(ROOT, "docs", "SEEDED.md"), "w") as f:
    f.write("# Seeded breaking changes (written by independent sub-agents from the property text only)\n\n"
            "Each change compiles, passes the existing tests of the touched packages, and comes with a demonstration that fails with it and passes without it\n"
            "(confirmed by tools/seed_verify.sh in a scratch worktree). `tools/seed_run.sh <id> <n> [checks]` applies it on /repo's HEAD in the scratch worktree and runs the checks with VERIF_REPO.\n\n"
            "| Seed | Files | Clause broken | Needs | Demo | Result on current checks | Strengthening it triggered |\n|---|---|---|---|---|---|---|\n")
    for r in rows:
        f.write("| " + " | ".join(r) + " |\n")
print(len(rows), "seeds;", sum(1 for r in rows if r[5].startswith("caught")), "caught;", sum(1 for r in rows if r[5].startswith("MOOT")), "moot")

"""Per-property configuration of tools/check.py: one file per property under tools/propcfg/Cxx.py defining CFG and META."""
import importlib.util, os, glob

PROPS, META, ALL = {}, {}, {}   # PROPS/META: enabled (claimed) properties; ALL: every configured one (runnable)
_d = os.path.join(os.path.dirname(os.path.abspath(__file__)), "propcfg")
for _p in sorted(glob.glob(os.path.join(_d, "C*.py"))):
    _id = os.path.splitext(os.path.basename(_p))[0]
    _s = importlib.util.spec_from_file_location("propcfg_" + _id, _p)
    _m = importlib.util.module_from_spec(_s)
    _s.loader.exec_module(_m)
    ALL[_id] = _m.CFG
    if getattr(_m, "ENABLED", True):
        PROPS[_id] = _m.CFG
        META[_id] = _m.META

"""Per-property configuration of tools/check.py."""

CRYPTO_ASSUMED = "Go runtime, math/big and the cryptographic primitives are modelled, not verified (DESIGN.md 2.5)"

PROPS = {
    "C11": {
        "lean": "Aqv.Props.C11",
        "exe": "aqmodel_c11",
        "harness": "c11",
        "rule": "byte strings: exhaustive over a 17-symbol boundary alphabet up to length 4 (quick) / 5 (thorough), random nested items "
                "with their encodings, 6 mutations each, truncations, trailing bytes, long-form size boundaries; typed targets (uints, big, "
                "bytes, arrays, structs with nil/tail/- tags, pointers, interfaces, RawValue, Header, Transaction, Block, Receipt, Log, Account) "
                "judged directly: decode(encode v)=v and decode ok => re-encoding equals the input. Non-trivial = the real decoder accepted "
                "the input (distinct inputs counted).",
        "tie": {"rlp.DecodeBytes/Stream into interface{}": "corr (Go vs Model.Rlp.dec)", "rlp.EncodeToBytes of items": "corr (Go vs Model.Rlp.enc)",
                "rlp.Split": "corr", "typed decoders": "direct Spec judgement on the real code (round trip + canonicity)"},
        "assumptions": [CRYPTO_ASSUMED, "allocation bound is argued from the model (decoded content length = input length); Go's make() sizes are not observed"],
        "trusted_base": ["Model.Rlp mirrors rlp/encode.go puthead/encodeString and the canonical-size rules of rlp/decode.go readKind/readUint and rlp/raw.go"],
    },
}

#!/usr/bin/env python3
"""round-2 prompt for an independent seeding sub-agent: property text + the round-1 ideas to avoid (nothing about /verif's checks)."""
import json, sys, subprocess, os
pid, wt = sys.argv[1], sys.argv[2]
base = subprocess.run([sys.executable, '/verif/tools/seedprompt.py', pid, wt], stdout=subprocess.PIPE, text=True).stdout
prev = []
for n in (1, 2, 3, 4, 5, 6, 7, 8):
    p = f'/verif/seeded/{pid}-{n}/meta.json'
    if os.path.exists(p):
        m = json.load(open(p))
        prev.append(f"  - files {m.get('files')}: {str(m.get('clause'))[:200]} (needed: {str(m.get('needs'))[:200]})")
extra = """

ADDITIONAL CONSTRAINTS FOR THIS ROUND. Other developers have already produced the following regressions for this property; yours must be DIFFERENT in mechanism and preferably in file and in the clause of the property they break:
""" + "\n".join(prev) + """
This is the FIFTH round: the obvious places are taken. Read the anchored code AND the code around it (callers, helpers in other packages, constructors, configuration defaults, init-time tables, error paths, goroutines) for a place where the property silently depends on something. Look for mechanisms nobody would think of first: a second code path that reaches the same state (an alternative API entry point, a cache, a copy, a restart/reload path, a batch or concurrent variant of an operation), an error path, an arithmetic boundary (overflow, sign, exactly-equal), an ordering between two writes, an interaction between two features (e.g. a fork-height switch with another rule), or state that survives across operations. Produce exactly ONE regression this round (not two) and put its deliverables in `SEED/9/` (same layout as described above for SEED/1; write "SEED/9" wherever the text above says "SEED/1"; ignore everything said about a second one / SEED/2). Aim to finish within 40 minutes. If the directory `SEED/` already contains 1/ … 8/ from earlier rounds, leave them untouched.
"""
print(base + extra)

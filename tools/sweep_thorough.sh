#!/bin/bash
# sweep_thorough.sh [parallelism] : unchanged-tree run of every check in the thorough tier; one line per property
cd "$(dirname "$0")/.."
J=${1:-3}
bash tools/setup.sh > .work_setup.log 2>&1 || { echo "setup failed"; tail -20 .work_setup.log; }
printf "%s\n" C01 C02 C03 C04 C05 C06 C07 C08 C09 C10 C11 C12 C13 C14 C15 C16 C17 C18 C19 C20 | \
  xargs -P $J -I{} sh -c 'python3 tools/check.py {} --tier thorough 2>&1 | grep -E "^(VIOLATION|KNOWN-FINDING|{}:)" | sed "s/^/thorough /" | cut -c1-260'

ENABLED = True
GEN = ("Trusted: Lean kernel (axioms propext/Classical.choice/Quot.sound only, audited each run), the hand-written model's fidelity as "
       "validated by the correspondence run, the Go harness; crypto primitives, math/big and the Go runtime are modelled not verified.")
CFG = {
    "lean": "Aqv.Props.C01",
    "exe": "aqmodel_c01",
    "harness": "c01",
    "overlay": ["core/state/c01_access.go", "opt/miner/c01_access.go"],
    "trivial_outputs": ["err"],
    "timeout": {"quick": 900, "thorough": 5400},
    "rule": "block trees from the repository's own builder (chainx.RichTree: transfers, creations incl. failing/out-of-gas ones, calls into a library "
            "of storage writers / self-destructors / reverting, looping, invalid callees / LOG emitters / a nested-call proxy, uncles, empty blocks) on "
            "TestChainConfig (forks at heights 1..7) and on a shifted schedule with a late Byzantium switch, plus one chain longer than the 128-trie "
            "retention window; every tree imported on the REAL node under N arrival histories (interleaved / branch-wise / lock-step orders x single, "
            "split, maximal batches x re-sent known blocks x archive or pruning cache configs x restarts between batches) and every per-block result "
            "(state root, receipts incl. logs/status/cumulative gas, gas used, full state content) compared with the builder's; every applicable "
            "single-field corruption of the six commitments and of body elements delivered alone / after a valid prefix / before a valid child and "
            "required to be refused with head, database and state untouched; blocks assembled by worker.commitNewWork (also from pending sets that make commitTransaction fail mid-block: overspend, gas pool exhausted, stale / gapped nonces, pre-EIP155) and by a by-hand "
            "ApplyTransaction+Finalize builder imported by another node; a known block above the head re-sent with a tampered body; blocks of 129..260 transactions with body corruptions at the RLP-key boundary "
            "indices incl. execution-equivalent replacements; types.DeriveSha vs an independent trie for every list length 0..300 plus single-element "
            "sensitivity; two forks with different code at one address observed through EXTCODESIZE/BALANCE/EXTCODECOPY, delivered A, B, A->B, B->A, with restarts. Model cases: "
            "every delivered block as an `imp` line (model importBlock on recomputed component values, own Keccak bloom) and dirty sets dumped "
            "before StateDB.Finalise as `fin` lines. Non-trivial = distinct case inputs.",
    "tie": {"StateDB.Finalise / stateObject.updateTrie": "corr (Go vs Model.BlockImport.finalise on dumped dirty sets, two iteration orders)",
            "BlockValidator.ValidateBody/ValidateState, ApplyTransaction receipt assembly, CreateBloom, insertChain2 accept/abort": "corr (Go InsertChain vs Model.BlockImport.importBlock on harness-supplied component values)",
            "StateProcessor.Process / insertChain2 / WriteBlockWithState determinism across histories, caches, restarts": "direct Spec judgement on the real node (metamorphic differential)",
            "refusal leaves head/database/state unchanged": "direct Spec judgement on the real node (database snapshot comparison with a twin node)",
            "GenerateChain, worker.commitNewWork, ApplyTransaction+Finalize builder => InsertChain": "direct Spec judgement on the real node",
            "Commit (WriteBlockWithState) map loop": "model + theorem only (commit_perm_invariant); exercised by every archive/pruning import"},
    "assumptions": ["Go runtime, math/big and the cryptographic primitives are modelled, not verified (DESIGN.md 2.5)",
                    "a trie root is a function of the trie content (properties C09/C10): parameter R/A of the Layer-A theorems",
                    "the effect of one message (EVM + gas accounting) is an abstract function of (config, EVM context, state, gas pool, tx): properties C06/C07/C08",
                    "header and uncle verification are abstract predicates (property C13)",
                    "import_history_independent assumes collision-freedom of the state root and header hash (stated as hypotheses)",
                    "import_cache_independent / cache_coherence_preserved assume collision-freedom of header hash, tx root, uncle hash and state root (CollisionFree) and the current order of checks in ValidateBody",
                    "the caches are modelled as arbitrary partial maps with adversarial fill/evict events; that Go's LRU and trie-node cache implementations return what was put in is exercised on the real node (warm/cold, archive/pruning, restarts, fork-divergent code), not proved",
                    "finalise_root_perm_invariant assumes Codec.Ok: injective trie keys (secure-trie key hashing without collisions), non-empty encodings; the hash function H is arbitrary"],
    "trusted_base": ["Model.BlockImport mirrors core/state/statedb.go Finalise/Commit, state_object.go updateTrie, core/state_processor.go, core/block_validator.go, "
                     "core/blockchain.go insertChain2/WriteBlockWithState, consensus/aquahash Finalize/accumulateRewards, core/chain_makers.go, core/types NewBlock"],
}
META = {
    "technique": "Lean 4 proof (permutation invariance of the state-folding map loops, validation <=> six commitments, builder => importer, abort discipline, "
                 "stored result = fixed function of (parent state, block) for all arrival histories) tied to core/ by a metamorphic differential on the real node",
    "text": "Theorems finalise_perm_invariant / intermediateRoot_perm_invariant / commit_perm_invariant (all permutations of Go's map iterations give the same "
            "account- and storage-trie content, hence the same root for any root function), validate_iff (accepted <=> the six header commitments equal the "
            "recomputed ones), accepted_only_if_self_consistent, build_then_import, reject_leaves_unchanged, insertChain_aborts_at_first_invalid, "
            "import_is_function, import_history_independent, cache_coherence_preserved / import_cache_independent (every coherent state of the block, td, state and "
            "code-size caches gives the same import; witnesses for a wrongly keyed code-size cache and for the stale block cache of the old check order) and "
            "finalise_root_perm_invariant (on real Merkle-Patricia tries, composed with C10 root_content_only: equal ROOTS for all iteration orders) hold for all inputs and histories in the Lean model of the import path; every run re-checks them, "
            "imports generated block trees on the real node under many arrival histories x cache configurations x restarts requiring identical per-block "
            "results equal to the builder's, requires every single-field corruption to be refused with head/database/state untouched, and replays every "
            "delivered block and every dumped dirty set through the compiled model.",
    "note": GEN + " The EVM, gas accounting, tries and header/uncle rules are abstract components here (their own properties); runtime caches are exercised, not modelled.",
}

ENABLED = True
GEN = ("Trusted: Lean kernel (axioms propext/Classical.choice/Quot.sound only, audited each run), the hand-written model's fidelity as "
       "validated by the correspondence run, the Go harness; crypto primitives, math/big and the Go runtime are modelled not verified.")
CFG = {
    "lean": "Aqv.Props.C05",
    "exe": "aqmodel_c05",
    "harness": "c05",
    "gen": ["txparams", "supply", "translated"],
    "timeout": {"quick": 900, "thorough": 3600},
    "trivial_outputs": ["-"],
    "rule": "rw: Aquahash.Finalize on an empty state for heights around the 42,000,000 cut-off (±1, ±few, far) and 0-2 uncles at distance 0-8, "
            "some mined by the block's miner; tx: one core.ApplyMessage per world of five mutually calling generated contracts (1-5 fragments of "
            "CALL/CALLCODE with values 0,1,1..300 and 2^70, DELEGATECALL, STATICCALL, CREATE with value and seven init codes incl. self-destructing "
            "ones, SSTORE; ending in STOP/REVERT/INVALID/SELFDESTRUCT to self/new/existing; targets: the contracts, a precompile, a non-existent "
            "account, senders, coinbase) under homestead/hf5/eip158/byzantium rules, executed through a logging vm.StateDB proxy; blk: 0-4 such "
            "transactions + uncles through StateProcessor.Process+Finalize at the HF4 height (real DeallocListHF4 accounts funded) or not, heights "
            "around the cut-off. Non-trivial = the state holds coins afterwards (all cases); the histogram reports how many value transfers executed.",
    "tie": {"aquahash.accumulateRewards / Finalize": "gen (constants, cut-off by bisection, probe table re-proved: issuance_matches_probes) + corr (rw cases)",
            "core.Transfer/CanTransfer, opSuicide, StateDB.Suicide/CreateAccount/Snapshot/RevertToSnapshot as used by vm.EVM Call/CallCode/DelegateCall/StaticCall/Create":
                "corr (tx cases: the raw call sequence seen by a vm.StateDB proxy must parse into the alphabet and the replayed word must reproduce every balance of RawDump)",
            "StateTransition.buyGas/refundGas/fee": "corr (tx cases: first debit = gas*price, last two credits sum to it) + theorem tx_conserves over Model.Tx (C06)",
            "StateDB.Finalise deletions": "corr (tx cases compare RawDump after Finalise)",
            "misc.ApplyHardFork4": "corr (blk cases at the HF4 height)",
            "misc.ApplyHardFork5 (as written: a query per listed account, no effect)": "model fact hf5_is_noop + corr (blk cases at the HF5 height with funded DeallocListHF4 accounts: exact sums) + call-site inventory",
            "StateProcessor.Process + Finalize": "corr on sums (blk cases) + direct judgement",
            "no other balance mutator": "gen (go/ast inventory of every AddBalance/SubBalance/SetBalance/Suicide/CreateAccount mention outside core/state and of the balance writers inside it; sites_eq_alphabet, state_writers_eq)"},
    "assumptions": ["Go runtime, math/big and the cryptographic primitives are modelled, not verified (DESIGN.md 2.5)",
                    "the EVM reaches balances only through the inventoried sites (checked syntactically by T-gen on every run, not proved semantically); over the C07 machine this is the hypothesis AlphabetOracle (every oracle effect acts on balances as a word over the alphabet) of vm_run_supply_nonincreasing / tx_supply_nonincreasing_over_vm / block_supply_bound_over_vm, together with TxVm.OracleOk and Vm.EnvOK",
                    "snapshot/revert restore balances and suicide marks exactly (property C09)",
                    "uncle heights satisfy height <= uncle + 8 (VerifyUncles, property C13); outside that window the Go code would subtract"],
    "trusted_base": ["Model.Supply mirrors core/evm.go Transfer/CanTransfer, core/vm/instructions.go opSuicide, core/state/statedb.go Suicide/CreateAccount/Finalise, consensus/misc/hf.go ApplyHardFork4, consensus/aquahash/consensus.go accumulateRewards",
                     "Gen.Supply (constants, probes, call-site inventory) is regenerated from the tree under test on every run"],
}
META = {
    "technique": "Lean 4 proof (no finite word over the balance-changing primitives, under any snapshot/revert nesting, increases the total; fee machinery balanced; rewards exact) tied to the code by a call-site inventory, regenerated constants and differential correspondence",
    "text": "Theorems prim_trace_nonincreasing, prim_trace_exact_without_selfdestruct, tx_conserves, tx_supply_nonincreasing, reward_exact, "
            "hf4_only_lowers, block_supply_bound, block_supply_exact_without_selfdestruct, vm_run_supply_nonincreasing, vm_run_is_word, tx_supply_nonincreasing_over_vm, block_supply_bound_over_vm, block_supply_exact_without_selfdestruct_over_vm, hf5_is_noop hold for every program (as a word over the primitives), "
            "every pre-state, every block; issuance_schedule/issuance_matches_probes/cutoff_is_maxMoney/sites_eq_alphabet are re-proved against what "
            "the compiled packages and the source tree say on every run; thousands of hostile-contract transactions and blocks are executed by the "
            "real EVM/Process/Finalize and the model must reproduce every balance (tx) and the exact sum (blocks without SELFDESTRUCT).",
    "note": GEN,
}

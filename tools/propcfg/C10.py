ENABLED = True
GEN = ("Trusted: Lean kernel (axioms propext/Classical.choice/Quot.sound only, audited each run), the hand-written model's fidelity as "
       "validated by the correspondence run, the Go harness; crypto primitives, math/big and the Go runtime are modelled not verified.")
CFG = {
    "lean": "Aqv.Props.C10",
    "exe": "aqmodel_c10",
    "harness": "c10",
    "overlay": ["trie/access.go"],
    "trivial_outputs": ["err", "panic"],
    "timeout": {"quick": 900, "thorough": 3000},
    "rule": "histories of update/delete(empty value)/get/Hash/Commit/reopen(same node db | flushed | fresh node db over the disk)/"
            "SetCacheLimit/iterate/Prove on the real trie.Trie and SecureTrie over trie.NewDatabase(MemDatabase); key pools whose prefixes and "
            "siblings collide (variable-length 0..4 bytes incl. the empty key and keys that are prefixes of others, 32-byte keys with long shared "
            "prefixes, DeriveSha rlp(i) keys, one/two-byte nibble siblings), values of 1..100 bytes around the 32-byte embedding threshold, "
            "rewrites of equal values; permuted-order history pairs; DeriveSha lists of 0..257 items; key encodings; decodeNode and VerifyProof "
            "on genuine and mutated node blobs. The model replays each history and must produce the same gets, iteration, proof node lists and "
            "the same root, recomputed in Lean with its own Keccak; on a difference the Go output is judged against the reference map and "
            "mptRoot (Yellow-Paper construction). Go side judges directly: every single-byte alteration of every proof element fails or "
            "verifies to the content's value. Non-trivial = history / probe with a non-error outcome (distinct inputs).",
    "tie": {"trie.insert/delete/tryGet (TryUpdate/TryDelete/TryGet)": "corr (Go vs Model.Trie insert/delete/get)",
            "hasher.hash/hashChildren/store (Hash, Commit)": "corr (root recomputed by Model.Trie.hashRoot with the Lean Keccak)",
            "Commit/reopen/SetCacheLimit/Database.Commit, resolveHash/resolve": "corr (driver replays them in the partial-load model Model.TrieLoad: node database + partially loaded root, commit = commitDb + unloading, reopen = bare root hash node, on-demand resolution in xget/xinsert/xdelete)",
            "trie.Database insert/reference/dereference (Reference/Dereference pins)": "corr (G cases: set of cached nodes vs Model.TrieGc) + direct judgement (every root with an outstanding pin reopens, also after Database.Commit through a fresh Database)",
            "MissingNodeError": "direct judgement (one node blob deleted from the disk db: error or exact behaviour, never a wrong value)",
            "keybytesToHex/hexToCompact/compactToHex/hexToKeybytes": "corr via overlay accessors",
            "nodeIterator/Iterator": "corr (Go vs Model.Trie.toList)", "Prove/VerifyProof/decodeNode": "corr (Go vs Model.TrieProof) + direct judgement of altered proofs",
            "types.DeriveSha": "corr (root vs model insert and vs mptRoot)"},
    "assumptions": ["Go runtime, math/big and the cryptographic primitives are modelled, not verified (DESIGN.md 2.5)",
                    "Keccak-256 is implemented in Lean only to recompute roots; root theorems hold for an arbitrary hash function, proof "
                    "soundness carries an explicit collision-freedom hypothesis",
                    "node cache flags (hash/gen/dirty) are not state of the Lean model (clean = stored in the node database; the hasher's choice of nodes to unload is "
                    "nondeterministic and proved invisible); stale cached hashes can only be caught by the correspondence run"],
    "trusted_base": ["Model.Trie mirrors trie/trie.go insert/delete/tryGet, trie/encoding.go and trie/hasher.go over fully loaded nodes; "
                     "Model.TrieProof mirrors trie/proof.go and trie/node.go decodeNode over rlp/raw.go Split; Model.TrieLoad mirrors the hashNode cases "
                     "(resolveHash/resolve) of tryGet/insert/delete, Commit's db.insert and the hasher's unloading over a node database; Model.TrieLoadFast (hash-map db, one-pass commit, materialising loader used by the driver) is proved equal to them"],
}
META = {
    "technique": "Lean 4 proof (map refinement, canonical-shape invariant, uniqueness of the canonical trie => root depends on content only, for any hash function) tied to trie/ by differential correspondence with an independent root",
    "text": "Theorems get_insert, get_delete, wf_insert, wf_delete, wf_unique, run_refines, root_content_only, root_eq_spec, root_binding, iter_is_content, "
            "compact_hex_roundtrip, keybytes_hex_roundtrip, decode_encode_node, prove_verify, verify_sound (explicit collision-freedom), commit_reopen, reopen_get, unload_get/insert/delete/hashRoot, unload_denotation, commit_reopen_partial, missing_node_is_reported, partial_history_refines, root_content_only_partial, gc_parents_count, gc_keeps_referenced, commit_fast_refines, load_fast_refines hold for all tries/keys/histories in the Lean model of trie.go/encoding.go/hasher.go/node.go/proof.go; "
            "every run re-checks them and replays >1500 random histories on the real Trie/SecureTrie against the compiled model requiring identical "
            "gets, iteration, proofs and root hashes (the root recomputed by Lean's own Keccak), plus direct judgement that no single-byte "
            "alteration of a Merkle proof verifies to a different value.",
    "note": GEN,
}

ENABLED = True
GEN = ("Trusted: Lean kernel (axioms propext/Classical.choice/Quot.sound only, audited each run), the hand-written model's fidelity as "
       "validated by the correspondence run, the Go harness; crypto primitives, math/big and the Go runtime are modelled not verified.")
CFG = {
    "lean": "Aqv.Props.C12",
    "gen": ["translated"],
    "exe": "aqmodel_c12",
    "harness": "c12",
    "timeout": {"quick": 600, "thorough": 3000},
    "trivial_outputs": ["err"],
    "rule": "transactions with boundary/random contents (nonce 0/max uint64, data of 0/1/55/56/300 bytes, contract creation, zero address) signed with "
            "the real SignTx under Frontier, Homestead and EIP-155 signers over a chain-id lattice (1, 110 = the V 255/256 straddle, the real networks, "
            "2^63-19..2^63+1 and 2^64-19..2^64+1 = the uint64 paths, 2^70, 2^128, 2^200, ~2^254, random, and 0); per signed tx: ~30 single-field / "
            "signature-component mutations (incl. chain-id shift, S->N-S, the malleated twin, V + 256k / V + 2^63 / V + 2^64 and every single-bit flip of V up to bit 70), every other signer kind / neighbouring chain id, single-bit "
            "flips of the RLP encoding (all bits for every 12th tx in quick, every 2nd in thorough, a 48-bit sample otherwise), RLP and JSON round trips, malformed JSON spellings per field, JSON inputs with an inconsistent `hash` member (edited / zero / another tx's / removed, "
            "and each signed field edited with the advertised hash kept: Hash() of the decoded object must be the Keccak of its own re-encoding and survive an RLP round trip), "
            "Sender sequences on ONE object under changing signers (cache), object-lifetime sequences (Hash | Size | Sender, then SignTx / WithSignature with the same or "
            "another key, chain id, signer kind or arbitrary signature bytes, 1-3 times, then all observations again under the new, the old and a third signer: every "
            "observation must equal the one on a fresh decode of the object's own encoding), a V x R x S boundary lattice (0, 1, N/2-1, N/2, N/2+1, N-1, N, N+1, 2^256-1, 2^256; "
            "V around 27/28, 35+2c, 2c-19 (negative V'), 255/256, 2^64) under all three signer kinds, MakeSigner on the built-in configs around fork "
            "heights, TxPool.AddRemote and core.ApplyTransaction acceptance of valid / foreign-chain / high-S twins, SEQUENCES of core.ApplyTransaction calls on private "
            "chain configs with HomesteadBlock = h > 0 (EIP-155 never / later / from genesis / at / after / before h; a second interleaved config) at heights below then at/above h, "
            "the reverse, interleaved and random, with low-S / high-S unprotected and protected transactions on an evolving StateDB (each call's verdict and debited account must be "
            "types.Sender(MakeSigner(config, height), tx) for that height, whatever was applied before). "
            "Non-trivial = the real code did not answer with an error (distinct inputs counted).",
    "tie": {"core/types.isProtectedV / deriveChainId, crypto.ValidateSignatureValues (mini-translator)": "translated (go/ssa -> Lean on every run; vArith_code_is_model, validateSignatureValues_code_is_model at the model constants for secp256k1) + corr",
            "types.Sender / Signer.Sender / recoverPlain / crypto.ValidateSignatureValues": "corr (Go vs Model.TxSign.senderOf; RLP payload and Keccak recomputed in Lean, Ecrecover values supplied by the harness)",
            "types.SignTx / WithSignature / SignatureValues": "corr (Go vs Model.TxSign.signTx; crypto.Sign value supplied by the harness)",
            "Signer.Hash, Transaction.Hash": "corr (hash recomputed in Lean from the RLP model and the executable Keccak)",
            "isProtectedV / deriveChainId (tx.Protected, tx.ChainId)": "corr",
            "Transaction.DecodeRLP": "corr (Go vs Model.TxSign.decodeTx on valid encodings and every single-bit flip)",
            "Transaction.MarshalJSON / UnmarshalJSON (gen_tx_json.go, hexutil)": "corr (Go vs jsonOfTx / txOfJson incl. malformed spellings)",
            "types.Sender cache (sigCache, Signer.Equal)": "corr (Go vs senderSeq) + direct judgement against an uncached object",
            "Transaction.Hash/Size/from caches across WithSignature / SignTx (object lifetime)": "corr (Go vs Model.TxSign.runOps on TxObj) + direct judgement against a fresh decode",
            "types.MakeSigner": "corr on the built-in chain configs",
            "TxPool.AddRemote, core.ApplyTransaction": "direct Spec judgement on the real code",
            "core.ApplyTransaction sender step (MakeSigner(config, header.Number) per call) inside call sequences across fork heights": "corr (Go verdict / debited account vs Model.TxApply.applySender) + direct judgement against types.Sender(MakeSigner(config, height))"},
    "assumptions": ["secp256k1 ECDSA (crypto.Sign / Ecrecover) and Keccak-256 are parameters of the model (DESIGN.md 2.5); sign_then_sender assumes Ecrecover inverts crypto.Sign and crypto.Sign returns canonical (low-S) values (Ecdsa.SignOK); eip155_high_s_malleable assumes the ECDSA (s,v) <-> (N-s,1-v) symmetry",
                    "unforgeability itself is cryptographic: unforgeable_partial reduces 'a mutated tx keeps its sender' to a Keccak collision or an ECDSA forgery; the harness checks it empirically on every generated mutation",
                    "JSON: hexutil.Big is limited to 256 bits, so a V above 2^256 (chain id > 2^255) does not survive JSON; the generator keeps chain ids below that (counted as info:* if hit)"],
    "trusted_base": ["Model.TxApply mirrors the sender step of core/state_processor.go ApplyTransaction (signer = MakeSigner(config, header.Number), chosen per call)", "Model.TxSign mirrors core/types/transaction_signing.go (MakeSigner, SignTx, Sender, the three signers, recoverPlain, deriveChainId), transaction.go (isProtectedV, WithSignature, UnmarshalJSON's signature check, EncodeRLP/DecodeRLP field list), gen_tx_json.go + hexutil number/bytes/address text rules, crypto.ValidateSignatureValues"],
}
META = {
    "technique": "Lean 4 proof (signed-payload injectivity from the RLP theorems, V/R/S arithmetic for unbounded chain ids, cache transparency, RLP/JSON round trips; ECDSA and Keccak uninterpreted) tied to core/types by differential correspondence",
    "text": "Theorems sighash_injective, sign_then_sender (every chain id != 0, V of any size), eip155_rejects_foreign_chain, eip155_sender_only_own_chain, "
            "sender_only_if_valid_vrs, homestead_rejects_high_s, cache_transparent, senderCached_sound, withSignature_clears_caches, object_lifetime_transparent, hash_sender_stable_under_reencoding, rlp_decode_canonical, json_roundtrip, "
            "json_accepts_sender_ok, unforgeable_partial (reduction to ECDSA forgery / Keccak collision), makeSigner_spec, makeSigner_from_homestead, highS_rejected_from_homestead, "
            "applySeq_history_free, highS_rejected_after_any_history (block processing: signer and high-S verdict depend on (config, height) only) hold in the Lean model of the signers; "
            "eip155_high_s_malleable / eip155_accepts_high_s_witness prove that the EIP-155 signer does NOT reject high-S signatures of protected transactions "
            "(known finding, reproduced through types.Sender, TxPool.AddRemote and core.ApplyTransaction). Every run re-checks the proofs and runs the real code "
            "and the compiled model on >30k cases requiring identical senders, hashes, encodings and errors.",
    "note": GEN,
}

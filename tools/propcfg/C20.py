ENABLED = True
GEN = ("Trusted: Lean kernel (axioms propext/Classical.choice/Quot.sound only, audited each run), the hand-written model's fidelity as "
       "validated by the correspondence run, the Go harness; crypto primitives, math/big and the Go runtime are modelled not verified.")
CFG = {
    "lean": "Aqv.Props.C20",
    "exe": "aqmodel_c20",
    "harness": "c20",
    "overlay": ["aqua/accounts/keystore/c20_access.go"],
    "timeout": {"quick": 600, "thorough": 3000},
    "trivial_outputs": ["err"],
    "rule": "key files of every format DecryptKey reads (v3 scrypt written by the real EncryptKey with n=2..8 and with the light parameters n=4096,p=6; "
            "hand-built v3 pbkdf2, v1 scrypt, v1 pbkdf2), keys with 0-3 leading zero bytes, passphrases empty/1 char/long (>64 bytes)/non-ASCII/"
            "non-UTF-8; every character of every field VALUE (ciphertext, mac, salt, iv, n, r, p, dklen, c, prf, cipher, kdf, version, address, id) "
            "and every field NAME replaced (quick: 2 random replacements + the digits 0 and '-' for numbers; thorough: the whole replacement "
            "alphabet + single-character deletion and insertion); each tampered file goes through bare DecryptKey, through a fresh KeyStore "
            "(Unlock + SignHash + recovered signer) and through KeyStore.Import; near-miss passphrases (substitution, deletion, insertion, case "
            "flip, composed/decomposed, empty, doubled) on every format; KeyStore flows ImportECDSA/NewAccount/Unlock/Lock/Export/Import/Update/"
            "SignHashWithPassphrase/SignTxWithPassphrase/Delete judged step by step, incl. Unlock/TimedUnlock with a wrong passphrase on an ALREADY unlocked "
            "account (indefinitely and timed) (every file the keystore writes must carry its address); EncryptKey "
            "output recomputed by the model; unlock-state histories (random Unlock / TimedUnlock long+short / Lock / wrong-pass / Update / Export / Sign* sequences: every signature must "
            "be byte-equal to the stored key's, locked => ErrLocked; each history is also replayed by the model driver with KsState.step and compared observation by observation); Update over longer previous content (other scrypt n/p via a second KeyStore on the directory, indented, v1, pbkdf2 files: the file must be "
            "exactly the new encoding); 6 goroutines encrypting / storing / updating / exporting concurrently with per-call n,p (every blob must carry its own parameters and open "
            "with its own passphrase); whole-file substitution (A's file overwritten by B's file / B re-encrypted under A's passphrase / B's file with A's address, "
            "then Unlock, TimedUnlock, SignHash/TxWithPassphrase, Export, Update, Delete on A must fail or use A's key); read-side legacy files whose plaintext has the key's "
            "leading zero bytes stripped (31/30/29 bytes, every format, with and without address) and the repo's own test vectors must open to the original key; residual probe: files with the address member removed + IV alterations (outside the property, counted as residual:*). "
            "Non-trivial = the real code did not answer with an error (distinct inputs counted).",
    "tie": {"keystore.DecryptKey (decryptKeyV3, decryptKeyV1, getKDFKey, ensureInt)": "corr (Go vs Model.Keystore.decryptKey; KDF/AES/address values supplied by the harness, Keccak recomputed in Lean)",
            "keyStorePassphrase.GetKey via KeyStore.Unlock": "corr (Go vs Model.Keystore.getKey) + direct Spec judgement (signer of a signature made after Unlock)",
            "KeyStore.Import": "corr (Go vs Model.Keystore.importAccount) + direct Spec judgement",
            "KeyStore unlocked table (TimedUnlock / Lock / expire / Update / SignHash / SignTx)": "corr (Go histories vs Model.Keystore.KsState.step replayed in Driver/C20 on stand-in primitives) + direct judgement",
            "keystore.EncryptKey": "corr (file recomputed by Model.Keystore.encryptKey from key, passphrase, salt, iv, n, p)",
            "encoding/json binding of the key file": "overlay accessor VerifAbstract unmarshals into the repo's own encryptedKeyJSONV1/V3 types; dispatch on the version is in the model",
            "KeyStore.NewAccount/ImportECDSA/Export/Update/Delete/SignHashWithPassphrase/SignTxWithPassphrase": "direct Spec judgement on the real code per step"},
    "assumptions": ["scrypt, PBKDF2, AES-128-CTR/CBC, Keccak-256 and secp256k1 are parameters of the model (DESIGN.md 2.5); the theorems carry the needed facts as explicit hypotheses (collision-freedom of Keccak on the two MAC inputs, KDF output differing on bytes 16..32, address derivation separating two scalars)",
                    "HMAC zero-pads / pre-hashes its key: a passphrase extended by NUL bytes (or a >64-byte passphrase and its SHA-256) derive the same key; such pairs violate the hypothesis 'KDF output differs' and are outside the near-miss generator (counted as info:* in the histogram)",
                    "encoding/json, os file I/O and the account cache's directory scan are used as they are (Go runtime/stdlib modelled not verified)"],
    "trusted_base": ["Model.Keystore mirrors aqua/accounts/keystore/keystore_passphrase.go EncryptKey/DecryptKey/decryptKeyV3/decryptKeyV1/getKDFKey/ensureInt/GetKey, presale.go aesCTRXOR/aesCBCDecrypt/pkcs7Unpad, common/math PaddedBigBytes and crypto.ToECDSAUnsafe",
                     "go/overlay/aqua/accounts/keystore/c20_access.go (VerifAbstract)"],
}
META = {
    "technique": "Lean 4 proof (round trip, wrong-passphrase and tamper rejection, totality for all keys/passphrases/files over uninterpreted KDF/AES/Keccak) tied to aqua/accounts/keystore by differential correspondence",
    "text": "Theorems roundtrip, roundtrip_keeps_leading_zeros, wrong_pass_rejected, wrong_pass_never_unlocks, tamper_ct_mac_salt_params_rejected, "
            "tamper_ct_rejected, tamper_mac_rejected, tamper_never_yields_other_key (KeyStore.GetKey level, any tampering), "
            "decryptKey_tamper_never_yields_other_key and import_never_yields_other_account (bare DecryptKey / KeyStore.Import on files that carry their "
            "address, any tampering incl. the IV), decryptKey_rejects_key_of_other_address, decrypt_total (no panic outcome for any file), "
            "degenerate_kdfparams_are_errors hold for every instantiation of the primitives in the Lean model of EncryptKey/DecryptKey/GetKey/Import "
            "at /repo >= a73be14, e55659c; decryptKey_no_address_iv_tamper_residual(+_witness) states the one residual: a file WITHOUT an address field "
            "(never written by this keystore) with an altered IV is opened by bare DecryptKey to another key. Every run re-checks the proofs and runs the real "
            "keystore and the compiled model on >15k key-file/passphrase cases requiring identical outcomes.",
    "note": GEN + " KeyStore flows other than Unlock are judged directly on the real code (exploration strength), stated in the evidence.",
}

ENABLED = True
GEN = ("Trusted: Lean kernel (axioms propext/Classical.choice/Quot.sound only, audited each run), the hand-written model's fidelity as "
       "validated by the trace-validation run, the Go harness and the overlay accessor; crypto primitives, math/big, StateDB and the Go "
       "runtime are modelled not verified.")
CFG = {
    "lean": "Aqv.Props.C15",
    "exe": "aqmodel_c15",
    "harness": "c15",
    "overlay": ["core/txpool_access.go"],
    "race": True,
    "timeout": {"quick": 900, "thorough": 3000},
    "trivial_outputs": ["res=known", "res=nonce", "res=funds", "res=gaslimit", "res=intrinsic", "res=underpriced", "res=sender",
                        "res=oversized", "res=replace"],
    "rule": "one case = one observed transition of the REAL core.TxPool (config, pre-state, operation, result, post-state) over a scripted "
            "fake chain: corpus histories, then random histories of local/remote adds (colliding nonces/prices, duplicates, replacements, "
            "malformed: oversized data / foreign chain id), batch adds, SetGasPrice, head advances and reorganisations (incl. beyond the "
            "64-block horizon) that change balances and nonces, under random slot/queue limits; after EVERY operation the property's "
            "clauses are evaluated on the observed state (Go side and, independently, by the Lean Spec in the driver) and the Lean model "
            "must reproduce the transition under an eviction oracle inferred from the observation (trace validation). Non-trivial = "
            "the operation was accepted or is a reset/price change (distinct transitions counted). Concurrent tier: goroutines submit and "
            "publish head events through the real feed; snapshots under the pool lock are judged by the state clauses; reader stress: six "
            "goroutines read Pending()/Content()/Stats() against writers and every view handed out is judged (consecutive nonces starting "
            "at a chain nonce some head had; re-read and compared with the pool's tables after quiescence). Price lattice (every run): "
            "replacements at gas prices 1, 2^32±1, 2^53, 2^64/200, 2^64/110±1, 2^63, 2^64±1, 2^128 × replacement prices P, P+1, threshold−1, "
            "threshold, threshold+1 × bump 0/10/100 × pending/queued × local/remote, judged on big integers and by the Lean model on Nat. "
            "txSortedMap cache: random method sequences on a real txSortedMap (Put/Forward/Filter/Cap/Remove/Ready/Flatten), every call a "
            "case for the Lean machine Model.TxSortedMap (contents + cache) and judged directly: a cache that is present is the nonce-sorted contents.",
    "tie": {"txList.Add/Filter/Forward/Cap/Ready/Remove": "corr (trace validation of every pool transition against Model.TxPool)",
            "TxPool.add/validateTx/enqueueTx/promoteTx/removeTx/promoteExecutables/demoteUnexecutables/reset/SetGasPrice":
                "corr (trace validation; eviction policy = inferred oracle, costcap/gascap compared as sound upper bounds)",
            "block walk of reset (discarded/included)": "corr (harness computes the two branches on its own block tree; the pool's walk must agree)",
            "txPricedList Put/Removed/Underpriced/Discard/Cap": "corr (heap array and stale counter dumped by the accessor; victims of add and SetGasPrice predicted from the dumped heap by the concrete machine; post heap compared as multiset + stale counter + heap property)",
            "txSortedMap Put/Forward/Filter/Cap/Remove/Ready/Flatten incl. cache": "corr (real txSortedMap driven through the accessor; returned transactions, contents and cache compared with Model.TxSortedMap on every call)",
            "pool loop eviction tick, journal, txFeed": "not modelled (eviction tick exercised in the concurrent tier only)"},
    "assumptions": ["sequential semantics under pool.mu: data races are not expressible in the model; the concurrent tier runs the real pool "
                    "from several goroutines (race detector in the thorough tier) and judges snapshots by the state clauses",
                    "the transaction hash is injective on (sender, nonce, price, gas, value) for well-formed transfers (deterministic signing)",
                    "the limits clause is read as what the pool-wide enforcement establishes (after every reset / promoteExecutables), not as an "
                    "at-all-times invariant: SetGasPrice and pool-full discards re-queue followers without running the enforcement "
                    "(theorem limits_transient_witness)",
                    "the model carries both variants of the two defects this check found and /repo fixed (removeTx before f30bc16, "
                    "demoteUnexecutables before c2af732) only as documentation: pre_c2af732_* and prefix_removeTx_witness theorems"],
    "trusted_base": ["Model.TxPool mirrors core/tx_list.go and core/tx_pool.go function by function; ManagedState is the map of virtual nonces; "
                     "eviction order (price heap ties, spammer queue, heartbeats, Go map iteration) is an oracle quantified universally"],
}
META = {
    "technique": "Lean 4 proof (inductive invariant of the pool state machine under every eviction oracle, list lemmas, limits, replacement rule) "
                 "tied to core/tx_pool.go and core/tx_list.go by trace validation of the real pool",
    "text": "Theorems inv_init / inv_step / inv_reachable (pending lists are gap-free affordable runs from the chain nonce, one transaction per "
            "sender and nonce) hold for all operation sequences and all eviction choices in the Lean model of the pool as written at "
            "HEAD; limits_after_reset, replacement_needs_bump, all_ok_step, reorg_reinjects (every sender, with the explicit full-and-underpriced "
            "exception) cover limits, price bump and reorg re-injection; priced_consistent / priced_*_refines show that the price heap refines the "
            "eviction oracle. The two defects found by this check and since fixed in /repo (f30bc16, c2af732) stay documented as decided "
            "witnesses on the pre-fix model variants (prefix_removeTx_witness, pre_c2af732_reset_gap_witness). Every run replays >10k real pool transitions through the model and "
            "evaluates the clauses on every observed state.",
    "note": GEN + " The container/heap array algorithms as mirrored (up, down, Push, Pop, Init; order = price only, as priceHeap.Less here) are "
                  "proved correct (heap_up_preserves, heap_down_preserves, heap_init_establishes, heap_push_pop_spec); the former run-time "
                  "check is only the driver's assertion, proved never to fire (priced_check_never_fires). 'stales = number of dead heap "
                  "entries' is NOT an invariant of this code (stales_not_dead_count_witness: duplicate Put by enqueueTx, Removed() after "
                  "Discard's pop); stales_reheap_exact states what a re-heap guarantees. journal.load on restart is not modelled.",
}

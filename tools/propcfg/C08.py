ENABLED = True
GEN = ("Trusted: Lean kernel (axioms propext/Classical.choice/Quot.sound only, audited each run), the hand-written model's fidelity as "
       "validated by the correspondence run, the T-gen dump test (values read from the compiled program), the Go harness; math/big, "
       "the Go runtime and Keccak are modelled not verified.")
CFG = {
    "lean": "Aqv.Props.C08",
    "exe": "aqmodel_c08",
    "harness": "c08",
    "gen": ["vmtable", "translated"],
    "overlay": ["core/vm/c08_access.go"],
    "trivial_outputs": ["err", "invalid"],
    "timeout": {"quick": 900, "thorough": 7200},
    "rule": "single-op programs PUSH32.. OP PUSH1 0 MSTORE PUSH1 32 PUSH1 0 RETURN on the real EVM (vm.NewEVM(...).Call, in-memory StateDB) for 25 "
            "computational opcodes: exhaustive over a 37-value boundary lattice ({0,1,2,3,7,8,15,16,30..33,63..65,127,128,255..257,511,512,"
            "2^63±1,2^64±1,2^128±1,2^255±1,2^256-2,2^256-1,byte patterns})^arity in the HF5 epoch (14 values cubed for the ternary ops in the "
            "quick tier), a 14-value lattice in the other five epoch/gas-table combinations, plus random 256-bit / small / power-of-two / "
            "sparse-byte / negative-small operands; result AND gas used compared with the Lean Impl model and judged against the Lean Spec. "
            "All 256 opcode bytes probed for validity at every (built-in config, height around every fork) and on random fork schedules; "
            "stack arity of every byte per epoch through a tracer; jump-destination analysis on random code (direct, out-of-range / "
            "truncating destinations, and through real JUMPs); memoryGasCost, toWordSize, calcMemSize, callGas and the table's gas "
            "functions (SHA3, *COPY, MLOAD/MSTORE, LOGn, CREATE, RETURN, EXP) on uint64/256-bit boundary lattices and random values. "
            "Whole programs (branches, loops, junk, truncated PUSH) over the modelled subset and per-op boundary lattices for PUSHn/DUPn/SWAPn/"
            "MLOAD/MSTORE/MSTORE8/MSIZE/SHA3/CALLDATALOAD/COPY/CODECOPY/RETURNDATASIZE/COPY/JUMP/JUMPI/PC/JUMPDEST/GAS/RETURN/REVERT with "
            "offsets and lengths around 0,31..33,63..65,2^16,2^20,2^32,2^63,2^64,2^255,2^256-1; outcome = return data, gas left, tracer "
            "stack digest; RETURNDATACOPY with a non-empty buffer and getDataBig through accessors. "
            "Non-trivial = the real code produced a value (not an invalid-opcode / error outcome); distinct inputs counted.",
    "tie": {"core/vm.toWordSize / memoryGasCost / callGas / bigUint64 / calcMemSize / gasMLoad..gasRevert, common/math.SafeAdd/SafeSub/SafeMul/S256, params.isForked / IsHomestead / IsByzantium / IsConstantinople / IsEIP150 / IsEIP155 / IsEIP158 / IsDAOFork (mini-translator)": "translated (go/ssa -> Lean on every run; *_code_is_model theorems: the translated code equals the Model.EvmOps function) + corr",
            "core/vm/instructions.go op* (25 opcodes)": "corr (Go vs Model.EvmOps) + Spec judgement per case",
            "core/vm/gas_table.go memoryGasCost/gasSha3/gas*Copy/gasM*/makeGasLog/gasCreate/gasReturn/gasExp, gas.go callGas, common.go toWordSize/calcMemSize": "corr (overlay accessors call the real functions)",
            "core/vm/analysis.go codeBitmap/has": "corr (accessor + real JUMPs)",
            "core/vm/interpreter.go Run loop, instructions.go makePush/makeDup/makeSwap/opMload/opMstore/opMstore8/opSha3/opCallData*/opCodeCopy/opReturnData*/opJump/opJumpi/opPc/opMsize/opGas/opReturn/opRevert, memory.go, common.go getDataBig": "corr (whole programs on the real EVM vs Model.EvmRun implExec; Spec = specExec; theorem run_refines_spec_partial)",
            "core/vm/jump_table.go five instruction sets, gas tiers, params gas constants and gas tables, fork heights": "gen (dumped from the compiled program into Aqv.Gen.VmTable; theorems re-proved against it)",
            "core/vm/interpreter.go NewInterpreter switch, params ChainConfig.GasTable/IsHF/isForked": "gen probes + corr (real NewEVM at every probed height)"},
    "assumptions": ["A1: no frame ever holds 2^55 gas, so 'gas uint64 overflow -> out of gas' is what the specification prescribes whenever the specified cost is >= 2^55 (theorems give >= 2^60 / 2^61 / 2^64 per function)",
                    "math/big (sign-magnitude And/Or/Not/Rsh case analysis transcribed from math/big/int.go), the Go runtime and Keccak are modelled, not verified (DESIGN.md 2.5)",
                    "the byte layout of analysis.go's bitvec (0x80 >> pos%8) is abstracted to a set of positions; the loop structure is kept",
                    "code length < 2^62, return-data buffer < 2^64 bytes, Keccak output 32 bytes (Keccak is a parameter of the theorems; the driver uses Aqv.Base.Keccak, validated against Go through every SHA3 case)"],
    "trusted_base": ["Model.EvmOps mirrors core/vm/instructions.go, gas_table.go, gas.go, common.go, analysis.go; Base.Big mirrors the used fragment of math/big and common/math",
                     "go/overlay/core/vm/dump_test.go + tools/gen_vm.py (T-gen extractor) and go/overlay/core/vm/c08_access.go (accessors that only forward to the real functions)"],
}
META = {
    "technique": "Lean 4 proof (per-opcode model = BitVec-256 specification for all operands, gas formulas, jump-destination analysis, generated jump tables = hand-written spec tables) tied to core/vm by T-gen + differential correspondence",
    "text": "For each of 25 computational opcodes a theorem states that the Int/math-big model of the Go op* function equals the Yellow-Paper BitVec 256 "
            "semantics for ALL operands (SAR: all operands except shift>=256 of zero, with the negation proved on the witness); gas functions "
            "(memory, EXP, SHA3, copy, log, create, callGas, toWordSize) equal the Nat formulas with overflow only beyond 2^60 gas "
            "(memoryGasCost and the whole memory-growth chain: for every operand pair except exactly the uint64 wrap range 2^37..2^40 bytes, witness proved); codeBitmap/has = 'JUMPDEST outside PUSH data' "
            "for every code and every 256-bit destination; the five instruction sets dumped from the compiled program equal the hand-written "
            "specification tables (valid opcodes, stack arities, constant gas tiers, flags) and NewInterpreter's switch selects the prescribed "
            "table for every configuration and height; and the whole-program theorem run_refines_spec_partial: for every code, call data, epoch "
            "and gas budget the Go-mirroring interpreter (table read by function name, UInt64 gas, Go memory/stack/call-data bodies with "
            "their panics) and the Yellow-Paper interpreter give the same return data, gas left, stack and halt class unless a step's "
            "operands lie in one of the two recorded deviation sets. Every run regenerates the tables, re-proves, and runs the real EVM and the compiled "
            "model on >100k cases (exhaustive boundary lattice + random) comparing result and gas.",
    "note": GEN + " Known findings (recorded, consensus-visible, not patched): SAR(shift>=256, 0) = 2^256-1; memoryGasCost square wraps uint64 for "
            "requests in (0x1fffffffe0, 0xffffffffe0]. SSTORE/SLOAD/BALANCE/EXT*/BLOCKHASH/LOG*/CALL*/CREATE/SELFDESTRUCT bodies are outside the "
            "modelled subset (state database needed; C06/C07/C09): both interpreters stop with `skip` there; their table rows are covered.",
}

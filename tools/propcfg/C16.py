ENABLED = True
GEN = ("Trusted: Lean kernel (axioms propext/Classical.choice/Quot.sound only, audited each run), the hand-written model's fidelity as "
       "validated by the correspondence run, the Go harness; crypto primitives, math/big and the Go runtime are modelled not verified.")
CFG = {
    "lean": "Aqv.Props.C16",
    "exe": "aqmodel_c16",
    "harness": "c16",
    "gen": ["bloom"],
    "overlay": ["core/bloombits/c16_access.go", "aqua/filters/c16_access.go", "aqua/c16_access.go"],
    "trivial_outputs": ["-", "false", "err8", "generr", "hang", "panic", "err"],
    "timeout": {"quick": 900, "thorough": 3600},
    "rule": "one case = one call of the real code on a generated input, answered independently by the Lean model (own Keccak): "
            "bloom9/calcBloomIndexes of items (0-40 bytes, pool addresses/topics incl. items whose bloom indexes coincide and items with leading zero bytes), CreateBloom of receipt sets (0-3 receipts x 0-3 logs x 0-4 topics), "
            "BloomLookup incl. near misses (one bit of the item cleared), bloomFilter/filterLogs under criteria (address lists, positional "
            "alternatives, wildcards, up to 5 positions, duplicates; the all-zero address/topic as ordinary values in logs and criteria), Generator sessions (section sizes 0..4096 incl. non-multiples of 8 and "
            "sizes below 2048, partial fill, overflow, wrong index, Bitset at 0/7/8/2047/2048/size+-1), Matcher sessions over raw blooms with an "
            "in-memory bit-vector server that drops deliveries (filters with nil clauses, empty groups, odd-length clauses; begin>end; section "
            "edges), and filters.Filter.Logs over chains built with core.GenerateChain (+receipts, bloom-bits index committed with the real "
            "Generator and WriteBloomBits) with logs clustered at section/byte edges, index progress 0..all sections, ranges with open ends (-1), "
            "beyond the head, empty, ending/beginning exactly at section multiples that hold matching logs, and straddling the indexed boundary. The stored form of the index is exercised separately: bitutil compress/decompress vectors whose encoding is len-1/len/len+1 by construction, a chain whose busy contracts log in 218/219/220 of the 256 eight-block groups of a section, and the real core.ChainIndexer with a reorg landing mid-section. Each result is also judged in Go against a brute-force scan. "
            "Non-trivial = the real code returned a non-empty / positive answer (distinct inputs counted).",
    "tie": {"types.bloom9 (Bloom9)": "corr", "types.LogsBloom/CreateBloom/BytesToBloom": "corr", "types.BloomLookup, Bloom.TestBytes (both must be positive for every covered item, leading zero bytes included)": "corr + direct judgement",
            "filters.bloomFilter, filters.filterLogs": "corr (overlay accessor) + direct judgement",
            "bloombits.calcBloomIndexes": "corr (overlay accessor); theorem indexes_agree",
            "bloombits.Generator NewGenerator/AddBloom/Bitset": "corr (sessions) + direct transposition judgement; limits regenerated (T-gen bloom)",
            "bloombits.Matcher (NewMatcher, Start, run, subMatch, distributor, MatcherSession.*), scheduler": "corr on the session's input/output function, under retrievers that drop, reorder, repeat and invent deliveries; the pipeline itself is a transition system (Aqv.Model.MatcherPipeline) proved to compute that function under every schedule (matcher_session_spec, no_result_before_all_vectors, sections_emitted_in_order)",
            "filters.New, Filter.Logs/indexedLogs/unindexedLogs/checkMatches": "corr + direct judgement vs brute force",
            "aqua.NewBloomIndexer, aqua.BloomIndexer Reset/Process/Commit, aqua.startBloomHandlers, AquaApiBackend.BloomStatus/ServiceFilter": "the REAL code (package aqua linked, overlay accessor aqua/c16_access.go): hook-based mid-section reorg over the real backend, and index section -> reorg inside it -> re-index -> Filter.Logs through the node's own constructor, retrieval handlers and API backend; the plain generated chains still use a harness replica of Commit/retrieval (any section size)",
            "bitutil.CompressBytes/DecompressBytes (bitsetEncodeBytes, bitsetDecodePartialBytes)": "corr (cases cz, dz incl. malformed encodings) + direct round-trip judgement around the break-even density; theorems decompress_compress, stored_vectors_roundtrip",
            "core.ChainIndexer (Start/eventLoop/newHead/updateLoop/processSection)": "the real indexer is run with a ChainIndexerBackend that replicates BloomIndexer plus a hook: a reorg lands between two headers of the section walk; Filter.Logs then judged vs brute force over the final canonical chain. processSection's continuity check is modelled (walkSection/processSection; theorem section_commit_requires_contiguous_headers); elsewhere index progress is the parameter `sections` with sections*size <= head+1",
            "types.BloomByteLength/BloomBitLength, params.BloomBitsBlocks(+Client)": "gen (theorems constants_agree, deployed_section_sizes_accepted)"},
    "assumptions": ["Go runtime, math/big and Keccak-256 are modelled, not verified (DESIGN.md 2.5); theorems hold for an arbitrary hash function",
                    "header.Bloom = CreateBloom(receipts) for every canonical block (enforced by BlockValidator.ValidateState; checked on every generated block)",
                    "the matcher's goroutine pipeline is modelled as a transition system (FIFO channels of unbounded capacity, arbitrary delivery environment that returns the stored vector); channel capacities, the quit/kill shutdown path, context cancellation and retrieval errors are outside the model",
                    "index progress satisfies sections*size <= head+1 (ChainIndexer commits only complete sections of canonical headers); begin/end >= -1 and below 2^63"],
    "trusted_base": ["the driver's memoised Keccak and its generator spec column are proved (memoised_hash_is_the_hash, specColumn_is_bitset)", "Aqv.Model.LogFilter mirrors core/types/bloom9.go, aqua/filters/filter.go, core/bloombits/generator.go and the AND/OR/extraction logic of core/bloombits/matcher.go"],
}
META = {
    "technique": "Lean 4 proof (no false negatives, transposition, matcher = bloomFilter, Filter.Logs = brute force; unbounded) tied to core/types, core/bloombits and aqua/filters by differential correspondence",
    "text": "Theorems bloom_no_false_negative, testBytes_no_false_negative, bloomFilter_sound, indexes_agree, transpose_spec, matcher_spec, extraction_spec, decompress_compress, stored_vectors_roundtrip, section_commit_requires_contiguous_headers, matcher_session_spec and "
            "logs_exact hold in the Lean model for every hash function, log set, criteria, block range (open ends, straddling the indexed boundary), every "
            "section size the generator accepts and every index progress; every run re-proves them, regenerates the bloom constants and generator limits "
            "from the compiled packages, and runs the real CreateBloom/BloomLookup, Generator, Matcher sessions and Filter.Logs against the compiled model "
            "and against a brute-force scan on generated chains.",
    "note": GEN + " The matcher's concurrent pipeline is a transition system whose every schedule is proved to compute the pure per-section function (matcher_session_spec); the generator only works for section sizes >= 2048 (carried as a precondition, proved as generator_rejects_small_sections).",
}

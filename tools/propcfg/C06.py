ENABLED = True
GEN = ("Trusted: Lean kernel (axioms propext/Classical.choice/Quot.sound only, audited each run), the hand-written model's fidelity as "
       "validated by the correspondence run, the Go harness; crypto primitives, math/big and the Go runtime are modelled not verified.")
CFG = {
    "lean": "Aqv.Props.C06",
    "exe": "aqmodel_c06",
    "harness": "c06",
    "gen": ["txparams", "translated"],
    "timeout": {"quick": 600, "thorough": 3000},
    "trivial_outputs": ["err"],
    "rule": "ig: IntrinsicGas on boundary and random data; gp: GasPool scripts with uint64 boundary amounts (incl. the AddGas panic); msg: one "
            "core.ApplyMessage per generated (rules in {frontier, homestead, hf5, eip158, byzantium} x sender balance/nonce x message fields x "
            "callee behaviour in {stop, no code, revert, out-of-gas loop, invalid opcode, stack underflow, SSTORE-clearing 1-3 slots, store+log, "
            "failure after partial effects (SSTORE, LOG, three value calls), self-destruct to other/sender/coinbase/self/new, callee pays sender/"
            "coinbase, inner failing call, precompile / non-existent / self / coinbase targets, 12 creation init codes incl. oversize code, "
            "code-store out of gas, address collision}) with the boundary lattice (exactly enough balance, one wei short of gas / of value, "
            "gas = intrinsic, intrinsic-1, pool remainder, pool+1, price 0, refund exactly at and around the cap); blk: 1-5 signed transactions "
            "through ApplyTransaction step by step and through StateProcessor.Process on an identical world (receipts, gas, root compared), "
            "one third with an invalid transaction, one fifth with the coinbase being the contract address of a failing creation (top-level or inner CREATE) later in the block; balances judged at the committed root (copy+Commit+RawDump, and state re-opened at the root Process committed) as well as on the live objects; insert: BlockChain.InsertChain of blocks with an invalid transaction / wrong header gasUsed / an EMPTY block claiming gasUsed > 0; "
            "fastsync: generated valid chains (blocks of 1, 2, 3 and 5-7 mixed transactions over the same behaviour library, homestead/hf5/eip158/byzantium) imported into a "
            "full node (InsertChain) and a fast node (InsertHeaderChain + InsertReceiptChain with the consensus-encoded receipts); receipts read back through "
            "GetReceiptsByHash, GetBlockReceipts, GetReceipt and judged per receipt on both nodes (gasUsed = cumulative difference, intrinsic <= gasUsed <= gas limit "
            "modulo the refund finding, sum = header.gasUsed, TxHash / ContractAddress / log positions, fast = full field by field); srd: the served per-tx gas vs the model. "
            "Non-trivial = the real code accepted the transaction/block (distinct inputs counted).",
    "tie": {"core.(*GasPool).SubGas / AddGas / Gas, core.(*StateTransition).useGas / gasUsed (mini-translator)": "translated (go/ssa -> Lean on every run; gasPool_code_is_model, useGas_code_is_model, gasUsed_code_is_model) + corr",
            "core.IntrinsicGas": "corr (ig cases) + gen (constants TxGas.. from the compiled params package)",
            "core.GasPool.AddGas/SubGas": "corr (gp scripts)",
            "StateTransition.TransitionDb/preCheck/buyGas/refundGas (core.ApplyMessage)": "corr (msg cases; EVM observed by a depth-0 tracer and fed to the model as the parameter E)",
            "core.ApplyTransaction + loop of StateProcessor.Process": "corr (blk cases) + direct comparison Process == loop + engine.Finalize",
            "BlockValidator.ValidateState gas check, InsertChain rejection": "direct judgement on the real BlockChain",
            "receipt formats (types.NewReceipt, consensus RLP)": "direct judgement + corr (hasRoot/status per receipt)",
            "core.SetReceiptsData / InsertReceiptChain (fast-sync import path)": "corr (srd cases vs Tx.setReceiptsData_spec; theorems setReceiptsData_sum, setReceiptsData_recovers_gas) + direct judgement of the receipts served by a fast node and a full node",
            "StateDB refund counter lifetime (Finalise clears it between transactions)": "corr (the model receives what the EVM ADDED to the counter and resets it in `fin`) + direct judgement (counter is 0 when a transaction starts)",
            "vm.EVM.Call/Create contract (gas left <= given, revert on error, ErrInsufficientBalance iff CanTransfer fails)": "assumed in the theorems (C07); checked on every case by the driver (oracleObeysContract) and the harness"},
    "assumptions": ["Go runtime, math/big and the cryptographic primitives are modelled, not verified (DESIGN.md 2.5)",
                    "the general theorems take the EVM as a parameter obeying the contract EvmOk; for the C07 machine the contract is PROVED (evm_contract_over_vm, from C07 leftover_le_given_*, frame_failure_reverts_*, *_terminates, no_modelled_panic) and the *_over_vm theorems carry no EvmOk hypothesis. Residual assumptions there: TxVm.OracleOk (the machine does not interpret the world: its oracle must answer the top-level CanTransfer truthfully and its Create nonce effect must be SetNonce(caller, nonce+1)), Vm.EnvOK (generated gas table); the contract is also checked on every generated case against the real EVM",
                    "SenderIsEOA is a hypothesis of the GENERAL nonce_plus_one/impl_refines_spec only; over the C07 machine nonce_plus_one_over_vm derives it from NoCodeAtSigner on the transaction's pre-state (no code at the signing address: a CREATE address keccak(rlp(creator,nonce)) never hits a key-controlled address) plus CodeDiscipline (oracle effects install no code at a code-less signer and do not move its nonce; the depth-0 Create bump is pinned by OracleOk) — signer_nonce_over_vm, Lemmas/TxVmNonce.lean",
                    "IntrinsicGas' overflow guards cannot be exercised on the real code (they need > 2^57 data bytes); they are covered by intrinsic_gas_formula only",
                    "Homestead rules for failed_exec_only_gas (true for every built-in config: builtin_configs_homestead)"],
    "trusted_base": ["Model.Tx mirrors core/state_transition.go (IntrinsicGas, preCheck, buyGas, TransitionDb, refundGas), core/gaspool.go, core/state_processor.go (ApplyTransaction, Process loop), core/block_validator.go (gas check)",
                     "Gen.TxParams is dumped from the compiled params package on every run"],
}
META = {
    "technique": "Lean 4 proof (fee, nonce, gas-pool and failure equations of the transaction model for all messages and all contract-obeying EVMs) tied to core/ by differential correspondence",
    "text": "Theorems nonce_plus_one, sender_debit(+_failed,+_success_plain), coinbase_credit, gas_bounds_partial, pool_conserved, cumulative_gas, "
            "process_gas_le_limit, validate_gas_iff, failed_exec_only_gas, invalid_tx_rejected, tx_accepted_iff, invalid_tx_invalidates_block, evm_contract_over_vm and the *_over_vm forms (TransitionDb over the C07 interpreter model, no EvmOk hypothesis), "
            "intrinsic_gas_formula, receipt_fields and impl_refines_spec hold for every message, world, pool and every EVM obeying the C07 contract; "
            "every run re-proves them against the regenerated gas constants and replays thousands of generated transactions and blocks through the "
            "real ApplyMessage/ApplyTransaction/Process, feeding the model what the EVM was observed to leave behind and requiring identical "
            "results, balances, nonces, pool and receipts; the property's equations are additionally judged directly on the real state.",
    "note": GEN + " The literal clause 'intrinsic <= gasUsed' is false for refund-heavy transactions (gas_below_intrinsic_witness, known finding); "
            "two further known findings concern pre-EIP158 / Frontier rules only.",
}

ENABLED = True
GEN = ("Trusted: Lean kernel (axioms propext/Classical.choice/Quot.sound only, audited each run), the hand-written model's fidelity as "
       "validated by the correspondence run, the Go harness and its -overlay accessors; crypto primitives (Keccak, secp256k1, AES, ECIES, "
       "snappy), the rlp package internals and the Go runtime are modelled as parameters / exercised, not verified.")
CFG = {
    "lean": "Aqv.Props.C17",
    "exe": "aqmodel_c17",
    "harness": "c17",
    "overlay": ["p2p/discover/c17_access.go", "p2p/c17_access.go", "aqua/c17_access.go", "aqua/downloader/c17_access.go"],
    "trivial_outputs": ["err", "decode", "badcode", "toolarge"],
    "timeout": {"quick": 900, "thorough": 3000},
    "rule": "discovery datagrams (both netcompat modes): packets from the real encodePacket with a test key, every truncation, every byte "
            "position flipped, correctly hashed+signed datagrams with every type byte and signed data of 1..8 bytes, re-signed truncations "
            "of valid bodies at every length, signed structure-aware damage (boundary bytes, huge declared sizes, oversized, wrong tag/type, "
            "trailing bytes, deep nesting), unsigned noise; each is decoded by the real decodePacket and by the Lean model (Keccak computed in "
            "Lean, signature recovery supplied as the model's parameter). RLPx frames: two real rlpxFrameRW ends with equal secrets over "
            "in-memory connections; over toy primitives the written bytes and every read result are compared with the model byte for byte "
            "(plain sessions, snappy on/off/mismatched, hand-made snappy length bombs, declared-size skew, flip/drop/truncate/insert at every "
            "byte position); over real AES-CTR/Keccak the round trip, tamper/drop/truncation at every position, sizes 0..2^24 with and "
            "without snappy, truncated frames declaring up to 2^24-1 bytes and allocation are judged directly. Handshake packets: real "
            "handshakes over a pipe, then readHandshakeMsg / receiverEncHandshake / initiatorEncHandshake on truncations, mutations, random "
            "bytes, hostile size prefixes and correctly ECIES-encrypted malformed plaintexts. Base protocol: readProtocolHandshake and the real "
            "Server.runPeer over the real rlpx transport with disconnect reasons 0..2^64-1, pings, unknown/out-of-range codes. aqua: the real "
            "ProtocolManager.handleMsg / peer.readStatus behind a stub transport on valid payloads of every message code, every truncation, "
            "mutations, random bytes, the ProtocolMaxMsgSize lattice and GetBlockHeaders overflow lattices. Pipelined frame sessions: 3..6 frames (0..70000 bytes, around the 64 KiB "
            "mark, snappy on/off) are all read before any payload is consumed (also through Peer.readLoop with a slow handler and pings in "
            "between); every payload must still equal what was written. Consistently inflated RLP length prefixes: 192 short signed datagrams "
            "claiming 2^10..2^63 bytes at 12 string/tail positions with all enclosing lists adjusted; error, no panic, allocation <= 1 MiB. "
            "Downloader payloads: a real skeleton-fill queue (ScheduleSkeleton/ReserveHeaders) gets 21 shapes of wire-decoded "
            "BlockHeaders batches (correct, shifted, broken links, 191/193/0 headers, duplicates, huge numbers, unknown peer) for two fill tasks: accept or error, never a panic. "
            "Discovery bonding histories: ping / failed, wrong-ReplyTok or verified ping-back / unsolicited pong / findnode on a real "
            "udp+Table (datagrams through handlePacket; FINDNODE served <=> verified pong from that key; 20 with the ping-back timeout stubbed, 2 with the real 4 s respTimeout). "
            "Silent / stalling peers: 18 scenarios "
            "run concurrently, one per blocking read/write on a handler path (aqua ProtocolManager.handle / peer.Handshake: no Status, no reads, "
            "Status after the timeout; Server.SetupConn inbound and dialed: nothing, half an auth packet, size prefix only, silence after the "
            "encryption handshake with and without reading, half a frame header; established peers going silent / stopping mid-frame), each must "
            "return an error within the stage's own timeout (5 s / 30 s) + 12 s. Identity lattice (~100 identities: (0,0), (1,0), (0,1), P-1, "
            "x or y >= P, 2^256-1, G, -G, valid x with wrong y, swapped halves, real keys with flipped bits, random pairs) through NodeID.Pubkey, "
            "Node.validateComplete and the real responder doEncHandshake fed a correctly encrypted, validly signed auth packet naming the "
            "identity; accepted <=> y^2 = x^3+7 mod P (recomputed with big.Int and by the Lean model). Non-trivial = the real code "
            "accepted/delivered something (distinct inputs counted).",
    "tie": {"discover.decodePacket / encodePacket / expired": "corr (Go vs Model.Net.decodePacket/encodePacket/expired; Keccak in Lean, recovery as oracle)",
            "p2p.rlpxFrameRW.WriteMsg / ReadMsg / updateMAC": "corr over toy primitives (Go vs Model.Net.writeMsg/readMsg, snappy as oracle) + direct judgement over real AES/Keccak",
            "p2p.readHandshakeMsg": "corr on the size logic (ECIES and RLP verdicts as oracles) + direct judgement",
            "p2p.receiverEncHandshake / initiatorEncHandshake / readProtocolHandshake / Server.runPeer / Peer.run": "direct judgement on the real code (never panics / hangs / over-allocates; class of readProtocolHandshake vs model)",
            "discover.NodeID.Pubkey / Node.validateComplete / rlpx handleAuthMsg (via doEncHandshake)": "corr (Go vs Model.Net.idOnCurve / handleAuthMsg) + direct judgement against the curve equation",
            "aqua.ProtocolManager.handle / peer.Handshake, p2p.Server.SetupConn / setupConn / doProtoHandshake, Peer.run readLoop (silent peers)": "direct judgement with per-stage deadlines (never wedges)",
            "discover udp.handlePacket / ping.handle / pong.handle / findnode.handle / Table.bond / pingpong / Table.ping / nodeDB.hasBond": "corr (bond histories vs Model.Net.bondStep / findnodeServed) + direct judgement",
            "downloader.queue.DeliverHeaders (with ScheduleSkeleton / ReserveHeaders)": "direct judgement (total: accept or error) against Model.Net.deliverSpec",
            "aqua.ProtocolManager.handleMsg / peer.readStatus": "corr on the front (size limit, code dispatch, decode-error path; decode verdict as oracle) + direct judgement"},
    "assumptions": ["Go runtime, math/big, rlp internals and the cryptographic primitives are modelled as parameters, not verified (DESIGN.md 2.5)",
                    "frame_tamper_detected_partial assumes collision-freedom of the truncated Keccak MAC on the two inputs of the comparison reached; unforgeability when both a region and its MAC field are replaced is a cryptographic assumption exercised on the real primitives only",
                    "'never wedges' is a runtime observation: in-memory connections that end with EOF under a watchdog, and silent/stalling peers on pipes judged against the stage's own timeout (5 s handshakes, 30 s frame read deadline) plus 12 s slack",
                    "identities with a coordinate >= P that reduce to a curve point (x+P) are accepted by HEAD (btcec reduces mod P); the model mirrors this: identity malleability, not an authentication break",
                    "tie assumption (named by readMsg_payload_independent_of_later_frames): a delivered Msg is a value in the model; for Go this is checked by pipelined sessions that hold 3..6 Msgs unconsumed",
                    "tie assumption (named by discovery_decode_alloc_bounded): the rlp stream of decodePacket is limited to the signed data; checked by inflated-length datagrams with allocation measurement",
                    "goroutine lifecycles of p2p.Server beyond runPeer are not modelled"],
    "trusted_base": ["Model.Net mirrors p2p/discover/udp.go decodePacket/encodePacket/expired, p2p/rlpx.go WriteMsg/ReadMsg/updateMAC/readHandshakeMsg, "
                     "aqua/handler.go handleMsg front and p2p/rlpx.go readProtocolHandshake front, with Go slice/index expressions as partial operations"],
}
META = {
    "technique": "Lean 4 proof (totality, authentication, round trip by induction over message sequences, tamper detection under MAC collision-freedom, "
                 "allocation bounds of the codec model, unbounded) tied to p2p/, p2p/discover/, aqua/ by differential correspondence and direct judgement of the real code",
    "text": "Theorems discovery_total (decodePacket on EVERY byte string returns a packet or an error, never a panic; a witness shows the length "
            "guard of commit 5ac0fad is necessary), discovery_authenticated, discovery_roundtrip, discovery_tamper_detected, frame_roundtrip "
            "(all message sequences, reader ingress state tracks writer egress state), frame_truncation_rejected, frame_tamper_detected_partial, "
            "frame_alloc_bound (every buffer <= 2^24+15, snappy <= 2^24-1), frame_size_accounting, handler_size_limit, handshake_total_and_bounded, "
            "responder_identity_validated (session secrets only for identities the validation predicate accepts; the curve rule rejects (1,0) etc.) "
            "hold for all inputs in the Lean model with Go slice operations explicit; every run re-checks them and runs the real decoders, frame "
            "codec, handshake readers, peer loop and aqua handler on ~40k adversarial inputs (truncated at every length, every byte position "
            "mutated, correctly signed but malformed), comparing outcome classes and delivered values with the compiled model.",
    "note": GEN + " frame_tamper_detected_partial is partial: rejection when both a MAC-protected region and its MAC field are replaced is MAC "
            "unforgeability, outside what function parameters can express; hang/oom are runtime observations (watchdog), not theorems.",
}

ENABLED = True
GEN = ("Trusted: Lean kernel (axioms propext/Classical.choice/Quot.sound only, audited each run), the hand-written model's fidelity as "
       "validated by the correspondence run, the Go harness; crypto primitives, math/big and the Go runtime are modelled not verified.")
CFG = {
    "lean": "Aqv.Props.C02",
    "exe": "aqmodel_c02",
    "harness": "c02",
    "timeout": {"quick": 600, "thorough": 3000},
    "trivial_outputs": ["err"],
    "rule": "one case = one import history on a fresh chain: a random block tree (5-16 blocks; 35% 'race' trees of up to ~24 blocks "
            "with a long light branch and a shorter heavier one; timestamp offsets up to 2000 s so difficulties differ by up to 5% "
            "per block; siblings with EQUAL offsets = deliberate exact TD ties, also in chains), a random parent-closed arrival order "
            "(possibly of a parent-closed subset) split into InsertChain batches, re-deliveries, whole-ancestry batches, non-contiguous "
            "batches, Stop+reopen of a pruning node (reaches ErrPrunedAncestor: written without state while lighter, winners re-imported "
            "when the branch overtakes); archive / pruning / header-first (InsertHeaderChain on a second chain instance); 33 MIXED histories per run (one chain fed "
            "through both paths: blocks then lighter / equal / heavier header forks, headers first, interleaved) and 12 two-writer schedules "
            "(InsertChain of X vs the miner-style direct WriteBlockWithState of a lighter sibling M, first writer held inside its critical "
            "section by a gate database, both orders and free running). After EVERY call: TD recurrence for every "
            "stored block, head TD >= TD of every block the chain has fully validated so far (exact ties either way), head validated, "
            "head TD monotone — judged directly on the real chain — and the dump (head, td table, stored / state sets) is compared "
            "with the Lean model replaying the same operations under every coin resolution. Non-trivial = every history.",
    "tie": {"BlockChain.WriteBlockWithState / insert / reorg": "corr (Go vs Model.Chain.writeBlockWithState)",
            "insertChain2 classification incl. ErrKnownBlock, ErrPrunedAncestor side-chain branch": "corr (Model.Chain.importOne)",
            "BlockChain.SetHead + HeaderChain.SetHead": "corr (Model.Chain.setHead / hSetHead)",
            "HeaderChain.WriteHeader / InsertHeaderChain": "corr (Model.Chain.writeHeader / hImportChain)",
            "BlockChain.Stop + NewBlockChain (state availability)": "corr (Model.Chain.reopen)"},
    "assumptions": ["C02 quantifies over import histories: rewinds (SetHead) are exercised under C03 only",
                    "fork_choice_atomic: the models treat WriteBlockWithState as one atomic step (the head's total difficulty it "
                    "compares with is read under bc.mu); concurrent callers (InsertChain vs the miner's direct WriteBlockWithState) are "
                    "not modelled as interleavings — the harness runs them under a controlled schedule (gate database) and judges the "
                    "result; Props/C02 fork_choice_not_atomic_witness shows the failure the assumption excludes",
                    "mixed histories (InsertChain and InsertHeaderChain on one chain) are modelled at total-difficulty level "
                    "(Model.ChainMixed): the number index is not modelled there and the head-header position after a block import is an "
                    "input resolved like the coin",
                    "Go runtime, math/big and the cryptographic primitives are modelled, not verified (DESIGN.md 2.5)",
                    "only valid blocks are imported (block validity is property C01); a transaction occurs at most once along one "
                    "chain (guaranteed by nonces; checked on every generated tree)",
                    "histories stay below 128 blocks (triesInMemory): trie garbage collection during import is not modelled; "
                    "state availability changes only at Stop+reopen",
                    "distinct blocks have distinct state roots (every generated block has its own coinbase)"],
    "trusted_base": ["Model.Chain mirrors core/blockchain.go (insertChain2, WriteBlockWithState, WriteBlockWithoutState, reorg, insert, "
                     "SetHead, Stop) and core/headerchain.go (WriteHeader, InsertHeaderChain, SetHead) at the granularity of database "
                     "records; caches, events and the write ORDER inside one call are not modelled (crash consistency is C04)"],
}
META = {
    "technique": "Lean 4 proof (fork-choice invariants of the chain-database model for all trees, orders, batchings and coin "
                 "resolutions, by induction over import histories) tied to core/ by differential correspondence on random trees",
    "text": "Theorems td_recurrence, head_is_max, head_td_monotone, imports_never_fail (and header_td_recurrence, header_head_is_max, "
            "header_head_td_monotone; mixed_td_recurrence, mixed_head_is_max, mixed_head_td_monotone, mixed_header_import_monotone for one "
            "chain fed through both import paths) show that in the Lean model of WriteBlockWithState / insertChain2 (incl. the pruned-ancestor "
            "side-chain branch and restarts) / HeaderChain.WriteHeader every td record is the parent's plus the block's difficulty, the "
            "head is a fully validated block at least as heavy as every fully validated block whatever the coin did, and its total "
            "difficulty never decreases; every run re-checks them and imports hundreds of random trees (shorter-heavier branches, exact "
            "ties) into the real chain and the compiled model, requiring identical heads and td tables, and judges the real chain directly.",
    "note": GEN + " The tie-break 'equal TD: lower number wins' is proved in the model but cannot be exercised on the real code "
            "(equal total difficulty at different heights does not occur with real difficulty values).",
}

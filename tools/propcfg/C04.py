ENABLED = True
GEN = ("Trusted: Lean kernel (axioms propext/Classical.choice/Quot.sound only, audited each run), the hand-written model's fidelity as "
       "validated by the correspondence run, the Go harness; LevelDB batch atomicity and write ordering are the property's own premise "
       "(MemDatabase stands in for LevelDB for these semantics).")
CFG = {
    "lean": "Aqv.Props.C04",
    "exe": "aqmodel_c04",
    "harness": "c04",
    "timeout": {"quick": 900, "thorough": 3000},
    "trivial_outputs": ["err"],
    "rule": "histories = chainx block trees with forks (ForkFree, block-time offsets -9..400 s; value transfers, contract creations and "
            "storage writes/deletes) imported in random parent-closed orders and InsertChain batchings, under an archive and an eagerly "
            "flushing pruning configuration, with Stop+reopen in the middle and Stop at the end; directed shorter-but-heavier "
            "reorganisations (8 slow blocks overtaken by 7 fast ones: multi-block re-pointing, canonical entries deleted); a 136..150 block "
            "pruning chain (periodic trie flushes above height 128, three tries at Stop). The real write log is recorded through a wrapper "
            "around aquadb.MemDatabase; EVERY prefix is materialised into a fresh MemDatabase, reopened with the real core.NewBlockChain and "
            "judged directly (no error/panic; head = last head made or nearest ancestor with complete state; full state iteration; number-index "
            "walk; re-import converges). One case line per history: the Lean model re-generates the log with its writer model (per variant) and "
            "evaluates recover/imageOK on every prefix. Fault injection: every single Put/Delete/batch.Write fails once in a child process "
            "(log.Crit exit = crash, hang = deadlock; a survived failure is followed by a retry of the failed segment in the same process, the rest of the history, Stop and a judged reopen; "
            "directed histories put the failing write on the side blocks of a branch that later overtakes), plus trie.Database.Commit with >IdealBatchSize pending preimages. Non-trivial = a history "
            "whose log the model reproduced and whose prefixes were all reopened.",
    "tie": {"core.NewBlockChain/loadLastState/repair/Reset": "corr (Go reopen outcome vs Model.recover on every prefix of every recorded log) + direct Spec judgement",
            "core.WriteBlockWithState/reorg/insert, WriteBlockWithoutState, Stop, NewBlockChain's LastHeader rewrite": "corr (recorded log vs Model.writeLog event by event, batches as multisets; fork choice and flushed trie batches are inputs)",
            "trie.Database.commit (children before parents)": "direct Spec judgement on every recorded batch (closed at every prefix) + theorem commit_children_first/closed_prefix on the commit model",
            "trie.Database.Commit lock discipline": "fault injection on the real trie.Database (child process, watchdog) + theorem on the model of Commit",
            "core.SetHead": "modelled and recorded; outside the property's quantifier (informational counters only)"},
    "assumptions": ["LevelDB batch atomicity and write ordering (the property's premise); aquadb.MemDatabase has the same semantics for these",
                    "trie.Database reference counting (Dereference) keeps the memory layer closed (a dirty node's children are dirty or on disk); commits and failed flushes preserve it "
                    "(theorem failed_flush_keeps_tries_whole, correspondence cases `triemem`); for garbage collection it is assumed in the import theorems as "
                    "the hypothesis `FlushOK`/`diskRefs present`, and checked on every observed batch",
                    "reimport_converges (archive): blocks valid; a td record holds parent's record + difficulty (C02 td_recurrence; the C04 store "
                    "records presence only); the re-import covers the universe parents-first. Pruning images with lost states: _partial; judged on the real code at every prefix",
                    "WritePreimages (SHA3 preimages of the EVM) is not modelled: the harness programs execute no SHA3",
                    "the writer model and recover read the store; the Go code reads through bc.blockCache: equal under cache coherence, which the code as written keeps "
                    "because the cache is filled only by reads (theorem failed_write_leaves_no_cached_unwritten_block); on the real code every survivable injected failure is "
                    "followed by a retry of the segment, the rest of the history, Stop, reopen and the full judgement"],
    "trusted_base": ["Model.ChainDb.recover mirrors core/blockchain.go NewBlockChain/loadLastState/repair/Reset and core/database_util.go readers",
                     "Model.ChainWriter mirrors WriteBlockWithState/reorg/insert/WriteBlockWithoutState/Stop/SetHead (validated event by event against recorded logs)"],
}
META = {
    "technique": "Lean 4 proof (crash-prefix discipline: LocalOK image => correct recovery; writers keep every prefix LocalOK; trie commit closed at every "
                 "prefix; Commit lock balance under write failures) tied to core/ and trie/ by recorded write logs, exhaustive prefix reopening and fault injection",
    "text": "Theorems localOK_recovers, trace_discipline_sound, commit_children_first, closed_prefix, commit_lock_balanced, failed_flush_keeps_tries_whole, impl_trace_ok and reimport_converges (archive; pruning _partial) hold for all "
            "images / traces / dirty tries / failing writes / histories in the Lean model of the chain database, its recovery and its writers as written "
            "(prefix_* theorems document the two crash windows and the lock leak of the tree before the fix commits). Every run re-proves them, "
            "records the real write log of generated histories, checks that the writer model reproduces it event by event and that Model.recover equals the "
            "outcome of the real NewBlockChain on EVERY prefix, judges every prefix directly against the property, and injects a failure into every write.",
    "note": GEN + " Found and fixed through this check (fix commits 141a732, 130fc0e, deec78d, 69e8ea6; the writer model follows 3f14ce8: insert cleans the index inside its batch): reorg re-pointed the head markers before the incoming "
            "block's batch (reopen panicked), insert wrote the canonical number before LastBlock (index disagreed for one write), trie.Database.Commit "
            "leaked its read lock when a preimage flush failed; the prefix_* theorems document the pre-fix windows.",
}

ENABLED = True
GEN = ("Trusted: Lean kernel (axioms propext/Classical.choice/Quot.sound only, audited each run), the hand-written model's fidelity as "
       "validated by the correspondence run, the Go harness and the T-gen dump; crypto primitives (header hashes are opaque values computed by the real code), "
       "math/big and the Go runtime are modelled not verified.")
CFG = {
    "lean": "Aqv.Props.C13",
    "exe": "aqmodel_c13",
    "harness": "c13",
    "gen": ["params", "pow", "translated", "exemptions"],
    "overlay": ["consensus/aquahash/access.go"],
    "trivial_outputs": ["panic"],
    "min_cases": 20000,
    "timeout": {"quick": 900, "thorough": 3000},
    "rule": "difficulty: real aquahash.CalcDifficulty on all six built-in configurations and random fork maps (ordered, colliding, late-era-only, with HF10) at "
            "parent heights fork-3..fork+2 of every fork, time deltas on both sides of 10 s steps, the 180/240 s limits and the -99 clamp, parent difficulties at "
            "minimum-1/minimum/minimum+1, divisor multiples, 0, negative; verifyHeader (overlay accessor, uncle flag) on mostly-valid candidates with each field at / "
            "just inside / just outside its bound (extra 31/32/33, time parent-1..+1000 and clock +-1000 s, uncle times up to 2^256, gas limit parent +- parent/1024 (+-1), "
            "4999/5000/5001, 2^63-1/2^63, used = limit+-1, difficulty +-1, number +-1) singly and in random combinations; public VerifyHeader over an in-memory chain "
            "reader (known header, missing parent/grandparent, wrong number); VerifyHeaders on batches of 1..40 headers with injected faults under GOMAXPROCS 1,2,3,4,8,16 "
            "with and without jitter, compared with one-by-one VerifyHeader+insert; VerifyUncles on generated block trees (side blocks at depth 1..9, duplicates, ancestors, "
            "invalid, far-future, orphan, exemption-keyed uncles, 0..3 uncles, shallow histories, heights around HF5 and 15000; uncles re-offered across a version fork); header timestamps 2^64*k + t (plausible low 64 bits) for non-uncle headers through verifyHeader, VerifyHeader, VerifyHeaders, InsertHeaderChain and InsertChain; the real HeaderChain.ValidateHeaderChain / BlockChain.InsertHeaderChain / InsertChain on a real chain (memory DB) with linked batches and non-contiguous ones (item i re-pointed at a known sibling of item i-1 for i = 1 and i >= 2, at an ancestor, at an unknown hash; number gap; swapped order) - a refused batch must leave nothing behind; batches that start with already imported blocks (1-3 canonical, a known side block, known + valid new) followed by a block with a valid body whose header violates exactly one rule: the error must come at that item's index and it must be neither stored nor head; offer histories (valid blocks offered before their parent, after a failed sibling, repeatedly, then in order): the verdict must be the engine's verdict on (block, parent chain). Non-trivial = a case the real code did not panic on.",
    "tie": {"params.isForked, (*ChainConfig).IsHF / GetHF, aquahash.calcDifficultyStarting / calcDifficultyHF1 (mini-translator)": "translated (go/ssa -> Lean on every run; isHF_code_is_model, calcDifficulty_homestead_code_is_model) + corr",
            "params fork maps / difficulty, gas-limit, extra-data constants": "gen (value dump of package params)",
            "aquahash.maxUncles, maxUnclesHF5, allowedFutureBlockTime": "gen (value dump of package aquahash)",
            "calcDifficultyHFX/Starting/HF1/Grandparent": "corr (aquahash.CalcDifficulty vs Model.calcDifficultyHFX) + Spec judgement (difficultySpec)",
            "(*Aquahash).verifyHeader": "corr (overlay accessor vs Model.verifyHeader) + Spec judgement (headerRule)",
            "(*Aquahash).VerifyHeader": "corr (vs Model.verifyHeaderEntry)",
            "(*Aquahash).VerifyHeaders / verifyHeaderWorker": "corr (observed result sequence vs Model.verifyHeadersBatch) + Spec judgement (one-by-one first failure), schedules by GOMAXPROCS/jitter",
            "(*Aquahash).VerifyUncles": "corr (vs Model.verifyUncles) + Spec judgement (UnclesValid)",
            "VerifyUncles' eight hard-coded exemptions and the 15000 threshold": "gen (go/ast over consensus.go, go/extract/exemptions -> Aqv.Gen.UncleExemptions; pinned to the model's table by gen_exemptions_are_the_models)",
            "(*HeaderChain).ValidateHeaderChain / (*BlockChain).InsertHeaderChain": "corr (vs Model.validateHeaderChain = linkage pre-check + batch) + Spec judgement (one-by-one; nothing stored on refusal); the pre-check is what establishes BatchOk.contiguous (validateHeaderChain_establishes_contiguity)",
            "(*BlockChain).InsertChain (linkage pre-check of insertChain2)": "direct judgement on the real code (the offending item and its successors are never stored / never head)"},
    "assumptions": ["time.Now() is a parameter of the model; generated timestamps keep >= 1000 s from the 15 s edge except in the clock-edge sub-test, which uses the harness' own reading with 3 s slack",
                    "header hashes are opaque values computed by the real code (Header.Hash under the version selected by height); hash collision-freedom between stored and batch headers is an explicit hypothesis of batch_equals_sequential",
                    "the chain reader is closed under parents (a known header has a known parent/grandparent) - hypothesis BatchOk.closed, true of a chain database",
                    "the fake-seal engine replaces VerifySeal (property C14); FAKEPOWTEST must not be set",
                    "Go runtime, math/big modelled not verified (DESIGN.md 2.5)"],
    "trusted_base": ["Model.Consensus mirrors consensus/aquahash/consensus.go (verifyHeader, VerifyHeader, verifyHeaderWorker, the VerifyHeaders coordinator goroutine, VerifyUncles) and difficulty.go",
                     "tools/gen_params.py + go/overlay/params/dump_test.go, go/overlay/consensus/aquahash/dump_test.go (T-gen)"],
}
META = {
    "technique": "Lean 4 proofs (verifyHeader = the statement's rule list incl. int64/uint64 arithmetic; calcDifficultyHFX = era-by-era formula for all ordered fork maps, >= era minimum, resets; "
                 "VerifyUncles = declarative uncle rules; VerifyHeaders coordinator emits in order for every completion order and equals one-by-one verification) over regenerated constants/fork maps, "
                 "tied to consensus/aquahash by differential correspondence on boundary lattices",
    "text": "Theorems verifyHeader_iff, verifyHeader_reports_first_violation, difficulty_spec(_builtin), difficulty_ge_min(_builtin), difficulty_reset, verifyUncles_iff_partial, verifyUncles_iff_with_exemptions (all heights), uncle_limit_depends_on_block_number_only, "
            "coordinator_complete/prefix, batch_equals_sequential hold for all inputs of the Lean model of consensus/aquahash; gen_constants_are_the_statements / gen_schedules_of_record / "
            "builtin_schedules_ordered re-check the regenerated Go constants and fork maps every run; the real CalcDifficulty, verifyHeader, VerifyHeader, VerifyHeaders (GOMAXPROCS 1..16) and "
            "VerifyUncles are run on >30k boundary cases per run and must agree with the model and with the Spec.",
    "note": GEN + " verifyUncles_iff is partial (hard-coded historic exemptions below height 15009, uncle timestamps >= 2^64): both gaps are proved as witnesses and recorded as known findings.",
}

GEN = ("Trusted: Lean kernel (axioms propext/Classical.choice/Quot.sound only, audited each run), the hand-written model's fidelity as "
       "validated by the correspondence run, the Go harness; crypto primitives, math/big and the Go runtime are modelled not verified.")
CFG = {
    "lean": "Aqv.Props.C11",
    "exe": "aqmodel_c11",
    "harness": "c11",
    "rule": "byte strings: exhaustive over a 17-symbol boundary alphabet up to length 4 (quick) / 5 (thorough), random nested items "
            "with their encodings, 6 mutations each, truncations, trailing bytes, long-form size boundaries; typed targets (uints, big, "
            "bytes, arrays, structs with nil/tail/- tags, pointers, interfaces, RawValue, Header, Transaction, Block, Receipt, Log, Account) "
            "judged directly: decode(encode v)=v and decode ok => re-encoding equals the input. Non-trivial = the real decoder accepted "
            "the input (distinct inputs counted).",
    "tie": {"rlp.DecodeBytes/Stream into interface{}": "corr (Go vs Model.Rlp.dec)", "rlp.EncodeToBytes of items": "corr (Go vs Model.Rlp.enc)",
            "rlp.Split": "corr", "typed decoders": "direct Spec judgement on the real code (round trip + canonicity)"},
    "assumptions": ["Go runtime, math/big and the cryptographic primitives are modelled, not verified (DESIGN.md 2.5)",
                    "allocation bound is argued from the model (decoded content length = input length); Go's make() sizes are not observed"],
    "trusted_base": ["Model.Rlp mirrors rlp/encode.go puthead/encodeString and the canonical-size rules of rlp/decode.go readKind/readUint and rlp/raw.go"],
}
META = {
    "technique": "Lean 4 proof (round trip + canonicity of the RLP model, unbounded) tied to rlp/ by differential correspondence",
    "text": "Theorems dec_enc, enc_dec, one_encoding_per_value, enc_injective hold for all items/byte strings in the Lean model of the RLP "
            "encoder and strict decoder; every run re-checks them and runs the real rlp package and the compiled model on the same >100k inputs "
            "(exhaustive small scope + random + mutations) requiring identical accept/reject and values; typed targets incl. all consensus types "
            "are judged directly against the round-trip/canonicity statement.",
    "note": GEN + " Typed (reflection-driven) decoders are not modelled in Lean yet: for them the property is judged on the real code per input (exploration strength), stated in the evidence.",
}

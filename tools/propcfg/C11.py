GEN = ("Trusted: Lean kernel (axioms propext/Classical.choice/Quot.sound only, audited each run), the hand-written model's fidelity as "
       "validated by the correspondence run, the Go harness; crypto primitives, math/big and the Go runtime are modelled not verified.")
CFG = {
    "lean": "Aqv.Props.C11",
    "gen": ["translated"],
    "exe": "aqmodel_c11",
    "harness": "c11",
    "race": True,   # thorough tier builds the harness with -race (concurrent first-use section; HEAD is race-clean)
    "rule": "byte strings: exhaustive over a 17-symbol boundary alphabet up to length 4 (quick) / 5 (thorough), random nested items "
            "with their encodings, 6 mutations each, truncations, trailing bytes, long-form size boundaries; every such input also through the "
            "Stream entry point and DecodeBytes with the error kind against the Go-shaped Stream machine (sdec), and the Stream "
            "primitives Uint/Bool/Bytes/Raw/Kind on strings up to length 3, all single bytes and mutated encodings (sprim); a size-field lattice (headers B8..BF/F8..FF with sizes 2^k-j..2^k+j, k=6..64, j<=20, 0..3 payload bytes, standalone and as the "
            "last element of a short list: 38 368 inputs) through DecodeBytes, Stream, Split, SplitString, SplitList, CountValues and the list walk; "
            "120 (quick) / 1200 (thorough, -race) rounds of concurrent "
            "first use of never-seen struct types (12-36 mixed fields with nested fresh structs behind slices/pointers, every 10th round 300 distinct "
            "nested types) by 16/32/64 start-gated goroutines. Typed targets (uint8..64, "
            "bool, big, bytes, string, [1]byte, [][1]byte, [20]byte, []uint16, [3]uint16, structs with nil/tail/- tags, byte arrays "
            "[0]..[33], nested struct with pointer/RawValue/interface, rlp:\"nil\" over every element kind, plain pointers of every "
            "element kind incl. nil (encode only), **T nil, Header, Transaction, Log, Receipt, Account, Block): per target 300 (quick) / "
            "8000 (thorough) generated values, each with its canonical encoding and 6 mutations, plus every string up to length 3 over "
            "the alphabet; every such input is decoded by the real typed decoder AND by the Lean typed decoder decTy (line kind tdec, "
            "decoded value compared as an item), every generated value is encoded by the real encoder and by encTy (tenc); in addition "
            "the real code is judged directly: decode(encode v)=v and decode ok => re-encoding equals the input. Non-trivial = the real "
            "decoder accepted the input (distinct inputs counted).",
    "tie": {"rlp.headsize (mini-translator; rlp.intsize is a loop: refused, explicit parameter)": "translated (go/ssa -> Lean on every run; headsize_code_is_model) + corr",
            "rlp.DecodeBytes/Stream into interface{}": "corr (Go vs Model.Rlp.dec)",
            "rlp.Stream (Kind, readKind, readUint, readFull, readByte, willRead, Bytes, List, ListEnd, decodeInterface/decodeListSlice) "
            "through NewStream(r,len)+Decode+second Decode and through DecodeBytes":
                "corr WITH error kinds (Go vs the Go-shaped machine Model.RlpStream, line kind sdec) + proof stream_refines (machine = Model.Rlp.dec)",
            "Stream.Uint/Bool/Bytes/Raw/Kind on a fresh stream": "corr with error kinds (line kind sprim); refinement proved for uint/Bool "
                "(stream_refines_typed_partial, stream_uint64_top: = Rlp.readUint/readBool of Model.RlpTyped on every ready state) and Bytes (stream_refines_typed_bytes, stream_bytes_top), not yet for Raw", "rlp.EncodeToBytes of items": "corr (Go vs Model.Rlp.enc)",
            "rlp.Split": "corr (Go vs readHead-based outSplit, line kind split)",
            "rlp/raw.go readKind/readSize/Split/SplitString/SplitList/CountValues":
                "corr with error kinds and an explicit panic outcome (Go vs the Go-shaped Model.RlpRaw, line kinds rsplit / cv) + proofs split_total, countValues_total, "
                "split_spec, countValues_spec, dec_list_split (Go-shaped model = readHead-based shallow reader; dec-level facts transfer)",
            "rlp/typecache.go cachedTypeInfo/cachedTypeInfo1 (placeholder visible only under the write lock)":
                "direct Spec judgement: concurrent FIRST use of run-time generated types (reflect.StructOf) by 16-64 goroutines, no panic and every "
                "result equals the sequential one; thorough tier under -race",
            "typed decoders (decodeUint, decodeBigInt, decodeBool, decodeString/ByteSlice, decodeByteArray, decodeListSlice/Array, "
            "struct decoder incl. tail, makePtrDecoder, makeOptionalPtrDecoder, decodeRawValue, decodeInterface)":
                "corr (Go vs Model.RlpTyped.decTy through hand-written type descriptors) + direct Spec judgement (round trip, canonicity)",
            "typed writers incl. makePtrWriter nil rules": "corr (Go vs Model.RlpTyped.encTy, and vs Model.Rlp.enc through the independent specItem mapping)",
            "custom DecodeRLP/EncodeRLP of Transaction, Log, Block": "corr through the descriptor of the struct they delegate to",
            "Receipt.DecodeRLP status rule": "outside the descriptor language: inputs rejected with 'invalid receipt status' are judged directly only"},
    "assumptions": ["Go runtime, math/big and the cryptographic primitives are modelled, not verified (DESIGN.md 2.5)",
                    "allocation bound (alloc_bound) is proved for the ghost counter of the Stream machine: sum of make([]byte,size) of Bytes and the "
                    "one-byte literals over a whole run <= input length; Go's make() sizes are not observed at run time; the fixed 8-byte uintbuf and "
                    "the []interface{} element slices are not counted",
                    "type descriptors of the Go target types are written by hand in the harness (reflection order/tags are not extracted)"],
    "trusted_base": ["Model.Rlp mirrors rlp/encode.go puthead/encodeString and the canonical-size rules of rlp/decode.go readKind/readUint and rlp/raw.go",
                     "Model.RlpTyped mirrors the typed decoders of rlp/decode.go and the writers of rlp/encode.go on byte strings (list extents = take/drop)",
                     "Model.RlpRaw mirrors rlp/raw.go (readKind, readSize, Split*, CountValues) over Nat with slice-bounds panics as an explicit outcome",
                     "Model.RlpStream mirrors rlp.Stream statement by statement (stack of extents, remaining/limited, cached kind/size/byteval/kinderr, ghost allocation counter)"],
}
META = {
    "technique": "Lean 4 proof (round trip + canonicity + totality of the RLP model, untyped and typed, unbounded) tied to rlp/ by differential correspondence",
    "text": "Theorems dec_enc, enc_dec, one_encoding_per_value, enc_injective, dec_total hold for all items/byte strings in the Lean model of the RLP "
            "encoder and strict decoder; stream_refines, stream_refines_reject, stream_refines_stream, stream_more_than_one_value (the Go-shaped rlp.Stream "
            "state machine with list-extent stack, input budget and sticky kinderr decodes into interface{} exactly what the strict decoder accepts, via "
            "DecodeBytes and via NewStream+Decode+EOF), alloc_bound (ghost sum of allocated buffer bytes <= input length, accepted or rejected), "
            "stream_total, stream_invariant; split_spec, countValues_spec, dec_list_split, stream_refines_typed_partial, stream_uint64_top, stream_refines_typed_bytes, stream_bytes_top; split_total, countValues_total, raw_readKind_in_bounds (the Go-shaped model of raw.go with an explicit "
            "slice-bounds panic outcome never panics and CountValues terminates); typed_dec_enc, typed_enc_dec, typed_decoded_wf, typed_one_encoding_per_value, typed_enc_injective, "
            "typed_decode_total, typed_decode_consumes hold for the model of the reflection-driven typed decoders/writers over the whole type universe "
            "(uint, big, bool, bytes, [n]byte, slices, arrays, structs with tail, pointers, rlp:\"nil\" pointers, RawValue, interface{}), which covers "
            "the shapes of Header, Transaction, Block, Receipt, Log and Account. Every run re-checks the proofs and runs the real rlp package and the "
            "compiled model on the same >500k inputs (exhaustive small scope + random + mutations), requiring identical accept/reject and values for the "
            "untyped and for every typed target; typed targets are additionally judged directly against the round-trip/canonicity statement.",
    "note": GEN + " Canonicity of rlp:\"nil\" pointers whose element is itself a pointer (or a RawValue) is excluded by Ty.canon: Go accepts both empty "
            "values there by design (typed_nil_ptr_ptr_two_encodings_witness); no type in the repository has that shape.",
}

import os

ENABLED = True

_REPO = os.environ.get("VERIF_REPO", "/repo")
# The `verif` yield hook (aqua/event/feed_verif.go, DESIGN 2.3) may or may not be present in the tree under test.
# The harness reaches it only through the accessor VerifSetYield, which exists in two overlay variants.
_HOOK = os.path.exists(os.path.join(_REPO, "aqua", "event", "feed_verif.go"))

GEN = ("Trusted: Lean kernel (axioms propext/Classical.choice/Quot.sound only, audited each run), the hand-written model's fidelity as "
       "validated by the correspondence run, the Go harness; crypto primitives, math/big and the Go runtime are modelled not verified.")
CFG = {
    "lean": "Aqv.Props.C19",
    "exe": "aqmodel_c19",
    "harness": "c19",
    "overlay": ["aqua/event/c19.go", "aqua/event/c19hook.go" if _HOOK else "aqua/event/c19nohook.go"],
    "race": True,
    "trivial_outputs": ["hang"],
    "timeout": {"quick": 600, "thorough": 3000},
    "rule": "(scope) 16 gate-scheduled rounds with 2-3 overlapping Close() calls while one tracked member's Unsubscribe is held: once any Close returned every tracked "
            "subscription must be unsubscribed (scope-close-early). (feed user) 60 real core.TxPool instances with an unbuffered TxPreEvent subscriber that calls pool.Stats()/Pending() per event, fed fresh txs, single and "
            "multiple replacements per batch; only a call that never returns (20 s watchdog) is judged (feed-user-deadlock). (TypeMux) 2500 rounds on the real event.TypeMux: 2-5 + 0-2 late receivers with type masks over int/string/float64, fast/slow/lazy/dead readers "
            "(a Post parks on a dead first receiver), 1-3 posters, Unsubscribe of first/middle/last receiver at random points, Stop during 1 in 4 rounds; judged by the "
            "Spec (duplicate, lost, late, api, deadlock). (Feed) scheduled runs of the real event.Feed: per round 1-5 initial + 0-2 late subscribers (channel capacity 0/1/2/4; fast, slow, lazy and "
            "never-receiving 'dead' receivers), 1-3 concurrent senders x 1-4 values, Unsubscribe at random points (incl. while a Send is blocked "
            "on that very subscriber, double Unsubscribe, Unsubscribe of a subscription still in the inbox), SubscriptionScope Track/Close, a final "
            "probe Send; schedules: plain runtime, random Gosched, priority (PCT-style) and gated perturbation at the five verif yield points in "
            "Send/remove (when the hook is present) and at the harness' call boundaries, GOMAXPROCS cycling 1/2/4/all. Each round's observable "
            "history is judged by the Spec (no loss, no duplicate, nsent = deliveries, common order, no placement after Unsubscribe returned, "
            "termination) in Go and by the Lean acceptor; internal state at quiescence is compared with the model. Every tier also rebuilds the "
            "harness with -race and runs a 10 s (thorough 60 s) child: fresh zero-value Feeds with first Send || first Subscribe || first Send, fresh "
            "SubscriptionScopes with Track || Close || Count, and scheduled rounds; a race-detector report is a violation of kind data-race. Non-trivial = a round that ran to "
            "completion (distinct histories counted).",
    "tie": {"Feed.Send / Feed.remove / Feed.Subscribe": "corr (trace validation: observed histories of the real code judged by the Spec that the model "
                                                         "is proved to satisfy; never compares two runs)",
            "f.sendCases / f.inbox at quiescence": "corr (overlay accessor vs model theorem quiescent_membership)",
            "SubscriptionScope.Track/Close/Count": "model Aqv.Model.Scope (theorems scope_*) + direct judgement on the real code (kinds late, api)",
            "feedSub.Unsubscribe (errOnce)": "direct Spec judgement on the real code (model: one remove per subscription)",
            "TypeMux.Subscribe/Post/Stop/del/posdelete, TypeMuxSubscription.Unsubscribe/closewait/deliver": "corr (trace validation against the Spec the Mux model is proved to "
                                                                                                   "satisfy; heap-of-arrays model, in-place compaction refuted by mux_inplace_delete_witness)",
            "core.TxPool.add/promoteTx -> txFeed.Send under pool.mu": "direct judgement on the real pool (feed-user-deadlock) + model FeedUser (async Send never deadlocks; sync witness)",
            "data races (first use of f.etype, once.Do(init), scope map)": "race detector on the real code in every tier (obligation named by etype_write_requires_mu)",
            "yield points": "verif hook present: %s" % _HOOK},
    "assumptions": ["Go runtime semantics are modelled, not verified: channel operations, reflect.Select choosing some ready case, sync.Mutex, sync.Once; "
                    "the Go memory model is not represented, so data races are outside the theorems (a -race child runs in every tier; the thorough tier runs the whole harness under -race)",
                    "one model step = code between two interleaving points (channel/lock operations); a subscription = one distinct channel, one remove per subscription",
                    "liveness (send_terminates/remove_terminates) is proved for executions satisfying Aqv.Feed.Fair: weak fairness per goroutine, no channel "
                    "stays forever subscribed and unable to accept a value, and a goroutine blocked on <-f.sendLock does not wait forever while the token "
                    "recurs (Go: FIFO wait queue of a channel); no assumption on which ready case reflect.Select picks"],
    "trusted_base": ["Model.Feed mirrors aqua/event/feed.go Send/remove/Subscribe step by step (index arithmetic of deactivate/delete included)",
                     "Model.Mux mirrors aqua/event/event.go (one type per subscription in the model; slices as (array,len) over a heap)",
                     "the harness' global log orders events consistently with real time (mutex-protected append)"],
}
META = {
    "technique": "Lean 4 proof (invariants of a small-step model of Feed over ALL interleavings) tied to aqua/event by trace validation of scheduled runs",
    "text": "Theorems cases_is_active_prefix, exactly_once, at_most_once, nsent_correct, common_order, channel_fifo, no_delivery_after_unsubscribe, placement_only_to_subscribers_during_send, "
            "never_panics, token_exclusive, quiescent_membership hold for every reachable state of the Lean transition system of Feed (any number of "
            "senders, subscribers, removers, receivers); send_terminates / remove_terminates hold on every infinite fair execution (weak fairness per "
            "goroutine, receivers keep receiving, fair hand-off of the sendLock token; nothing assumed about which ready case reflect.Select picks); "
            "scope_close_unsubscribes_all, scope_track_after_close_returns_nil, scope_count_after_close_zero hold for the SubscriptionScope model; "
            "mux_exactly_once, mux_at_most_once, mux_no_delivery_after_unsubscribe_returned, mux_post_after_stop_fails hold for the TypeMux model (fresh arrays) and "
            "mux_inplace_delete_witness refutes in-place compaction; every run re-checks them and drives the real event.Feed through thousands "
            "of perturbed schedules whose observed histories must satisfy the same Spec (judged in Go and by the compiled Lean acceptor).",
    "note": GEN + " Data races and scheduler fairness are runtime matters: a -race sub-run is part of every tier; liveness is proved relative to the explicit fairness assumptions (Aqv.Feed.Fair).",
}

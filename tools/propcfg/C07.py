ENABLED = True
GEN = ("Trusted: Lean kernel (axioms propext/Classical.choice/Quot.sound only, audited each run), the hand-written model's fidelity as "
       "validated by the correspondence run, the Go harness; crypto primitives, math/big and the Go runtime are modelled not verified.")
_TRIV = ["t-ok", "t-revert", "t-fail-outOfGas", "t-fail-invalidOpcode", "t-fail-stackUnderflow", "t-fail-stackLimit", "t-fail-execError",
         "t-fail-insufficientBalance", "t-fail-depth", "t-fail-collision", "t-fail-gasUintOverflow", "t-fail-writeProtection",
         "t-fail-codeStoreOutOfGas", "t-fail-maxCodeSize"]
CFG = {
    "lean": "Aqv.Props.C07",
    "exe": "aqmodel_c07",
    "harness": "c07",
    "gen": ["vmflags", "translated"],
    "overlay": ["core/vm/c07_access.go"],
    "trivial_outputs": _TRIV,
    "timeout": {"quick": 900, "thorough": 5400},
    "rule": "byte code run on the real vm.EVM (Call/CallCode/StaticCall/Create, real core/state.StateDB, own vm.Tracer): 45% structured programs "
            "(stack-neutral snippets: arithmetic, memory/copy/SHA3/LOG with small and 2^256-sized offsets/lengths, SSTORE/SLOAD, CALL-family to "
            "contracts / self / empty / non-existent accounts / every precompile with all gas|0|huge gas and 0|1|huge value, CREATE with 12 init-code "
            "shapes incl. oversized code and nested CREATE, counted loops, jumps over junk, endings STOP/RETURN/REVERT/INVALID/SELFDESTRUCT/"
            "truncated PUSH/jump into data), 25% adversarial templates (self-recursion through CALL/CALLCODE/DELEGATECALL/STATICCALL, "
            "write-then-fail recursion, CREATE loops, stack overflow loop, memory bomb, precompile with calldata, value-bearing calls then REVERT/INVALID, "
            "SELFDESTRUCT at depth, 2^256 operands on every memory opcode), 10% random bytes, 8% random opcodes, 12% direct precompile calls "
            "(incl. modexp-shaped inputs with huge lengths); gas from a boundary lattice, uniform and log-uniform up to the block limit, plus 2^41..2^43 "
            "for self-recursion (the only way to reach depth 1025 under the 63/64 rule); five rule sets (homestead / homestead+HF1 gas / byzantium / "
            "HF5-before-HF7 / spring); plus arity probes: every opcode byte x stack heights 0..8 (0..18 for DUP/SWAP) x 5 rule sets with zero/small/huge "
            "operands (~8 200 runs); plus a precompile lattice (16 472 direct calls): addresses 1..9 x 5 rule sets, modexp headers = all 729 "
            "combinations of baseLen/expLen/modLen in {0,1,32,2^16,2^26,2^31,2^62,2^64-1,2^255} with/without data, 0..1 MiB real inputs, gas 0 / "
            "required-1 / required / plenty, with the heap allocation of the call measured (TotalAlloc delta) and bounded by 1 MiB + 256 B x gas charged. Non-trivial = at least 3 interpreter steps executed.",
    "tie": {"core/vm.toWordSize, memoryGasCost, precompile RequiredGas (7 contracts), gasBalance/gasExtCodeSize/gasSLoad (mini-translator)": "translated (go/ssa -> Lean on every run; toWordSize_code_is_model, memoryGasCost_code_refines_model for requests <= 0x1fffffffe0 bytes, precompile_requiredGas_code_is_model, gasTableReads_code_is_model) + corr",
            "core/vm/jump_table.go (5 instruction sets), params gas tables and constants, precompile address sets, NewInterpreter/Rules selection":
                "gen (values dumped from the compiled program; enumerations of gas/memory/execute functions the model must match exhaustively)",
            "instructions.go / gas_table.go / memory_table.go stack accesses (pop, peek, Back, dup, swap, data[len-k]) and memory accesses "
            "(Memory.Get/GetPtr/Set, store[i]) of every execute, gas and memory-size function":
                "gen (go/ssa pass go/extract/cmd/vmaccess over the source: needed stack height per function and dereferenced memory ranges "
                "in entry operands; every big.Int->int64/uint64 conversion with source, sinks and dominating check; refusal on any unrecognised shape; "
                "table_ok decides reads <= pops and ranges within memorySize, convs_ok/helpers_ok decide the conversion classes)",
            "Interpreter.Run, enforceRestrictions, gas_table.go (all gas functions, memoryGasCost), gas.go callGas, memory_table.go, "
            "evm.go Call/CallCode/DelegateCall/StaticCall/Create/run, opCall*/opCreate gas plumbing":
                "corr (per run: outcome class, leftover gas, step count, max depth, max memory, checksum over gas/cost/memory/depth/stack of "
                "every step; Go vs Aqv.Model.Vm.run replaying the recorded oracle)",
            "contracts.go RequiredGas of all precompiles, bigModExp header / exponent-head / early-return handling, getData":
                "corr (outcome, leftover gas, output length per lattice call vs Aqv.Model.VmPrecompile; measured allocation <= 1 MiB + 16 x modelled buffers) "
                "+ theorem modexp_alloc_bounded_by_gas",
            "instructions.go execute bodies (values, big.Int conversions other than memory operands, slices), memory.go, stack.go, contracts.go (precompiles), core/state journal":
                "direct Spec judgement on the real code (no panic, terminates, leftover ≤ given, memory paid, depth, failed-frame world "
                "equality, static world equality)"},
    "assumptions": ["Go runtime, math/big and the cryptographic primitives are modelled, not verified (DESIGN.md 2.5)",
                    "StateDB journal exactness (a snapshot restores the world value) is property C09; C07 proves that the wrappers revert to a live "
                    "revision id on every failing path and never otherwise",
                    "the address of a created contract is not a precompile address (Create dispatches on contract.CodeAddr)",
                    "Frontier rules (IsHomestead=false) are outside the property's epochs: ErrCodeStoreOutOfGas does not revert there "
                    "(theorem frontier_code_store_failure_witness)",
                    "between HF5 and HF7 STATICCALL exists but Byzantium rules are off, so static frames can write "
                    "(theorem static_unenforced_without_byzantium_witness); the property restricts the static clause to Byzantium rules"],
    "trusted_base": ["Aqv.Model.Vm mirrors core/vm Run / gas_table.go / gas.go / memory_table.go / evm.go wrappers step by step; instruction "
                     "semantics, stack and memory contents and the world are abstracted into an oracle over which the theorems quantify"],
}
META = {
    "technique": "Lean 4 proof (termination, gas and memory accounting, revert discipline, static restriction, depth bound of a generic metered "
                 "machine over the generated instruction tables, for all programs) tied to core/vm by T-gen tables and differential trace replay",
    "text": "Theorems nonhalting_costs_gas, run_terminates, gas_monotone, leftover_le_given_*, call_forwards_at_most_63_64, memory_paid*, "
            "frame_failure_reverts_call/create, static_no_write, static_call_preserves_view, writes_flag_complete, depth_le_1024, "
            "no_modelled_panic, no_modelled_panic_stack_memory, conversions_guarded, static_subtree_readonly, modexp_alloc_bounded_by_gas, precompile_alloc_bounded_by_gas, stack_reads_within_validated_height, mem_access_in_bounds hold for every oracle (program, operands, state answers), world type, gas budget and epoch in the Lean model "
            "of Run and the five call wrappers; every run regenerates the instruction tables from the compiled core/vm, re-proves, executes ~2600 "
            "programs x 5 rule sets on the real EVM under a tracer, judges the property directly per frame and replays every trace in the model.",
    "note": GEN + " The bodies of the op* execute functions and the precompiles are not modelled: for them 'does not crash' is judged on the real "
            "code per input (exploration strength), stated in the evidence.",
}

ENABLED = True
GEN = ("Trusted: Lean kernel (axioms propext/Classical.choice/Quot.sound only, audited each run), the hand-written model's fidelity as "
       "validated by the correspondence run, the Go harness and the T-gen dump; argon2id, ethash (hashimoto) and Keccak-256 themselves are assumed "
       "(the model takes them as parameters; the harness evaluates them with the real Go primitives; Keccak-256 and the header RLP are recomputed in Lean), "
       "math/big and the Go runtime are modelled not verified.")
CFG = {
    "lean": "Aqv.Props.C14",
    "exe": "aqmodel_c14",
    "harness": "c14",
    "gen": ["params", "pow", "translated"],
    "overlay": ["consensus/aquahash/access.go"],
    "trivial_outputs": ["panic"],
    "min_cases": 5000,
    "race": True,   # thorough tier: harness rebuilt with -race; a detected data race makes it exit 66 -> harness-crash -> VIOLATION
    "timeout": {"quick": 900, "thorough": 3000},
    "rule": "VerifySeal (real engine, real argon2id at 1/16/32 KiB) on random headers of versions 2-4 with difficulties 1, 0, negative, 2, 2^256-1, 2^256, 2^256+1, random; "
            "targets placed exactly on and next to the computed hash (target = H-1, H, H, H+1 by replacing the numerator N of N/difficulty through an overlay accessor after hashing - "
            "the difficulty itself is hashed, so it cannot be tuned); wrong mix digests; versions 0, 5, 255; block numbers at the 2048*30000 table bound; nonces 0, 1, 2^63, 2^64-1 and "
            "byte-order-sensitive ones (the table carries the big-endian and other-version hashes too); test-mode ethash for version 1; GetBlockVersion at heights around HF5/HF8/HF9 of "
            "all six built-in schedules and random fork maps; a seal-and-verify loop (18 s quick / 150 s thorough: threads 2,3,4,8,16, difficulty 2-4, versions 2-4, ~15-25k rounds per quick run on 16 idle cores, every returned block judged by the real VerifySeal; thorough tier additionally under the Go race detector); Header.Hash/HashNoNonce/Block.Hash/MinerHash for the version of the height and for explicit versions 0-5 (Keccak-256 and RLP "
            "recomputed in Lean); Seal with 1,2,3,4,8,16 threads at heights around the version forks, every returned seal re-verified. Non-trivial = a case the real code did not panic on.",
    "tie": {"params.(*ChainConfig).GetBlockVersion (mini-translator)": "translated (go/ssa -> Lean on every run; getBlockVersion_code_is_model) + corr",
            "aquahash.epochLength / maxEpoch / maxUint256, argon2id parameters of crypto.VersionHash": "gen (value dump of package aquahash; behavioural match against x/crypto/argon2.IDKey in package crypto)",
            "params fork maps": "gen (value dump of package params)",
            "(*ChainConfig).GetBlockVersion": "corr (vs Model.getBlockVersion over generated fork maps) + Spec judgement (versionSpec over the schedules of record)",
            "(*Aquahash).VerifySeal": "corr (vs Model.verifySeal, hash values from the real primitives) + Spec judgement (SealValid)",
            "(*Aquahash).Seal / mine": "direct judgement on the real code (every returned seal passes the real VerifySeal and the model/Spec; tens of thousands of multi-threaded low-difficulty seals per run; -race in the thorough tier); mine's loop is modelled (mineFrom, one thread) and proved sound; Seal with n threads is modelled as an interleaving system with PRIVATE seed buffers (sealStep/sealRun) and mined_seal_verifies_any_schedule holds for every schedule, shared_seed_buffer_witness shows it fails with one shared buffer - that the Go goroutines really own their buffers is what the seal-and-verify loop exercises and what the thorough tier's -race sub-run observes directly",
            "(*Header).Hash / HashNoNonce, (*Block).Hash / MinerHash / SetVersionConfig": "corr (vs Model.headerHash / hashNoNonce; RLP and Keccak-256 recomputed in Lean)"},
    "assumptions": ["argon2id (x/crypto/argon2), ethash hashimoto (light = full) and Keccak-256 are assumed; the theorems hold for every hash function",
                    "mined_seal_verifies presupposes that the block handed to Seal carries the version of its height (as miner.worker and Finalize set it): mine takes HashNoNonce before it sets header.Version",
                    "Go runtime, math/big modelled not verified (DESIGN.md 2.5)"],
    "trusted_base": ["Model.Pow mirrors consensus/aquahash/consensus.go VerifySeal, sealer.go mine, params/hf.go GetBlockVersion, core/types/block.go Hash/HashNoNonce/rlpHash/MinerHash, crypto/hash.go VersionHash",
                     "tools/gen_params.py + go/overlay/{params,crypto,consensus/aquahash}/dump_test.go (T-gen)",
                     "overlay accessor VerifSetMaxUint256 (replaces the target numerator for boundary cases only; always restored)"],
}
META = {
    "technique": "Lean 4 proofs (VerifySeal = the acceptance predicate for every hash function incl. non-positive difficulty, digest rule per version, exact target boundary; every nonce mine returns verifies; "
                 "version by height monotone with thresholds HF5/HF8/HF9; argon2id memory 1/16/32 KiB from regenerated facts) tied to consensus/aquahash, params, core/types by differential correspondence with real argon2id",
    "text": "Theorems verifySeal_iff(_general), target_boundary, mined_seal_verifies, mined_seal_verifies_any_schedule, shared_seed_buffer_witness, version_by_height, version_monotone, builtin_version_thresholds, memory_parameter, hash_uses_version, "
            "hashNoNonce_by_version hold for all inputs of the Lean model; every run re-checks them against the regenerated constants/fork maps and runs the real VerifySeal/Seal/GetBlockVersion/"
            "Header.Hash on several thousand cases (targets straddling the real argon2id hash by one) which must agree with the model and the Spec.",
    "note": GEN,
}

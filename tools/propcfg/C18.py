ENABLED = True
GEN = ("Trusted: Lean kernel (axioms propext/Classical.choice/Quot.sound only, audited each run); the T-gen extractor go/extract/cmd/rpcsign "
       "(go/packages + go/ssa + class-hierarchy call graph of x/tools v0.29.0) whose output is the table the theorems quantify over; the Go harness, "
       "the -overlay accessors and the `verif` signing-counter hook; Go runtime, reflection and the cryptographic primitives are modelled, not verified.")
CFG = {
    "lean": "Aqv.Props.C18",
    "exe": "aqmodel_c18",
    "harness": "c18",
    "gen": ["rpc", "translated"],
    "overlay": ["rpc/c18_access.go", "node/c18_access.go", "aqua/accounts/keystore/c18_access.go", "aqua/accounts/keystore/c18_hook.go"],
    "trivial_outputs": ["quiet", "-"],
    "timeout": {"quick": 900, "thorough": 3600},
    "rule": "real node.Node + aqua service (in-memory chain, keystore with an unlocked, a locked and an unknown account) started in one child process per "
            "combination of the five UNSAFE_* variables (32), on inproc/IPC/HTTP/WS, for module configurations {public only, every namespace white-listed, "
            "WSExposeAll} and both engine kinds (aquahash, clique). X/M cases: the exact set of callbacks in Server.services and the rpc_modules answer must "
            "equal the model's `exposed` over the generated table. S cases: every exposed method is called through a real client of the transport with "
            "arguments naming the accounts (right/wrong/empty passphrase, null pointers); a keystore signature is observed by the verif counter (when the "
            "hook is in the tree) and always by name-independent evidence (65-byte signature recovering to a keystore account, signed raw transaction, "
            "keystore-signed transaction appearing in the pool, keystore-sealed block). Non-trivial = a call on which a signing entry point was entered.",
    "tie": {"rpc.isProtectedMethodName (mini-translator)": "translated (go/ssa -> Lean on every run; isProtectedMethodName_code_is_model, pow_signers_are_protected_by_code)",
            "rpc.isProtectedMethodName": "gen (string constants translated; refused unless a pure disjunction) + corr (exposed sets)",
            "rpc.(*Server).RegisterName": "gen (caller-suffix flag table, filter shape) + corr (exposed sets under all 32 environments)",
            "node.(*Node).startInProc/startIPC/startHTTP/startWS": "gen (registrars of RegisterName) + corr (exposed sets under three module configurations)",
            "node.(*Node).apis, aqua.(*Aquachain).APIs, aquaapi.GetAPIs, engine.APIs": "gen (rpc.API literals reachable from startRPC) + corr (exposed sets)",
            "rpc.suitableCallbacks": "gen (criteria re-implemented over go/types) + corr (exposed sets, exact)",
            "keystore.(*KeyStore).Sign*": "gen (entry points = exported methods calling crypto.Sign/types.SignTx; reachability by SSA+CHA) + corr (dynamic signs must be inside static reachesSign)",
            "aqua.CreateConsensusEngine": "gen (clique constructed only under chainConfig.Clique != nil) + corr (pow and clique nodes both swept)"},
    "assumptions": ["reachesSign is a class-hierarchy over-approximation of the call graph (sound up to reflection/unsafe/cgo, none of which occur on the paths); "
                    "for pow nodes the methods of the clique engine are removed because its only constructor call is guarded by chainConfig.Clique != nil",
                    "a signature is 'produced by a keystore key' when it goes through an exported *KeyStore method calling crypto.Sign/types.SignTx; the extractor "
                    "refuses the tree if any other keystore function calls those primitives",
                    "EnvBool parsing of the variable values is exercised (several spellings) but not modelled: Env is the truth value package rpc read"],
    "trusted_base": ["Model.Rpc mirrors RegisterName's filter loop, the start functions' module gating and CreateConsensusEngine's engine choice; "
                     "Gen.Rpc is produced by go/extract/cmd/rpcsign from the tree under test on every run"],
}
META = {
    "technique": "Lean 4 proof over a method table regenerated from the source (go/ssa + CHA reachability), tied to the running node by a differential harness",
    "text": "no_signing_unless_opted_in(_raw/_nonclique/_anychain/_builtin_networks), empty_value_is_off, default_env_exposes_no_signer, opt_in_is_per_transport, only_the_opted_transport_signs, opt_in_enables are proved by "
            "kernel evaluation over the regenerated table of every registered RPC method; every run regenerates the table, re-proves them, starts the real node "
            "under all 32 environments on all four transports, requires the registered callbacks to equal the model's exposed sets and calls every method "
            "observing keystore signatures directly.",
    "note": GEN + " On clique (proof-of-authority) chains the miner-starting methods reach block sealing with the keystore key without any opt-in; this is "
            "recorded as a known finding (no_signing_unless_opted_in_anykind_partial / clique_sealing_witness).",
}

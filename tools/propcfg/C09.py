import os
ENABLED = os.environ.get("C09_DEV") == "1"   # flipped to True when finished
GEN = ("Trusted: Lean kernel (axioms propext/Classical.choice/Quot.sound only, audited each run), the hand-written model's fidelity as "
       "validated by the correspondence run, the Go harness; crypto primitives, math/big and the Go runtime are modelled not verified.")
CFG = {
    "lean": "Aqv.Props.C09",
    "exe": "aqmodel_c09",
    "harness": "c09",
    "overlay": ["core/state/c09_access.go"],
    "trivial_outputs": ["panic"],
    "timeout": {"quick": 600, "thorough": 3000},
    "rule": "placeholder",
    "tie": {},
    "assumptions": [],
    "trusted_base": [],
}
META = {
    "technique": "Lean 4 proof about a model of the journalled StateDB tied to core/state by differential correspondence",
    "text": "placeholder",
    "note": GEN,
}

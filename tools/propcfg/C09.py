import os
ENABLED = True
GEN = ("Trusted: Lean kernel (axioms propext/Classical.choice/Quot.sound only, audited each run), the hand-written model's fidelity as "
       "validated by the correspondence run, the Go harness; crypto primitives, math/big and the Go runtime are modelled not verified.")
CFG = {
    "lean": "Aqv.Props.C09",
    "exe": "aqmodel_c09",
    "harness": "c09",
    "overlay": ["core/state/c09_access.go"],
    "gen": ["statejournal"],
    "trivial_outputs": ["panic"],
    "timeout": {"quick": 900, "thorough": 6000},
    "rule": "one case = one history on the real state.StateDB over state.NewDatabase(MemDatabase): 272 directed histories (the interleavings named "
            "in the property record: revert across self-destruct of a re-created account, suicide/finalise/re-create/revert, RIPEMD touch, storage "
            "set/clear, CreateAccount balance carry-over, copy independence, refund wrap-around, nested log/preimage reverts) with random "
            "continuation + 1800 random histories of 10-60 actions (thorough: 2400 + 60000, up to 80) drawn from create, add/sub/set balance, "
            "set nonce, set code, set/clear storage, self-destruct, touch, log, refund, preimage, Prepare, snapshot, revert to any live id, "
            "Finalise/IntermediateRoot/Commit with per-history uniform or mixed delete-empty flag, Reset/reopen at any committed root, Copy, "
            "opening further instances at a committed root over the same state.Database (up to 3 live instances, rotated and interleaved), net-effect replay; value lattice 0,1,2^64-1,2^64,2^255,2^256-1; a malformed stream (dead revert ids, overdrafts, "
            "negative amounts, use after Commit); 35% of the histories are 'cold-cache' (getters read only at Finalise/IntermediateRoot/Commit/end, so "
            "values never read through the StateDB stay uncached). After every action (cold: at the checkpoints) every getter of 5 accounts x 3 slots, refund, logs, preimages, the dirty "
            "set, callback flags and journal/revision lengths are compared with the Lean model; the real code is judged directly (J1 revert "
            "restores the recorded view, J2 root = root of a plain trie built from the reported content, J3 reopen/Reset read back, J4 copy "
            "reads back and every live instance is unchanged by what the others did, J7 an untouched reopened instance reads its root's content and returns its root, J6 the history with reverted segments erased gives the same view and root). Non-trivial = the "
            "history did not end in a panic (distinct histories counted).",
    "tie": {"StateDB mutators, journal undo, Snapshot/RevertToSnapshot, Finalise, IntermediateRoot, Commit, Copy, Reset, New": "corr (Go vs Model.State, getters + dirty set + callback flags + journal length after every action)",
            "journal append / raw setter call-site inventory of core/state": "gen (go/ast dump -> Aqv.Gen.StateJournal, theorem journalled_mutators_as_modelled)",
            "state root": "corr, byte-exact: at every IntermediateRoot/Commit/net-effect replay the driver recomputes stateRootSpec (C10 mptRoot + C11 account RLP + Lean Keccak-256) from the model content and compares it with the 32-byte root Go returns; plus content classes (equal content <=> equal root) and a direct Go judgement against a plain trie.Trie"},
    "assumptions": ["account and storage tries are abstracted to total maps in Model.State; the concrete root is stateRootSpec (Model.StateRoot) and root_eq_spec_state composes C09 with C10 root_eq_spec_run for every hash function that is injective on the finitely many secure-trie keys involved (explicit hypothesis KeysOK)",
                    "code is identified with its Keccak hash (collision freedom on the codes involved); the read caches (stateObjects fill on read; with it code and storage content) are explicit in Model.StateCache: read_cache_transparent proves the fill invisible to getters, Copy and Finalise, and the driver mirrors the harness' reads (presence flag per tracked address compared)",
                    "a StateDB is not used after Commit without Reset/New (every caller in /repo resets; commit_reuse_loses_write_witness shows what happens otherwise)",
                    "independence of a Copy from the original is a statement about aliasing in the Go heap: judged on the real code by the harness (J4), trivial in the value-semantics model",
                    "Go runtime, math/big and the cryptographic primitives are modelled, not verified (DESIGN.md 2.5)"],
    "trusted_base": ["Model.State mirrors core/state/statedb.go, state_object.go, journal.go function by function (see the header of lean/Aqv/Model/State.lean)",
                     "go/overlay/core/state/c09_access.go (read-only accessors for the dirty set, callback flags, trie leaves, journal length)"],
}
META = {
    "technique": "Lean 4 proof (journal undo / revert exactness by induction over arbitrary nested histories, cache invariant => root commits to content) about a model of the journalled StateDB, tied to core/state by differential correspondence and a regenerated journal inventory",
    "text": "Theorems over the Lean model of core/state (all histories, no bounds): revert_exact (any nesting of snapshots and any interleaving of the "
            "11 journalled mutators; every getter, refund, logs, preimages, journal and revision stack restored) and its reachability version, "
            "journal_complete, finalise_perm_invariant (Go map order), root_content_only / root_history_independent (after IntermediateRoot/Commit "
            "the trie holds exactly the content the getters report), root_eq_spec_state (the real tries hash to the specification's Merkle-Patricia root of the reported content: C10 mptRoot over RLP-encoded "
            "accounts, any hash function injective on the keys), reopen_reads_back, copy_independent, reopened_instances_independent, read_cache_transparent (reads only fill the object cache; Copy and "
            "Finalise with either flag cannot see it), and the _partial form of "
            "revert_exact_through_finalise with the excluded set explicit. Four defects of the code as written are proved as concrete witness "
            "theorems (F1 reverted write leaves the account dirty, F2 reverted touch disarms dirty tracking and loses later writes, F3 mixed "
            "delete-empty flags re-insert a deleted account, F4 the deliberate RIPEMD exception) and are re-found on the real code on every run as "
            "known findings. Every run re-proves the theorems, regenerates the journal inventory from the source, and replays >2000 histories "
            "(>60 000 actions) on the real StateDB and the compiled model with identical observations required after every action.",
    "note": GEN + " The full statement revert_exact_through_finalise is FALSE for the code as written (witness theorems); the partial theorem names the excluded histories. "
            "root_eq_spec_state states the concrete root (C10 mptRoot over C11-encoded accounts) under an explicit key-hash injectivity hypothesis; the driver recomputes that root with Lean Keccak on every root action.",
}

ENABLED = True
GEN = ("Trusted: Lean kernel (axioms propext/Classical.choice/Quot.sound only, audited each run), the hand-written model's fidelity as "
       "validated by the correspondence run, the Go harness; crypto primitives, math/big and the Go runtime are modelled not verified.")
CFG = {
    "lean": "Aqv.Props.C03",
    "exe": "aqmodel_c03",
    "harness": "c03",
    "timeout": {"quick": 600, "thorough": 3000},
    "trivial_outputs": ["err"],
    "rule": "one case = one history on a fresh chain: a random block tree (5-16 blocks, chainx builder: time-sensitive difficulties, "
            "shorter-but-heavier branches, deliberate exact TD ties between siblings, the same transaction mined on sibling branches), "
            "a random parent-closed arrival order split into InsertChain batches, re-deliveries, whole-ancestry batches, non-contiguous "
            "batches, SetHead to random heights followed by re-imports, Stop+reopen; archive / pruning (small TrieNodeLimit, "
            "TrieTimeLimit) / header-first (InsertHeaderChain on a second chain instance). After EVERY call the database is read back "
            "through the public accessors (GetCanonicalHash 0..max+2, GetTd, GetTxLookupEntry/GetTransaction/GetReceipt of every "
            "transaction of the tree, GetBlock/GetHeader/GetBody/GetReceiptsByHash, head pointers, state availability; every node also BY HASH — GetHeaderByHash/GetBlockByHash/GetBody/GetTdByHash/HasHeader/HasBlock must agree with the (hash, number) accessors, and nodes are queried by hash BEFORE they are imported: queries are pure) and (a) judged "
            "directly against the statement of C03, (b) compared field by field with the Lean model replaying the same operations "
            "(coin resolutions followed per import: all up to 6 block calls / 8 headers, beyond that every resolution with at most 3 heads — proved complete for <= 3 exact ties, coin_enumeration_complete / coin_only_read_at_tie; an outcome outside is reported as too-many-ties; filtered by the observed state). 35% of the trees are 'race' trees (long light branch, "
            "shorter heavier branch) so that reorganisations to a SHORTER chain are frequent; 33 MIXED histories per run feed one chain through InsertChain and InsertHeaderChain (replayed on the composed "
            "model XSt, full dump compared; incl. directed 'shorter heavier header fork, then the block chain is extended' and random block-head extensions after header batches); directed successive rewinds on a restarted pruning node (rewind onto a stateless block, then deeper); one extra history per run imports 138 "
            "blocks on a pruning node with the default-sized cache (state garbage collection during import) and is judged directly "
            "only. The driver also checks the World hypothesis of the theorems (positive difficulty, no transaction twice along a chain) "
            "on every generated tree. Non-trivial = every history (each performs imports).",
    "tie": {"BlockChain.WriteBlockWithState / insert / reorg": "corr (Go vs Model.Chain.writeBlockWithState)",
            "insertChain2 classification incl. ErrKnownBlock, ErrPrunedAncestor side-chain branch": "corr (Model.Chain.importOne)",
            "BlockChain.SetHead + HeaderChain.SetHead": "corr (Model.Chain.setHead / hSetHead)",
            "HeaderChain.WriteHeader / InsertHeaderChain": "corr (Model.Chain.writeHeader / hImportChain)",
            "BlockChain.Stop + NewBlockChain (state availability)": "corr (Model.Chain.reopen)"},
    "assumptions": ["Go runtime, math/big and the cryptographic primitives are modelled, not verified (DESIGN.md 2.5)",
                    "only valid blocks are imported (block validity is property C01); a transaction occurs at most once along one "
                    "chain (guaranteed by nonces; checked on every generated tree)",
                    "modelled histories stay below 128 blocks (triesInMemory): trie garbage collection during import is not "
                    "modelled (state availability changes only at Stop+reopen); longer chains are judged directly on the real code",
                    "SetHead(n) is covered for ANY n: when the block it lands on has lost its state the block head deliberately stays "
                    "on a lower block with state, below the header head; the invariant GInv (index and lookups describe the chain of "
                    "the HEADER head, block/fast head on it) is kept by every operation (ginv_setHead, ginv_reachable) and the statement "
                    "is then read with the header head as 'the head' (SpecLag; equal to SpecInv when the heads coincide). Before 3f14ce8 "
                    "imports after such a rewind broke the property (former finding sethead-stateless-leaves-index, fixed)",
                    "mixed histories (InsertChain and InsertHeaderChain on one chain) are in scope: judged with the header head as 'the "
                    "head' for the number index and the block head for bodies/receipts/lookups; inv_reachable_mixed proves the index "
                    "clauses for every mixed history (former finding mixed-import-stale-numbers-above-head, fixed by 3f14ce8)",
                    "after a rewind has orphaned side-chain blocks reorg may return 'invalid new chain': inv_reachable covers the "
                    "histories in which it does not (Admissible); proved impossible without a rewind",
                    "distinct blocks have distinct state roots (every generated block has its own coinbase)"],
    "trusted_base": ["Model.Chain mirrors core/blockchain.go (insertChain2, WriteBlockWithState, WriteBlockWithoutState, reorg, insert, "
                     "SetHead, Stop) and core/headerchain.go (WriteHeader, InsertHeaderChain, SetHead) at the granularity of database "
                     "records; caches, events and the write ORDER inside one call are not modelled (crash consistency is C04)"],
}
META = {
    "technique": "Lean 4 proof (invariant of the chain-database model preserved by import, reorganisation and rewind, by induction over "
                 "arbitrary operation histories) tied to core/ by differential correspondence on random histories",
    "text": "Theorems inv_init, inv_insertBlock, inv_insertChain, inv_setHead, inv_reopen, inv_reachable, inv_reachable_imports, spec_of_inv, "
            "ginv_insertChain, ginv_setHead (no premise), ginv_reopen, ginv_reachable, spec_lag_reachable, inv_reachable_mixed, mixed_never_fails "
            "(and hinv_writeHeader, hinv_insertHeaderChain, hinv_setHead, hspec_reachable for header-first imports — unconditional since 2ee9efd; insertChain_never_panics, writeHeader_refusal_keeps_index) "
            "show that in the Lean model of BlockChain/HeaderChain the number index is exactly the ancestry of the head, nothing is indexed "
            "above it, canonical blocks are retrievable and a lookup resolves iff the transaction is canonical, after every admissible "
            "history; every run re-checks them and replays hundreds of random histories on the real chain code and on the compiled model, "
            "requiring identical database states, and judges the real state directly against the statement.",
    "note": GEN,
}

#!/usr/bin/env python3
"""gen.py <generator>...   — T-gen: regenerate lean/Aqv/Gen/*.lean from /repo's working tree (VERIF_REPO selects the tree).

Each generator dumps *values from the compiled program* (an overlay test file injected into the repo package with
`go test -overlay`, printing JSON between markers) and renders them as Lean literals. Files are rewritten only when
their content changes (keeps lake incremental). Add a generator by writing `def gen_<name>()` and registering it in GENERATORS.
"""
import sys, os, json, subprocess, re

ROOT = os.path.dirname(os.path.dirname(os.path.abspath(__file__)))
REPO = os.environ.get("VERIF_REPO", "/repo")
GEN_DIR = os.path.join(ROOT, "lean", "Aqv", "Gen")
ENV = dict(os.environ)
ENV.update({"GOFLAGS": "-mod=mod", "GOPROXY": "off"})
ENV.pop("GOSUMDB", None)
ENV.pop("GOTOOLCHAIN", None)


def write_if_changed(name, content):
    os.makedirs(GEN_DIR, exist_ok=True)
    p = os.path.join(GEN_DIR, name + ".lean")
    old = open(p).read() if os.path.exists(p) else None
    if old != content:
        with open(p, "w") as f:
            f.write(content)
        print(f"gen: {name}.lean rewritten ({len(content)} bytes)")
    else:
        print(f"gen: {name}.lean unchanged")


def go_test_dump(pkg, overlay_src, test_name, work_tag):
    """Inject go/overlay/<overlay_src> as <pkg>/zz_verif_dump_test.go, run the named test, return the JSON it prints
    between the lines VERIF-DUMP-BEGIN / VERIF-DUMP-END."""
    work = os.path.join(ROOT, ".work", "gen-" + work_tag)
    os.makedirs(work, exist_ok=True)
    ov = os.path.join(work, "overlay.json")
    dst = os.path.join(REPO, pkg, "zz_verif_dump_test.go")
    with open(ov, "w") as f:
        json.dump({"Replace": {dst: os.path.join(ROOT, "go", "overlay", overlay_src)}}, f)
    p = subprocess.run(["go", "test", "-overlay", ov, "-count=1", "-vet=off", "-run", "^" + test_name + "$", "-v", "./" + pkg],
                       cwd=REPO, env=ENV, stdout=subprocess.PIPE, stderr=subprocess.STDOUT, text=True, timeout=900)
    out = p.stdout
    m = re.search(r"VERIF-DUMP-BEGIN\n(.*?)\nVERIF-DUMP-END", out, re.S)
    if p.returncode != 0 or not m:
        print(out[-3000:])
        raise SystemExit(f"gen: dump {test_name} in {pkg} failed (rc={p.returncode})")
    return json.loads(m.group(1))


def lean_str(s):
    return '"' + s.replace("\\", "\\\\").replace('"', '\\"') + '"'


def lean_list(xs):
    return "[" + ", ".join(xs) + "]"


def lean_opt_nat(v):
    return "none" if v is None else f"(some {v})"


GENERATORS = {}


def generator(name):
    def deco(fn):
        GENERATORS[name] = fn
        return fn
    return deco


# ---------------------------------------------------------------------------------------------------------------------
# generators are defined in tools/gen_<area>.py files and imported here (each registers itself with @generator)
for _f in sorted(os.listdir(os.path.dirname(os.path.abspath(__file__)))):
    if _f.startswith("gen_") and _f.endswith(".py"):
        import importlib.util
        _s = importlib.util.spec_from_file_location(_f[:-3], os.path.join(os.path.dirname(os.path.abspath(__file__)), _f))
        _m = importlib.util.module_from_spec(_s)
        _m.generator, _m.go_test_dump, _m.write_if_changed = generator, go_test_dump, write_if_changed
        _m.lean_str, _m.lean_list, _m.lean_opt_nat, _m.ROOT, _m.REPO, _m.ENV = lean_str, lean_list, lean_opt_nat, ROOT, REPO, ENV
        _s.loader.exec_module(_m)

if __name__ == "__main__":
    names = sys.argv[1:]
    if not names:
        print("generators:", ", ".join(sorted(GENERATORS)))
        sys.exit(0)
    for n in names:
        if n not in GENERATORS:
            raise SystemExit(f"gen: unknown generator {n}")
        GENERATORS[n]()

#!/bin/bash
# sweep.sh <seeds...> : unchanged-tree sweep of every check over several seeds (quick tier); prints one line per run
cd "$(dirname "$0")/.."
bash tools/setup.sh > .work_setup.log 2>&1 || { echo "setup failed"; tail -20 .work_setup.log; }
for s in "$@"; do
  for p in C01 C02 C03 C04 C05 C06 C07 C08 C09 C10 C11 C12 C13 C14 C15 C16 C17 C18 C19 C20; do
    VERIF_SEED=$s python3 tools/check.py $p 2>&1 | grep -E "^(VIOLATION|$p:)" | sed "s/^/seed=$s /" | cut -c1-220
  done
done

#!/bin/bash
# seed_run.sh <Cxx> <n> [check ids…]: apply the confirmed seeded change in its scratch worktree, run the check(s) against it, record.
P=$1; N=$2; shift 2; CHECKS=${@:-$P}; WT=/tmp/seed-$P; D=/verif/seeded/$P-$N
# one run per scratch worktree at a time (several builders may replay seeds of the same property)
if [ -z "$SEED_RUN_LOCKED" ]; then export SEED_RUN_LOCKED=1; exec flock /tmp/seed-$P.lock "$0" $P $N $CHECKS; fi
[ -d $WT ] || git -C /repo worktree add -q --detach $WT HEAD || { echo "cannot create scratch worktree $WT"; exit 2; }
cd $WT && git checkout -q -- . && git checkout -q --detach $(git -C /repo rev-parse HEAD) && { git apply $D/patch.diff || git apply --3way $D/patch.diff; } || { echo "PATCH DOES NOT APPLY on current HEAD"; exit 2; }
cd /verif
: > $D/check_result.txt
for c in $CHECKS; do
  echo "### VERIF_REPO=$WT python3 tools/check.py $c" >> $D/check_result.txt
  VERIF_REPO=$WT python3 tools/check.py $c 2>&1 | grep -E "VIOLATION|KNOWN-FINDING|^$c:|^  " | cut -c1-300 >> $D/check_result.txt
done
git -C $WT checkout -q -- .
if grep -q "^VIOLATION" $D/check_result.txt; then echo "CAUGHT $P-$N by: $(grep -B30 '^VIOLATION' $D/check_result.txt | grep '^###' | sed 's/.*check.py //' | tr '\n' ' ')"; else echo "MISSED $P-$N"; fi

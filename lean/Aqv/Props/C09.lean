import Aqv.Model.State
namespace Aqv.Props.C09
open Aqv Aqv.State

theorem placeholder : (1 : Nat) = 1 := rfl

end Aqv.Props.C09

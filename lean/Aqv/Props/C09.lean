/-
  C09 — State snapshots revert exactly and the state root commits to content only.  Property theorems only.
  Model: Aqv.Model.State (core/state/statedb.go, state_object.go, journal.go); helper lemmas in Aqv/Lemmas/State*.lean.

  `view s` is everything the property's getters can see (per account: nonce, balance, code, storage, existence, the
  self-destruct flag; refund counter; log list; preimages).  `Sim s t` says that no getter and no later journal undo can
  tell `s` from `t`; it implies `view s = view t`.
-/
import Aqv.Lemmas.StateGood
import Aqv.Gen.StateJournal
import Aqv.Lemmas.StateRootSpec
import Aqv.Lemmas.StateCache
import Aqv.Props.C10
namespace Aqv.Props.C09
open Aqv Aqv.State

/-- **journal_complete**: every mutator appends journal entries that undo it — unwinding exactly the appended entries
    leads back to a state indistinguishable from the one before the call, with the same journal. The only requirement on
    the starting state is that deleted cached objects are absent from the trie (`Coherent`). -/
theorem journal_complete (m : Mut) (s : SDB) (hc : Coherent s) :
    ∃ es, (applyMut m s).journal = es ++ s.journal ∧
      view (undoN es.length (applyMut m s)) = view s ∧ (undoN es.length (applyMut m s)).fault = s.fault ∧
      (undoN es.length (applyMut m s)).journal = s.journal := by
  obtain ⟨es, hj, hs, _⟩ := (ext_applyMut m s hc).ex
  exact ⟨es, hj, view_eq_of_sim hs, hs.fault, by simp [undoN_journal, hj]⟩

-- non-vacuity: the freshly opened empty state is coherent, and SetState on a non-existent account appends two entries
example : Coherent (fresh (fun _ => none)) := fun a o h => by simp [fresh] at h
example : (applyMut (.setState 1 0 7) (fresh (fun _ => none))).journal.length = 2 := by decide

/-- **revert_exact**: take a snapshot in any state `s` that satisfies the transaction-level invariant, run ANY list of
    mutators, nested snapshots and reverts (to any id that is live at that moment), then revert to the snapshot: every
    getter — balance, nonce, code, storage, existence, emptiness, self-destruct flag, refund, logs, preimages — reports
    what it reported in `s`; the journal and the revision stack are restored exactly and no fault (Go panic) is added. -/
theorem revert_exact (s s2 r : SDB) (ops : List TxOp) (hi : TxInv s) (hro : RevsOK s)
    (hrun : runTx ops (snapshot s).1 = some s2) (hrev : revertTo (snapshot s).2 s2 = some r) :
    view r = view s ∧ r.fault = s.fault ∧ r.journal = s.journal ∧ r.revs = s.revs := by
  obtain ⟨h1, h2, h3⟩ := revert_restores hi hro ops hrun hrev
  exact ⟨view_eq_of_sim h1, h1.fault, h2, h3⟩

/-- the individual getters named by the property, after the revert of `revert_exact`. -/
theorem revert_exact_getters (s s2 r : SDB) (ops : List TxOp) (hi : TxInv s) (hro : RevsOK s)
    (hrun : runTx ops (snapshot s).1 = some s2) (hrev : revertTo (snapshot s).2 s2 = some r) (a : Addr) (k : Slot) :
    balanceOf r a = balanceOf s a ∧ nonceOf r a = nonceOf s a ∧ codeOf r a = codeOf s a ∧ stateOf r a k = stateOf s a k ∧
    exist r a = exist s a ∧ isEmpty r a = isEmpty s a ∧ suicidedOf r a = suicidedOf s a ∧
    r.refund = s.refund ∧ r.logs = s.logs := by
  obtain ⟨h1, _, _⟩ := revert_restores hi hro ops hrun hrev
  simp only [balanceOf, nonceOf, codeOf, stateOf, exist, isEmpty, suicidedOf]
  rcases h1.look_cases a with ⟨hs, ht⟩ | ⟨o, p, hs, ht, this⟩
  · rw [hs, ht]; exact ⟨rfl, rfl, rfl, rfl, rfl, rfl, rfl, h1.refund, h1.logs⟩
  · rw [hs, ht]
    exact ⟨this.2.1, this.1, this.2.2.1, this.2.2.2.2 k, rfl, this.empty, this.2.2.2.1, h1.refund, h1.logs⟩

/-- **revert_exact on reachable states**: the invariant needed by `revert_exact` holds after every block-level history
    (transactions with snapshots/reverts, Prepare, Finalise, Commit+Reset) from a freshly opened StateDB, provided all
    Finalise calls of the history use one delete-empty flag `d`. (Mixed flags are excluded because of
    `mixed_flags_break_revert_witness` below.) -/
theorem revert_exact_reachable (c : Addr → Option Acct) (d : Bool) (pre : List Op) (hu : Uniform d pre)
    (s s2 r : SDB) (hpre : run pre (fresh c) = some s) (ops : List TxOp)
    (hrun : runTx ops (snapshot s).1 = some s2) (hrev : revertTo (snapshot s).2 s2 = some r) :
    view r = view s ∧ r.fault = s.fault ∧ r.journal = s.journal ∧ r.revs = s.revs := by
  have hr := reach_run pre (fresh c) s hu (reach_fresh d c) hpre
  exact revert_exact s s2 r ops hr.inv hr.revs hrun hrev

/-! ### concrete witnesses (the code as written falsifies the stronger statements) -/

def emptyAcct : Acct := { nonce := 0, balance := 0, code := [], storage := fun _ => 0 }
/-- a freshly opened state whose trie holds the EMPTY account 1 (and the empty account 3 = RIPEMD address). -/
def pre1 : SDB := fresh (fun a => if a = 1 ∨ a = 3 then some emptyAcct else none)
def runD (ops : List Op) (s : SDB) : SDB := (run ops s).getD s

-- non-vacuity of `revert_exact_reachable`: a uniform history with a nested snapshot, a self-destruct and a re-creation
example : Uniform true [.tx (.mutate (.setBalance 2 9)), .finalise true, .tx .snap, .tx (.mutate (.suicide 2)),
    .tx (.mutate (.createAccount 2)), .tx (.revert 0), .finalise true] := by
  intro d' h; simp at h; exact h.symm ▸ rfl
example : (run [.tx (.mutate (.setBalance 2 9)), .finalise true, .tx .snap, .tx (.mutate (.suicide 2)),
    .tx (.mutate (.createAccount 2)), .tx (.revert 0)] pre1).map (fun s => balanceOf s 2) = some 9 := by decide

/-- **F1 (known defect) — revert is NOT exact through Finalise**: `snapshot; AddBalance(1,5); revert` on the pre-existing
    empty account 1 restores every getter, yet the following `Finalise(true)` deletes account 1, whereas without the
    reverted segment it keeps it. (Only touchChange.undo/createObjectChange.undo remove an address from the dirty set.) -/
theorem revert_exact_through_finalise_witness :
    exist (runD [.tx .snap, .tx (.mutate (.addBalance 1 5)), .tx (.revert 0)] pre1) 1 = true ∧
    exist (runD [.tx .snap, .tx (.mutate (.addBalance 1 5)), .tx (.revert 0), .finalise true] pre1) 1 = false ∧
    exist (runD [.finalise true] pre1) 1 = true := by decide

/-- **F2 (defect) — a reverted touch disarms dirty tracking**: after `snapshot; AddBalance(1,0); revert` the later
    `AddBalance(1,5)` is visible to the getters but never reaches the trie: the committed content still has balance 0. -/
theorem reverted_touch_loses_write_witness :
    balanceOf (runD [.tx .snap, .tx (.mutate (.addBalance 1 0)), .tx (.revert 0), .tx (.mutate (.addBalance 1 5))] pre1) 1 = 5 ∧
    ((runD [.tx .snap, .tx (.mutate (.addBalance 1 0)), .tx (.revert 0), .tx (.mutate (.addBalance 1 5)), .finalise true] pre1).trie 1).map
      (fun c => c.balance) = some 0 ∧
    balanceOf (runD [.tx .snap, .tx (.mutate (.addBalance 1 0)), .tx (.revert 0), .tx (.mutate (.addBalance 1 5)), .commitReset true] pre1) 1 = 0 ∧
    balanceOf (runD [.tx (.mutate (.addBalance 1 5)), .commitReset true] pre1) 1 = 5 := by decide

/-- **F3 (defect, mixed flags) — `Finalise(false)` after `Finalise(true)` re-inserts an account deleted as empty**: the
    getters say account 2 does not exist, the trie holds it again, and a reverted re-creation resurrects it — so
    `revert_exact` fails for histories that mix the two flags on one StateDB (the state is no longer `Coherent`). -/
theorem mixed_flags_break_revert_witness :
    exist (runD [.tx (.mutate (.addBalance 2 0)), .finalise true, .finalise false] pre1) 2 = false ∧
    ((runD [.tx (.mutate (.addBalance 2 0)), .finalise true, .finalise false] pre1).trie 2).isSome = true ∧
    exist (runD [.tx (.mutate (.addBalance 2 0)), .finalise true, .finalise false, .tx .snap, .tx (.mutate (.addBalance 2 1)),
      .tx (.revert 0)] pre1) 2 = true := by decide

/-- **F4 (by design) — the touch of address 3 (RIPEMD) is not reverted**: journal.go skips the undo for this address, so
    the reverted touch still deletes the empty account 3 at `Finalise(true)`. -/
theorem ripemd_touch_not_reverted_witness :
    exist (runD [.tx .snap, .tx (.mutate (.addBalance 3 0)), .tx (.revert 0), .finalise true] pre1) 3 = false ∧
    exist (runD [.finalise true] pre1) 3 = true := by decide

/-- API hazard: a StateDB used after `Commit` without `Reset` loses later writes (Commit empties the dirty set but does
    not re-arm the callbacks). `Op.commitReset` models what every caller in /repo does instead. -/
theorem commit_reuse_loses_write_witness :
    let s := commit true (applyMut (.addBalance 2 10) pre1)
    balanceOf (applyMut (.addBalance 2 5) s) 2 = 15 ∧
    ((finalise true (applyMut (.addBalance 2 5) s)).trie 2).map (fun c => c.balance) = some 10 := by decide

/-! ### Finalise and the iteration order of Go maps -/

/-- **finalise_perm_invariant**: `Finalise` visits `stateObjectsDirty` in Go's unspecified map order; any two orders
    (duplicate-free enumerations of the dirty set) produce the same state — trie content, cached objects and fault flag. -/
theorem finalise_perm_invariant (d : Bool) (s : SDB) (o₁ o₂ : List Addr) (h₁ : o₁.Nodup) (h₂ : o₂.Nodup)
    (m₁ : ∀ a, a ∈ o₁ ↔ a ∈ s.dirty) (m₂ : ∀ a, a ∈ o₂ ↔ a ∈ s.dirty) :
    finaliseFold d o₁ s = finaliseFold d o₂ s := by
  rw [finaliseFold_eq d s o₁ h₁ m₁, finaliseFold_eq d s o₂ h₂ m₂]

-- non-vacuity: two different orders of a two-element dirty set
example : ([1, 2] : List Addr).Nodup ∧ ([2, 1] : List Addr).Nodup := by decide


/-! ### the root commits to content only

  `Good d s` = the write-back cache invariant `BInv s` (every live cached object outside the dirty set still has its
  callback and equals its trie leaf; every dirty address has a cached object; deleted objects are absent from the trie)
  plus well-formed revisions plus "every tombstone would be deleted again by `Finalise d`".  `good_reachable` shows it holds
  after every history that (a) uses one delete-empty flag for its Finalise calls and (b) never reverts a touch that found
  the callback armed — the two excluded patterns are exactly the defects F3 and F2 witnessed above. -/

/-- the invariant behind the root theorems holds in every state reachable by a safe history from a freshly opened StateDB. -/
theorem good_reachable (c : Addr → Option Acct) (d : Bool) (ops : List Op) (s : SDB)
    (hs : SafeOps d ops (fresh c)) (hrun : run ops (fresh c) = some s) : Good d s :=
  good_run ops (fresh c) s (good_fresh d c) hs hrun

-- non-vacuity: a safe history with a nested snapshot/revert, a self-destruct and a Finalise
example : SafeOps true [.tx (.mutate (.setBalance 2 9)), .tx .snap, .tx (.mutate (.suicide 2)), .tx (.revert 0), .finalise true] pre1 := by
  refine ⟨trivial, fun t ht => ?_⟩
  simp only [step, stepTx, Option.some.injEq] at ht; subst ht
  refine ⟨trivial, fun t ht => ?_⟩
  simp only [step, stepTx, Option.some.injEq] at ht; subst ht
  refine ⟨trivial, fun t ht => ?_⟩
  simp only [step, stepTx, Option.some.injEq] at ht; subst ht
  refine ⟨?_, fun t _ => ⟨rfl, fun _ _ => trivial⟩⟩
  show ∀ r ∈ _, (r : Nat × Nat).1 = 0 → ∀ e ∈ _, Entry.armedTouch e = false
  decide

/-- **root_content_only**: the state root is a function `mptRoot` of the account-trie content (C10: a trie commits to exactly
    its content). After `IntermediateRoot d` / `Commit d` in a `Good` state that content is exactly what the getters of the
    StateDB report (`contentOf`): the root commits to the resulting set of accounts and their contents and to nothing else —
    whatever history produced the state. -/
theorem root_content_only {R : Type} (mptRoot : (Addr → Option Acct) → R) (d : Bool) (s : SDB) (hg : Good d s) :
    mptRoot (finalise d s).trie = mptRoot (contentOf (finalise d s)) ∧
    mptRoot (commit d s).trie = mptRoot (contentOf (commit d s)) := by
  rw [trie_finalise_eq_content hg.binv hg.tomb.ok, trie_commit_eq_content hg.binv hg.tomb.ok]
  exact ⟨rfl, rfl⟩

/-- history independence: two StateDBs reached by ANY two safe histories whose getters report the same content after
    `IntermediateRoot` return the same root. -/
theorem root_history_independent {R : Type} (mptRoot : (Addr → Option Acct) → R) (d₁ d₂ : Bool) (s₁ s₂ : SDB)
    (h₁ : Good d₁ s₁) (h₂ : Good d₂ s₂) (hc : contentOf (finalise d₁ s₁) = contentOf (finalise d₂ s₂)) :
    mptRoot (finalise d₁ s₁).trie = mptRoot (finalise d₂ s₂).trie := by
  rw [trie_finalise_eq_content h₁.binv h₁.tomb.ok, trie_finalise_eq_content h₂.binv h₂.tomb.ok, hc]

-- non-vacuity: two different histories with the same net effect (set-then-clear vs nothing; different operation order)
example : (contentOf (finalise true (runD [.tx (.mutate (.setBalance 2 9)), .tx (.mutate (.setState 4 1 7)), .tx (.mutate (.setNonce 4 1)),
      .tx (.mutate (.setState 4 1 0))] pre1)) 4).map (fun c => (c.nonce, c.storage 1)) = some (1, 0) := by decide

/-- **revert_exact_through_finalise — full statement (FALSE for the code as written, see
    `revert_exact_through_finalise_witness` and `ripemd_touch_not_reverted_witness`)**:
      for all s ops d:  view (finalise d (revert (run ops (snapshot s)))) = view (finalise d s)  and the roots agree.
    **_partial**: it holds when (i) the history is safe (`SafeTx`, no reverted armed touch — F2), and (ii) the revert left
    no account that `Finalise d` would delete in a different dirty-set status than it had at the snapshot (hypothesis `H`,
    stated via the dirty set). `H` fails exactly when a reverted write (F1) or a reverted touch of 0x03 (F4) targets a
    pre-existing empty account and `d = true`. What is missing for the full statement is a journalled dirty set in the code. -/
theorem revert_exact_through_finalise_partial (d : Bool) (s s2 r : SDB) (ops : List TxOp) (hg : Good d s)
    (hsafe : SafeTx ops (snapshot s).1) (hrun : runTx ops (snapshot s).1 = some s2)
    (hlast : revertSafe (snapshot s).2 s2) (hrev : revertTo (snapshot s).2 s2 = some r)
    (H : ∀ a o, look s a = some o → delCond d o = true → (a ∈ r.dirty ↔ a ∈ s.dirty)) :
    view (finalise d r) = view (finalise d s) ∧ (finalise d r).trie = (finalise d s).trie := by
  have hg1 : Good d (snapshot s).1 := good_stepTx hg .snap trivial rfl
  have hg2 : Good d s2 := good_runTx ops _ s2 hg1 hsafe hrun
  have hgr : Good d r := good_stepTx hg2 (.revert (snapshot s).2) hlast hrev
  obtain ⟨hsim, _, _⟩ := revert_restores ⟨hg.binv.coh, hg.binv.jok⟩ hg.revs ops hrun hrev
  obtain ⟨hobjs, htrie⟩ := finalise_respects_sim hgr.binv hg.binv hgr.tomb.ok hg.tomb.ok hsim H
  refine ⟨?_, htrie⟩
  have hacc : viewAt (finalise d r) = viewAt (finalise d s) := by
    funext a; exact optView_eq (hobjs a)
  simp only [view, hacc]
  simp only [finalise, hsim.logs, hsim.preimages]

/-- **copy_independent**: `Copy` reads back identically — every getter, the refund counter, the logs and the preimages —
    and the copy again satisfies the invariant, so every theorem above applies to it on its own. (In the model states are
    values: operations on the copy cannot affect the original by construction; aliasing in the Go code is what the harness
    checks.) -/
theorem copy_independent (d : Bool) (s : SDB) (hg : Good d s) : view (copy s) = view s ∧ Good d (copy s) := by
  refine ⟨?_, good_copy hg⟩
  have hacc : viewAt (copy s) = viewAt s := by
    funext a; exact optView_eq (look_copy hg.binv a)
  simp only [view, hacc]
  rfl

/-- **reopen_reads_back**: a StateDB opened at the root returned by `Commit d` (its trie holds the committed content) reports
    for every account exactly what the committing StateDB reports after the Commit, and is itself a `Good` state. -/
theorem reopen_reads_back (d : Bool) (s : SDB) (hg : Good d s) :
    (∀ a, viewAt (fresh (commit d s).trie) a = viewAt (commit d s) a) ∧ Good d (fresh (commit d s).trie) :=
  ⟨fun a => reopen_viewAt hg.binv hg.tomb.ok a, good_fresh d _⟩

-- non-vacuity of the `Good` hypotheses: the pre-populated freshly opened state
example : Good true pre1 := good_fresh true _
-- non-vacuity of hypothesis `H` of the partial theorem: a reverted segment that creates, funds and self-destructs a NEW
-- account leaves the dirty set exactly as it was (so `H` holds), whereas the F1 history does not
example : (runD [.tx .snap, .tx (.mutate (.addBalance 2 5)), .tx (.mutate (.suicide 2)), .tx (.revert 0)] pre1).dirty = pre1.dirty := by decide
example : (runD [.tx .snap, .tx (.mutate (.addBalance 1 5)), .tx (.revert 0)] pre1).dirty ≠ pre1.dirty := by decide


/-! ### the journal inventory of the Go source (regenerated from /repo on every run: tools/gen.py statejournal) -/

/-- the inventory the model was written against: (function, journal entry types appended, raw setters / direct field writes). -/
def modelledInventory : List (String × List String × List String) := [
  ("StateDB.AddLog", ["addLogChange"], []),
  ("StateDB.AddPreimage", ["addPreimageChange"], []),
  ("StateDB.AddRefund", ["refundChange"], ["=refund"]),
  ("StateDB.CreateAccount", [], ["setBalance"]),
  ("StateDB.Suicide", ["suicideChange"], ["=data.Balance", "markSuicided"]),
  ("StateDB.clearJournalAndRefund", [], ["=refund"]),
  ("StateDB.createObject", ["createObjectChange", "resetObjectChange"], ["setNonce"]),
  ("balanceChange.undo", [], ["setBalance"]),
  ("codeChange.undo", [], ["setCode"]),
  ("newObject", [], ["=data.Balance", "=data.CodeHash"]),
  ("nonceChange.undo", [], ["setNonce"]),
  ("refundChange.undo", [], ["=refund"]),
  ("stateObject.SetBalance", ["balanceChange"], ["setBalance"]),
  ("stateObject.SetCode", ["codeChange"], ["setCode"]),
  ("stateObject.SetNonce", ["nonceChange"], ["setNonce"]),
  ("stateObject.SetState", ["storageChange"], ["setState"]),
  ("stateObject.deepCopy", [], ["=suicided"]),
  ("stateObject.markSuicided", [], ["=suicided"]),
  ("stateObject.setBalance", [], ["=data.Balance"]),
  ("stateObject.setCode", [], ["=data.CodeHash"]),
  ("stateObject.setNonce", [], ["=data.Nonce"]),
  ("stateObject.touch", ["touchChange"], ["=touched"]),
  ("storageChange.undo", [], ["setState"]),
  ("suicideChange.undo", [], ["=suicided", "setBalance"]),
  ("touchChange.undo", [], ["=touched"])]

/-- functions that may write journalled fields without appending an entry: the raw setters themselves, the undo methods,
    constructors/copies, `clearJournalAndRefund`, and `CreateAccount` (its `setBalance` initialises the object that
    `createObject` has just journalled with createObjectChange/resetObjectChange). -/
def unjournalledWriters : List String := [
  "StateDB.CreateAccount", "StateDB.clearJournalAndRefund", "newObject", "stateObject.deepCopy", "stateObject.markSuicided",
  "stateObject.setBalance", "stateObject.setCode", "stateObject.setNonce",
  "balanceChange.undo", "codeChange.undo", "nonceChange.undo", "refundChange.undo", "storageChange.undo", "suicideChange.undo",
  "touchChange.undo"]

/-- **journal_complete (syntactic half, T-gen)**: the journal inventory extracted from the current Go source is the one the
    model mirrors — same functions, same appended entry types, same raw writes. Removing or adding a journal append or a raw
    write site changes the generated table and this theorem stops checking. -/
theorem journalled_mutators_as_modelled : Gen.StateJournal.funcs = modelledInventory := by decide

/-- every function of core/state that writes a journalled field either appends a journal entry or is one of the listed
    unjournalled writers; and each of the eleven entry kinds of the model is appended somewhere. -/
theorem every_field_write_is_journalled :
    (∀ f ∈ Gen.StateJournal.funcs, f.2.2 ≠ [] → f.2.1 ≠ [] ∨ f.1 ∈ unjournalledWriters) ∧
    (∀ k ∈ ["createObjectChange", "resetObjectChange", "suicideChange", "balanceChange", "nonceChange", "storageChange",
        "codeChange", "refundChange", "addLogChange", "addPreimageChange", "touchChange"],
      ∃ f ∈ Gen.StateJournal.funcs, k ∈ f.2.1) := by decide


/-! ### the read caches are transparent (Aqv.Model.StateCache)

  Every getter and every mutator's lookup goes through `getStateObject`, which caches the decoded trie leaf in `stateObjects`
  (and with it, in this model, the account's code and storage).  `warm s reads` is the state after any sequence of such reads. -/

/-- **read_cache_transparent**: in a `Good` state, any sequence of reads
    (1) changes nothing but the object cache — every getter, refund, logs, preimages report the same (`view`), trie, dirty set,
        journal and revisions are untouched — and the state stays `Good`;
    (2) is invisible to `Copy`: the copy of the warm state IS the copy of the cold state (only dirty objects are copied; a
        read-only cached object is not dirty), so it has the same view and, after `Finalise`/`IntermediateRoot` with or without
        empty-account deletion, the same trie (root) and view;
    (3) is invisible to `Finalise d'` of the state itself, for both flags: same trie (root), same view. -/
theorem read_cache_transparent (d : Bool) (s : SDB) (hg : Good d s) (reads : List Addr) :
    (view (warm s reads) = view s ∧ (warm s reads).trie = s.trie ∧ (warm s reads).dirty = s.dirty ∧
      (warm s reads).journal = s.journal ∧ (warm s reads).revs = s.revs ∧ Good d (warm s reads)) ∧
    (copy (warm s reads) = copy s ∧ ∀ d', finalise d' (copy (warm s reads)) = finalise d' (copy s)) ∧
    (∀ d', (finalise d' (warm s reads)).trie = (finalise d' s).trie ∧ view (finalise d' (warm s reads)) = view (finalise d' s)) := by
  obtain ⟨f1, f2, f3, f4, f5, f6, f7, f8, f9, f10, f11⟩ := warm_fields reads s
  have hgw := good_warm (d := d) reads hg
  have hobj := warm_objs_dirty (d := d) reads hg
  have hcopy : copy (warm s reads) = copy s := by
    apply SDB.ext'
    · exact f1
    · funext a
      simp only [copy, f2]
      by_cases ha : a ∈ s.dirty
      · simp only [ha, if_true, hobj a ha]
      · simp only [ha, if_false]
    · exact f2
    · rfl
    · rfl
    · rfl
    · exact f5
    · rfl
    · exact f6
    · exact f7
    · exact f8
    · simp only [copy, f9, f2]
      congr 1
      rw [Bool.eq_iff_iff]
      simp only [List.any_eq_true]
      constructor
      · rintro ⟨a, ha, hb⟩; exact ⟨a, ha, by rwa [hobj a ha] at hb⟩
      · rintro ⟨a, ha, hb⟩; exact ⟨a, ha, by rwa [hobj a ha]⟩
  refine ⟨⟨?_, f1, f2, f3, f4, hgw⟩, ⟨hcopy, fun d' => by rw [hcopy]⟩, fun d' => ⟨?_, ?_⟩⟩
  · have hacc : viewAt (warm s reads) = viewAt s := by funext a; simp only [viewAt, look_warm]
    simp only [view, hacc, f5, f6, f8]
  · funext a
    rw [finalise_trie, finalise_trie, f2, f1]
    by_cases ha : a ∈ s.dirty
    · simp only [ha, if_true, hobj a ha]
    · simp only [ha, if_false]
  · have hacc : viewAt (finalise d' (warm s reads)) = viewAt (finalise d' s) := by
      funext a
      simp only [viewAt]
      rw [look_finalise hgw.binv a, look_finalise hg.binv a, look_warm, f2]
    simp only [view, hacc]
    simp only [finalise, f6, f8]

-- non-vacuity: reading the pre-existing empty accounts 1 and 3 (and the absent account 2) of `pre1` fills the cache with two
-- clean objects; the copy then finalised WITH empty-account deletion still holds account 1 (a copy that carried the read-only
-- objects over as dirty — the seeded change C09-8 — would delete it)
example : ((warm pre1 [1, 2, 3, 1]).objs 1).isSome = true ∧ ((warm pre1 [1, 2, 3, 1]).objs 2).isSome = false ∧ (pre1.objs 1).isSome = false := by decide
example : exist (finalise true (copy (warm pre1 [1, 2, 3]))) 1 = true ∧ ((finalise true (copy (warm pre1 [1, 2, 3]))).trie 1).isSome = true := by decide

/-! ### several instances over one database -/

/-- **reopened_instances_independent**: k StateDB instances over ONE `state.Database` (opened at committed roots with
    `New`/`Reset`, or taken by `Copy`). Whatever history runs on the OTHER instances — mutators, snapshots/reverts, Finalise,
    IntermediateRoot, Commit (which adds a root to the database), Reset, further opens and copies — instance `j` is unchanged
    (so every getter reads what it read before), and every committed root still holds its content. In particular an
    instance opened at root R and never operated on reads exactly the content of R and its IntermediateRoot is R. -/
theorem reopened_instances_independent (steps : List WStep) (w w' : World) (j : Nat) (hj : j < w.insts.length)
    (ha : ∀ st ∈ steps, st.avoids j = true) (h : World.run steps w = some w') :
    w'.insts[j]? = w.insts[j]? ∧ (∀ (k : Nat) c, w.committed[k]? = some c → w'.committed[k]? = some c) := by
  induction steps generalizing w with
  | nil => simp only [World.run, Option.some.injEq] at h; subst h; exact ⟨rfl, fun _ _ hc => hc⟩
  | cons st sts ih =>
    simp only [World.run] at h
    cases hs : w.step st with
    | none => simp [hs] at h
    | some w1 =>
      simp only [hs] at h
      obtain ⟨h1, h2⟩ := world_step_others w w1 st j hj (ha st List.mem_cons_self) hs
      have hj1 : j < w1.insts.length := Nat.lt_of_lt_of_le hj (world_step_length w w1 st hs)
      obtain ⟨h3, h4⟩ := ih w1 hj1 (fun s hs' => ha s (List.mem_cons_of_mem _ hs')) h
      exact ⟨h3.trans h1, fun k c hc => h4 k c (h2 k c hc)⟩

/-- an instance opened at a committed content and not operated on reads exactly that content, and its
    IntermediateRoot/Finalise leaves the trie (hence the root) as committed. -/
theorem untouched_instance_reads_root (c : Addr → Option Acct) (d : Bool) :
    (∀ a, viewAt (fresh c) a = (c a).map (fun x => (fromAcct x).view)) ∧ (finalise d (fresh c)).trie = c ∧
    contentOf (fresh c) = c := by
  refine ⟨fun a => by simp [viewAt, look, fresh]; rfl, ?_, ?_⟩
  · funext a; simp [finalise, fresh]
  · funext a
    simp only [contentOf, look, fresh]
    cases c a with
    | none => rfl
    | some x => simp [toAcct_fromAcct]

-- non-vacuity: two instances opened at the same committed root; a mutation + Commit on instance 0 leaves instance 1 as it was
example : (World.run [.openAt 0, .openAt 0, .at 0 (.tx (.mutate (.setBalance 2 70))), .at 0 (.commit true)]
    { committed := [fun a => if a = 2 then some emptyAcct else none], insts := [] }).map
      (fun w => ((w.insts[1]?).map fun s => balanceOf s 2, (w.insts[0]?).map fun s => balanceOf s 2, w.committed.length)) =
    some (some 0, some 70, 2) := by decide

/-! ### the root equals the Merkle-Patricia root the specification defines for the content (concrete, via C10 and C11)

  `stateRootSpec H addrs slots content` (Aqv.Model.StateRoot) is the Yellow-Paper root (C10 `mptRoot`) of
  { H(addr) ↦ rlp(Account{nonce, balance, storageRoot, H(code)}) } with storageRoot the `mptRoot` of
  { H(slot) ↦ rlp(trimmed value) }, for an arbitrary hash function `H`.  The real account trie / storage tries are C10 tries
  (`Aqv.Trie.run ops`: any history of TryUpdate/TryDelete) — the theorems below say that whenever such tries hold the leaves
  of a content, their `hashRoot` is `stateRootSpec` of that content, and that after IntermediateRoot/Commit in a `Good`
  state "that content" is what the getters report.  Key-hash injectivity on the finitely many keys is an explicit hypothesis. -/

open Aqv.Trie in
/-- a storage trie (any update/delete history) that holds exactly the non-zero slots of `st` hashes to `storageRootSpec`. -/
theorem storage_root_eq_spec (H : Bytes → Bytes) (slots : List Slot) (st : Slot → Word) (hnd : slots.Nodup)
    (hinj : InjOnSlots H slots) (hsupp : ∀ k, st k ≠ 0 → k ∈ slots)
    (ops : List Trie.Op) (t : Trie.Node) (hr : Trie.run ops = some t)
    (hreal : ∀ kb v, Trie.absOf ops kb = some v ↔ ∃ k, st k ≠ 0 ∧ kb = H (slotBytes k) ∧ v = storageLeaf (st k)) :
    Trie.hashRoot H t = storageRootSpec H slots st := by
  unfold storageRootSpec mptRootBytes
  apply Aqv.Props.C10.root_eq_spec_run H ops t hr (storageKVs H slots st) (sorted_storageKVs H slots st hnd hinj)
  intro kb v
  rw [mem_storageKVs, hreal]
  constructor
  · rintro ⟨k, _, h1, h2, h3⟩; exact ⟨k, h1, h2, h3⟩
  · rintro ⟨k, h1, h2, h3⟩; exact ⟨k, hsupp k h1, h1, h2, h3⟩

/-- the real tries of a state content `c`: per account a storage trie holding its non-zero slots, and the account trie
    holding, under H(address), the RLP of the account with the hash of that storage trie as `Root`. -/
structure Realises (H : Bytes → Bytes) (c : Addr → Option Acct) (ops : List Trie.Op) (t : Trie.Node)
    (sops : Addr → List Trie.Op) (st : Addr → Trie.Node) : Prop where
  storage : ∀ a acct, c a = some acct → Trie.run (sops a) = some (st a) ∧
    ∀ kb v, Trie.absOf (sops a) kb = some v ↔ ∃ k, acct.storage k ≠ 0 ∧ kb = H (slotBytes k) ∧ v = storageLeaf (acct.storage k)
  run : Trie.run ops = some t
  accounts : ∀ kb v, Trie.absOf ops kb = some v ↔
    ∃ a acct, c a = some acct ∧ kb = H (addrBytes a) ∧ v = acctLeafWith H (Trie.hashRoot H (st a)) acct

/-- the finitely many keys: every present address / non-zero slot is listed, without repetition, and `H` is injective on
    their secure-trie keys. -/
structure KeysOK (H : Bytes → Bytes) (addrs : List Addr) (slots : List Slot) (c : Addr → Option Acct) : Prop where
  addrsNodup : addrs.Nodup
  slotsNodup : slots.Nodup
  injA : InjOnAddrs H addrs
  injS : InjOnSlots H slots
  suppA : ∀ a acct, c a = some acct → a ∈ addrs
  suppS : ∀ a acct, c a = some acct → ∀ k, acct.storage k ≠ 0 → k ∈ slots

/-- the account trie of real tries realising `c` hashes to `stateRootSpec H addrs slots c`. -/
theorem state_trie_root_eq_spec (H : Bytes → Bytes) (addrs : List Addr) (slots : List Slot) (c : Addr → Option Acct)
    (hk : KeysOK H addrs slots c) (ops : List Trie.Op) (t : Trie.Node) (sops : Addr → List Trie.Op) (st : Addr → Trie.Node)
    (hr : Realises H c ops t sops st) : Trie.hashRoot H t = stateRootSpec H addrs slots c := by
  unfold stateRootSpec mptRootBytes
  apply Aqv.Props.C10.root_eq_spec_run H ops t hr.run (stateKVs H addrs slots c) (sorted_stateKVs H addrs slots c hk.addrsNodup hk.injA)
  intro kb v
  rw [mem_stateKVs, hr.accounts]
  have hleaf : ∀ a acct, c a = some acct → acctLeafWith H (Trie.hashRoot H (st a)) acct = acctLeaf H slots acct := by
    intro a acct hc
    obtain ⟨h1, h2⟩ := hr.storage a acct hc
    unfold acctLeaf
    rw [storage_root_eq_spec H slots acct.storage hk.slotsNodup hk.injS (hk.suppS a acct hc) (sops a) (st a) h1 h2]
  constructor
  · rintro ⟨a, _, acct, hc, h2, h3⟩; exact ⟨a, acct, hc, h2, by rw [h3, hleaf a acct hc]⟩
  · rintro ⟨a, acct, hc, h2, h3⟩; exact ⟨a, hk.suppA a acct hc, acct, hc, h2, by rw [h3, hleaf a acct hc]⟩

/-- **root_eq_spec_state**: in a `Good` state (reachable by every safe history, `good_reachable`), the real tries behind the
    StateDB after `IntermediateRoot d` (resp. `Commit d`) — any tries that hold the model's account-trie content — hash to
    the Merkle-Patricia root the specification defines for the content THE GETTERS REPORT: `stateRootSpec H (contentOf …)`.
    For every hash function `H` that is injective on the keys involved. -/
theorem root_eq_spec_state (H : Bytes → Bytes) (d : Bool) (s : SDB) (hg : Good d s) (addrs : List Addr) (slots : List Slot) :
    (∀ ops t sops st, KeysOK H addrs slots (finalise d s).trie → Realises H (finalise d s).trie ops t sops st →
      Trie.hashRoot H t = stateRootSpec H addrs slots (contentOf (finalise d s))) ∧
    (∀ ops t sops st, KeysOK H addrs slots (commit d s).trie → Realises H (commit d s).trie ops t sops st →
      Trie.hashRoot H t = stateRootSpec H addrs slots (contentOf (commit d s))) := by
  constructor
  · intro ops t sops st hk hr
    rw [← trie_finalise_eq_content hg.binv hg.tomb.ok]
    exact state_trie_root_eq_spec H addrs slots _ hk ops t sops st hr
  · intro ops t sops st hk hr
    rw [← trie_commit_eq_content hg.binv hg.tomb.ok]
    exact state_trie_root_eq_spec H addrs slots _ hk ops t sops st hr

/-- the abstract `mptRoot` parameter of `root_content_only` instantiated by the concrete construction: the model's
    IntermediateRoot/Commit root is the specification's root of the reported content. -/
theorem root_content_only_concrete (H : Bytes → Bytes) (addrs : List Addr) (slots : List Slot) (d : Bool) (s : SDB) (hg : Good d s) :
    stateRootSpec H addrs slots (finalise d s).trie = stateRootSpec H addrs slots (contentOf (finalise d s)) ∧
    stateRootSpec H addrs slots (commit d s).trie = stateRootSpec H addrs slots (contentOf (commit d s)) :=
  root_content_only (stateRootSpec H addrs slots) d s hg

-- non-vacuity: the identity "hash" is injective on the keys of addresses 1..3 and slots 0..2; the spec root of the empty
-- content is H(rlp("")) (emptyRoot) and an account changes it; a real trie history realising a one-account content exists
example : InjOnAddrs (fun b => b) [1, 2, 3] ∧ InjOnSlots (fun b => b) [0, 1, 2] := by
  unfold InjOnAddrs InjOnSlots
  constructor <;> decide
example : stateRootSpec (fun b => b) [1, 2, 3] [0, 1, 2] (fun _ => none) = [0x80] := by decide
example : stateRootSpec (fun b => b) [1] [0] (fun a => if a = 1 then some emptyAcct else none) ≠
    stateRootSpec (fun b => b) [1] [0] (fun _ => none) := by decide


-- non-vacuity of `Realises`/`KeysOK`: a real trie history (one TryUpdate under the key of address 1) realises the content
-- "account 1 exists and is empty"
def c1 : Addr → Option Acct := fun a => if a = 1 then some emptyAcct else none
def leaf1 : Bytes := acctLeafWith (fun b => b) (Trie.hashRoot (fun b => b) .nil) emptyAcct

example : ∃ t, Realises (fun b => b) c1 [.update (addrBytes 1) leaf1] t (fun _ => []) (fun _ => .nil) := by
  have hrun : ∃ t, Trie.run [.update (addrBytes 1) leaf1] = some t := by
    cases h : Trie.run [.update (addrBytes 1) leaf1] with
    | some t => exact ⟨t, rfl⟩
    | none => exact absurd h (by decide)
  obtain ⟨t, ht⟩ := hrun
  refine ⟨t, ?_, ht, ?_⟩
  · intro a acct hc
    have : acct = emptyAcct := by
      unfold c1 at hc; split at hc
      · exact (Option.some.inj hc).symm
      · simp at hc
    subst this
    refine ⟨rfl, fun kb v => ?_⟩
    simp [Trie.absOf, Trie.absFrom, emptyAcct]
  · intro kb v
    have hl : ¬ leaf1 = [] := by decide
    simp only [Trie.absOf, Trie.absFrom, Trie.absStep]
    constructor
    · intro h
      by_cases hk : kb = addrBytes 1
      · simp [hk] at h; exact ⟨1, emptyAcct, rfl, hk, h.2.symm⟩
      · simp [hk] at h
    · rintro ⟨a, acct, hc, h2, h3⟩
      unfold c1 at hc; split at hc
      · rename_i ha; subst ha
        have := (Option.some.inj hc).symm; subst this
        simp [h2, h3]; exact ⟨hl, rfl⟩
      · simp at hc

example : KeysOK (fun b => b) [1] [0] c1 := by
  refine ⟨by decide, by decide, by unfold InjOnAddrs; decide, by unfold InjOnSlots; decide, ?_, ?_⟩
  · intro a acct hc; unfold c1 at hc; split at hc
    · rename_i h; simp [h]
    · simp at hc
  · intro a acct hc k hk; unfold c1 at hc; split at hc
    · have := (Option.some.inj hc).symm; subst this; simp [emptyAcct] at hk
    · simp at hc

end Aqv.Props.C09

/-
  C04 — The chain database survives a crash at any write boundary.  Property theorems only.

  Model: Aqv.Model.ChainDb (store, events, `recover` = NewBlockChain → loadLastState → repair/Reset, the discipline
  `LocalOK`, the statement `RecoverOK`, trie `commit`, `Database.Commit` with write failures) and
  Aqv.Model.ChainWriter (`WriteBlockWithState` / `reorg` / `insert` / `Stop` / `SetHead` as event emitters; `Variant.head` is
  the code as written (141a732, deec78d, 3f14ce8), `Variant.fix1` the tree before 3f14ce8, `Variant.preFix` the tree before
  141a732 / deec78d — theorems named `prefix_*` document those trees and the crash windows the oldest one had).  Helpers: Aqv.Lemmas.ChainDb, ChainWriter, ChainWriterTrace.

  A crash leaves exactly a PREFIX of the event sequence on disk (LevelDB batch atomicity and write ordering are the
  property's own premise).  "For every crash point" is therefore "for every prefix of the write log".
-/
import Aqv.Lemmas.ChainBridge
import Aqv.Lemmas.ChainTrieMem
namespace Aqv.Props.C04
open Aqv.ChainDb

/-! ## 1. Recovery: an image that satisfies the local discipline reopens correctly -/

/-- **loadLastState / repair.**  If the on-disk image satisfies the decidable discipline `LocalOK` (the head pointer names
    a stored block with stored ancestry; canonical numbers agree with that ancestry; some block of it has its state root on
    disk — the head itself on an archive node; the trie store is closed), then `NewBlockChain` returns without error or
    panic, exposes the named head or (pruning) its nearest ancestor whose state is on disk, the complete state below the
    exposed head's root is readable, and the number index agrees with its ancestry back to genesis. -/
theorem localOK_recovers (archive : Bool) (db : Db) (h : LocalOK archive db = true) :
    RecoverOK archive db (recover db) :=
  localOK_recovers' archive db h

/-- a two-block image used by the examples: genesis 0 (root 100) and block 1 (root 101), head = 1 -/
def img1 : Db :=
  [(.lastBlock, .ref 1), (.canon 1, .ref 1), (.header 1, .hdr 0 1 101), (.hashNum 1, .num 1), (.body 1, .txs [7]),
   (.node 101, .node [100]), (.canon 0, .ref 0), (.header 0, .hdr 999 0 100), (.hashNum 0, .num 0), (.body 0, .txs []),
   (.node 100, .node [])]

example : LocalOK true img1 = true := by decide
example : recover img1 = .ok 1 1 := by decide

/-- **Every crash prefix recovers.**  `TraceOK` is decidable (it is evaluated on every observed log by the driver): every
    prefix of the trace leaves a `LocalOK` image whose head pointer names the last block the node made its head.  Then
    after a crash at ANY write boundary the reopened node satisfies `RecoverOK`, and the block its head pointer names is the
    last block made head before the crash. -/
theorem trace_discipline_sound (archive : Bool) (db₀ : Db) (g₀ : Hash) (tr : List GEvent)
    (h : TraceOK archive db₀ g₀ tr = true) :
    ∀ p, p <+: tr →
      RecoverOK archive (applyAll db₀ (p.map (·.1))) (recover (applyAll db₀ (p.map (·.1)))) ∧
      headPtr (applyAll db₀ (p.map (·.1))) = some (ghostAt g₀ p) := by
  intro p hp
  have hi := traceOK_prefix tr db₀ g₀ h p hp
  unfold imageOK at hi
  simp only [Bool.and_eq_true, beq_iff_eq] at hi
  exact ⟨localOK_recovers' archive _ hi.1, hi.2⟩

example : TraceOK true img1 1 [(.put (.td 2) .blob, 1), (.batch [(.node 102, some (.node [100]))], 1)] = true := by decide

/-! ## 2. The trie store: children first ⇒ closed at every prefix -/

/-- **`Database.commit` writes children before parents.**  For every dirty tree in the memory layer whose references out
    of the memory layer are on disk ("previously committed"), every node in the put sequence of `commit` has all the
    objects it references stored already or put earlier. -/
theorem commit_children_first (t : MTree) (db : Db)
    (hdisk : ∀ c ∈ t.diskRefs, (get db (.node c)).isSome = true) :
    childrenFirstB db (commitPuts t) = true :=
  (commitPuts_spec t db hdisk).1

/-- **Closed at EVERY prefix** of the put sequence of `commit` (hence at every batch boundary, wherever
    `IdealBatchSize` happens to cut the sequence): every stored node has all its children stored; and once the last put
    is through, the committed root is stored. -/
theorem closed_prefix (t : MTree) (db : Db) (hc : Closed db)
    (hdisk : ∀ c ∈ t.diskRefs, (get db (.node c)).isSome = true) :
    (∀ q, q <+: commitPuts t → Closed (q.foldl putNode db)) ∧
    (get ((commitPuts t).foldl putNode db) (.node t.hash)).isSome = true := by
  obtain ⟨h1, h2⟩ := commitPuts_spec t db hdisk
  exact ⟨fun q hq => closed_foldl_putNode hc q (childrenFirstB_prefix hq h1), h2⟩

/-- the same at the granularity the storage engine sees: however `IdealBatchSize` cuts the put sequence of `commit` into
    flushed batches, after ANY number of completed flushes the store is closed -/
theorem closed_flush_prefix (t : MTree) (db : Db) (hc : Closed db)
    (hdisk : ∀ c ∈ t.diskRefs, (get db (.node c)).isSome = true)
    (chunks : List (List (Hash × List Hash))) (hch : chunks.flatten = commitPuts t) :
    ∀ P, P <+: chunks → Closed (applyAll db (P.map nodeBatch)) := by
  intro P hP
  rw [applyAll_nodeBatches]
  apply (closed_prefix t db hc hdisk).1
  obtain ⟨R, rfl⟩ := hP
  rw [← hch, List.flatten_append]
  exact List.prefix_append _ _

/-- a state root that is on disk in a closed store has its entire trie on disk -/
theorem root_present_state_complete (db : Db) (hc : Closed db) (root : Hash) (hr : hasState db root = true) :
    StateComplete db root :=
  stateComplete_of_closed hc hr

example : childrenFirstB [(.node 100, .node [])]
    (commitPuts (.node 5 [.node 3 [] [100], .node 4 [.node 3 [] [100]] []] [100])) = true := by decide

/-! ## 3. `trie.Database.Commit`: lock discipline under every injected write failure -/

/-- **`Database.Commit` as written** (with the `RUnlock` before the error return inside the preimage loop, 69e8ea6): for all pending
    preimages, all put sequences, every batch-size limit and every failing `batch.Write()` (or none), the read lock and the
    write lock are released on return. -/
theorem commit_lock_balanced (limit : Nat) (pre : List (Hash × Nat)) (nodes : List (Hash × List Hash × Nat))
    (failAt : Option Nat) :
    held (lockOps (commitRun true limit pre nodes failAt).1) = (0, 0) := by
  rw [commitRun_lockOps]
  simp only [if_true]
  split
  · rfl
  · split
    · rfl
    · split <;> rfl

/-- **Before 69e8ea6**: balanced only on the paths on which the preimage loop does not fail a flush (in particular whenever
    the pending preimages stay below `IdealBatchSize`, or no write fails, or a later write fails). -/
theorem prefix_commit_lock_balanced_partial (limit : Nat) (pre : List (Hash × Nat)) (nodes : List (Hash × List Hash × Nat))
    (failAt : Option Nat) (hpre : (preLoop limit failAt pre { acts := [.lk .rlock] }).1 = true) :
    held (lockOps (commitRun false limit pre nodes failAt).1) = (0, 0) := by
  rw [commitRun_lockOps]
  simp only [hpre, Bool.true_eq_false, if_false]
  split
  · rfl
  · split <;> rfl

/-- **Before 69e8ea6 the full statement was false**: two preimages of 60 bytes with a 100-byte limit make the preimage loop
    flush; when that flush failed `Commit` returned the error with the read lock still held (every later `Lock()` on the
    trie database — `Dereference`, `Insert`, the next `Commit` — blocks forever). -/
theorem prefix_commit_lock_leak_witness :
    commitRun false 100 [(1, 60), (2, 60)] [] (some 0) = ([.lk .rlock, .failedWrite], true) ∧
    held (lockOps (commitRun false 100 [(1, 60), (2, 60)] [] (some 0)).1) = (1, 0) := by decide

example : (preLoop 100 (some 1) [(1, 60), (2, 60)] { acts := [.lk .rlock] }).1 = true := by decide

/-! ## 4. The writers: every prefix of the write log is a good image -/

/-- **`impl_trace_ok`: the writers as written** (`Variant.head`: block batch flushed before `reorg`; `insert` writes the
    canonical number and the head markers in one batch which, when the heads move, also deletes the number entries above
    the block, drops the lookups of the displaced blocks and re-points stale entries below (3f14ce8); `reorg` has no
    clean-up loop): for every initial image satisfying the invariant, every history of block imports
    (any blocks, any fork-choice outcomes — extensions, side blocks, reorganisations to longer, equal and shorter branches),
    `WriteBlockWithoutState`, `Stop` and reopen, under the archive and the pruning configuration, the write log satisfies
    `TraceOK`: every crash prefix is a `LocalOK` image whose head pointer names the last block made head.
    `StepsOK` is what `insertChain` establishes before calling the writers: the block is new or stored with the same
    content; block numbers are parent+1; each flushed batch of `trie.Database.Commit` is children-first relative to the
    disk (§2, observed on every real log by the harness); on an archive node the block's state root is on disk after the
    flush. -/
theorem impl_trace_ok (archive : Bool) (V : Hash → Hdr → Prop) (db : Db) (g : Hash) (hi : Inv archive V db g)
    (steps : List Step) (hok : StepsOK archive V .head { db := db, head := g, hhdr := g } steps) :
    TraceOK archive db g (writeLog .head db g steps) = true :=
  writeLog_traceOK .head hi steps hok

/-- composition: every crash point of every valid history recovers -/
theorem every_crash_recovers (archive : Bool) (V : Hash → Hdr → Prop) (db : Db) (g : Hash) (hi : Inv archive V db g)
    (steps : List Step) (hok : StepsOK archive V .head { db := db, head := g, hhdr := g } steps) :
    ∀ p, p <+: writeLog .head db g steps →
      RecoverOK archive (applyAll db (p.map (·.1))) (recover (applyAll db (p.map (·.1)))) ∧
      headPtr (applyAll db (p.map (·.1))) = some (ghostAt g p) :=
  trace_discipline_sound archive db g _ (impl_trace_ok archive V db g hi steps hok)

/-- the tree between 141a732/deec78d and 3f14ce8 (plain atomic `insert`, clean-up loop in `reorg`) satisfied the same
    statement: 3f14ce8 is about the number index and the lookups (C03), not about crash consistency -/
theorem prefix_fix1_trace_ok (archive : Bool) (V : Hash → Hdr → Prop) (db : Db) (g : Hash) (hi : Inv archive V db g)
    (steps : List Step) (hok : StepsOK archive V .fix1 { db := db, head := g, hhdr := g } steps) :
    TraceOK archive db g (writeLog .fix1 db g steps) = true :=
  writeLog_traceOK .fix1 hi steps hok

/-- **The tree before 141a732 / deec78d**: the same statement held only for histories in which no import
    reorganises (each block that becomes head extends the current head; side blocks are unrestricted).  The excluded
    set — imports that call `reorg` — was exactly where the statement failed (witnesses below). -/
theorem prefix_impl_trace_ok_partial (archive : Bool) (V : Hash → Hdr → Prop) (db : Db) (g : Hash)
    (hi : Inv archive V db g) (steps : List Step)
    (hok : StepsOK archive V .preFix { db := db, head := g, hhdr := g } steps) :
    TraceOK archive db g (writeLog .preFix db g steps) = true :=
  writeLog_traceOK .preFix hi steps hok

/-! ### witnesses: the two crash windows of the tree before the fixes (inside `reorg`) -/

/-- genesis image: block 0 with state root 100 -/
def gen0 : Db :=
  [(.lastBlock, .ref 0), (.lastHeader, .ref 0), (.canon 0, .ref 0), (.header 0, .hdr 999 0 100), (.hashNum 0, .num 0),
   (.body 0, .txs []), (.td 0, .blob), (.node 100, .node [])]

def step1 : Step := .importBlock ⟨1, 0, 1, 101, [1]⟩ true [[(.node 101, some (.node [100]))]]
def step2 : Step := .importBlock ⟨2, 0, 1, 102, [2]⟩ true [[(.node 102, some (.node [100]))]]

/-- block 1 (tx 1) becomes head, then its sibling 2 (tx 2) wins the fork choice: a one-block reorganisation -/
def siblingReorg : List Step := [step1, step2]

/-- Before deec78d: the 10th write of the history is `reorg → insert`'s canonical-number put for the incoming block; after it
    the head pointer still names block 1 while canonical number 1 names block 2 (the index disagrees with the head's
    ancestry) … -/
theorem prefix_canon_before_head_witness :
    firstBad true gen0 0 (writeLog .preFix gen0 0 siblingReorg) 0 = some 10 ∧
    (writeLog .preFix gen0 0 siblingReorg)[9]? = some (.put (.canon 1) (.ref 2), 1) ∧
    recover (applyAll gen0 (((writeLog .preFix gen0 0 siblingReorg).take 10).map (·.1))) = .ok 1 1 ∧
    canonHash (applyAll gen0 (((writeLog .preFix gen0 0 siblingReorg).take 10).map (·.1))) 1 = some 2 := by decide

/-- … and after the next write (`LastBlock := 2`, still before block 2's own batch) the head pointer names a block that is
    not on disk: `NewBlockChain` panics (loadLastState → "Head block missing" → Reset → SetHead → CurrentBlock() on an
    unset atomic.Value).  The window stays open for 5 write boundaries (LastBlock, LastHeader, LastFast, the lookup write,
    the lookup delete), until the batch with block 2's header and body is flushed. -/
theorem prefix_head_before_batch_witness :
    (writeLog .preFix gen0 0 siblingReorg)[10]? = some (.put .lastBlock (.ref 2), 2) ∧
    (∀ k, 11 ≤ k → k ≤ 15 →
      recover (applyAll gen0 (((writeLog .preFix gen0 0 siblingReorg).take k).map (·.1))) = .panicReset) ∧
    recover (applyAll gen0 (((writeLog .preFix gen0 0 siblingReorg).take 16).map (·.1))) = .ok 2 1 ∧
    TraceOK true gen0 0 (writeLog .preFix gen0 0 siblingReorg) = false := by
  refine ⟨by decide, ?_, by decide, by decide⟩
  intro k h1 h2
  have : k = 11 ∨ k = 12 ∨ k = 13 ∨ k = 14 ∨ k = 15 := by omega
  rcases this with rfl | rfl | rfl | rfl | rfl <;> decide

/-- flushing the block batch first (141a732 without deec78d) removes the panic window but not the index window -/
theorem prefix_batchFirst_only_witness :
    (∀ k, k ≤ (writeLog { batchFirst := true, atomicInsert := false } gen0 0 siblingReorg).length →
      (recover (applyAll gen0 (((writeLog { batchFirst := true, atomicInsert := false } gen0 0 siblingReorg).take k).map (·.1)))).isOk = true) ∧
    firstBad true gen0 0 (writeLog { batchFirst := true, atomicInsert := false } gen0 0 siblingReorg) 0 = some 11 := by
  refine ⟨?_, by decide⟩
  intro k hk
  have hl : (writeLog { batchFirst := true, atomicInsert := false } gen0 0 siblingReorg).length = 19 := by decide
  rw [hl] at hk
  have : k = 0 ∨ k = 1 ∨ k = 2 ∨ k = 3 ∨ k = 4 ∨ k = 5 ∨ k = 6 ∨ k = 7 ∨ k = 8 ∨ k = 9 ∨ k = 10 ∨ k = 11 ∨ k = 12 ∨ k = 13 ∨
      k = 14 ∨ k = 15 ∨ k = 16 ∨ k = 17 ∨ k = 18 ∨ k = 19 := by omega
  rcases this with rfl | rfl | rfl | rfl | rfl | rfl | rfl | rfl | rfl | rfl | rfl | rfl | rfl | rfl | rfl | rfl | rfl | rfl |
    rfl | rfl <;> decide

/-- the same history under the writers as written: every prefix is good -/
theorem head_sibling_reorg_ok : TraceOK true gen0 0 (writeLog .head gen0 0 siblingReorg) = true := by decide

/-- non-vacuity of `impl_trace_ok` / `impl_trace_ok_partial`: the genesis image satisfies the invariant … -/
example : Inv true (fun _ _ => True) gen0 0 := invB_sound (by decide)

/-- … and the reorganising history `siblingReorg` satisfies `StepsOK` (its first step alone, which extends the head, satisfied it
    for the pre-fix writers too) -/
example : StepsOK true (fun _ _ => True) .head { db := gen0, head := 0, hhdr := 0 } siblingReorg := by
  have hn0 : blockNumber gen0 0 = some 0 := by decide
  have hn1 : blockNumber (step .head { db := gen0, head := 0, hhdr := 0 } step1).db 0 = some 0 := by decide
  refine ⟨⟨⟨by decide, by decide, by decide, by decide, ?_, trivial, ?_⟩, Or.inl ⟨rfl, rfl⟩⟩,
    ⟨⟨by decide, by decide, by decide, by decide, ?_, trivial, ?_⟩, Or.inl ⟨rfl, rfl⟩⟩, trivial⟩
  · intro n hn
    rw [show (⟨1, 0, 1, 101, [1]⟩ : Blk).parent = 0 from rfl, hn0] at hn
    injection hn with hn; subst hn; rfl
  · intro m hm
    have : m = 0 := by have : (1 : Nat) = m + 1 := hm
                       omega
    subst this
    exact ⟨⟨999, 0, 100⟩, by decide⟩
  · intro n hn
    rw [show (⟨2, 0, 1, 102, [2]⟩ : Blk).parent = 0 from rfl, hn1] at hn
    injection hn with hn; subst hn; rfl
  · intro m hm
    have : m = 0 := by have : (1 : Nat) = m + 1 := hm
                       omega
    subst this
    exact ⟨⟨999, 0, 100⟩, by decide⟩

example : StepsOK true (fun _ _ => True) .preFix { db := gen0, head := 0, hhdr := 0 } (siblingReorg.take 1) := by
  have hn0 : blockNumber gen0 0 = some 0 := by decide
  refine ⟨⟨⟨by decide, by decide, by decide, by decide, ?_, trivial, ?_⟩, Or.inr (fun _ => rfl)⟩, trivial⟩
  · intro n hn
    rw [show (⟨1, 0, 1, 101, [1]⟩ : Blk).parent = 0 from rfl, hn0] at hn
    injection hn with hn; subst hn; rfl
  · intro m hm
    have : m = 0 := by have : (1 : Nat) = m + 1 := hm
                       omega
    subst this
    exact ⟨⟨999, 0, 100⟩, by decide⟩

/-! ## 5. Feeding the original blocks again converges to the crash-free head -/

/-- **`reimport_converges` (archive node).**  Setting: `U` is the universe of the original blocks (`World U`: ids are
    hashes, positive difficulties, no transaction twice along a chain; `g` its only block of number 0); the writers were
    handed blocks of `U` (`Inv`/`StepsOK` with the header predicate `VU U`).  Take ANY crash prefix `p` of the write log of
    ANY valid history: `NewBlockChain` succeeds and exposes the last block made head; view the recovered image as a state of
    the chain model of C02 (`absSt`: stored blocks with their state, total-difficulty records, number index, head).  Feed
    all blocks of `U` again in any parent-first order `L` (`POrder`), with any coin flips: no call fails, and the final head
    has EXACTLY the total difficulty of the head of the crash-free run `ops` (any import history from genesis in which
    every block of `U` got fully validated; C02's `head_is_max` makes that head the heaviest) — and it is the same block
    when no two blocks of `U` have the same total difficulty.
    Assumed, stated precisely: the blocks are valid (the chain model imports only valid blocks); a total-difficulty
    record holds parent's record + difficulty (C02 `td_recurrence`; the C04 store model records only its presence); the
    node is an archive node, so every stored block still has its state (for a pruning node see the `_partial` below). -/
theorem reimport_converges {U : Chain.Map Chain.Blk} (W : Chain.World U) (g : Chain.Blk) (hgU : U g.id = some g)
    (hg0 : g.number = 0) (hgt : g.txs = []) (hz : ∀ k x, U k = some x → x.number = 0 → x = g)
    (db : Db) (g₀ : Hash) (hi : Inv true (VU U) db g₀) (steps : List Step)
    (hok : StepsOK true (VU U) .head { db := db, head := g₀, hhdr := g₀ } steps)
    (p : List GEvent) (hp : p <+: writeLog .head db g₀ steps)
    (L : List Chain.Blk) (hLU : ∀ b ∈ L, U b.id = some b) (hcover : ∀ k x, U k = some x → x = g ∨ x ∈ L)
    (hord : Chain.POrder (absSt U g (applyAll db (p.map (·.1))) (ghostAt g₀ p)).store L)
    (coins : List (List Bool)) (i : Nat)
    (archive : Bool) (ops : List Chain.Op) (hops : ∀ op ∈ ops, Chain.IsImport op ∧ Chain.OpOk U (Chain.init g archive) op)
    (hall : ∀ k x, U k = some x → (Chain.run (Chain.init g archive) ops).seen k = true) :
    ∃ m, recover (applyAll db (p.map (·.1))) = .ok (ghostAt g₀ p) m ∧
      ∃ s', (Chain.importSeq (absSt U g (applyAll db (p.map (·.1))) (ghostAt g₀ p)) L coins i).1 = ⟨s', none⟩ ∧
        s'.td s'.head = (Chain.run (Chain.init g archive) ops).td (Chain.run (Chain.init g archive) ops).head ∧
        ((∀ x y t, U x.id = some x → U y.id = some y → Chain.TDof U g x t → Chain.TDof U g y t → x = y) →
          s'.head = (Chain.run (Chain.init g archive) ops).head) := by
  have hinv := writeLog_allInv .head hi steps hok p hp
  -- recovery exposes the last block made head
  have hrec : ∃ m, recover (applyAll db (p.map (·.1))) = .ok (ghostAt g₀ p) m := by
    have hio := imageOK_of_inv hinv
    unfold imageOK at hio
    simp only [Bool.and_eq_true, beq_iff_eq] at hio
    obtain ⟨h₀, n₀, a, m, hd, hh, _, ho, _, ha, _⟩ := localOK_recovers' true _ hio.1
    rw [hio.2] at hh; cases hh
    exact ⟨m, by rw [ho, ha rfl]⟩
  obtain ⟨m, hm⟩ := hrec
  obtain ⟨s', he, _, htd, hhead⟩ := Chain.refeed_matches_crashfree W g hgU hg0 hgt (winv_abs W hg0 hz hinv) L hLU hcover hord
    coins i archive ops hops hall
  exact ⟨m, hm, s', he, htd, hhead⟩

/-- **pruning node, partial.**  The same conclusion for a pruning node is proved only for crash prefixes on which every
    stored block still has its state on disk (e.g. after a `Stop` that flushed them, or while the chain is short).  What
    is missing for the general pruning case: after a crash the states below the exposed head may be gone; the re-import
    then runs through `ErrPrunedAncestor` → `WriteBlockWithoutState` / the side-chain re-execution (`processWinners`),
    which regenerate the states — modelled in `Aqv.Model.Chain` but not covered by the weak invariant used here.  The
    harness judges the re-import on the real code at every crash prefix of pruning histories. -/
theorem reimport_converges_pruning_partial {U : Chain.Map Chain.Blk} (W : Chain.World U) (g : Chain.Blk)
    (hgU : U g.id = some g) (hg0 : g.number = 0) (hgt : g.txs = []) (hz : ∀ k x, U k = some x → x.number = 0 → x = g)
    (db : Db) (g₀ : Hash) (hi : Inv false (VU U) db g₀) (steps : List Step)
    (hok : StepsOK false (VU U) .head { db := db, head := g₀, hhdr := g₀ } steps)
    (p : List GEvent) (hp : p <+: writeLog .head db g₀ steps)
    (hstates : ∀ h n hd, getBlock (applyAll db (p.map (·.1))) h n = some hd →
      hasState (applyAll db (p.map (·.1))) hd.root = true)
    (L : List Chain.Blk) (hLU : ∀ b ∈ L, U b.id = some b) (hcover : ∀ k x, U k = some x → x = g ∨ x ∈ L)
    (hord : Chain.POrder (absSt U g (applyAll db (p.map (·.1))) (ghostAt g₀ p)).store L)
    (coins : List (List Bool)) (i : Nat)
    (archive : Bool) (ops : List Chain.Op) (hops : ∀ op ∈ ops, Chain.IsImport op ∧ Chain.OpOk U (Chain.init g archive) op)
    (hall : ∀ k x, U k = some x → (Chain.run (Chain.init g archive) ops).seen k = true) :
    ∃ s', (Chain.importSeq (absSt U g (applyAll db (p.map (·.1))) (ghostAt g₀ p)) L coins i).1 = ⟨s', none⟩ ∧
      s'.td s'.head = (Chain.run (Chain.init g archive) ops).td (Chain.run (Chain.init g archive) ops).head ∧
      ((∀ x y t, U x.id = some x → U y.id = some y → Chain.TDof U g x t → Chain.TDof U g y t → x = y) →
        s'.head = (Chain.run (Chain.init g archive) ops).head) := by
  have hinv := writeLog_allInv .head hi steps hok p hp
  have hinv' : Inv true (VU U) (applyAll db (p.map (·.1))) (ghostAt g₀ p) :=
    ⟨hinv.ext, hinv.head, hinv.chain, hinv.closed, hinv.gstate, fun _ => hstates, hinv.hnum⟩
  obtain ⟨s', he, _, htd, hhead⟩ := Chain.refeed_matches_crashfree W g hgU hg0 hgt (winv_abs W hg0 hz hinv') L hLU hcover hord
    coins i archive ops hops hall
  exact ⟨s', he, htd, hhead⟩

/-! non-vacuity of `reimport_converges`: the sibling reorganisation, crashed right after block 2's batch was flushed and
    before `reorg` moved the head (the window in which the 130fc0e rule matters) -/

def cg : Chain.Blk := ⟨0, 999, 0, 100, []⟩
def c1 : Chain.Blk := ⟨1, 0, 1, 10, [1]⟩
def c2 : Chain.Blk := ⟨2, 0, 1, 20, [2]⟩
def U0 : Chain.Map Chain.Blk := Chain.mapOf [cg, c1, c2]

private theorem U0_cases {k : Nat} {x : Chain.Blk} (h : U0 k = some x) : x = cg ∨ x = c1 ∨ x = c2 := by
  have := (Chain.mapOf_id h).2
  simpa using this

example :
    let img := applyAll gen0 (((writeLog .head gen0 0 siblingReorg).take 7).map (·.1))
    recover img = .ok 1 1 ∧ (get img (.header 2)).isSome = true ∧
    ((Chain.importSeq (absSt U0 cg img 1) [c1, c2] [] 0).1).st.head = 2 := by decide

example : ∃ m s', recover (applyAll gen0 (((writeLog .head gen0 0 siblingReorg).take 7).map (·.1))) = .ok 1 m ∧
    (Chain.importSeq (absSt U0 cg (applyAll gen0 (((writeLog .head gen0 0 siblingReorg).take 7).map (·.1))) 1)
      [c1, c2] [] 0).1 = ⟨s', none⟩ ∧
    s'.td s'.head = (Chain.run (Chain.init cg true) [.insert [c1] [], .insert [c2] []]).td
      (Chain.run (Chain.init cg true) [.insert [c1] [], .insert [c2] []]).head := by
  have W : Chain.World U0 := Chain.world_of_check (by decide)
  have hz : ∀ k x, U0 k = some x → x.number = 0 → x = cg := by
    intro k x hx h0
    rcases U0_cases hx with rfl | rfl | rfl
    · rfl
    · cases h0
    · cases h0
  -- the genesis image satisfies the invariant with the universe's header predicate
  have hi0 : Inv true (fun _ _ => True) gen0 0 := invB_sound (by decide)
  have hval : ∀ h n hd, getHeader gen0 h n = some hd → VU U0 h hd := by
    intro h n hd hh
    obtain ⟨hg, _⟩ := getHeader_eq hh
    have h0 : h = 0 := by
      by_cases e : h = 0
      · exact e
      · have e' : ¬ (0 = h) := fun x => e x.symm
        simp [gen0, get_cons, e'] at hg
    subst h0
    have : hd = ⟨999, 0, 100⟩ := by
      simp [gen0, get_cons] at hg
      cases hd; simp_all
    subst this
    exact ⟨cg, by decide, rfl, rfl⟩
  have hi : Inv true (VU U0) gen0 0 :=
    ⟨⟨hval, hi0.ext.pclosed, hi0.ext.storedTd⟩, hi0.head, hi0.chain, hi0.closed, hi0.gstate, hi0.arch, hi0.hnum⟩
  have hn0 : blockNumber gen0 0 = some 0 := by decide
  have hn1 : blockNumber (step .head { db := gen0, head := 0, hhdr := 0 } step1).db 0 = some 0 := by decide
  have hok : StepsOK true (VU U0) .head { db := gen0, head := 0, hhdr := 0 } siblingReorg := by
    refine ⟨⟨⟨by decide, by decide, by decide, by decide, ?_, ⟨c1, by decide, rfl, rfl⟩, ?_⟩, Or.inl ⟨rfl, rfl⟩⟩,
      ⟨⟨by decide, by decide, by decide, by decide, ?_, ⟨c2, by decide, rfl, rfl⟩, ?_⟩, Or.inl ⟨rfl, rfl⟩⟩, trivial⟩
    · intro n hn
      rw [show (⟨1, 0, 1, 101, [1]⟩ : Blk).parent = 0 from rfl, hn0] at hn
      injection hn with hn; subst hn; rfl
    · intro m hm
      have : m = 0 := by have : (1 : Nat) = m + 1 := hm
                         omega
      subst this
      exact ⟨⟨999, 0, 100⟩, by decide⟩
    · intro n hn
      rw [show (⟨2, 0, 1, 102, [2]⟩ : Blk).parent = 0 from rfl, hn1] at hn
      injection hn with hn; subst hn; rfl
    · intro m hm
      have : m = 0 := by have : (1 : Nat) = m + 1 := hm
                         omega
      subst this
      exact ⟨⟨999, 0, 100⟩, by decide⟩
  have hghost : ghostAt 0 ((writeLog .head gen0 0 siblingReorg).take 7) = 1 := by decide
  obtain ⟨m, hm, s', he, htd, _⟩ := reimport_converges W cg (by decide) rfl rfl hz gen0 0 hi siblingReorg hok
    ((writeLog .head gen0 0 siblingReorg).take 7) (List.take_prefix _ _) [c1, c2]
    (by intro b hb; simp at hb; rcases hb with rfl | rfl <;> decide)
    (by intro k x hx; rcases U0_cases hx with rfl | rfl | rfl <;> simp)
    (by rw [hghost]; exact ⟨⟨cg, by decide⟩, ⟨cg, by decide⟩, trivial⟩)
    [] 0 true [.insert [c1] [], .insert [c2] []]
    (by intro op hop; simp at hop; rcases hop with rfl | rfl <;> exact ⟨trivial, by decide⟩)
    (by intro k x hx; rcases U0_cases hx with rfl | rfl | rfl <;> (have := (Chain.mapOf_id hx).1; subst this; decide))
  rw [hghost] at hm he
  exact ⟨m, s', hm, he, htd⟩

/-! ## 2b. The memory layer of trie.Database across commits that may FAIL -/

/-- **Failed flushes never break the trie store.**  `commitStep true` is `Database.Commit(root)` on the memory layer of
    dirty nodes (`commit`: skip what is not in memory, children first; `uncache` only after every flush succeeded — a
    failed `Commit` returns its error and leaves the memory layer untouched).  Start from a closed disk and a memory layer
    whose references are dirty or on disk (`TrieInv`); run ANY history of commits, each succeeding or failing after ANY
    number of its puts reached the disk: the disk is closed after every one of them and the memory layer still only
    references dirty or stored objects — so "not in memory ⇒ previously committed", the assumption `commit` relies on
    (hypothesis `diskRefs` of `commit_children_first`), is never falsified by a write failure. -/
theorem failed_flush_keeps_tries_whole (hist : List (Hash × Nat × Option Nat)) (md : Mem × Db) (hi : TrieInv md)
    (hf : FuelOKAll true md hist) :
    Closed (commitRunMem true md hist).2 ∧ MemClosed (commitRunMem true md hist).1 (commitRunMem true md hist).2 :=
  trieInv_run hist md hi hf

/-- after a `Commit(root)` whose flush failed (after any number `k` of puts) and a later successful `Commit(root)`, the
    root is on disk together with its whole trie -/
theorem commit_retry_root_complete (fuel : Nat) (md : Mem × Db) (root : Hash) (k : Nat) (hi : TrieInv md)
    (hf : commitFuelOK md.1 fuel root = true) (hr : (memGet md.1 root).isSome = true) :
    StateComplete (commitStep true fuel (commitStep true fuel md root (some k)) root none).2 root := by
  have h1 := trieInv_commitStep fuel md root (some k) hi hf
  have hm : (commitStep true fuel md root (some k)).1 = md.1 := by simp [commitStep]
  have h2 := trieInv_commitStep fuel _ root none h1 (by rw [hm]; exact hf)
  exact stateComplete_of_closed h2.1 (root_on_disk_after_commit fuel _ root h1 (by rw [hm]; exact hf) (by rw [hm]; exact hr))

/-- a memory layer: roots 1 and 3 share the dirty node 2; nothing on disk -/
def mem0 : Mem := [(1, [2]), (3, [2]), (2, [])]

example : TrieInv (mem0, []) ∧ FuelOKAll true (mem0, []) [(1, 3, some 0), (3, 3, none), (1, 3, none)] := by
  refine ⟨⟨fun h cs hg => by simp [ChainDb.get] at hg, ?_⟩, ⟨by decide, by decide, by decide, trivial⟩⟩
  intro h cs hg c hc
  have : (h = 1 ∧ cs = [2]) ∨ (h = 3 ∧ cs = [2]) ∨ (h = 2 ∧ cs = []) := by
    simp only [mem0, memGet] at hg
    split at hg
    · left; simp_all
    · split at hg
      · right; left; simp_all
      · split at hg
        · right; right; simp_all
        · cases hg
  rcases this with ⟨_, rfl⟩ | ⟨_, rfl⟩ | ⟨_, rfl⟩
  · simp at hc; subst hc; left; decide
  · simp at hc; subst hc; left; decide
  · cases hc

/-- the seeded change C04-7 (`Commit` uncaches although its flush failed): the commit of root 1 fails before anything
    reached the disk and nodes 1 and 2 leave the memory layer anyway; the next, successful commit of root 3 treats node 2
    as "previously committed" and stores node 3 without its child: root 3 is on disk, its trie is not -/
theorem uncache_after_failed_flush_witness :
    closedB (commitRunMem false (mem0, []) [(1, 3, some 0), (3, 3, none)]).2 = false ∧
    hasState (commitRunMem false (mem0, []) [(1, 3, some 0), (3, 3, none)]).2 3 = true ∧
    closedB (commitRunMem true (mem0, []) [(1, 3, some 0), (3, 3, none)]).2 = true := by decide

/-! ## 6. The block cache on the error path -/

/-- the writers and `recover` of this file read the STORE; the Go code reads through `bc.blockCache` (`GetBlock`).  Under
    coherence the two are the same read: a cached block is returned exactly as the store would return it. -/
theorem cache_reads_are_store_reads (c : BlockCache) (db : Db) (hc : Coherent c db) (h : Hash) (hd : Hdr)
    (hg : cacheGet c h = some hd) : getBlockC c db h hd.num = getBlock db h hd.num := by
  unfold getBlockC
  rw [hg, hc h hd hg]

/-- **`failed_write_leaves_no_cached_unwritten_block`.**  The code as written fills the block cache only from reads of the
    store (`GetBlock` on a miss) — never with a block whose batch has not been flushed.  Then through ANY sequence of
    reads, writes that went through (imports and Stop never remove a stored block) and writes that FAILED, the cache stays
    coherent: no cached block is missing from the store, so no later `reorg`/`HasBlock`/known-block shortcut can act on a
    block that never reached the disk.  (This is the error-path counterpart of C01's Layer-D coherence invariant; the
    harness checks the consequence on the real code: after every survivable injected failure the history continues in the
    same process and the reopened image is judged.) -/
theorem failed_write_leaves_no_cached_unwritten_block : ∀ (steps : List CacheStep) (c : BlockCache) (db : Db),
    Coherent c db →
    (∀ (pre : List CacheStep) (st : CacheStep) (post : List CacheStep), steps = pre ++ st :: post →
      CodeStep (pre.foldl cstep (c, db)).2 st) →
    Coherent (steps.foldl cstep (c, db)).1 (steps.foldl cstep (c, db)).2 := by
  intro steps
  induction steps with
  | nil => intro c db hc _; exact hc
  | cons st rest ih =>
    intro c db hc hall
    have h1 := coherent_cstep hc st (hall [] st rest rfl)
    simp only [List.foldl_cons]
    have : cstep (c, db) st = ((cstep (c, db) st).1, (cstep (c, db) st).2) := rfl
    rw [this]
    apply ih _ _ h1
    intro pre st' post he
    have := hall (st :: pre) st' post (by simp [he])
    simpa [List.foldl_cons] using this

/-- the seeded shape (C04-6): `blockCache.Add(block)` right after the block was queued in its batch; the batch flush then
    fails.  The cache now vouches for a block the store does not hold: coherence is gone, `GetBlock` through the cache and
    `GetBlock` on the store disagree — which is how a retried segment skips the block as known, a later `reorg` makes it
    canonical, and the reopened node finds a hole in the head's ancestry. -/
theorem cache_add_before_flush_witness :
    Coherent [] gen0 ∧
    ¬ Coherent ([CacheStep.addUnflushed 2 ⟨0, 1, 102⟩, .failed (.batch (blockData ⟨2, 0, 1, 102, [2]⟩))].foldl cstep ([], gen0)).1
        ([CacheStep.addUnflushed 2 ⟨0, 1, 102⟩, .failed (.batch (blockData ⟨2, 0, 1, 102, [2]⟩))].foldl cstep ([], gen0)).2 ∧
    getBlockC [(2, ⟨0, 1, 102⟩)] gen0 2 1 = some ⟨0, 1, 102⟩ ∧ getBlock gen0 2 1 = none := by
  refine ⟨fun h hd hg => by simp [cacheGet] at hg, ?_, by decide, by decide⟩
  intro hc
  have := hc 2 ⟨0, 1, 102⟩ (by decide)
  revert this
  decide

example : CodeStep gen0 (.wrote (.batch (blockData ⟨2, 0, 1, 102, [2]⟩))) := by
  intro h n hd hb
  obtain ⟨hg, hn⟩ := getHeader_eq (getBlock_header hb)
  by_cases e : h = 0
  · subst e
    have h0 : ChainDb.get gen0 (.header 0) = some (.hdr 999 0 100) := by decide
    rw [h0] at hg
    have : hd = ⟨999, 0, 100⟩ := by
      cases hd
      simp only [Option.some.injEq, Val.hdr.injEq] at hg
      simp [hg.1, hg.2.1, hg.2.2]
    subst this
    have : n = 0 := hn.symm
    subst this
    decide
  · exfalso
    have e' : ¬ (0 = h) := fun x => e x.symm
    simp [gen0, get_cons, e'] at hg

/-! ### `SetHead` (outside the property's quantifier — recorded, not claimed) -/

/-- `SetHead` deletes the head block's body, header and number while LastBlock still names it: a crash inside it leaves an
    image on which `NewBlockChain` panics.  (Import, reorganisation and shutdown never call `SetHead`; recovery itself
    reaches it only through `Reset`.) -/
theorem sethead_trace_not_ok_witness :
    firstBad true gen0 0 (writeLog .head gen0 0 (siblingReorg ++ [.opened, .setHead 0])) 0 = some 15 ∧
    recover (applyAll gen0 (((writeLog .head gen0 0 (siblingReorg ++ [.opened, .setHead 0])).take 15).map (·.1))) = .panicReset := by
  decide

end Aqv.Props.C04

/-
  C04 — The chain database survives a crash at any write boundary.  Property theorems only.

  Model: Aqv.Model.ChainDb (store, events, `recover` = NewBlockChain → loadLastState → repair/Reset, the discipline
  `LocalOK`, the statement `RecoverOK`, trie `commit`, `Database.Commit` with write failures) and
  Aqv.Model.ChainWriter (`WriteBlockWithState` / `reorg` / `insert` / `Stop` / `SetHead` as event emitters; `Variant.head` is
  the code as written, `Variant.preFix` the tree before fix commits 141a732 / deec78d — theorems named `prefix_*` document
  the crash windows that tree had).  Helpers: Aqv.Lemmas.ChainDb, ChainWriter, ChainWriterTrace.

  A crash leaves exactly a PREFIX of the event sequence on disk (LevelDB batch atomicity and write ordering are the
  property's own premise).  "For every crash point" is therefore "for every prefix of the write log".
-/
import Aqv.Lemmas.ChainWriterTrace
namespace Aqv.Props.C04
open Aqv.ChainDb

/-! ## 1. Recovery: an image that satisfies the local discipline reopens correctly -/

/-- **loadLastState / repair.**  If the on-disk image satisfies the decidable discipline `LocalOK` (the head pointer names
    a stored block with stored ancestry; canonical numbers agree with that ancestry; some block of it has its state root on
    disk — the head itself on an archive node; the trie store is closed), then `NewBlockChain` returns without error or
    panic, exposes the named head or (pruning) its nearest ancestor whose state is on disk, the complete state below the
    exposed head's root is readable, and the number index agrees with its ancestry back to genesis. -/
theorem localOK_recovers (archive : Bool) (db : Db) (h : LocalOK archive db = true) :
    RecoverOK archive db (recover db) :=
  localOK_recovers' archive db h

/-- a two-block image used by the examples: genesis 0 (root 100) and block 1 (root 101), head = 1 -/
def img1 : Db :=
  [(.lastBlock, .ref 1), (.canon 1, .ref 1), (.header 1, .hdr 0 1 101), (.hashNum 1, .num 1), (.body 1, .txs [7]),
   (.node 101, .node [100]), (.canon 0, .ref 0), (.header 0, .hdr 999 0 100), (.hashNum 0, .num 0), (.body 0, .txs []),
   (.node 100, .node [])]

example : LocalOK true img1 = true := by decide
example : recover img1 = .ok 1 1 := by decide

/-- **Every crash prefix recovers.**  `TraceOK` is decidable (it is evaluated on every observed log by the driver): every
    prefix of the trace leaves a `LocalOK` image whose head pointer names the last block the node made its head.  Then
    after a crash at ANY write boundary the reopened node satisfies `RecoverOK`, and the block its head pointer names is the
    last block made head before the crash. -/
theorem trace_discipline_sound (archive : Bool) (db₀ : Db) (g₀ : Hash) (tr : List GEvent)
    (h : TraceOK archive db₀ g₀ tr = true) :
    ∀ p, p <+: tr →
      RecoverOK archive (applyAll db₀ (p.map (·.1))) (recover (applyAll db₀ (p.map (·.1)))) ∧
      headPtr (applyAll db₀ (p.map (·.1))) = some (ghostAt g₀ p) := by
  intro p hp
  have hi := traceOK_prefix tr db₀ g₀ h p hp
  unfold imageOK at hi
  simp only [Bool.and_eq_true, beq_iff_eq] at hi
  exact ⟨localOK_recovers' archive _ hi.1, hi.2⟩

example : TraceOK true img1 1 [(.put (.td 2) .blob, 1), (.batch [(.node 102, some (.node [100]))], 1)] = true := by decide

/-! ## 2. The trie store: children first ⇒ closed at every prefix -/

/-- **`Database.commit` writes children before parents.**  For every dirty tree in the memory layer whose references out
    of the memory layer are on disk ("previously committed"), every node in the put sequence of `commit` has all the
    objects it references stored already or put earlier. -/
theorem commit_children_first (t : MTree) (db : Db)
    (hdisk : ∀ c ∈ t.diskRefs, (get db (.node c)).isSome = true) :
    childrenFirstB db (commitPuts t) = true :=
  (commitPuts_spec t db hdisk).1

/-- **Closed at EVERY prefix** of the put sequence of `commit` (hence at every batch boundary, wherever
    `IdealBatchSize` happens to cut the sequence): every stored node has all its children stored; and once the last put
    is through, the committed root is stored. -/
theorem closed_prefix (t : MTree) (db : Db) (hc : Closed db)
    (hdisk : ∀ c ∈ t.diskRefs, (get db (.node c)).isSome = true) :
    (∀ q, q <+: commitPuts t → Closed (q.foldl putNode db)) ∧
    (get ((commitPuts t).foldl putNode db) (.node t.hash)).isSome = true := by
  obtain ⟨h1, h2⟩ := commitPuts_spec t db hdisk
  exact ⟨fun q hq => closed_foldl_putNode hc q (childrenFirstB_prefix hq h1), h2⟩

/-- the same at the granularity the storage engine sees: however `IdealBatchSize` cuts the put sequence of `commit` into
    flushed batches, after ANY number of completed flushes the store is closed -/
theorem closed_flush_prefix (t : MTree) (db : Db) (hc : Closed db)
    (hdisk : ∀ c ∈ t.diskRefs, (get db (.node c)).isSome = true)
    (chunks : List (List (Hash × List Hash))) (hch : chunks.flatten = commitPuts t) :
    ∀ P, P <+: chunks → Closed (applyAll db (P.map nodeBatch)) := by
  intro P hP
  rw [applyAll_nodeBatches]
  apply (closed_prefix t db hc hdisk).1
  obtain ⟨R, rfl⟩ := hP
  rw [← hch, List.flatten_append]
  exact List.prefix_append _ _

/-- a state root that is on disk in a closed store has its entire trie on disk -/
theorem root_present_state_complete (db : Db) (hc : Closed db) (root : Hash) (hr : hasState db root = true) :
    StateComplete db root :=
  stateComplete_of_closed hc hr

example : childrenFirstB [(.node 100, .node [])]
    (commitPuts (.node 5 [.node 3 [] [100], .node 4 [.node 3 [] [100]] []] [100])) = true := by decide

/-! ## 3. `trie.Database.Commit`: lock discipline under every injected write failure -/

/-- **`Database.Commit` as written** (with the `RUnlock` before the error return inside the preimage loop, 69e8ea6): for all pending
    preimages, all put sequences, every batch-size limit and every failing `batch.Write()` (or none), the read lock and the
    write lock are released on return. -/
theorem commit_lock_balanced (limit : Nat) (pre : List (Hash × Nat)) (nodes : List (Hash × List Hash × Nat))
    (failAt : Option Nat) :
    held (lockOps (commitRun true limit pre nodes failAt).1) = (0, 0) := by
  rw [commitRun_lockOps]
  simp only [if_true]
  split
  · rfl
  · split
    · rfl
    · split <;> rfl

/-- **Before 69e8ea6**: balanced only on the paths on which the preimage loop does not fail a flush (in particular whenever
    the pending preimages stay below `IdealBatchSize`, or no write fails, or a later write fails). -/
theorem prefix_commit_lock_balanced_partial (limit : Nat) (pre : List (Hash × Nat)) (nodes : List (Hash × List Hash × Nat))
    (failAt : Option Nat) (hpre : (preLoop limit failAt pre { acts := [.lk .rlock] }).1 = true) :
    held (lockOps (commitRun false limit pre nodes failAt).1) = (0, 0) := by
  rw [commitRun_lockOps]
  simp only [hpre, Bool.true_eq_false, if_false]
  split
  · rfl
  · split <;> rfl

/-- **Before 69e8ea6 the full statement was false**: two preimages of 60 bytes with a 100-byte limit make the preimage loop
    flush; when that flush failed `Commit` returned the error with the read lock still held (every later `Lock()` on the
    trie database — `Dereference`, `Insert`, the next `Commit` — blocks forever). -/
theorem prefix_commit_lock_leak_witness :
    commitRun false 100 [(1, 60), (2, 60)] [] (some 0) = ([.lk .rlock, .failedWrite], true) ∧
    held (lockOps (commitRun false 100 [(1, 60), (2, 60)] [] (some 0)).1) = (1, 0) := by decide

example : (preLoop 100 (some 1) [(1, 60), (2, 60)] { acts := [.lk .rlock] }).1 = true := by decide

/-! ## 4. The writers: every prefix of the write log is a good image -/

/-- **`impl_trace_ok`: the writers as written** (`Variant.head`: block batch flushed before `reorg`; `insert` writes the
    canonical number and the head markers in one batch): for every initial image satisfying the invariant, every history of block imports
    (any blocks, any fork-choice outcomes — extensions, side blocks, reorganisations to longer, equal and shorter branches),
    `WriteBlockWithoutState`, `Stop` and reopen, under the archive and the pruning configuration, the write log satisfies
    `TraceOK`: every crash prefix is a `LocalOK` image whose head pointer names the last block made head.
    `StepsOK` is what `insertChain` establishes before calling the writers: the block is new or stored with the same
    content; block numbers are parent+1; each flushed batch of `trie.Database.Commit` is children-first relative to the
    disk (§2, observed on every real log by the harness); on an archive node the block's state root is on disk after the
    flush. -/
theorem impl_trace_ok (archive : Bool) (db : Db) (g : Hash) (hi : Inv archive db g) (steps : List Step)
    (hok : StepsOK archive .head { db := db, head := g, hhdr := g } steps) :
    TraceOK archive db g (writeLog .head db g steps) = true :=
  writeLog_traceOK .head hi steps hok

/-- composition: every crash point of every valid history recovers -/
theorem every_crash_recovers (archive : Bool) (db : Db) (g : Hash) (hi : Inv archive db g) (steps : List Step)
    (hok : StepsOK archive .head { db := db, head := g, hhdr := g } steps) :
    ∀ p, p <+: writeLog .head db g steps →
      RecoverOK archive (applyAll db (p.map (·.1))) (recover (applyAll db (p.map (·.1)))) ∧
      headPtr (applyAll db (p.map (·.1))) = some (ghostAt g p) :=
  trace_discipline_sound archive db g _ (impl_trace_ok archive db g hi steps hok)

/-- **The tree before 141a732 / deec78d**: the same statement held only for histories in which no import
    reorganises (each block that becomes head extends the current head; side blocks are unrestricted).  The excluded
    set — imports that call `reorg` — was exactly where the statement failed (witnesses below). -/
theorem prefix_impl_trace_ok_partial (archive : Bool) (db : Db) (g : Hash) (hi : Inv archive db g) (steps : List Step)
    (hok : StepsOK archive .preFix { db := db, head := g, hhdr := g } steps) :
    TraceOK archive db g (writeLog .preFix db g steps) = true :=
  writeLog_traceOK .preFix hi steps hok

/-! ### witnesses: the two crash windows of the tree before the fixes (inside `reorg`) -/

/-- genesis image: block 0 with state root 100 -/
def gen0 : Db :=
  [(.lastBlock, .ref 0), (.lastHeader, .ref 0), (.canon 0, .ref 0), (.header 0, .hdr 999 0 100), (.hashNum 0, .num 0),
   (.body 0, .txs []), (.node 100, .node [])]

def step1 : Step := .importBlock ⟨1, 0, 1, 101, [1]⟩ true [[(.node 101, some (.node [100]))]]
def step2 : Step := .importBlock ⟨2, 0, 1, 102, [2]⟩ true [[(.node 102, some (.node [100]))]]

/-- block 1 (tx 1) becomes head, then its sibling 2 (tx 2) wins the fork choice: a one-block reorganisation -/
def siblingReorg : List Step := [step1, step2]

/-- Before deec78d: the 10th write of the history is `reorg → insert`'s canonical-number put for the incoming block; after it
    the head pointer still names block 1 while canonical number 1 names block 2 (the index disagrees with the head's
    ancestry) … -/
theorem prefix_canon_before_head_witness :
    firstBad true gen0 0 (writeLog .preFix gen0 0 siblingReorg) 0 = some 10 ∧
    (writeLog .preFix gen0 0 siblingReorg)[9]? = some (.put (.canon 1) (.ref 2), 1) ∧
    recover (applyAll gen0 (((writeLog .preFix gen0 0 siblingReorg).take 10).map (·.1))) = .ok 1 1 ∧
    canonHash (applyAll gen0 (((writeLog .preFix gen0 0 siblingReorg).take 10).map (·.1))) 1 = some 2 := by decide

/-- … and after the next write (`LastBlock := 2`, still before block 2's own batch) the head pointer names a block that is
    not on disk: `NewBlockChain` panics (loadLastState → "Head block missing" → Reset → SetHead → CurrentBlock() on an
    unset atomic.Value).  The window stays open for 5 write boundaries (LastBlock, LastHeader, LastFast, the lookup write,
    the lookup delete), until the batch with block 2's header and body is flushed. -/
theorem prefix_head_before_batch_witness :
    (writeLog .preFix gen0 0 siblingReorg)[10]? = some (.put .lastBlock (.ref 2), 2) ∧
    (∀ k, 11 ≤ k → k ≤ 15 →
      recover (applyAll gen0 (((writeLog .preFix gen0 0 siblingReorg).take k).map (·.1))) = .panicReset) ∧
    recover (applyAll gen0 (((writeLog .preFix gen0 0 siblingReorg).take 16).map (·.1))) = .ok 2 1 ∧
    TraceOK true gen0 0 (writeLog .preFix gen0 0 siblingReorg) = false := by
  refine ⟨by decide, ?_, by decide, by decide⟩
  intro k h1 h2
  have : k = 11 ∨ k = 12 ∨ k = 13 ∨ k = 14 ∨ k = 15 := by omega
  rcases this with rfl | rfl | rfl | rfl | rfl <;> decide

/-- flushing the block batch first (141a732 without deec78d) removes the panic window but not the index window -/
theorem prefix_batchFirst_only_witness :
    (∀ k, k ≤ (writeLog ⟨true, false⟩ gen0 0 siblingReorg).length →
      (recover (applyAll gen0 (((writeLog ⟨true, false⟩ gen0 0 siblingReorg).take k).map (·.1)))).isOk = true) ∧
    firstBad true gen0 0 (writeLog ⟨true, false⟩ gen0 0 siblingReorg) 0 = some 11 := by
  refine ⟨?_, by decide⟩
  intro k hk
  have hl : (writeLog ⟨true, false⟩ gen0 0 siblingReorg).length = 19 := by decide
  rw [hl] at hk
  have : k = 0 ∨ k = 1 ∨ k = 2 ∨ k = 3 ∨ k = 4 ∨ k = 5 ∨ k = 6 ∨ k = 7 ∨ k = 8 ∨ k = 9 ∨ k = 10 ∨ k = 11 ∨ k = 12 ∨ k = 13 ∨
      k = 14 ∨ k = 15 ∨ k = 16 ∨ k = 17 ∨ k = 18 ∨ k = 19 := by omega
  rcases this with rfl | rfl | rfl | rfl | rfl | rfl | rfl | rfl | rfl | rfl | rfl | rfl | rfl | rfl | rfl | rfl | rfl | rfl |
    rfl | rfl <;> decide

/-- the same history under the writers as written: every prefix is good -/
theorem head_sibling_reorg_ok : TraceOK true gen0 0 (writeLog .head gen0 0 siblingReorg) = true := by decide

/-- non-vacuity of `impl_trace_ok` / `impl_trace_ok_partial`: the genesis image satisfies the invariant … -/
example : Inv true gen0 0 := invB_sound (by decide)

/-- … and the reorganising history `siblingReorg` satisfies `StepsOK` (its first step alone, which extends the head, satisfied it
    for the pre-fix writers too) -/
example : StepsOK true .head { db := gen0, head := 0, hhdr := 0 } siblingReorg := by
  refine ⟨⟨⟨by decide, by decide, by decide, by decide, ?_⟩, Or.inl ⟨rfl, rfl⟩⟩, ⟨⟨by decide, by decide, by decide, by decide, ?_⟩,
    Or.inl ⟨rfl, rfl⟩⟩, trivial⟩
  · intro n hn
    have : blockNumber gen0 0 = some 0 := by decide
    rw [show (⟨1, 0, 1, 101, [1]⟩ : Blk).parent = 0 from rfl, this] at hn
    injection hn with hn; subst hn; rfl
  · intro n hn
    have : blockNumber (step .head { db := gen0, head := 0, hhdr := 0 } step1).db 0 = some 0 := by decide
    rw [show (⟨2, 0, 1, 102, [2]⟩ : Blk).parent = 0 from rfl, this] at hn
    injection hn with hn; subst hn; rfl

example : StepsOK true .preFix { db := gen0, head := 0, hhdr := 0 } (siblingReorg.take 1) := by
  refine ⟨⟨⟨by decide, by decide, by decide, by decide, ?_⟩, Or.inr (fun _ => rfl)⟩, trivial⟩
  intro n hn
  have : blockNumber gen0 0 = some 0 := by decide
  rw [show (⟨1, 0, 1, 101, [1]⟩ : Blk).parent = 0 from rfl, this] at hn
  injection hn with hn; subst hn; rfl

/-! ### `SetHead` (outside the property's quantifier — recorded, not claimed) -/

/-- `SetHead` deletes the head block's body, header and number while LastBlock still names it: a crash inside it leaves an
    image on which `NewBlockChain` panics.  (Import, reorganisation and shutdown never call `SetHead`; recovery itself
    reaches it only through `Reset`.) -/
theorem sethead_trace_not_ok_witness :
    firstBad true gen0 0 (writeLog .head gen0 0 (siblingReorg ++ [.opened, .setHead 0])) 0 = some 15 ∧
    recover (applyAll gen0 (((writeLog .head gen0 0 (siblingReorg ++ [.opened, .setHead 0])).take 15).map (·.1))) = .panicReset := by
  decide

end Aqv.Props.C04

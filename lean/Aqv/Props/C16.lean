/-
  C16 — Log blooms have no false negatives and log queries are exact.  Property theorems only (helpers in Aqv/Lemmas/LogFilter*).
  Model: Aqv.Model.LogFilter (bloom9.go, filters/filter.go, bloombits/generator.go + matcher.go, aqua/bloombits.go).
  Every theorem holds for an ARBITRARY hash function `H` (crypto.Keccak256 in the code), all logs/receipts/chains, all criteria,
  all ranges, all section sizes the generator accepts and every index progress.

  The matcher's goroutine pipeline is modelled as a transition system (Aqv.Model.MatcherPipeline: source feed, one two-channel stage
  per filter group, scheduler de-duplication and cache, an arbitrary delivery environment); `matcher_session_spec` shows that every
  schedule computes the input/output function `matcherRun` used by `logs_exact`. Channel capacities, the quit/kill shutdown path,
  context cancellation and retrieval errors are outside the model.
-/
import Aqv.Lemmas.LogFilterQuery
import Aqv.Lemmas.LogFilterCompress
import Aqv.Lemmas.LogFilterIndexer
import Aqv.Lemmas.MatcherPipeline
import Aqv.Lemmas.HashMemo
import Aqv.Lemmas.LogFilterColumn
import Aqv.Gen.Bloom
namespace Aqv.Props.C16
open Aqv Aqv.LogFilter

/-! ## 1. blooms have no false negatives -/

/-- For every receipt set, every receipt `r` in it and every log in `r`: the address and every topic of the log test positive
    (`BloomLookup`) both in the receipt's own bloom `CreateBloom({r})` and in the header bloom `CreateBloom(receipts)`. -/
theorem bloom_no_false_negative (H : HashFn) (receipts : List (List Log)) (r : List Log) (hr : r ∈ receipts)
    (log : Log) (hlog : log ∈ r) :
    (bloomLookup H (createBloom H [r]) log.address = true ∧ ∀ t ∈ log.topics, bloomLookup H (createBloom H [r]) t = true) ∧
    (bloomLookup H (createBloom H receipts) log.address = true ∧ ∀ t ∈ log.topics, bloomLookup H (createBloom H receipts) t = true) := by
  have one : ∀ (rs : List (List Log)), r ∈ rs →
      bloomLookup H (createBloom H rs) log.address = true ∧ ∀ t ∈ log.topics, bloomLookup H (createBloom H rs) t = true := by
    intro rs hrs
    have hcov := createBloomNat_covers H rs r hrs
    constructor
    · rw [bloomLookup_iff_covers, beNat_createBloom]
      exact covers_trans hcov (logsBloom_covers_address H r log hlog)
    · intro t ht
      rw [bloomLookup_iff_covers, beNat_createBloom]
      exact covers_trans hcov (logsBloom_covers_topic H r log hlog t ht)
  exact ⟨one [r] (by simp), one receipts hr⟩

-- non-vacuity: a log with two topics in the second of two receipts (any hash, here the identity).
example : bloomLookup id (createBloom id [[], [⟨[1, 2], [[3], [4]], false, 7⟩]]) [4] = true :=
  ((bloom_no_false_negative id [[], [⟨[1, 2], [[3], [4]], false, 7⟩]] [⟨[1, 2], [[3], [4]], false, 7⟩] (by simp)
    ⟨[1, 2], [[3], [4]], false, 7⟩ (by simp)).2).2 [4] (by simp)

/-- `Bloom.TestBytes` is `BloomLookup` on the bytes it is given — for every item, leading zero bytes included
    (unconditional since fix 7d17e77; the code used to round-trip the item through `big.Int`). -/
theorem testBytes_eq_lookup (H : HashFn) (bin item : Bytes) : bloomTestBytes H bin item = bloomLookup H bin item := rfl

/-- The exported bloom test has no false negatives either: every address and topic of every covered log — whatever its
    leading bytes — tests positive with `TestBytes` in the receipt bloom and in the header bloom. -/
theorem testBytes_no_false_negative (H : HashFn) (receipts : List (List Log)) (r : List Log) (hr : r ∈ receipts)
    (log : Log) (hlog : log ∈ r) :
    (bloomTestBytes H (createBloom H [r]) log.address = true ∧ ∀ t ∈ log.topics, bloomTestBytes H (createBloom H [r]) t = true) ∧
    (bloomTestBytes H (createBloom H receipts) log.address = true ∧
      ∀ t ∈ log.topics, bloomTestBytes H (createBloom H receipts) t = true) :=
  bloom_no_false_negative H receipts r hr log hlog

-- non-vacuity, on the former failing input: the address `00 01` (leading zero byte) of a covered log tests positive.
example : bloomTestBytes id (createBloom id [[⟨[0, 1], [], false, 0⟩]]) [0, 1] = true :=
  ((testBytes_no_false_negative id [[⟨[0, 1], [], false, 0⟩]] [⟨[0, 1], [], false, 0⟩] (by simp) ⟨[0, 1], [], false, 0⟩ (by simp)).2).1

/-- `CreateBloom` never reaches the panic of `SetBytes` (the accumulated integer fits 256 bytes) and yields exactly 256 bytes. -/
theorem createBloom_total (H : HashFn) (receipts : List (List Log)) :
    (beBytes (createBloomNat H receipts)).length ≤ 256 ∧ (createBloom H receipts).length = 256 :=
  ⟨createBloom_fits H receipts, createBloom_length H receipts⟩

/-- A bloom test never excludes a block that holds a matching log: if `bloomFilter` rejects the header bloom of a block whose
    bloom is the one `ValidateState` enforces, no log of the block passes `filterLogs`. -/
theorem bloomFilter_sound (H : HashFn) (blk : Block) (hv : blk.valid H) (c : Criteria)
    (hf : bloomFilter H blk.bloom c = false) : filterLogs blk.logs c = [] :=
  filterLogs_nil_of_bloomFilter_false H blk.bloom c blk.logs (block_bloom_has_logs H blk hv) hf

-- non-vacuity: valid blocks exist for every receipt list (and the hypothesis `bloomFilter = false` does occur: see the witness below).
example (H : HashFn) (rs : List (List Log)) : (Block.mk (createBloom H rs) rs).valid H := rfl

/-- The positive form used by the scans: a log that passes `filterLogs` forces `bloomFilter` to accept the block. -/
theorem bloomFilter_complete_on_matches (H : HashFn) (blk : Block) (hv : blk.valid H) (c : Criteria) (log : Log)
    (hl : log ∈ blk.logs) (hm : logMatches c log = true) : bloomFilter H blk.bloom c = true :=
  bloomFilter_of_logMatches H blk.bloom c log (block_bloom_has_logs H blk hv log hl) hm

example : logMatches ⟨[[1]], [[], [[9]]]⟩ ⟨[1], [[5], [9]], false, 0⟩ = true := by decide

/-- The loop-shaped `filterLogs` predicate equals the declarative one of the Spec (addresses OR, positional topics AND of ORs,
    empty position = wildcard, more positions than topics = no match). -/
theorem logMatches_spec (c : Criteria) (log : Log) : logMatches c log = Spec.logMatches c log :=
  logMatches_eq_spec c log

/-! ## 2. the bloom-bits index -/

/-- `calcBloomIndexes` (matcher.go) = the three bit positions set by `bloom9` (bloom9.go), for every hash value. -/
theorem indexes_agree (H : HashFn) (b : Bytes) :
    calcBloomIndexes H b = (bloom9Idx (H b) 0, bloom9Idx (H b) 2, bloom9Idx (H b) 4) ∧
    ∀ j, (bloom9 H b).testBit j = (decide (bloom9Idx (H b) 0 = j) || decide (bloom9Idx (H b) 2 = j) || decide (bloom9Idx (H b) 4 = j)) :=
  ⟨calcBloomIndexes_eq H b, bloom9_testBit H b⟩

/-- The generator transposes with exactly this orientation: after `size` blooms (256 bytes each) were added in order, `Bitset(i)`
    succeeds for every bit `i < 2048`, has `size/8` bytes, and its bit `n` (MSB-first: byte `n/8`, mask `1 << (7 - n%8)`) is bit `i`
    of the integer `Big()` of the `n`-th bloom. Preconditions are the generator's own: `size % 8 = 0` and `2048 ≤ size`. -/
theorem transpose_spec (size : Nat) (h8 : size % 8 = 0) (h2048 : 2048 ≤ size) (blooms : List Bytes) (hlen : blooms.length = size)
    (h256 : ∀ b ∈ blooms, b.length = 256) :
    ∃ vs, generateSection size blooms = .ok vs ∧ vs.length = 2048 ∧
      ∀ i, i < 2048 → (vs.getD i []).length = size / 8 ∧
        ∀ n, n < size → vecBit (vs.getD i []) n = (beNat (blooms.getD n [])).testBit i := by
  obtain ⟨vs, hgen, hl, hspec⟩ := generateSection_spec size h8 h2048 blooms hlen
  refine ⟨vs, hgen, hl, fun i hi => ⟨(hspec i hi).1, fun n hn => ?_⟩⟩
  have hnl : n < blooms.length := by omega
  rw [(hspec i hi).2 n]
  unfold colBit
  rw [List.getElem?_eq_getElem hnl]
  simp only [Option.map_some, Option.getD_some]
  have hg : blooms.getD n [] = blooms[n] := by rw [List.getD_eq_getElem?_getD, List.getElem?_eq_getElem hnl]; rfl
  rw [hg]
  exact bloomBit_eq_testBit _ (h256 _ (List.getElem_mem hnl)) i hi

-- non-vacuity: 2048 header blooms produced by CreateBloom satisfy the hypotheses.
example (H : HashFn) (rs : List (List Log)) :
    (List.replicate 2048 (createBloom H rs)).length = 2048 ∧ ∀ b ∈ List.replicate 2048 (createBloom H rs), b.length = 256 :=
  ⟨List.length_replicate, fun b hb => by rw [List.eq_of_mem_replicate hb]; exact createBloom_length H rs⟩

/-- Side observation carried as a precondition everywhere: `Bitset(idx)` compares the BIT index with the SECTION SIZE, so for
    every section size below 2048 (multiple of 8, section completely filled) committing the section fails with
    `errSectionOutOfBounds` — the index can never advance and queries are served by the header scan. -/
theorem generator_rejects_small_sections (size : Nat) (h8 : size % 8 = 0) (hsmall : size < 2048) (blooms : List Bytes)
    (hlen : blooms.length = size) : generateSection size blooms = .error .sectionOutOfBounds := by
  obtain ⟨g0, hnew, hinv0⟩ := genInv_new size h8
  have hinv := genInv_fold size h8 blooms g0 [] hinv0 (by simp; omega)
  simp only [List.length_nil, List.nil_append] at hinv
  unfold generateSection
  rw [hnew]
  simp only
  generalize (blooms.zipIdx 0).foldl _ g0 = g at hinv
  obtain ⟨hs, hn, hl, _, _⟩ := hinv
  have hsplit : List.range 2048 = List.range' 0 size ++ size :: List.range' (size + 1) (2048 - size - 1) := by
    rw [List.range_eq_range']
    have h1 := @List.range'_append 0 size (2048 - size) 1
    have h2 : 2048 - size = (2048 - size - 1) + 1 := by omega
    rw [show size + (2048 - size) = 2048 by omega] at h1
    rw [← h1, Nat.one_mul, Nat.zero_add]
    congr 1
    rw [h2, List.range'_succ]
    simp
  rw [hsplit]
  apply mapM_error _ (fun i => g.blooms.getD i [])
  · intro i hi
    rw [List.mem_range'_1] at hi
    unfold Generator.bitset
    rw [hn, hs, hlen]
    simp only [bne_self_eq_false, Bool.false_eq_true, if_false, ge_iff_le, Nat.not_le.mpr (show i < size by omega)]
    rw [List.getElem?_eq_getElem (by omega)]
    simp [List.getD_eq_getElem?_getD, List.getElem?_eq_getElem (show i < g.blooms.length by omega)]
  · unfold Generator.bitset
    rw [hn, hs, hlen]
    simp

example : (8 : Nat) % 8 = 0 ∧ 8 < 2048 ∧ (List.replicate 8 (List.replicate 256 (0 : UInt8))).length = 8 := by decide

/-- The matcher pipeline on one section (AND over the filter groups of OR over the alternatives of AND over three bit vectors,
    sections with no bit left dropped), fed with the generator's vectors of that section, leaves bit `n` set ⇔ `bloomFilter`
    accepts the `n`-th header bloom — for the filter `filters.New`/`NewMatcher` build from the criteria (empty groups skipped). -/
theorem matcher_spec (H : HashFn) (size : Nat) (h8 : size % 8 = 0) (h2048 : 2048 ≤ size) (blooms : List Bytes)
    (hlen : blooms.length = size) (h256 : ∀ b ∈ blooms, b.length = 256) (vs : List Bytes)
    (hgen : generateSection size blooms = .ok vs) (c : Criteria) (n : Nat) (hn : n < size) :
    sectionBit (runSection (fun bit => vs.getD bit []) size (newMatcherFilters H (flattenCriteria c))) n =
      bloomFilter H (blooms.getD n []) c :=
  section_matcher_spec H size h8 h2048 blooms hlen h256 vs hgen c n hn

/-- The extraction loop of `Matcher.Start` (including its `i += 7` skip over zero bytes) delivers, for section `s`, exactly the
    block numbers `j` with `max(begin, s·size) ≤ j ≤ min(end, s·size+size-1)` whose bit `j - s·size` is set, in increasing order. -/
theorem extraction_spec (size b e s : Nat) (hs : 0 < size) (h8 : size % 8 = 0) (bitset : Bytes) :
    extract size b e s bitset =
      (List.range' (max b (s * size)) (min (e + 1) ((s + 1) * size) - max b (s * size))).filter (fun j => vecBit bitset (j - s * size)) := by
  rw [extract_spec size b e s hs h8, secLo_eq, secHi_eq]

-- the skip matters: a vector whose first byte is zero and second byte has its top bit set yields block 8 only.
example : extract 16 0 15 0 [0x00, 0x80] = [8] := by decide

/-- A whole matcher session over the committed index (`begin ≤`/`>` `end`, any alignment, `end` inside the indexed part):
    the input/output function `matcherRun` yields exactly the `n ∈ [begin, end]` whose header bloom passes `bloomFilter`, in
    increasing order. That the concurrent pipeline computes this function under every delivery schedule is `matcher_session_spec`. -/
theorem matcher_run_spec (H : HashFn) (chain : List Block) (hv : ChainValid H chain) (size sections : Nat)
    (h8 : size % 8 = 0) (h2048 : 2048 ≤ size) (hidx : sections * size ≤ chain.length) (c : Criteria) (b e : Nat)
    (he : e < sections * size) :
    ∃ index, buildIndex size (chain.map (·.bloom)) sections = .ok index ∧
      matcherRun index size (newMatcherFilters H (flattenCriteria c)) b e =
        (List.range' b (e + 1 - b)).filter (fun n => bloomFilter H (bloomAt chain n) c) := by
  obtain ⟨index, hb, hl, hsec⟩ := buildIndex_spec size h8 h2048 (chain.map (·.bloom)) sections (by simpa using hidx)
  refine ⟨index, hb, ?_⟩
  have hs : 0 < size := by omega
  apply matcherRun_spec index size hs h8
  intro t ht n hn
  have htl : t < sections := by
    have : e / size < sections := Nat.div_lt_of_lt_mul (by rw [Nat.mul_comm]; exact he)
    omega
  have hbound : (t + 1) * size ≤ sections * size := Nat.mul_le_mul_right _ (by omega)
  have e1 : (t + 1) * size = t * size + size := by rw [Nat.add_mul, Nat.one_mul]
  have hll : (((chain.map (·.bloom)).drop (t * size)).take size).length = size := by
    rw [List.length_take, List.length_drop, List.length_map]; omega
  have h256 : ∀ x ∈ ((chain.map (·.bloom)).drop (t * size)).take size, x.length = 256 := by
    intro x hx
    have hx2 := List.mem_of_mem_drop (List.mem_of_mem_take hx)
    rw [List.mem_map] at hx2
    obtain ⟨blk, hblk, rfl⟩ := hx2
    have := hv blk hblk
    unfold Block.valid at this
    rw [this]; exact createBloom_length H _
  have := section_matcher_spec H size h8 h2048 _ hll h256 _ (hsec t htl) c n hn
  have hvec : indexVec index t = fun bit => (index.getD t []).getD bit [] := rfl
  rw [hvec, this]
  congr 1
  unfold bloomAt
  have hnl : t * size + n < chain.length := by omega
  rw [List.getD_eq_getElem?_getD, List.getD_eq_getElem?_getD, List.getElem?_take, List.getElem?_drop, List.getElem?_map,
    List.getElem?_eq_getElem hnl]
  simp [hn]

/-- T-gen tie (regenerated from the compiled packages on every run): the constants the model hard-wires are the code's —
    256-byte / 2048-bit blooms, three bit indexes per key — and the generator's behaviourally probed limits are the model's
    preconditions (`NewGenerator` refuses sizes that are not multiples of 8; the smallest section size whose filled generator
    hands out bit vector 2047 is 2048). -/
theorem constants_agree :
    Gen.Bloom.bloomByteLength = 256 ∧ Gen.Bloom.bloomBitLength = 2048 ∧ Gen.Bloom.indexesPerKey = 3 ∧
    Gen.Bloom.generatorMinSection = 2048 ∧ Gen.Bloom.generatorRejects7 = true := by decide

/-- The section sizes the node actually deploys (`params.BloomBitsBlocks`, `params.BloomBitsBlocksClient`) satisfy the
    generator's preconditions, so `transpose_spec`, `matcher_spec` and the indexed branch of `logs_exact` apply to them. -/
theorem deployed_section_sizes_accepted :
    (Gen.Bloom.bloomBitsBlocks % 8 = 0 ∧ 2048 ≤ Gen.Bloom.bloomBitsBlocks) ∧
    (Gen.Bloom.bloomBitsBlocksClient % 8 = 0 ∧ 2048 ≤ Gen.Bloom.bloomBitsBlocksClient) := by decide

/-! ## 2b. the index as stored: compression round trip, section commit -/

/-- `DecompressBytes(CompressBytes(v), len v) = v` for EVERY byte vector (bitset encoding with recursion on the bitset, and the raw
    fallback: the encoding is kept only when strictly shorter, because the decoder takes an input of exactly `target` bytes as raw). -/
theorem decompress_compress (v : Bytes) : decompressBytes (compressBytes v) v.length = .ok v :=
  decompress_compress_all v

/-- the break-even clause by name: a vector whose encoding is exactly as long as the vector is stored raw. -/
theorem compress_raw_at_break_even (v : Bytes) (h : (bitsetEncodeBytes v).length = v.length) : compressBytes v = v := by
  unfold compressBytes
  simp [h]

-- non-vacuity: a 16-byte vector with 13 non-zero bytes in both 8-byte groups encodes to 13 + 2 + 1 = 16 bytes.
example : (bitsetEncodeBytes [1, 1, 1, 1, 1, 1, 1, 0, 1, 1, 1, 1, 1, 1, 0, 0]).length = 16 := by decide

/-- Every vector of the committed index survives storage: what `startBloomHandlers` hands to the matcher
    (`DecompressBytes(CompressBytes(bits), size/8)`) is the vector the generator produced. -/
theorem stored_vectors_roundtrip (size sections : Nat) (h8 : size % 8 = 0) (h2048 : 2048 ≤ size) (blooms : List Bytes)
    (hidx : sections * size ≤ blooms.length) :
    ∃ index, buildIndex size blooms sections = .ok index ∧
      ∀ s, s < sections → ∀ i, i < 2048 → storedVec size (indexVec index s i) = .ok (indexVec index s i) := by
  obtain ⟨index, hb, _, hsec⟩ := buildIndex_spec size h8 h2048 blooms sections hidx
  refine ⟨index, hb, fun s hs i hi => ?_⟩
  have e1 : (s + 1) * size = s * size + size := by rw [Nat.add_mul, Nat.one_mul]
  have hbound : (s + 1) * size ≤ sections * size := Nat.mul_le_mul_right _ (by omega)
  have hl : ((blooms.drop (s * size)).take size).length = size := by
    rw [List.length_take, List.length_drop]; omega
  obtain ⟨vs, hgen, _, hspec⟩ := generateSection_spec size h8 h2048 _ hl
  rw [hsec s hs] at hgen
  cases hgen
  have hlen : (indexVec index s i).length = size / 8 := (hspec i hi).1
  unfold storedVec
  rw [← hlen]
  exact decompress_compress_all _

example : (2 : Nat) * 2048 ≤ (List.replicate 5000 ([] : Bytes)).length := by
  rw [List.length_replicate]; decide

/-- `section_commit_requires_contiguous_headers`: if `processSection` commits, the headers it walked form a parent-linked run
    starting after the previous section head, the returned section head is the hash of the last header walked, and the committed
    bits are the generator's transposition of exactly those headers' blooms. If moreover the canonical section at commit time
    (`canon`: parent-linked, same length) ends in that same head — the key under which the vectors are stored and served — and
    equal hashes mean equal headers, then the walked headers ARE the canonical ones: the section describes the canonical chain. -/
theorem section_commit_requires_contiguous_headers (size lastHead : Nat) (walk : List Hdr) (newHead : Nat) (vs : List Bytes)
    (h : processSection size lastHead walk = .ok (newHead, vs)) :
    (Linked lastHead walk ∧ newHead = runHead lastHead walk ∧ generateSection size (walk.map (·.bloom)) = .ok vs) ∧
    ∀ (canon : List Hdr) (lastCanon : Nat), canon.length = walk.length → walk ≠ [] → Linked lastCanon canon →
      runHead lastCanon canon = newHead → (∀ x ∈ walk, ∀ y ∈ canon, x.hash = y.hash → x = y) →
      walk = canon ∧ generateSection size (canon.map (·.bloom)) = .ok vs := by
  unfold processSection at h
  cases hw : walkSection lastHead walk with
  | error e => rw [hw] at h; cases h
  | ok nh =>
    rw [hw] at h
    simp only at h
    cases hg : generateSection size (walk.map (·.bloom)) with
    | error e => rw [hg] at h; cases h
    | ok vs' =>
      rw [hg] at h
      simp only [Except.ok.injEq, Prod.mk.injEq] at h
      obtain ⟨h1, h2⟩ := h
      subst h1 h2
      obtain ⟨hl, hh⟩ := walkSection_ok lastHead walk nh hw
      refine ⟨⟨hl, hh, rfl⟩, ?_⟩
      intro canon lastCanon hlen hne hlc hhead hinj
      have := linked_unique walk canon lastHead lastCanon hlen.symm hl hlc hne (by rw [← hh, hhead]) hinj
      subst this
      exact ⟨rfl, hg⟩

/-- conversely a parent-linked walk is never refused by the continuity check (the commit then only depends on the generator). -/
theorem linked_walk_accepted (lastHead : Nat) (walk : List Hdr) (h : Linked lastHead walk) :
    walkSection lastHead walk = .ok (runHead lastHead walk) := walkSection_of_linked lastHead walk h

-- non-vacuity: a mixed walk (second header from another fork: its parent is not the first header) is refused, a linked one passes.
example : walkSection 0 [⟨1, 0, []⟩, ⟨22, 11, []⟩] = .error .reorged := rfl
example : Linked 0 [⟨1, 0, []⟩, ⟨2, 1, []⟩] := ⟨rfl, rfl, trivial⟩

/-! ## 2c. the matcher session as a concurrent pipeline -/

/-- `matcher_session_spec`: for EVERY schedule (any interleaving of the source feed, the stages' two goroutines and the deliveries —
    in any order, repeated, missing-and-re-requested, or unrequested) over the committed index, every reachable state of the session
    satisfies: (1) the sink has received a PREFIX of the per-section results of the pure pipeline (`matcher_spec`'s `runSection`),
    each at most once and nothing else; (2) when all channels are empty and the range is exhausted, what `Start` delivers from the
    sink is exactly the blocks `n ∈ [begin, end]` whose header bloom passes `bloomFilter`, ascending — the function `matcherRun`
    that `Filter.Logs` consumes; (3) termination: once the requested vectors have been delivered the session is finished or takes a
    step that strictly decreases the measure `mu` (and no step ever increases it), so it cannot run forever or get stuck. -/
theorem matcher_session_spec (H : HashFn) (chain : List Block) (hv : ChainValid H chain) (size sections : Nat)
    (h8 : size % 8 = 0) (h2048 : 2048 ≤ size) (hidx : sections * size ≤ chain.length) (c : Criteria) (b e : Nat)
    (he : e < sections * size) :
    ∃ index, buildIndex size (chain.map (·.bloom)) sections = .ok index ∧
      ∀ σ, Reach (indexVec index) size (initSess (newMatcherFilters H (flattenCriteria c)) (sessionSections size b e)) σ →
        (∃ rest, σ.output ++ rest =
          (sessionSections size b e).filterMap (fun s =>
            (runSection (indexVec index s) size (newMatcherFilters H (flattenCriteria c))).map (fun r => (s, r)))) ∧
        (σ.final → deliverMatches size b e σ.output =
          (List.range' b (e + 1 - b)).filter (fun n => bloomFilter H (bloomAt chain n) c)) ∧
        ((∀ p ∈ σ.requested, p ∈ σ.cached) → σ.final ∨ ∃ σ', Step (indexVec index) size σ σ' ∧ σ'.mu < σ.mu) ∧
        (∀ σ', Step (indexVec index) size σ σ' → σ'.mu ≤ σ.mu) := by
  obtain ⟨index, hb, hrun⟩ := matcher_run_spec H chain hv size sections h8 h2048 hidx c b e he
  refine ⟨index, hb, fun σ hreach => ?_⟩
  obtain ⟨hg, hinv⟩ := sessInv_reach (indexVec index) size _ _ σ hreach
  have hexp : expected (indexVec index) size (newMatcherFilters H (flattenCriteria c)) (sessionSections size b e) =
      (sessionSections size b e).filterMap (fun s =>
        (runSection (indexVec index s) size (newMatcherFilters H (flattenCriteria c))).map (fun r => (s, r))) := by
    unfold expected
    congr 1
    funext s
    exact finishThrough_fresh (indexVec index) size _ s
  refine ⟨⟨_, by rw [← hexp, ← hinv, List.append_assoc]⟩, ?_, ?_, ?_⟩
  · intro hfin
    have hfl := flight_final (indexVec index) size σ.stages hfin.2
    rw [hfl, hfin.1] at hinv
    simp only [List.append_nil, List.filterMap_nil] at hinv
    rw [hinv, ← hrun]
    unfold sessionSections matcherRun
    exact deliverMatches_expected size index _ b e _ _
  · exact session_progress (indexVec index) size _ _ σ hreach
  · intro σ' hs
    exact (step_mu (indexVec index) size σ σ' hs).1

/-- `no_result_before_all_vectors`: in every reachable state, for every item at the sink, every bit vector of every filter group for
    that section has been requested from the distributor and delivered; and requests are forwarded to the distributor at most once
    per (bit, section) however many stages and alternatives share the bit (scheduler de-duplication). -/
theorem no_result_before_all_vectors (vec : Nat → Nat → Bytes) (size : Nat) (groups : List Group) (sections : List Nat) (σ : Sess)
    (h : Reach vec size (initSess groups sections) σ) :
    (∀ y ∈ σ.output, ∀ g ∈ groups, ∀ bit ∈ groupBits g, (bit, y.1) ∈ σ.cached ∧ (bit, y.1) ∈ σ.requested) ∧ σ.sent.Nodup := by
  obtain ⟨_, _, hout⟩ := readyInv_reach vec size groups sections σ h
  obtain ⟨hnd, _, hcr⟩ := reqInv_reach vec size groups sections σ h
  exact ⟨fun y hy g hg bit hb => ⟨hout y hy g hg bit hb, hcr _ (hout y hy g hg bit hb)⟩, hnd⟩

/-- `sections_emitted_in_order`: whatever the delivery order, the sections arrive at the sink in strictly increasing order (hence
    each at most once), for a session over an increasing section range such as `begin/size … end/size`. -/
theorem sections_emitted_in_order (vec : Nat → Nat → Bytes) (size : Nat) (groups : List Group) (s0 k : Nat) (σ : Sess)
    (h : Reach vec size (initSess groups (List.range' s0 k)) σ) : List.Pairwise (fun a b => a < b) (σ.output.map (·.1)) := by
  obtain ⟨_, hinv⟩ := sessInv_reach vec size groups _ σ h
  have hsub : (σ.output.map (·.1)).Sublist (List.range' s0 k) := by
    refine List.Sublist.trans ?_ (expected_sections_sublist vec size groups (List.range' s0 k))
    rw [← hinv, List.append_assoc, List.map_append]
    exact List.sublist_append_left _ _
  exact List.Pairwise.sublist hsub (List.pairwise_lt_range' 1)

-- non-vacuity: sessions have reachable states beyond the initial one (here: after `run` fed section 0 into the single stage).
example : ∃ σ, Reach (fun _ _ => []) 16 (initSess [[(1, 2, 3)]] [0, 1]) σ ∧ σ.source = [1] :=
  ⟨_, Reach.step _ _ Reach.refl (Step.feedStage _ 0 [1] ⟨[(1, 2, 3)], [], []⟩ [] rfl rfl), rfl⟩

/-! ## 2d. helpers the model driver relies on -/

/-- The driver's memoised hash is the hash: a table built by `memo` (from the empty table, over any item lists, in any number of
    rounds) never changes a value — `mkH K tbl = K` for every hash function `K` (the driver takes Keccak-256) — and it is effective:
    every listed item is answered from the table. -/
theorem memoised_hash_is_the_hash (K : Bytes → Bytes) (pool items : List Bytes) :
    HashMemo.mkH K (HashMemo.memo K (HashMemo.memo K [] pool) items) = K ∧
    ∀ b, b ∈ pool ∨ b ∈ items → ((HashMemo.memo K (HashMemo.memo K [] pool) items).lookup b).isSome := by
  have h0 : HashMemo.TableOK K [] := fun p hp => by cases hp
  refine ⟨HashMemo.mkH_eq K _ (HashMemo.memo_ok K _ items (HashMemo.memo_ok K [] pool h0)), ?_⟩
  intro b hb
  rcases hb with hb | hb
  · exact HashMemo.memo_hit K _ items b (Or.inr (HashMemo.memo_hit K [] pool b (Or.inl hb)))
  · exact HashMemo.memo_hit K _ items b (Or.inl hb)

example : HashMemo.mkH (fun b => b ++ [7]) (HashMemo.memo (fun b => b ++ [7]) [] [[1], [2], [1]]) [2] = [2, 7] := by decide

/-- The column the driver accepts as an alternative generator answer (`specColumn`) IS, byte for byte, the bit vector `Bitset(i)` of a
    filled generator — so accepting it as "spec-ok" never accepts a wrong vector. -/
theorem specColumn_is_bitset (size : Nat) (h8 : size % 8 = 0) (h2048 : 2048 ≤ size) (blooms : List Bytes)
    (hlen : blooms.length = size) (h256 : ∀ b ∈ blooms, b.length = 256) (i : Nat) (hi : i < 2048) :
    ∃ vs, generateSection size blooms = .ok vs ∧ vs.getD i [] = specColumn blooms size i := by
  obtain ⟨vs, hgen, _, _⟩ := generateSection_spec size h8 h2048 blooms hlen
  exact ⟨vs, hgen, bitset_eq_specColumn size h8 h2048 blooms hlen h256 vs hgen i hi⟩

-- non-vacuity: bit 9 of the second of 16 blooms (integer 2^9) gives the MSB-first column 0x40 0x00.
example : specColumn ([[], [2, 0]] ++ List.replicate 14 []) 16 9 = [0x40, 0x00] := by decide

/-! ## 3. log queries are exact -/

/-- `Filter.Logs` = brute force, in chain order: for every hash function, every chain whose header blooms are the validated ones,
    every criteria, every range (−1 = latest at either end, `begin > end`, `end` beyond the head, ranges inside, outside and
    straddling the indexed boundary), every section size the generator accepts and every index progress `sections` with
    `sections·size ≤ head+1` (the indexer only commits complete sections of canonical headers): the index builds and the query
    returns exactly the matching logs of the canonical receipts of blocks `[begin, min(end, head)]`, in order.
    With `sections = 0` (nothing indexed, any section size — in particular every size the generator rejects) this is the pure
    header scan. `_partial` only in the sense of the header: the matcher session is `matcherRun`.
    The hypotheses `-1 ≤ begin`, `-1 ≤ end` delimit the modelled domain (Go converts other negative values with `uint64(·)`;
    −2 = "pending" is not a canonical block); the proof does not need them because model and Spec resolve ends alike. -/
theorem logs_exact (H : HashFn) (chain : List Block) (hv : ChainValid H chain) (size sections : Nat)
    (hsz : 0 < sections → size % 8 = 0 ∧ 2048 ≤ size) (hidx : sections * size ≤ chain.length)
    (c : Criteria) (begin_ end_ : Int) (_hb : -1 ≤ begin_) (_he : -1 ≤ end_) :
    ∃ index, buildIndex size (chain.map (·.bloom)) sections = .ok index ∧
      filterLogsQuery H index chain size c begin_ end_ = Spec.bruteForce chain c begin_ end_ := by
  have hbuild : ∃ index, buildIndex size (chain.map (·.bloom)) sections = .ok index ∧ index.length = sections ∧
      ∀ s, s < sections → generateSection size (((chain.map (·.bloom)).drop (s * size)).take size) = .ok (index.getD s []) := by
    by_cases hpos : 0 < sections
    · obtain ⟨h8, h2048⟩ := hsz hpos
      exact buildIndex_spec size h8 h2048 (chain.map (·.bloom)) sections (by simpa using hidx)
    · have : sections = 0 := by omega
      subst this
      exact ⟨[], rfl, rfl, fun s hs => by omega⟩
  obtain ⟨index, hbi, hlen, hsec⟩ := hbuild
  refine ⟨index, hbi, ?_⟩
  subst hlen
  cases chain with
  | nil => rfl
  | cons blk rest =>
    have hspec : ∀ b e : Nat,
        ((List.range (blk :: rest).length).filter (fun n => decide (b ≤ n) && decide (n ≤ e))).flatMap
          (fun n => (((blk :: rest).getD n default).logs).filter (Spec.logMatches c)) =
        (List.range' b (min (e + 1) (blk :: rest).length - b)).flatMap (blockAnswer (blk :: rest) c) := by
      intro b e
      rw [range_filter_interval]
      congr 1
      funext n
      unfold blockAnswer filterLogs
      congr 1
      funext log
      exact (logMatches_eq_spec c log).symm
    unfold filterLogsQuery Spec.bruteForce
    simp only
    rw [hspec]
    exact query_core H (blk :: rest) hv size index hsz hidx hsec c _ _ _ rfl

-- non-vacuity: a 4100-block chain with one log in block 2050 (section size 2048, two committed sections, a query with
-- both ends open) satisfies every hypothesis.
example (H : HashFn) :
    let lg : Log := ⟨[1], [[2]], false, 0⟩
    let chain : List Block := List.replicate 2050 ⟨createBloom H [], []⟩ ++ [⟨createBloom H [[lg]], [[lg]]⟩] ++
      List.replicate 2049 ⟨createBloom H [], []⟩
    ChainValid H chain ∧ (0 < 2 → 2048 % 8 = 0 ∧ 2048 ≤ 2048) ∧ 2 * 2048 ≤ chain.length ∧ (-1 : Int) ≤ -1 := by
  intro lg chain
  refine ⟨?_, fun _ => ⟨by decide, by decide⟩, ?_, by decide⟩
  · intro blk hblk
    simp only [chain, List.mem_append, List.mem_replicate, List.mem_singleton] at hblk
    rcases hblk with (⟨_, h⟩ | h) | ⟨_, h⟩ <;> subst h <;> rfl
  · simp only [chain, List.length_append, List.length_replicate, List.length_singleton]
    decide

/-- Ranges straddling the indexed boundary, explicitly: with `begin < sections·size ≤ end` the answer is the indexed answer
    on `[begin, sections·size − 1]` followed by the header scan of `[sections·size, end]` — and equals brute force (instance of
    `logs_exact`, recorded because it is the clause the property names). -/
theorem logs_exact_straddling (H : HashFn) (chain : List Block) (hv : ChainValid H chain) (size sections : Nat)
    (h8 : size % 8 = 0) (h2048 : 2048 ≤ size) (hidx : sections * size ≤ chain.length) (c : Criteria) (b e : Nat)
    (_hlo : b < sections * size) (_hhi : sections * size ≤ e) :
    ∃ index, buildIndex size (chain.map (·.bloom)) sections = .ok index ∧
      filterLogsQuery H index chain size c (b : Int) (e : Int) = Spec.bruteForce chain c (b : Int) (e : Int) :=
  logs_exact H chain hv size sections (fun _ => ⟨h8, h2048⟩) hidx c b e (by omega) (by omega)

example : (5 : Nat) < 1 * 2048 ∧ 1 * 2048 ≤ 3000 := by decide

end Aqv.Props.C16

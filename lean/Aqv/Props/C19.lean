/-
  C19 — Event feeds deliver every value exactly once to every live subscriber.

  Every theorem quantifies over `Reach s`: ALL states reachable from the empty feed under ANY interleaving of any number
  of Subscribe / Send / Unsubscribe calls and receiver steps of the small-step model `Aqv.Model.Feed` (one step = the code
  between two points where the real `aqua/event/feed.go` can be interleaved).  Statements are about the chronological
  history `s.tr` only (events: subRet, sendCall, sendRet, unsubCall, unsubRet, place, recv); `Before tr a b` means an
  `a` occurs strictly before a `b`.
-/
import Aqv.Lemmas.FeedInvC
import Aqv.Lemmas.FeedInvE
import Aqv.Lemmas.FeedTrace
namespace Aqv.Props.C19
open Aqv.Feed

/-- `cases` is the not-yet-delivered prefix: while Send g is in its delivery loop (TrySend sweep, Select, removeSub
    branch), the slice `cases` = `sendCases[:active]` contains exactly the channels of `sendCases` that have not yet been
    given g's value — the `deactivate` swap and the `delete`/`len(cases)-1` arithmetic of the removeSub branch keep it so. -/
theorem cases_is_active_prefix {s : St} (h : Reach s) (g : Sid) (hg : (s.spc g).merged = true) :
    s.active ≤ s.sendCases.length ∧ s.sendCases.Nodup ∧
    ∀ c ∈ s.sendCases, (c ∈ activeCases s ↔ Ev.place c g ∉ s.tr) := by
  have ha := invA_reach h
  have hb := invB_reach h
  have he := invE_reach h
  refine ⟨ha.act_le g hg, (List.nodup_append.mp ha.nodup).2.1, ?_⟩
  intro c hc
  rw [← mem_placesOf, he.t_place]
  exact hb.pre g hg c hc

/-- `delete(find(ch))` is never reached with an absent channel (no slice-bounds panic in Send or remove). -/
theorem never_panics {s : St} (h : Reach s) : (∀ g, s.spc g ≠ .panicked) ∧ (∀ c, s.rpc c ≠ .panicked) :=
  ⟨(invA_reach h).no_panic_s, (invA_reach h).no_panic_r⟩

/-- the sendLock token: at most one goroutine is between taking and returning it. -/
theorem token_exclusive {s : St} (h : Reach s) :
    (∀ g g', (s.spc g).held = true → (s.spc g').held = true → g = g') ∧
    (∀ c c', (s.rpc c).held = true → (s.rpc c').held = true → c = c') ∧
    (∀ g c, (s.spc g).held = true → (s.rpc c).held = true → False) ∧
    (∀ g, (s.spc g).held = true → s.tokenFree = false) ∧ (∀ c, (s.rpc c).held = true → s.tokenFree = false) := by
  have ha := invA_reach h
  have h1 := ha.tok; have h2 := ha.hs; have h3 := ha.hr
  refine ⟨?_, ?_, ?_, ?_, ?_⟩ <;> grind

/-- no value of one Send is ever placed twice into the same channel (no duplicate), for every channel whatsoever. -/
theorem at_most_once {s : St} (h : Reach s) (c : Chan) (g : Sid) : s.tr.count (Ev.place c g) ≤ 1 := by
  rw [← count_placesOf, (invE_reach h).t_place]
  exact List.nodup_iff_count.mp (invB_reach h).pnodup (c, g)

/-- EXACTLY ONCE.  If `Send g` has returned, then every channel whose Subscribe returned before `Send g` was called and
    whose Unsubscribe was not called before `Send g` returned was given g's value exactly once. -/
theorem exactly_once {s : St} (h : Reach s) (g : Sid) (n : Nat) (c : Chan)
    (hret : Ev.sendRet g n ∈ s.tr)
    (hsub : Before s.tr (.subRet c) (.sendCall g))
    (hlive : ¬ Before s.tr (.unsubCall c) (.sendRet g n)) :
    s.tr.count (Ev.place c g) = 1 := by
  have hb := invB_reach h
  have he := invE_reach h
  have hd := (he.t_sret g n).mp hret
  have h1 := (he.t_atCall g c).mpr hsub
  have h2 : s.atRet g c = false := by
    cases hx : s.atRet g c with
    | false => rfl
    | true => exact absurd ((he.t_atRet g n c hd).mp hx) hlive
  have hin := hb.done_all g n c hd h1 h2
  have hle := at_most_once h c g
  have : 0 < s.tr.count (Ev.place c g) := by
    rw [← count_placesOf, he.t_place]; exact List.count_pos_iff.mpr hin
  omega

/-- the value returned by `Send g` is the number of placements it made. -/
theorem nsent_correct {s : St} (h : Reach s) (g : Sid) (n : Nat) (hret : Ev.sendRet g n ∈ s.tr) :
    n = placesBy g s.tr := by
  have he := invE_reach h
  have hd := (he.t_sret g n).mp hret
  rw [placesBy_eq, he.t_place]
  exact (invB_reach h).done_eq g n hd

/-- every channel is a FIFO between placement and receipt: what the subscriber has read so far, followed by what is
    still buffered, is exactly what was placed, in placement order (so receipts are a prefix of placements). -/
theorem channel_fifo {s : St} (h : Reach s) (c : Chan) : recvsOf c s.tr ++ s.buf c = placesOn c s.tr := by
  rw [placesOn_eq, (invE_reach h).t_place, (invE_reach h).t_recv]
  exact (invC_reach h).fifo c

/-- COMMON ORDER.  Placements of two sends never occur in opposite orders on two channels (sends are serialised by the
    token); together with `channel_fifo` all subscribers read concurrent sends in one common order. -/
theorem common_order {s : St} (h : Reach s) (c₁ c₂ : Chan) (g₁ g₂ : Sid) (hne : g₁ ≠ g₂)
    (h₁ : Before s.tr (.place c₁ g₁) (.place c₁ g₂))
    (h₂ : Before s.tr (.place c₂ g₂) (.place c₂ g₁)) : False := by
  have hb := invB_reach h
  have hc := invC_reach h
  have he := invE_reach h
  have s1 := before_place _ _ _ _ _ h₁
  have s2 := before_place _ _ _ _ _ h₂
  rw [he.t_place] at s1 s2
  have r1 := hc.sorted _ _ s1
  have r2 := hc.sorted _ _ s2
  have m1 := sub2_mem s1
  have acq : ∀ c g, (c, g) ∈ s.placed → s.spc g ≠ .idle ∧ s.spc g ≠ .start := by
    intro c g hm
    constructor <;> intro e <;> exact hb.unmerged g c (by simp [e]) hm
  have a1 := acq _ _ m1.1
  have a2 := acq _ _ m1.2
  exact hne (hc.rank_inj g₁ g₂ a1.1 a1.2 a2.1 a2.2 (by simp at r1 r2; omega))

/-- NO DELIVERY AFTER UNSUBSCRIBE: once `Unsubscribe` of a channel has returned, nothing is placed into that channel
    any more (values already sitting in a buffered channel may still be read: `channel_fifo`). -/
theorem no_delivery_after_unsubscribe {s : St} (h : Reach s) (c : Chan) (g : Sid) :
    ¬ Before s.tr (.unsubRet c) (.place c g) :=
  (invE_reach h).t_late c g

end Aqv.Props.C19

/-
  C19 — Event feeds deliver every value exactly once to every live subscriber.

  Every theorem quantifies over `Reach s`: ALL states reachable from the empty feed under ANY interleaving of any number
  of Subscribe / Send / Unsubscribe calls and receiver steps of the small-step model `Aqv.Model.Feed` (one step = the code
  between two points where the real `aqua/event/feed.go` can be interleaved).  Statements are about the chronological
  history `s.tr` only (events: subRet, sendCall, sendRet, unsubCall, unsubRet, place, recv); `Before tr a b` means an
  `a` occurs strictly before a `b`.
-/
import Aqv.Lemmas.FeedInvC
import Aqv.Lemmas.FeedInvD
import Aqv.Lemmas.FeedInvE
import Aqv.Lemmas.FeedInvF
import Aqv.Lemmas.FeedTrace
import Aqv.Lemmas.FeedLive
import Aqv.Lemmas.FeedExec
import Aqv.Model.FeedMu
import Aqv.Lemmas.ScopeInv
import Aqv.Lemmas.MuxInvB
import Aqv.Model.FeedUser
namespace Aqv.Props.C19
open Aqv.Feed

/-- `cases` is the not-yet-delivered prefix: while Send g is in its delivery loop (TrySend sweep, Select, removeSub
    branch), the slice `cases` = `sendCases[:active]` contains exactly the channels of `sendCases` that have not yet been
    given g's value — the `deactivate` swap and the `delete`/`len(cases)-1` arithmetic of the removeSub branch keep it so. -/
theorem cases_is_active_prefix {s : St} (h : Reach s) (g : Sid) (hg : (s.spc g).merged = true) :
    s.active ≤ s.sendCases.length ∧ s.sendCases.Nodup ∧
    ∀ c ∈ s.sendCases, (c ∈ activeCases s ↔ Ev.place c g ∉ s.tr) := by
  have ha := invA_reach h
  have hb := invB_reach h
  have he := invE_reach h
  refine ⟨ha.act_le g hg, (List.nodup_append.mp ha.nodup).2.1, ?_⟩
  intro c hc
  rw [← mem_placesOf, he.t_place]
  exact hb.pre g hg c hc

/-- `delete(find(ch))` is never reached with an absent channel (no slice-bounds panic in Send or remove). -/
theorem never_panics {s : St} (h : Reach s) : (∀ g, s.spc g ≠ .panicked) ∧ (∀ c, s.rpc c ≠ .panicked) :=
  ⟨(invA_reach h).no_panic_s, (invA_reach h).no_panic_r⟩

/-- the sendLock token: at most one goroutine is between taking and returning it. -/
theorem token_exclusive {s : St} (h : Reach s) :
    (∀ g g', (s.spc g).held = true → (s.spc g').held = true → g = g') ∧
    (∀ c c', (s.rpc c).held = true → (s.rpc c').held = true → c = c') ∧
    (∀ g c, (s.spc g).held = true → (s.rpc c).held = true → False) ∧
    (∀ g, (s.spc g).held = true → s.tokenFree = false) ∧ (∀ c, (s.rpc c).held = true → s.tokenFree = false) := by
  have ha := invA_reach h
  have h1 := ha.tok; have h2 := ha.hs; have h3 := ha.hr
  refine ⟨?_, ?_, ?_, ?_, ?_⟩ <;> grind

/-- no value of one Send is ever placed twice into the same channel (no duplicate), for every channel whatsoever. -/
theorem at_most_once {s : St} (h : Reach s) (c : Chan) (g : Sid) : s.tr.count (Ev.place c g) ≤ 1 := by
  rw [← count_placesOf, (invE_reach h).t_place]
  exact List.nodup_iff_count.mp (invB_reach h).pnodup (c, g)

/-- EXACTLY ONCE.  If `Send g` has returned, then every channel whose Subscribe returned before `Send g` was called and
    whose Unsubscribe was not called before `Send g` returned was given g's value exactly once. -/
theorem exactly_once {s : St} (h : Reach s) (g : Sid) (n : Nat) (c : Chan)
    (hret : Ev.sendRet g n ∈ s.tr)
    (hsub : Before s.tr (.subRet c) (.sendCall g))
    (hlive : ¬ Before s.tr (.unsubCall c) (.sendRet g n)) :
    s.tr.count (Ev.place c g) = 1 := by
  have hb := invB_reach h
  have he := invE_reach h
  have hd := (he.t_sret g n).mp hret
  have h1 := (he.t_atCall g c).mpr hsub
  have h2 : s.atRet g c = false := by
    cases hx : s.atRet g c with
    | false => rfl
    | true => exact absurd ((he.t_atRet g n c hd).mp hx) hlive
  have hin := hb.done_all g n c hd h1 h2
  have hle := at_most_once h c g
  have : 0 < s.tr.count (Ev.place c g) := by
    rw [← count_placesOf, he.t_place]; exact List.count_pos_iff.mpr hin
  omega

/-- the value returned by `Send g` is the number of placements it made. -/
theorem nsent_correct {s : St} (h : Reach s) (g : Sid) (n : Nat) (hret : Ev.sendRet g n ∈ s.tr) :
    n = placesBy g s.tr := by
  have he := invE_reach h
  have hd := (he.t_sret g n).mp hret
  rw [placesBy_eq, he.t_place]
  exact (invB_reach h).done_eq g n hd

/-- every channel is a FIFO between placement and receipt: what the subscriber has read so far, followed by what is
    still buffered, is exactly what was placed, in placement order (so receipts are a prefix of placements). -/
theorem channel_fifo {s : St} (h : Reach s) (c : Chan) : recvsOf c s.tr ++ s.buf c = placesOn c s.tr := by
  rw [placesOn_eq, (invE_reach h).t_place, (invE_reach h).t_recv]
  exact (invC_reach h).fifo c

/-- COMMON ORDER.  Placements of two sends never occur in opposite orders on two channels (sends are serialised by the
    token); together with `channel_fifo` all subscribers read concurrent sends in one common order. -/
theorem common_order {s : St} (h : Reach s) (c₁ c₂ : Chan) (g₁ g₂ : Sid) (hne : g₁ ≠ g₂)
    (h₁ : Before s.tr (.place c₁ g₁) (.place c₁ g₂))
    (h₂ : Before s.tr (.place c₂ g₂) (.place c₂ g₁)) : False := by
  have hb := invB_reach h
  have hc := invC_reach h
  have he := invE_reach h
  have s1 := before_place _ _ _ _ _ h₁
  have s2 := before_place _ _ _ _ _ h₂
  rw [he.t_place] at s1 s2
  have r1 := hc.sorted _ _ s1
  have r2 := hc.sorted _ _ s2
  have m1 := sub2_mem s1
  have acq : ∀ c g, (c, g) ∈ s.placed → s.spc g ≠ .idle ∧ s.spc g ≠ .start := by
    intro c g hm
    constructor <;> intro e <;> exact hb.unmerged g c (by simp [e]) hm
  have a1 := acq _ _ m1.1
  have a2 := acq _ _ m1.2
  exact hne (hc.rank_inj g₁ g₂ a1.1 a1.2 a2.1 a2.2 (by simp at r1 r2; omega))

/-- NO DELIVERY AFTER UNSUBSCRIBE: once `Unsubscribe` of a channel has returned, nothing is placed into that channel
    any more (values already sitting in a buffered channel may still be read: `channel_fifo`). -/
theorem no_delivery_after_unsubscribe {s : St} (h : Reach s) (c : Chan) (g : Sid) :
    ¬ Before s.tr (.unsubRet c) (.place c g) :=
  (invE_reach h).t_late c g


/-- a value is only ever placed into a channel whose Subscribe has returned, and only between the call and the return of
    the Send that carries it (nothing is delivered "from the past" or to a channel that is not subscribed). -/
theorem placement_only_to_subscribers_during_send {s : St} (h : Reach s) (c : Chan) (g : Sid)
    (hp : Ev.place c g ∈ s.tr) :
    Before s.tr (.subRet c) (.place c g) ∧ Before s.tr (.sendCall g) (.place c g) ∧
    ∀ n, ¬ Before s.tr (.sendRet g n) (.place c g) :=
  ⟨(invF_reach h).p_sub c g hp, (invF_reach h).p_call c g hp, fun n => (invF_reach h).p_ret c g n⟩

/-- at quiescence (nobody holds the token) the feed's two lists together contain exactly the live subscriptions —
    `Subscribe` returned and `Unsubscribe` not called — each once (compared with the real `f.sendCases`/`f.inbox` by the
    harness after every round). -/
theorem quiescent_membership {s : St} (h : Reach s) (hq : s.tokenFree = true) (c : Chan)
    (hc : s.rpc c = .idle ∨ s.rpc c = .done) :
    (s.inbox ++ s.sendCases).Nodup ∧
    ((c ∈ s.inbox ∨ c ∈ s.sendCases) ↔ (Ev.subRet c ∈ s.tr ∧ Ev.unsubCall c ∉ s.tr)) := by
  have ha := invA_reach h
  have he := invE_reach h
  refine ⟨ha.nodup, ?_⟩
  rw [he.t_sub, he.t_ucall]
  have hn := ha.tok.mp hq
  have h5 := ha.sub_mem c; have h7 := ha.loc_idle c; have h10 := ha.loc_done c
  rw [hn] at h10
  grind

/-! ### Progress and liveness.

State-level facts (every reachable state): `token_never_lost`, `holder_can_step`, `select_waits_only_for_receivers`,
`waiters_enabled`, `send_measure_decreases` (bundled as `progress_partial`).  They are the ingredients of the liveness
theorems `send_terminates` / `remove_terminates` below, which hold on every infinite FAIR execution (`Aqv.Feed.Exec`,
`Aqv.Feed.Fair`, Lemmas/FeedLive): every Send that has been called and every Unsubscribe that has been called returns.
What `Fair` assumes, and nothing else:
* scheduler — weak fairness per goroutine: a Send goroutine holding the token, or a `remove` at a step that needs nobody
  else, that is continuously able to take SOME step eventually takes a step.  Nothing is assumed about WHICH ready case
  `reflect.Select` picks (every choice strictly decreases `sendMeasure`); `reflect.Select` is only assumed to return when
  some case is ready, which is what "able to take a step" means for a goroutine blocked in it;
* receivers — no channel stays forever both in `f.sendCases` and unable to accept a value (a full/unbuffered channel of
  a subscriber that is not unsubscribed is eventually received from);
* the sendLock hand-off — a goroutine blocked in `<-f.sendLock` does not wait forever while the token becomes free again
  and again (strong fairness of that one channel; in Go it follows from the FIFO wait queue of a channel).
Not covered: the Go memory model (data races) and real-time bounds. -/

theorem token_never_lost {s : St} (h : Reach s) (hq : s.tokenFree = false) :
    (∃ g, (s.spc g).held = true) ∨ (∃ c, (s.rpc c).held = true) := by
  have ha := invA_reach h
  have h1 := ha.tok; have h2 := ha.hs; have h3 := ha.hr
  cases hh : s.holder with
  | none => simp [hh] at h1; simp [h1] at hq
  | sender g => exact Or.inl ⟨g, (h2 g).mpr hh⟩
  | remover c => exact Or.inr ⟨c, (h3 c).mpr hh⟩

theorem holder_can_step {s : St} (h : Reach s) :
    (∀ g, s.spc g = .locked → (step s (.merge g)).isSome) ∧
    (∀ g i, s.spc g = .sweep i → (step s (.tryOk g)).isSome ∨ (step s (.tryFail g)).isSome ∨ (step s (.sweepEnd g)).isSome) ∧
    (∀ g c, s.spc g = .removing c → ∃ s', step s (.doRemove g) = some s' ∧ s'.spc g = .sweep 0) ∧
    (∀ c, s.rpc c = .start → (step s (.rmInbox c)).isSome) ∧
    (∀ c, s.rpc c = .token → ∃ s', step s (.rmDelete c) = some s' ∧ s'.rpc c = .deleted) ∧
    (∀ c, s.rpc c = .deleted → (step s (.rmRelease c)).isSome) := by
  have ha := invA_reach h
  refine ⟨?_, ?_, ?_, ?_, ?_, ?_⟩
  · intro g hg; simp [step, hg]
  · intro g i hg
    simp only [step, hg]
    by_cases h1 : i < s.active
    · cases hcp : canPlace s (s.sendCases.getD i 0) <;> simp [h1]
    · right; right
      have : s.active ≤ i := by omega
      simp only [this, if_true]
      split <;> simp
  · intro g c hg
    have hc := (ha.removing g c hg).1
    have hlt := List.idxOf_lt_length_iff.mpr hc
    simp [step, hg, hlt]
  · intro c hc; simp only [step, hc, if_true]; split <;> simp
  · intro c hc
    have hm := ha.loc_sel c (Or.inr hc)
    have hlt := List.idxOf_lt_length_iff.mpr hm
    simp [step, hc, hlt]
  · intro c hc; simp [step, hc]

theorem select_waits_only_for_receivers {s : St} (h : Reach s) (g : Sid) (hg : s.spc g = .sel) :
    0 < s.active ∧
    (∀ i, i < s.active → ∀ s₁, step s (.recvBegin (s.sendCases.getD i 0)) = some s₁ → (step s₁ (.selPlace g i)).isSome) ∧
    (∀ c, s.rpc c = .sel → (step s (.selRecv g c)).isSome) := by
  have hd := invD_reach h
  refine ⟨hd.sel_pos g hg, ?_, ?_⟩
  · intro i hi s₁ h1
    simp only [step, Option.some.injEq] at h1
    subst h1
    have ho := hd.occ (s.sendCases.getD i 0)
    simp only [List.getD_eq_getElem?_getD] at ho
    simp [step, hg, hi, canPlace]
    omega
  · intro c hc; simp [step, hg, hc]

theorem waiters_enabled {s : St} (hq : s.tokenFree = true) :
    (∀ g, s.spc g = .start → (step s (.acquire g)).isSome) ∧ (∀ c, s.rpc c = .sel → (step s (.rmToken c)).isSome) := by
  constructor
  · intro g hg; simp [step, hg, hq]
  · intro c hc; simp [step, hc, hq]

theorem send_measure_decreases {s s' : St} (g : Sid) (a : Act)
    (ha : a = .tryOk g ∨ a = .tryFail g ∨ a = .sweepEnd g ∨ (∃ i, a = .selPlace g i) ∨ (∃ c, a = .selRecv g c) ∨ a = .doRemove g)
    (hs : step s a = some s') (hm : (s'.spc g).merged = true) :
    Prod.Lex (· < ·) (· < ·) (sendMeasure s' g) (sendMeasure s g) := by
  rcases ha with rfl | rfl | rfl | ⟨i, rfl⟩ | ⟨c, rfl⟩ | rfl
  all_goals simp only [step, place] at hs
  all_goals (repeat' split at hs) <;> (try cases hs)
  all_goals simp only [sendMeasure, upd_apply, if_true, swapAt_length, SPc.merged] at hm ⊢
  all_goals first
    | (apply Prod.Lex.left; grind)
    | (apply Prod.Lex.right'; all_goals grind)

/-- SEND TERMINATES: on every fair execution, once `Send g` has been called it eventually returns. -/
theorem send_terminates (e : Exec) (hf : Fair e) (g : Sid) (n : Nat) (hcall : Ev.sendCall g ∈ (e.σ n).tr) :
    ∃ m, n ≤ m ∧ ∃ r, Ev.sendRet g r ∈ (e.σ m).tr := by
  have h0 := ((invE_reach (e.reach n)).t_scall g).mp hcall
  obtain ⟨m, hm, r, hr⟩ := send_terminates_pc e hf g n h0
  exact ⟨m, hm, r, ((invE_reach (e.reach m)).t_sret g r).mpr hr⟩

/-- REMOVE TERMINATES: on every fair execution, once `Unsubscribe` of c has been called it eventually returns —
    whether it finds the channel in the inbox, rendezvouses with a running Send, or takes the token itself. -/
theorem remove_terminates (e : Exec) (hf : Fair e) (c : Chan) (n : Nat) (hcall : Ev.unsubCall c ∈ (e.σ n).tr) :
    ∃ m, n ≤ m ∧ Ev.unsubRet c ∈ (e.σ m).tr := by
  have h0 := ((invE_reach (e.reach n)).t_ucall c).mp hcall
  obtain ⟨m, hm, hr⟩ := remove_terminates_pc e hf c n h0
  exact ⟨m, hm, ((invE_reach (e.reach m)).t_uret c).mpr hr⟩

/-- no infinite fair execution keeps a started Send unfinished (the bounded reading of `send_terminates`). -/
theorem no_fair_execution_starves_send (e : Exec) (hf : Fair e) (g : Sid) (n : Nat) (hcall : Ev.sendCall g ∈ (e.σ n).tr) :
    ¬ ∀ m r, Ev.sendRet g r ∉ (e.σ m).tr := by
  intro h
  obtain ⟨m, _, r, hr⟩ := send_terminates e hf g n hcall
  exact h m r hr

/-- state-level progress facts bundled (kept from the first version; see the section comment). -/
theorem progress_partial {s : St} (h : Reach s) :
    (s.tokenFree = false → (∃ g, (s.spc g).held = true) ∨ (∃ c, (s.rpc c).held = true)) ∧
    (∀ g, s.spc g = .sel → 0 < s.active ∧
      ∀ i, i < s.active → ∀ s₁, step s (.recvBegin (s.sendCases.getD i 0)) = some s₁ → (step s₁ (.selPlace g i)).isSome) ∧
    (s.tokenFree = true → (∀ g, s.spc g = .start → (step s (.acquire g)).isSome) ∧
      (∀ c, s.rpc c = .sel → (step s (.rmToken c)).isSome)) :=
  ⟨token_never_lost h, fun g hg => ⟨(select_waits_only_for_receivers h g hg).1, (select_waits_only_for_receivers h g hg).2.1⟩,
   fun hq => waiters_enabled hq⟩


/-! ### Non-vacuity: a concrete interleaving in which an Unsubscribe lands while the Send is blocked in Select on that very
subscriber; every hypothesis used above is satisfied on it. -/

def demo : List Act :=
  [.subscribe 1 1, .subscribe 2 0, .sendCall 7, .acquire 7, .merge 7,
   .tryOk 7,                    -- channel 1 (buffered) takes the value; deactivate swaps: sendCases = [2, 1], active = 1
   .tryFail 7,                  -- channel 2 is unbuffered and nobody receives
   .sweepEnd 7,                 -- Send 7 enters Select, blocked on channel 2
   .unsubCall 2, .rmInbox 2,    -- Unsubscribe(2): inbox miss, remove waits at its select
   .selRecv 7 2,                -- rendezvous on removeSub: Unsubscribe(2) returns
   .doRemove 7,                 -- find = 0 < len(cases): delete and shrink cases
   .sweepEnd 7,                 -- nothing left to deliver: Send 7 returns 1
   .subscribe 3 0, .sendCall 8, .acquire 8, .merge 8,
   .tryFail 8, .tryFail 8,      -- channel 1 is full (still holds 7), channel 3 is unbuffered
   .sweepEnd 8,                 -- Send 8 blocked in Select on both
   .recvBegin 1, .recvTake 1,   -- the receiver of channel 1 takes 7
   .selPlace 8 0,               -- Select picks channel 1
   .tryFail 8, .sweepEnd 8, .recvBegin 3, .selPlace 8 0, .sweepEnd 8, .recvTake 3]

def demoState : St := (run init demo).getD init

theorem demo_reach : Reach demoState := by
  have h : run init demo = some demoState := by unfold demoState; rfl
  exact reach_run Reach.init h

theorem demo_tr : demoState.tr =
    [.subRet 1, .subRet 2, .sendCall 7, .place 1 7, .unsubCall 2, .unsubRet 2, .sendRet 7 1,
     .subRet 3, .sendCall 8, .recv 1 7, .place 1 8, .place 3 8, .sendRet 8 2, .recv 3 8] := by rfl

instance (tr : List Ev) (a b : Ev) : Decidable (Before tr a b) := inferInstanceAs (Decidable (List.Sublist [a, b] tr))

-- hypotheses of `exactly_once` (and of `nsent_correct`) hold for Send 7 / channel 1 and for Send 8 / channels 1 and 3
example : Ev.sendRet 7 1 ∈ demoState.tr ∧ Before demoState.tr (.subRet 1) (.sendCall 7) ∧
    ¬ Before demoState.tr (.unsubCall 1) (.sendRet 7 1) := by rw [demo_tr]; decide
example : Ev.sendRet 8 2 ∈ demoState.tr ∧ Before demoState.tr (.subRet 3) (.sendCall 8) ∧
    ¬ Before demoState.tr (.unsubCall 3) (.sendRet 8 2) := by rw [demo_tr]; decide
-- channel 2 was unsubscribed during Send 7 (no obligation, and indeed nothing was placed)
example : Before demoState.tr (.unsubCall 2) (.sendRet 7 1) ∧ demoState.tr.count (.place 2 7) = 0 := by rw [demo_tr]; decide
-- the conclusion of `exactly_once` on the instance
example : demoState.tr.count (.place 1 7) = 1 := exactly_once demo_reach 7 1 1 (by rw [demo_tr]; decide) (by rw [demo_tr]; decide) (by rw [demo_tr]; decide)
-- hypothesis of `cases_is_active_prefix`: a state in the middle of the delivery loop with a non-trivial prefix
example : ∃ s, Reach s ∧ (s.spc 7).merged = true ∧ s.sendCases = [2, 1] ∧ s.active = 1 ∧ activeCases s = [2] :=
  ⟨(run init (demo.take 8)).getD init, reach_run Reach.init (by rfl : run init (demo.take 8) = some _), by decide, by rfl, by rfl, by rfl⟩
-- hypothesis of `common_order`/`no_delivery_after_unsubscribe`: both kinds of events occur
example : Before demoState.tr (.place 1 7) (.place 1 8) ∧ Before demoState.tr (.unsubRet 2) (.place 3 8) := by rw [demo_tr]; decide
-- hypothesis of `placement_only_to_subscribers_during_send`
example : Ev.place 3 8 ∈ demoState.tr := by rw [demo_tr]; decide
-- hypothesis of `quiescent_membership` and of `select_waits_only_for_receivers`
example : demoState.tokenFree = true ∧ demoState.rpc 2 = .done ∧ demoState.rpc 1 = .idle := by decide
example : ∃ s, Reach s ∧ s.spc 7 = .sel ∧ s.active = 1 :=
  ⟨(run init (demo.take 8)).getD init, reach_run Reach.init (by rfl : run init (demo.take 8) = some _), by decide, by rfl⟩
-- hypothesis of `send_measure_decreases`: the measure on the way
example : sendMeasure ((run init (demo.take 6)).getD init) 7 = (3, 3) ∧ sendMeasure ((run init (demo.take 7)).getD init) 7 = (3, 2)
    ∧ sendMeasure ((run init (demo.take 8)).getD init) 7 = (3, 1) ∧ sendMeasure ((run init (demo.take 12)).getD init) 7 = (1, 2) := by decide


/-! ### Misuse path (documented, outside the property): a `Send` whose value has the wrong type.

The property quantifies over interleavings of well-typed Send/Subscribe/Unsubscribe calls; `Send` of a wrong-typed value is
documented to panic.  As written it panics with `f.mu` still locked, so if the panic is recovered every later
Subscribe/Send on that feed blocks.  Reproduced on the real code by the harness (`misuse:feed-after-recovered-send-type-panic`);
kept as a note, not a finding against C19. -/

/-- witness: feed of element type 0, `Send` of a value of type 1: the call panics, the sendLock token is back, `f.mu` is
    still held, and no later critical section can start. -/
theorem send_type_mismatch_panics_with_lock_held_witness :
    (FeedMu.sendPrologue ⟨true, false, some 0⟩ 1).2 = .panics ∧
    (FeedMu.sendPrologue ⟨true, false, some 0⟩ 1).1.tokenFree = true ∧
    (FeedMu.sendPrologue ⟨true, false, some 0⟩ 1).1.muLocked = true ∧
    FeedMu.canLockMu (FeedMu.sendPrologue ⟨true, false, some 0⟩ 1).1 = false := by decide

/-- well-typed calls (the only ones the property ranges over) always leave `f.mu` unlocked and keep the token -/
theorem send_well_typed_releases_mu (s : FeedMu.Pro) (ty : Nat) (h : s.etype = none ∨ s.etype = some ty) :
    (FeedMu.sendPrologue s ty).2 = .proceeds ∧ (FeedMu.sendPrologue s ty).1.muLocked = false ∧
    (FeedMu.sendPrologue s ty).1.tokenFree = false := by
  rcases h with h | h <;>
    simp [FeedMu.sendPrologue, FeedMu.runOps, FeedMu.sendOps, FeedMu.typecheckOps, FeedMu.apply, h]

/-- `f.etype` is written (lazily, on first use) only with `f.mu` held — and read only with `f.mu` held — in BOTH `Send` and
    `Subscribe`, for every current element type and every argument type.  This is the obligation behind the "no data race
    on first use" clause; the race-detector sub-run of the harness checks the real code against it. -/
theorem etype_write_requires_mu (et : Option Nat) (ty : Nat) :
    FeedMu.accessesGuarded false (FeedMu.sendOps et ty) = true ∧
    FeedMu.accessesGuarded false (FeedMu.subscribeOps et ty) = true := by
  cases et with
  | none => simp [FeedMu.sendOps, FeedMu.subscribeOps, FeedMu.typecheckOps, FeedMu.accessesGuarded]
  | some t =>
    by_cases h : t = ty <;>
      simp [FeedMu.sendOps, FeedMu.subscribeOps, FeedMu.typecheckOps, FeedMu.accessesGuarded, h]

/-- the seeded shape (type check hoisted in front of the locks) breaks exactly that obligation: first use writes `f.etype`
    without `f.mu`. -/
theorem etype_write_hoisted_unguarded_witness :
    FeedMu.accessesGuarded false (FeedMu.sendOpsHoisted none 0) = false := by decide

example : (⟨true, false, none⟩ : FeedMu.Pro).etype = none ∨ (⟨true, false, none⟩ : FeedMu.Pro).etype = some 3 := Or.inl rfl

/-! ### SubscriptionScope (Aqv.Model.Scope): Track / Close / Count / wrapper Unsubscribe under ANY interleaving of any
number of Track, Close, Count and wrapper-Unsubscribe calls. -/

/-- when a `Close` returns, every subscription for which `Track` had returned a wrapper has been unsubscribed before
    that return (by this Close, by an earlier Close, or through its wrapper) — whatever the order of the map iteration. -/
theorem scope_close_unsubscribes_all {s : Scope.St} (h : Scope.Reach s) (k : Scope.Cid) (i : Scope.Sub)
    (hret : Scope.Ev.closeRet k ∈ s.tr) (htr : Scope.Ev.trackOk i ∈ s.tr) :
    Scope.Before s.tr (.unsub i) (.closeRet k) :=
  (Scope.inv_reach h).all_before i k hret htr

/-- after a `Close` has returned, `Track` never returns a wrapper again (it returns nil and takes no ownership). -/
theorem scope_track_after_close_returns_nil {s : Scope.St} (h : Scope.Reach s) (k : Scope.Cid) (i : Scope.Sub) :
    ¬ Scope.Before s.tr (.closeRet k) (.trackOk i) :=
  (Scope.inv_reach h).no_track_after i k

/-- … as a statement about the step itself: on a closed scope `Track` yields `trackNil` and leaves `sc.subs` alone. -/
theorem scope_track_on_closed {s s' : Scope.St} (i : Scope.Sub) (hc : s.closed = true)
    (hs : Scope.step false s (.track i) = some s') : s'.tr = s.tr ++ [.trackNil i] ∧ s'.subs = s.subs := by
  simp only [Scope.step] at hs
  split at hs
  · simp only [hc, Option.some.injEq] at hs
    subst hs; exact ⟨rfl, rfl⟩
  · cases hs

/-- `Count()` after a `Close` has returned is 0. -/
theorem scope_count_after_close_zero {s : Scope.St} (h : Scope.Reach s) (k : Scope.Cid) (n : Nat)
    (hb : Scope.Before s.tr (.closeRet k) (.count n)) : n = 0 :=
  (Scope.inv_reach h).count_zero k n hb

/-- `sc.mu` is held exactly while one Close is running; a returned Close leaves the scope closed, unlocked and empty. -/
theorem scope_mutex_and_final_state {s : Scope.St} (h : Scope.Reach s) :
    (∀ k k', (s.cpc k).isRunning = true → (s.cpc k').isRunning = true → k = k') ∧
    (∀ k, (s.cpc k).isRunning = true → s.muFree = false) ∧
    (∀ k, Scope.Ev.closeRet k ∈ s.tr → s.closed = true ∧ s.muFree = true ∧ s.subs = []) := by
  have hi := Scope.inv_reach h
  have h1 := hi.mu; have h2 := hi.run; have h4 := hi.done_; have h7 := hi.empty; have h11 := hi.t_ret
  refine ⟨?_, ?_, ?_⟩ <;> grind

/-- once ANY `Close` call has returned, every tracked subscription has been unsubscribed — also with several overlapping
    Close calls: the second one waits on `sc.mu` until the first has unsubscribed everything (Close is atomic with respect to
    other Closes).  (Membership form of `scope_close_unsubscribes_all`.) -/
theorem close_returned_implies_all_unsubscribed {s : Scope.St} (h : Scope.Reach s) (k : Scope.Cid)
    (hret : Scope.Ev.closeRet k ∈ s.tr) : ∀ i, Scope.Ev.trackOk i ∈ s.tr → Scope.Ev.unsub i ∈ s.tr :=
  fun i htr => (Aqv.Feed.sub2_mem ((Scope.inv_reach h).all_before i k hret htr)).1

/-- WITNESS (seeded shape C19-9): if Close marks the scope closed and releases `sc.mu` BEFORE unsubscribing (`step true`), a
    second overlapping Close hits `if sc.closed { return }` and returns while the tracked subscription is still subscribed. -/
theorem scope_close_early_unlock_witness :
    ∃ s, Scope.run true Scope.init [.track 1, .closeCall 10, .closeEnter 10, .closeCall 11, .closeEnter 11] = some s ∧
      Scope.Ev.closeRet 11 ∈ s.tr ∧ Scope.Ev.trackOk 1 ∈ s.tr ∧ Scope.Ev.unsub 1 ∉ s.tr ∧ s.unsubbed 1 = false := by
  refine ⟨(Scope.run true Scope.init [.track 1, .closeCall 10, .closeEnter 10, .closeCall 11, .closeEnter 11]).getD Scope.init,
    by rfl, ?_⟩
  have htr : ((Scope.run true Scope.init [.track 1, .closeCall 10, .closeEnter 10, .closeCall 11, .closeEnter 11]).getD
      Scope.init).tr = [.trackOk 1, .closeCall 10, .closeCall 11, .closeRet 11] := by rfl
  rw [htr]
  exact ⟨by decide, by decide, by decide, by rfl⟩

-- … while in the code as written the second Close cannot even enter while the first is running (it waits on sc.mu)
example : Scope.run false Scope.init [.track 1, .closeCall 10, .closeEnter 10, .closeCall 11, .closeEnter 11] = none := by rfl

-- non-vacuity: two subscriptions tracked, one unsubscribed through its wrapper while a Close is waiting, Close visits the
-- map in the "other" order, a second Close and a late Track follow, then Count
def scopeDemo : List Scope.Act :=
  [.track 1, .track 2, .count, .wrapCall 2, .closeCall 10, .wrapInner 2, .closeEnter 10, .closeStep 10 2, .closeStep 10 1,
   .closeExit 10, .wrapDelete 2, .closeCall 11, .closeEnter 11, .track 3, .count]
def scopeDemoState : Scope.St := (Scope.run false Scope.init scopeDemo).getD Scope.init
theorem scopeDemo_reach : Scope.Reach scopeDemoState :=
  Scope.reach_run Scope.Reach.init (by unfold scopeDemoState; rfl : Scope.run false Scope.init scopeDemo = some scopeDemoState)
theorem scopeDemo_tr : scopeDemoState.tr =
    [.trackOk 1, .trackOk 2, .count 2, .wrapCall 2, .closeCall 10, .unsub 2, .unsub 2, .unsub 1, .closeRet 10, .wrapRet 2,
     .closeCall 11, .closeRet 11, .trackNil 3, .count 0] := by rfl
instance (tr : List Scope.Ev) (a b : Scope.Ev) : Decidable (Scope.Before tr a b) :=
  inferInstanceAs (Decidable (List.Sublist [a, b] tr))
example : Scope.Ev.closeRet 10 ∈ scopeDemoState.tr ∧ Scope.Ev.trackOk 1 ∈ scopeDemoState.tr ∧
    Scope.Ev.closeRet 11 ∈ scopeDemoState.tr := by rw [scopeDemo_tr]; decide
example : Scope.Before scopeDemoState.tr (.closeRet 10) (.count 0) ∧ Scope.Before scopeDemoState.tr (.closeRet 10) (.trackNil 3) := by
  rw [scopeDemo_tr]; decide
example : scopeDemoState.closed = true := by decide

/-! ### TypeMux (Aqv.Model.Mux) — the package's second entry point (`event.go`): Subscribe / Post / Unsubscribe / Stop under
ANY interleaving of any number of posters, subscribers and unsubscribers and one Stop.  `Mux.Reach` is the code as written
(`del` and Subscribe build FRESH arrays); the in-place variant is only used in the witness at the end. -/

theorem mux_count_delivs (tr : List Mux.Ev) (c : Mux.Sub) (p : Mux.Pid) :
    (Mux.delivs tr).count (c, p) = tr.count (Mux.Ev.deliver c p) := by
  induction tr with
  | nil => simp [Mux.delivs]
  | cons e es ih =>
    simp only [Mux.delivs, List.filterMap_cons] at ih ⊢
    cases e <;> simp_all [List.count_cons] <;> grind

/-- the slice a Post iterates is immutable: between taking the snapshot and returning, the backing array it reads still
    holds exactly what it held when the snapshot was taken (nothing writes to a published array). -/
theorem mux_snapshot_immutable {s : Mux.St} (h : Mux.Reach s) (p : Mux.Pid) (i : Nat) (hp : (s.ppc p).idx = some i) :
    s.heap (s.snap p).1 = s.snapL p ∧ (s.snap p).2 = (s.snapL p).length ∧ (s.snapL p).Nodup :=
  ⟨((Mux.invA_reach h).snapImm p i hp).2.1, ((Mux.invA_reach h).snapImm p i hp).2.2, (Mux.invA_reach h).l3 p i hp⟩

/-- no event is delivered twice to the same receiver. -/
theorem mux_at_most_once {s : Mux.St} (h : Mux.Reach s) (c : Mux.Sub) (p : Mux.Pid) :
    s.tr.count (Mux.Ev.deliver c p) ≤ 1 := by
  rw [← mux_count_delivs]
  exact List.nodup_iff_count.mp (Mux.invB_reach h).nd (c, p)

/-- EXACTLY ONCE for TypeMux: if `Post p` of type t returned nil, every receiver whose `Subscribe(t)` returned before the
    Post was called, whose `Unsubscribe` was not called before the Post returned, and with no `Stop` called before the Post
    returned, received the event exactly once. -/
theorem mux_exactly_once {s : Mux.St} (h : Mux.Reach s) (p : Mux.Pid) (c : Mux.Sub) (t : Mux.Ty)
    (hret : Mux.Ev.postRet p true ∈ s.tr)
    (hsub : Mux.Before s.tr (.subRet c t) (.postCall p t))
    (hlive : ¬ Mux.Before s.tr (.unsubCall c) (.postRet p true))
    (hstop : ¬ Mux.Before s.tr .stopCall (.postRet p true)) :
    s.tr.count (Mux.Ev.deliver c p) = 1 := by
  have ha := Mux.invA_reach h
  have hb := Mux.invB_reach h
  have hd := (ha.t_pret p true).mp hret
  have hin : c ∈ s.snapL p := by
    rcases hb.f1d p c t hd hsub with h1 | h1
    · exact h1
    · exact absurd h1 hlive
  have hfresh := ha.e2 c t p t hsub
  have hdel : Mux.Ev.deliver c p ∈ s.tr := by
    rcases hb.g1 p c hd hin with h1 | h1 | h1 | h1
    · exact h1
    · omega
    · exact absurd h1 hlive
    · exact absurd h1 hstop
  have hle := mux_at_most_once h c p
  have : 0 < s.tr.count (Mux.Ev.deliver c p) := List.count_pos_iff.mpr hdel
  omega

/-- nothing is delivered to a receiver after its `Unsubscribe` has returned (its channel is closed and `postC` is nil). -/
theorem mux_no_delivery_after_unsubscribe_returned {s : Mux.St} (h : Mux.Reach s) (c : Mux.Sub) (p : Mux.Pid) :
    ¬ Mux.Before s.tr (.unsubRet c) (.deliver c p) :=
  (Mux.invB_reach h).late c p

/-- a Post that is called after `Stop` has returned does not deliver anything and does not return nil. -/
theorem mux_post_after_stop_fails {s : Mux.St} (h : Mux.Reach s) (p : Mux.Pid) (t : Mux.Ty)
    (hb : Mux.Before s.tr .stopRet (.postCall p t)) :
    Mux.Ev.postRet p true ∉ s.tr ∧ ∀ c, Mux.Ev.deliver c p ∉ s.tr := by
  have ha := Mux.invA_reach h
  have hi := Mux.invB_reach h
  have hcall := (Aqv.Feed.sub2_mem hb).2
  have hne := ((ha.t_pcall p t).mp hcall).1
  have hps := hi.ps p t
  have hpc : s.ppc p = .called ∨ s.ppc p = .done false := by
    apply Classical.byContradiction
    intro hn
    exact hps ⟨hne, fun h1 => hn (Or.inl h1), fun h1 => hn (Or.inr h1)⟩ hb
  refine ⟨fun hr => ?_, fun c => hi.p0 p c (by rcases hpc with h1 | h1 <;> simp [h1])⟩
  have := (ha.t_pret p true).mp hr
  rcases hpc with h1 | h1 <;> rw [h1] at this <;> cases this

-- non-vacuity: receivers 1, 2, 3 of type 0; Post 9 is parked on receiver 1, which is unsubscribed under it (the `closing`
-- case lets the Post go on); 2 and 3 get the event once each.
def muxDemo : List Mux.Act :=
  [.subNew 1 0, .subReg 1, .subNew 2 0, .subReg 2, .subNew 3 0, .subReg 3, .tick, .postCall 9 0, .postSnap 9, .postNext 9,
   .unsubCall 1, .unsubDel 1, .cwBegin 1, .deliverSkip 9, .cwEnd 1, .postNext 9, .deliverSend 9, .postNext 9, .deliverSend 9,
   .postNext 9]
def muxDemoState : Mux.St := (Mux.run false Mux.init muxDemo).getD Mux.init
theorem muxDemo_reach : Mux.Reach muxDemoState :=
  Mux.reach_run Mux.Reach.init (by unfold muxDemoState; rfl : Mux.run false Mux.init muxDemo = some muxDemoState)
theorem muxDemo_tr : muxDemoState.tr =
    [.subRet 1 0, .subRet 2 0, .subRet 3 0, .postCall 9 0, .unsubCall 1, .unsubRet 1, .deliver 2 9, .deliver 3 9,
     .postRet 9 true] := by rfl
instance (tr : List Mux.Ev) (a b : Mux.Ev) : Decidable (Mux.Before tr a b) :=
  inferInstanceAs (Decidable (List.Sublist [a, b] tr))
example : Mux.Ev.postRet 9 true ∈ muxDemoState.tr ∧ Mux.Before muxDemoState.tr (.subRet 2 0) (.postCall 9 0) ∧
    ¬ Mux.Before muxDemoState.tr (.unsubCall 2) (.postRet 9 true) ∧ ¬ Mux.Before muxDemoState.tr .stopCall (.postRet 9 true) := by
  rw [muxDemo_tr]; decide
example : muxDemoState.tr.count (.deliver 2 9) = 1 :=
  mux_exactly_once muxDemo_reach 9 2 0 (by rw [muxDemo_tr]; decide) (by rw [muxDemo_tr]; decide) (by rw [muxDemo_tr]; decide)
    (by rw [muxDemo_tr]; decide)

/-- WITNESS that compacting the receiver list IN PLACE (`append(slice[:pos], slice[pos+1:]...)`) breaks the property: the
    same interleaving run with `step true` — Post 9 parked on receiver 1, receiver 1 unsubscribes, the shared array becomes
    [2, 3, 3] under the Post's snapshot — delivers the event to receiver 3 twice and never to receiver 2, although Post returns
    nil and receiver 2 was subscribed before the Post and never unsubscribed. -/
theorem mux_inplace_delete_witness :
    ∃ s, Mux.run true Mux.init muxDemo = some s ∧
      Mux.Ev.postRet 9 true ∈ s.tr ∧ Mux.Before s.tr (.subRet 2 0) (.postCall 9 0) ∧ Mux.Ev.unsubCall 2 ∉ s.tr ∧
      s.tr.count (.deliver 2 9) = 0 ∧ s.tr.count (.deliver 3 9) = 2 ∧ s.heap (s.snap 9).1 = [2, 3, 3] := by
  refine ⟨(Mux.run true Mux.init muxDemo).getD Mux.init, by rfl, ?_⟩
  have htr : ((Mux.run true Mux.init muxDemo).getD Mux.init).tr =
      [.subRet 1 0, .subRet 2 0, .subRet 3 0, .postCall 9 0, .unsubCall 1, .unsubRet 1, .deliver 3 9, .deliver 3 9,
       .postRet 9 true] := by rfl
  rw [htr]
  refine ⟨by decide, by decide, by decide, by decide, by decide, by rfl⟩

/-! ### A feed USER that sends while holding its own mutex (Aqv.Model.FeedUser; core/tx_pool.go `add()` under `pool.mu`, with a
subscriber that calls `pool.Stats()` between receives).  Because Send waits for every subscriber (that is C19), the user must
not wait for the Send while it holds the lock: with the Send spawned (`go pool.txFeed.Send`, the code as written) no reachable
state is a deadlock; with a synchronous Send two announcements in one critical section deadlock. -/

def _root_.Aqv.FeedUser.UPc.isLocked : FeedUser.UPc → Bool
  | .locked _ => true
  | _ => false

theorem feed_user_lock_invariant {sync : Bool} {s : FeedUser.St} (h : FeedUser.Reach sync s) :
    (s.mu = .user ↔ s.upc.isLocked = true) ∧ (s.mu = .sub ↔ s.spc = .inStats) := by
  induction h with
  | init => simp [FeedUser.start, FeedUser.UPc.isLocked]
  | step a _ hs ih =>
    obtain ⟨h1, h2⟩ := ih
    cases a <;> simp only [FeedUser.step] at hs <;> (repeat' split at hs) <;> (try cases hs) <;>
      simp_all [FeedUser.UPc.isLocked]

/-- with the Send spawned, every reachable state either can take a step or is final (all calls returned, every event
    received): the user and its lock-taking subscriber never deadlock, for any number of announcements per critical section. -/
theorem feed_user_async_send_never_deadlocks {s : FeedUser.St} (h : FeedUser.Reach false s) :
    FeedUser.Enabled false s ∨ FeedUser.Final s := by
  obtain ⟨h1, h2⟩ := feed_user_lock_invariant h
  cases hu : s.upc with
  | locked k =>
    left
    cases k with
    | zero => exact ⟨.userUnlock, _, by simp [FeedUser.step, hu]; rfl⟩
    | succ k => exact ⟨.userEmit, _, by simp [FeedUser.step, hu]; rfl⟩
  | idle =>
    cases hs : s.spc with
    | inStats => left; exact ⟨.subUnlock, _, by simp [FeedUser.step, hs]; rfl⟩
    | wantMu =>
      left
      have hm : s.mu = .free := by
        cases hmu : s.mu <;> simp_all [FeedUser.UPc.isLocked]
      exact ⟨.subLock, _, by simp [FeedUser.step, hs, hm]; rfl⟩
    | recv =>
      by_cases hp : 0 < s.pending
      · left; exact ⟨.asyncDeliver, _, by simp [FeedUser.step, hs, hp]; rfl⟩
      · right; exact ⟨Or.inr hu, by omega, hs⟩
  | done =>
    cases hs : s.spc with
    | inStats => left; exact ⟨.subUnlock, _, by simp [FeedUser.step, hs]; rfl⟩
    | wantMu =>
      left
      have hm : s.mu = .free := by
        cases hmu : s.mu <;> simp_all [FeedUser.UPc.isLocked]
      exact ⟨.subLock, _, by simp [FeedUser.step, hs, hm]; rfl⟩
    | recv =>
      by_cases hp : 0 < s.pending
      · left; exact ⟨.asyncDeliver, _, by simp [FeedUser.step, hs, hp]; rfl⟩
      · right; exact ⟨Or.inl hu, by omega, hs⟩

/-- WITNESS (seeded shape C19-8): with a synchronous Send, a critical section that announces two events deadlocks — after the
    first rendezvous the subscriber waits for the mutex in `Stats()`, the user waits in `Send` for the subscriber's next
    receive; no step is enabled and nothing is final. -/
theorem feed_user_sync_send_deadlock_witness :
    ∃ s, FeedUser.Reach true s ∧ ¬ FeedUser.Enabled true s ∧ ¬ FeedUser.Final s := by
  let s1 : FeedUser.St := { mu := .user, upc := .locked 2, spc := .recv, pending := 0, delivered := 0 }
  let s2 : FeedUser.St := { mu := .user, upc := .locked 1, spc := .wantMu, pending := 0, delivered := 1 }
  have r1 : FeedUser.Reach true s1 := FeedUser.Reach.step (.userLock 2) FeedUser.Reach.init (by rfl)
  have r2 : FeedUser.Reach true s2 := FeedUser.Reach.step .userEmit r1 (by rfl)
  refine ⟨s2, r2, ?_, ?_⟩
  · rintro ⟨a, s', hs⟩
    cases a <;> simp [FeedUser.step, s2] at hs
  · rintro ⟨h1, _, _⟩
    rcases h1 with h1 | h1 <;> simp [s2] at h1

-- a single synchronous announcement per critical section does not deadlock (why the seeded change passes every existing test)
example : FeedUser.step true { mu := .user, upc := .locked 1, spc := .recv, pending := 0, delivered := 0 } .userEmit =
    some { mu := .user, upc := .locked 0, spc := .wantMu, pending := 0, delivered := 1 } := by rfl

/-! ### Non-vacuity of the fairness assumptions: the `demo` interleaving (a Send blocked in Select on a subscriber that is
unsubscribed under it, then a second Send), continued until every receiver is waiting again and then idle forever, is a
fair execution; the liveness theorems apply to it. -/

def demoFair : List Act := demo ++ [.recvBegin 1, .recvTake 1, .recvBegin 3]
def demoFairState : St := (run init demoFair).getD init
theorem demoFair_run : run init demoFair = some demoFairState := by unfold demoFairState; rfl
theorem demoFair_tr : demoFairState.tr = demoState.tr ++ [.recv 1 8] := by rfl

theorem demoFair_fair : Fair (Exec.ofSchedule demoFair demoFairState demoFair_run) := by
  have hreach : Reach demoFairState := reach_run Reach.init demoFair_run
  have he := invE_reach hreach
  have htr : demoFairState.tr =
      [.subRet 1, .subRet 2, .sendCall 7, .place 1 7, .unsubCall 2, .unsubRet 2, .sendRet 7 1,
       .subRet 3, .sendCall 8, .recv 1 7, .place 1 8, .place 3 8, .sendRet 8 2, .recv 3 8, .recv 1 8] := by rfl
  apply fair_of_quiescent_tail
  · decide
  · intro g hg
    have hc := (he.t_scall g).mpr (by rw [hg]; simp)
    rw [htr] at hc
    have : g = 7 ∨ g = 8 := by simpa using hc
    rcases this with rfl | rfl
    · have := (he.t_sret 7 1).mp (by rw [htr]; decide)
      rw [hg] at this; cases this
    · have := (he.t_sret 8 2).mp (by rw [htr]; decide)
      rw [hg] at this; cases this
  · intro c
    have key : demoFairState.rpc c = .idle ∨ demoFairState.rpc c = .done := by
      by_cases hi : demoFairState.rpc c = .idle
      · exact Or.inl hi
      · have hc := (he.t_ucall c).mpr hi
        rw [htr] at hc
        have : c = 2 := by simpa using hc
        subst this
        exact Or.inr ((he.t_uret 2).mp (by rw [htr]; decide))
    rcases key with h0 | h0 <;> simp [h0]
  · intro c hc
    have hsc : demoFairState.sendCases = [3, 1] := by rfl
    rw [hsc] at hc
    have : c = 3 ∨ c = 1 := by simpa using hc
    rcases this with rfl | rfl <;> decide

-- the hypothesis of `send_terminates` / `remove_terminates` holds on it at step 3 resp. 9, and so does the conclusion
example : Ev.sendCall 7 ∈ ((Exec.ofSchedule demoFair demoFairState demoFair_run).σ 3).tr := by decide
example : Ev.unsubCall 2 ∈ ((Exec.ofSchedule demoFair demoFairState demoFair_run).σ 9).tr := by decide
example : ∃ m, 3 ≤ m ∧ ∃ r, Ev.sendRet 7 r ∈ ((Exec.ofSchedule demoFair demoFairState demoFair_run).σ m).tr :=
  send_terminates _ demoFair_fair 7 3 (by decide)

end Aqv.Props.C19

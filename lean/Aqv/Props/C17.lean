/-
  C17 — Network input is authenticated or rejected, and never fatal.

  Model: Aqv.Model.Net (discovery codec, RLPx frame codec, handshake packet reader, handler front), with Go slice and
  index expressions as partial operations whose failure is the outcome `panic`.
  Cryptographic primitives are parameters; what is assumed of them is stated in each theorem
  (`Wf`: output lengths of Keccak / AES; `SnappyOk`: snappy decodes what it encodes; recovery inverts signing;
  collision-freedom of the MAC on the two inputs of one comparison).

  Clauses of the property and the theorems that cover them
    what one side writes the other reads ........ discovery_roundtrip, frame_roundtrip (induction over message sequences)
    authenticated (identified remote key) ....... discovery_authenticated
    endpoint proof before amplification ......... findnode_served_only_after_verified_pong
    any bit flipped is detected before delivery . discovery_tamper_detected, discovery_hash_tamper_detected,
                                                  frame_tamper_detected_partial, frame_single_byte_tamper_detected,
                                                  frame_truncation_rejected
    secrets only for validated identities ....... responder_identity_validated, identity_rule_lattice,
                                                  responder_rejects_order_two_identity
    never crashes ............................... discovery_total (every byte string), discovery_unguarded_panics_witness
                                                  (the guard is necessary), handshake_total_and_bounded, handler_size_limit
    a delivered message stays what it was ....... readMsg_payload_independent_of_later_frames (names the tie's obligation)
    never allocates beyond the limits ........... discovery_decode_alloc_bounded, frame_alloc_bound, frame_size_accounting, handshake_total_and_bounded,
                                                  handler_size_limit, handler_decoder_input_bounded, proto_handshake_size_limit
  "never wedges" and panics outside the modelled expressions (Go runtime, rlp/ecies/snappy internals, goroutine
  lifecycles of p2p.Server) are exercised by the harness on the real code only (DESIGN 2.6).
-/
import Aqv.Lemmas.Net
import Aqv.Lemmas.NetFrame
namespace Aqv.Props.C17
open Aqv Aqv.Rlp Aqv.Net

set_option maxRecDepth 100000   -- the non-vacuity examples evaluate the model on concrete packets with `decide`

/-! ## Discovery -/

/-- `discovery_total`: on EVERY byte string, in both network modes and for every hash / recovery function, the
    discovery decoder at HEAD returns a packet or an error — never a run-time panic. -/
theorem discovery_total (P : DiscPrims) (nc : Bool) (buf : Bytes) : (decodePacket P nc buf).isPanic = false := by
  by_cases h : buf.length < headSize + 1
  · simp [decodePacket, decodePacketG, h, Out.isPanic]
  · rw [decodePacket, decodePacketG_eq _ _ _ _ (by omega)]
    unfold decodeCore
    simp only [reduceIte]
    repeat' split
    all_goals rfl

def constPrims : DiscPrims := { H := fun _ => List.replicate 32 0, recover := fun _ _ => some [] }

/-- the length check added by commit 5ac0fad is load-bearing: without it a correctly hashed and "signed" datagram whose
    signed data is the single type byte panics with `slice bounds out of range [5:1]`. -/
theorem discovery_unguarded_panics_witness :
    decodePacketG false constPrims false (List.replicate 97 0 ++ [134]) = .panic (.sliceBounds 5 1 1) := by
  rfl


/-- authenticated-or-rejected, discovery: whatever `decodePacket` delivers is the decoding of bytes whose hash matched
    and whose signature recovers to exactly the delivered NodeID. -/
theorem discovery_authenticated (P : DiscPrims) (nc : Bool) (buf : Bytes) (d : Decoded)
    (h : decodePacket P nc buf = .ok d) :
    headSize + 1 ≤ buf.length ∧
    d.hash = buf.take macSize ∧ d.hash = P.H (buf.drop macSize) ∧
    P.recover (P.H (buf.drop headSize)) ((buf.take headSize).drop macSize) = some d.from_ ∧
    ∃ k, decodeBody k ((buf.drop headSize).drop (1 + if nc then 0 else 4)) = some d.pkt := by
  by_cases hl : buf.length < headSize + 1
  · rw [decodePacket, decodePacketG_short _ _ _ _ hl] at h; cases h
  · rw [decodePacket, decodePacketG_eq _ _ _ _ (by omega)] at h
    unfold decodeCore at h
    simp only [reduceIte] at h
    refine ⟨by omega, ?_⟩
    generalize (if nc = true then (0 : Nat) else 4) = x at h ⊢
    split at h
    · cases h
    · rename_i hh
      have hh' : List.take macSize buf = P.H (List.drop macSize buf) := by simpa using hh
      split at h
      · cases h
      · rename_i fromID hrec
        split at h
        · cases h
        · rename_i k hk
          split at h
          · cases h
          · split at h
            · cases h
            · rename_i p hp
              cases h
              exact ⟨rfl, hh', hrec, k, hp⟩

/-- non-vacuity: a concrete datagram that `decodePacket` accepts (constant hash, FINDNODE with one tail element). -/
def pkt0 : Bytes :=
  List.replicate 97 0 ++ [136] ++ aquaTag ++ encodeBody (.findnode (List.replicate 64 7) 1000 [[0x05]])
example : decodePacket constPrims false pkt0
    = .ok { pkt := .findnode (List.replicate 64 7) 1000 [[0x05]], from_ := [], hash := List.replicate 32 0 } := by decide
example : (discovery_authenticated constPrims false pkt0 _ (by decide : decodePacket constPrims false pkt0
    = .ok { pkt := .findnode (List.replicate 64 7) 1000 [[0x05]], from_ := [], hash := List.replicate 32 0 })).1 = (by decide) := rfl

/-- any change to the signed part of a datagram (signature, type, tag or body) that leaves the hash field alone is
    rejected with `errBadHash`, provided Keccak does not collide on the two inputs. -/
theorem discovery_tamper_detected (P : DiscPrims) (nc : Bool) (buf buf' : Bytes) (d : Decoded)
    (h : decodePacket P nc buf = .ok d) (hlen : buf'.length = buf.length)
    (hsame : buf'.take macSize = buf.take macSize)
    (hnocoll : P.H (buf'.drop macSize) ≠ P.H (buf.drop macSize)) :
    decodePacket P nc buf' = .err .badHash := by
  obtain ⟨hl, h1, h2, _⟩ := discovery_authenticated P nc buf d h
  rw [decodePacket, decodePacketG_eq _ _ _ _ (by omega)]
  unfold decodeCore
  have : List.take macSize buf' ≠ P.H (List.drop macSize buf') := by
    rw [hsame, ← h1, h2]; exact fun e => hnocoll e.symm
  simp only [this, ne_eq, not_false_eq_true, if_true]

/-- non-vacuity: a hash that depends on its input (byte sum), a datagram it accepts, and a flipped tag byte. -/
def sumPrims : DiscPrims := { H := fun x => List.replicate 31 0 ++ [x.foldl (· + ·) 0], recover := fun _ _ => some [] }
def pkt1 : Bytes :=
  let rest := List.replicate 65 0 ++ [136] ++ aquaTag ++ encodeBody (.findnode (List.replicate 64 7) 1000 [])
  sumPrims.H rest ++ rest
def dec1 : Decoded := { pkt := .findnode (List.replicate 64 7) 1000 [], from_ := [], hash := pkt1.take 32 }
example : decodePacket sumPrims false (pkt1.set 100 0x62) = .err .badHash :=
  discovery_tamper_detected sumPrims false pkt1 (pkt1.set 100 0x62) dec1 (by decide) (by decide) (by decide) (by decide)

/-- a change confined to the hash field is always rejected. -/
theorem discovery_hash_tamper_detected (P : DiscPrims) (nc : Bool) (buf buf' : Bytes) (d : Decoded)
    (h : decodePacket P nc buf = .ok d) (hlen : buf'.length = buf.length)
    (hsame : buf'.drop macSize = buf.drop macSize) (hdiff : buf'.take macSize ≠ buf.take macSize) :
    decodePacket P nc buf' = .err .badHash := by
  obtain ⟨hl, h1, h2, _⟩ := discovery_authenticated P nc buf d h
  rw [decodePacket, decodePacketG_eq _ _ _ _ (by omega)]
  unfold decodeCore
  have : List.take macSize buf' ≠ P.H (List.drop macSize buf') := by
    rw [hsame, ← h2, h1]; exact hdiff
  simp only [this, ne_eq, not_false_eq_true, if_true]

example : decodePacket sumPrims false (pkt1.set 3 9) = .err .badHash :=
  discovery_hash_tamper_detected sumPrims false pkt1 (pkt1.set 3 9) dec1 (by decide) (by decide) (by decide) (by decide)

/-- `discovery_roundtrip`: what `encodePacket` writes, `decodePacket` reads — same request, the signer's NodeID, the
    same hash — in both network modes, for every well-formed request, given that signature recovery inverts signing. -/
theorem discovery_roundtrip (H : Bytes → Bytes) (sign : Bytes → Bytes) (recover : Bytes → Bytes → Option Bytes) (id : Bytes)
    (nc : Bool) (ptype : UInt8) (p : Packet)
    (hH : ∀ x, (H x).length = 32) (hsig : ∀ h, (sign h).length = 65) (hrec : ∀ h, recover h (sign h) = some id)
    (hty : kindOfType (if nc = true ∧ ptype < 133 then ptype + 133 else ptype) = some p.kind)
    (hw : p.Wf) (hl : (encodeBody p).length < 2 ^ 64) :
    ∃ pkt hash, encodePacket H sign nc ptype p = .ok (pkt, hash) ∧
      decodePacket { H := H, recover := recover } nc pkt = .ok { pkt := p, from_ := id, hash := hash } := by
  refine ⟨_, _, encodePacket_eq H sign nc ptype p hH hsig, ?_⟩
  generalize hsd : sigdataOf nc ptype p = sd
  generalize hsg : sign (H sd) = sig
  have hsl : sig.length = 65 := by rw [← hsg]; exact hsig _
  have hhl : (H (sig ++ sd)).length = 32 := hH _
  have hsdl : 1 + (if nc = true then 0 else 4) ≤ sd.length := by
    rw [← hsd]; cases nc <;> simp [sigdataOf, aquaTag] <;> omega
  rw [decodePacket, decodePacketG_eq _ _ _ _ (by simp [headSize, macSize, sigSize, hhl, hsl]; omega)]
  unfold decodeCore
  have ht : List.take macSize (H (sig ++ sd) ++ sig ++ sd) = H (sig ++ sd) := by
    rw [List.append_assoc, List.take_left' (by simp [macSize, hhl])]
  have hd : List.drop macSize (H (sig ++ sd) ++ sig ++ sd) = sig ++ sd := by
    rw [List.append_assoc, List.drop_left' (by simp [macSize, hhl])]
  have hd2 : List.drop headSize (H (sig ++ sd) ++ sig ++ sd) = sd := by
    rw [List.drop_left' (by simp [headSize, macSize, sigSize, hhl, hsl])]
  have ht2 : List.drop macSize (List.take headSize (H (sig ++ sd) ++ sig ++ sd)) = sig := by
    rw [List.take_left' (by simp [headSize, macSize, sigSize, hhl, hsl])]
    rw [List.drop_left' (by simp [macSize, hhl])]
  simp only [ht, hd, hd2, ht2, ne_eq, not_true_eq_false, if_false]
  rw [← hsg, hrec]
  simp only
  have hhead : sd.headD 0 = ptype := by rw [← hsd]; simp [sigdataOf]
  rw [hhead, hty]
  simp only
  rw [if_neg (by omega)]
  have hbody : List.drop (1 + if nc = true then 0 else 4) sd = encodeBody p := by
    rw [← hsd]; cases nc <;> simp [sigdataOf, aquaTag]
  rw [hbody]
  have := decodeBody_encodeBody p [] hw hl
  rw [List.append_nil] at this
  rw [this]

/-- non-vacuity: a PING with both endpoints and a tail element, netcompat mode (type byte 1 on the wire). -/
def ep0 : Endpoint := { ip := [127, 0, 0, 1], udp := 30303, tcp := 21303 }
def ping0 : Packet := .ping 4 ep0 ep0 1000 [[0x05]]
example : ∃ pkt hash, encodePacket (fun x => (x ++ List.replicate 32 0).take 32) (fun _ => List.replicate 65 1) true 1 ping0 = .ok (pkt, hash) ∧
    decodePacket { H := fun x => (x ++ List.replicate 32 0).take 32, recover := fun _ _ => some [9] } true pkt
      = .ok { pkt := ping0, from_ := [9], hash := hash } :=
  discovery_roundtrip _ _ _ [9] true 1 ping0 (by intro x; simp) (by intro h; simp) (by intro h; rfl) (by decide)
    ⟨by decide, ⟨by decide, by decide⟩, ⟨by decide, by decide⟩, by decide,
      by intro r hr; simp only [List.mem_singleton] at hr; subst hr; intro rest; simp [rRaw, readHead]⟩
    (by decide)

/-- `discovery_decode_alloc_bounded`: every buffer the typed RLP readers of the discovery decoder allocate from a length
    prefix (`Stream.Bytes`: `make(size)`, `Stream.Raw`: `make(headsize+size)`) is at most the unread input, because the
    size is compared with the remaining input (the stream's input limit = length of the signed data) BEFORE the `make`;
    and every reader hands on a rest / list payload that is no longer than its own input, so the bound holds at every
    nesting level of `decodeBody`: a datagram of n bytes makes the decoder allocate at most n bytes per value,
    whatever its length prefixes claim. -/
theorem discovery_decode_alloc_bounded (bs : Bytes) :
    rBytesAlloc bs ≤ bs.length ∧ rRawAlloc bs ≤ bs.length ∧
    (∀ v rest, rBytes bs = some (v, rest) → v.length ≤ bs.length ∧ rest.length ≤ bs.length) ∧
    (∀ pl rest, rList bs = some (pl, rest) → pl.length ≤ bs.length ∧ rest.length ≤ bs.length) ∧
    (∀ r rest, rRaw bs = some (r, rest) → r.length ≤ bs.length ∧ rest.length ≤ bs.length) ∧
    (∀ k v rest, rUint k bs = some (v, rest) → rest.length ≤ bs.length) ∧
    (∀ k v rest, rArray k bs = some (v, rest) → v.length ≤ bs.length ∧ rest.length ≤ bs.length) := by
  refine ⟨?_, ?_, ?_, ?_, ?_, ?_, ?_⟩
  · unfold rBytesAlloc
    split
    · rename_i n rest hh
      obtain ⟨hbs, _⟩ := readHead_ok_str bs n rest hh
      split
      · omega
      · rw [hbs]; simp; omega
    · omega
  · unfold rRawAlloc
    split
    · rename_i n rest hh
      obtain ⟨hbs, _⟩ := readHead_ok_str bs n rest hh
      split
      · omega
      · rw [hbs]; simp; omega
    · rename_i n rest hh
      obtain ⟨hbs, _⟩ := readHead_ok_list bs n rest hh
      split
      · omega
      · rw [hbs]; simp; omega
    · omega
  · intro v rest h
    unfold rBytes at h
    split at h
    · rename_i b r hh
      obtain ⟨hbs, _⟩ := readHead_ok_byte bs b r hh
      injection h with h; injection h with h1 h2
      rw [← h1, ← h2, hbs]; simp
    · rename_i n r hh
      obtain ⟨hbs, _⟩ := readHead_ok_str bs n r hh
      have hh' := header_length_pos 0x80 n
      split at h
      · cases h
      · split at h
        · split at h
          · cases h
          · injection h with h; injection h with h1 h2
            rw [← h1, ← h2, hbs]; simp; omega
        · injection h with h; injection h with h1 h2
          rw [← h1, ← h2, hbs]; simp; omega
    · cases h
  · intro pl rest h
    unfold rList at h
    split at h
    · rename_i n r hh
      obtain ⟨hbs, _⟩ := readHead_ok_list bs n r hh
      split at h
      · cases h
      · injection h with h; injection h with h1 h2
        rw [← h1, ← h2, hbs]; simp; omega
    · cases h
  · intro r rest h
    unfold rRaw at h
    split at h
    · rename_i b r' hh
      obtain ⟨hbs, _⟩ := readHead_ok_byte bs b r' hh
      injection h with h; injection h with h1 h2
      rw [← h1, ← h2, hbs]; simp
    · rename_i n r' hh
      obtain ⟨hbs, _⟩ := readHead_ok_str bs n r' hh
      split at h
      · cases h
      · injection h with h; injection h with h1 h2
        rw [← h1, ← h2, hbs]; simp; omega
    · rename_i n r' hh
      obtain ⟨hbs, _⟩ := readHead_ok_list bs n r' hh
      split at h
      · cases h
      · injection h with h; injection h with h1 h2
        rw [← h1, ← h2, hbs]; simp; omega
    · cases h
  · intro k v rest h
    exact rUint_rest_le k bs v rest h
  · intro k v rest h
    unfold rArray at h
    split at h
    · rename_i n r hh
      obtain ⟨hbs, _⟩ := readHead_ok_str bs n r hh
      split at h
      · cases h
      · split at h
        · cases h
        · injection h with h; injection h with h1 h2
          rw [← h1, ← h2, hbs]; simp; omega
    · cases h

/-- non-vacuity: a 200-byte string header followed by 3 bytes allocates nothing; a fitting one allocates its size. -/
example : rBytesAlloc [0xb8, 200, 1, 2, 3] = 0 ∧ rBytesAlloc [0x83, 1, 2, 3] = 3 ∧ rRawAlloc [0xc2, 1, 2, 9] = 3 := by decide

/-! ## Discovery endpoint proof -/

/-- `findnode_served_only_after_verified_pong`: over every history of discovery events from any state, if a findnode
    from `id` is served at the end (the node answers with NEIGHBORS, an amplification towards the claimed source), then
    either `id` was bonded in the starting state, or the history contains a pong from `id` whose ReplyTok matched a ping
    we had sent to `id` and that was still pending — pings received from `id`, pongs with another ReplyTok, and timeouts
    of our own ping never create a bond. -/
theorem findnode_served_only_after_verified_pong (s : BondSt) (evs : List DEv) (id : Bytes)
    (h : findnodeServed (bondRun s evs) id = true) :
    findnodeServed s id = true ∨
    ∃ pre tok post, evs = pre ++ DEv.pongRecv id tok :: post ∧ (bondRun s pre).pending.contains (id, tok) = true := by
  induction evs generalizing s with
  | nil => left; exact h
  | cons e es ih =>
    have h' : findnodeServed (bondRun (bondStep s e) es) id = true := h
    rcases ih (bondStep s e) h' with h1 | ⟨pre, tok, post, he, hp⟩
    · -- bonded right after `e`
      cases e with
      | pingSent i t => left; simpa [bondStep, findnodeServed] using h1
      | pingTimeout i => left; simpa [bondStep, findnodeServed] using h1
      | pingRecv i => left; simpa [bondStep, findnodeServed] using h1
      | findnode i => left; simpa [bondStep, findnodeServed] using h1
      | pongRecv i t =>
        by_cases hc : s.pending.contains (i, t) = true
        · simp only [bondStep, hc, if_true, findnodeServed, List.contains_cons, Bool.or_eq_true] at h1
          rcases h1 with h1 | h1
          · right
            have hi : id = i := by simpa using h1
            exact ⟨[], t, es, by rw [hi]; rfl, by rw [hi]; exact hc⟩
          · left; exact h1
        · left
          simp only [bondStep, hc] at h1
          simpa using h1
    · right
      exact ⟨e :: pre, tok, post, by rw [he]; rfl, hp⟩

/-- non-vacuity and the seeded history: ping received, our ping-back sent and timed out, findnode ⇒ refused; with a
    matching pong ⇒ served; with a pong carrying another token ⇒ refused. -/
example :
    findnodeServed (bondRun {} [.pingRecv [1], .pingSent [1] [7], .pingTimeout [1], .findnode [1]]) [1] = false ∧
    findnodeServed (bondRun {} [.pingRecv [1], .pingSent [1] [7], .pongRecv [1] [7], .findnode [1]]) [1] = true ∧
    findnodeServed (bondRun {} [.pingRecv [1], .pingSent [1] [7], .pongRecv [1] [8], .pingTimeout [1], .findnode [1]]) [1] = false ∧
    findnodeServed (bondRun {} [.pingSent [1] [7], .pongRecv [2] [7], .findnode [2]]) [2] = false := by decide

/-! ## RLPx frames -/

/-- `frame_roundtrip`: for every sequence of messages (any codes, any payloads that fit, with or without snappy) and every
    starting state, if the writer's egress state equals the reader's ingress state (equal secrets), then reading the
    written bytes yields exactly the written messages, the reader's state after each frame equals the writer's, and
    the bytes that follow are left untouched. By induction over the sequence. -/
theorem frame_roundtrip (P : Prims) (hw : Wf P) (snappy : Bool) (hs : snappy = true → SnappyOk P) (ms : List Msg)
    (hm : ∀ m ∈ ms, m.Wf) (d d' : Dir) (w : Bytes) (h : writeAll P snappy d ms = .ok (d', w)) (rest : Bytes) :
    readN P snappy ms.length d (w ++ rest) = .ok (d', ms, rest) := by
  induction ms generalizing d w with
  | nil =>
    simp only [writeAll] at h
    injection h with h
    injection h with h1 h2
    simp [readN, h1, ← h2]
  | cons m ms ih =>
    simp only [writeAll] at h
    cases h1 : writeMsg P snappy d m with
    | err e => simp [h1] at h
    | panic p => simp [h1] at h
    | ok r =>
      obtain ⟨d1, w1⟩ := r
      simp only [h1] at h
      cases h2 : writeAll P snappy d1 ms with
      | err e => simp [h2] at h
      | panic p => simp [h2] at h
      | ok r2 =>
        obtain ⟨d2, ws⟩ := r2
        simp only [h2] at h
        injection h with h
        injection h with hd hww
        simp only [List.length_cons, readN]
        rw [← hww, List.append_assoc, frame_roundtrip_step P hw snappy hs d m (hm m (by simp)) d1 w1 h1 (ws ++ rest)]
        simp only
        rw [hd] at h2
        rw [ih (fun x hx => hm x (by simp [hx])) d1 ws h2]

/-- non-vacuity: two messages (one with a two-byte code, one with an empty payload) over the toy primitives `P0`,
    with and without snappy, followed by unrelated bytes. -/
example : ∃ d' w, writeAll P0 true d0 ms0 = .ok (d', w) ∧ readN P0 true 2 d0 (w ++ [1, 2, 3]) = .ok (d', ms0, [1, 2, 3]) := by
  have hok : (writeAll P0 true d0 ms0).isOk = true := by decide
  cases h : writeAll P0 true d0 ms0 with
  | ok r => exact ⟨r.1, r.2, rfl, frame_roundtrip P0 P0_wf true (fun _ => P0_snappy) ms0 ms0_wf d0 r.1 r.2 h [1, 2, 3]⟩
  | err e => simp [h, Out.isOk] at hok
  | panic p => simp [h, Out.isOk] at hok
example : (writeAll P0 false d0 ms0).isOk = true := by decide

/-- `readMsg_payload_independent_of_later_frames`: a delivered message is a value — reading further frames afterwards
    does not change it. In the model this is immediate (payloads are lists, not buffers); it is stated to NAME the
    obligation that the tie carries for the Go code, where `Msg.Payload` is a reader over a buffer: the harness holds
    3–6 delivered Msgs unconsumed while it keeps calling ReadMsg (and does the same through Peer.readLoop with a slow
    protocol handler and pings in between) and requires every payload to be unchanged when it is finally consumed. -/
theorem readMsg_payload_independent_of_later_frames (P : Prims) (snappy : Bool) (n : Nat) (d d' : Dir) (conn rest : Bytes)
    (m : Msg) (ms : List Msg) (h : readN P snappy (n + 1) d conn = .ok (d', m :: ms, rest)) :
    ∃ d1 c1, readMsg P snappy d conn = .ok (d1, m, c1) ∧ readN P snappy n d1 c1 = .ok (d', ms, rest) := by
  simp only [readN] at h
  cases h1 : readMsg P snappy d conn with
  | err e => simp [h1] at h
  | panic p => simp [h1] at h
  | ok r =>
    obtain ⟨d1, m1, c1⟩ := r
    simp only [h1] at h
    cases h2 : readN P snappy n d1 c1 with
    | err e => simp [h2] at h
    | panic p => simp [h2] at h
    | ok r2 =>
      obtain ⟨d2, ms2, c2⟩ := r2
      simp only [h2] at h
      injection h with h
      injection h with ha hb
      injection hb with hb hc
      injection hb with hm hms
      exact ⟨d1, c1, by rw [hm], by rw [h2, ha, hms, hc]⟩

/-- every strict prefix of a written frame is refused with a read error (never delivered, never a panic). -/
theorem frame_truncation_rejected (P : Prims) (hw : Wf P) (snappy : Bool) (hs : snappy = true → SnappyOk P) (d d' : Dir) (m : Msg)
    (hm : m.Wf) (w : Bytes) (h : writeMsg P snappy d m = .ok (d', w)) (n : Nat) (hn : n < w.length) :
    readMsg P snappy d (w.take n) = .err .eof := by
  obtain ⟨body, hbl, hfw, _⟩ := writeMsg_ok_frameWire P hw snappy hs d m hm d' w h
  have hw' : w = (frameWire P d body.length body).2 := congrArg Prod.snd hfw
  rw [frameWire_snd] at hw'
  generalize hench : xorKs P d.pos (hdrPlain body.length) = ench at hw'
  have hel : ench.length = 16 := by rw [← hench, xorKs_length, hdrPlain_length]
  have htl := tag_length P hw (macStep P d.mac ench)
  generalize hfr : xorKs P (d.pos + 16) (body ++ padOf body.length) = frame at hw'
  have hfl : frame.length = rsizeOf body.length := by
    rw [← hfr, xorKs_length, List.length_append, padOf_length]
  have ht3 := tag_length P hw (macStep P (macStep P d.mac ench ++ frame) (P.H (macStep P d.mac ench ++ frame)))
  generalize tag P (macStep P (macStep P d.mac ench ++ frame) (P.H (macStep P d.mac ench ++ frame))) = t3 at hw' ht3
  unfold readMsg readMsgT
  by_cases h32 : n < 32
  · rw [readHeader_short P d _ (by simp; omega)]
  · have hsplit : List.take n w = ench ++ tag P (macStep P d.mac ench) ++ List.take (n - 32) (frame ++ t3) := by
      rw [hw', List.append_assoc (ench ++ tag P (macStep P d.mac ench)), List.take_append]
      simp only [List.length_append, hel, htl]
      rw [List.take_of_length_le (by simp [hel, htl]; omega)]
    rw [hsplit, ← hench, readHeader_hdr P hw d body.length _ hbl]
    simp only
    rw [readFrame_short P _ _ _ _ (by
      rw [hw'] at hn
      simp only [List.length_append, hel, htl, hfl, ht3] at hn
      simp only [List.length_take, List.length_append, hfl, ht3]
      omega)]

example : ∃ d' w, writeMsg P0 false d0 m0 = .ok (d', w) ∧ w.length = 64 ∧ readMsg P0 false d0 (w.take 63) = .err .eof := by
  have hok : (writeMsg P0 false d0 m0).isOk = true := by decide
  cases h : writeMsg P0 false d0 m0 with
  | ok r =>
    have hl : r.2.length = 64 := by
      have : (match writeMsg P0 false d0 m0 with | .ok r => r.2.length | _ => 0) = 64 := by decide
      rw [h] at this; exact this
    exact ⟨r.1, r.2, rfl, hl, frame_truncation_rejected P0 P0_wf false (fun _ => P0_snappy) d0 r.1 m0 m0_wf r.2 h 63 (by omega)⟩
  | err e => simp [h, Out.isOk] at hok
  | panic p => simp [h, Out.isOk] at hok

/-- `frame_tamper_detected_partial`: take the bytes of a written frame — encrypted header `hdr`, header MAC, encrypted
    frame, frame MAC — and replace them by `a b c e` of the same lengths with at least one of them changed, such that
    in no MAC-protected region both the data and its MAC field were changed (this covers every change of a single byte,
    and any change confined to one of the four fields). Then `ReadMsg` returns a MAC error before anything is
    decrypted or delivered, provided the truncated Keccak MAC does not collide on the original and the altered input
    of the comparison that is reached (`hcfH`, `hcfF`: collision-freedom on those two inputs only).

    Full statement (not provable from collision-freedom): the same for ARBITRARY `a b c e`. When both a region and its
    MAC field are replaced, rejection is unforgeability of the MAC under the secret `macCipher`/`IngressMAC` state,
    a cryptographic assumption about AES/Keccak that has no formulation over function parameters; it is exercised by
    the harness on the real primitives only. -/
theorem frame_tamper_detected_partial (P : Prims) (hw : Wf P) (snappy : Bool) (d : Dir) (fsize : Nat) (body rest : Bytes)
    (a b c e : Bytes) (ha : a.length = 16) (hb : b.length = 16) (hc : c.length = rsizeOf fsize) (he : e.length = 16)
    (hbody : body.length = fsize) (hf : fsize < 2 ^ 24)
    -- the original frame
    (hdr frame : Bytes) (hhdr : hdr = xorKs P d.pos (hdrPlain fsize)) (hframe : frame = xorKs P (d.pos + 16) (body ++ padOf fsize))
    -- something changed ...
    (hchg : a ≠ hdr ∨ b ≠ tag P (macStep P d.mac hdr) ∨ c ≠ frame ∨
            e ≠ tag P (macStep P (macStep P d.mac hdr ++ frame) (P.H (macStep P d.mac hdr ++ frame))))
    -- ... but never a region together with its MAC field
    (hreg1 : a ≠ hdr → b = tag P (macStep P d.mac hdr))
    (hreg2 : c ≠ frame → e = tag P (macStep P (macStep P d.mac hdr ++ frame) (P.H (macStep P d.mac hdr ++ frame))))
    -- MAC collision-freedom on the two inputs of each comparison
    (hcfH : macStep P d.mac a ≠ macStep P d.mac hdr → tag P (macStep P d.mac a) ≠ tag P (macStep P d.mac hdr))
    (hcfF : macStep P (macStep P d.mac hdr ++ c) (P.H (macStep P d.mac hdr ++ c))
              ≠ macStep P (macStep P d.mac hdr ++ frame) (P.H (macStep P d.mac hdr ++ frame)) →
            tag P (macStep P (macStep P d.mac hdr ++ c) (P.H (macStep P d.mac hdr ++ c)))
              ≠ tag P (macStep P (macStep P d.mac hdr ++ frame) (P.H (macStep P d.mac hdr ++ frame)))) :
    readMsg P snappy d (a ++ b ++ c ++ e ++ rest) = .err .badHeaderMAC ∨
    readMsg P snappy d (a ++ b ++ c ++ e ++ rest) = .err .badFrameMAC := by
  have hhl : hdr.length = 16 := by rw [hhdr, xorKs_length, hdrPlain_length]
  have hfl : frame.length = rsizeOf fsize := by rw [hframe, xorKs_length, List.length_append, hbody, padOf_length]
  unfold readMsg readMsgT
  have hassoc : a ++ b ++ c ++ e ++ rest = a ++ b ++ (c ++ e ++ rest) := by simp [List.append_assoc]
  by_cases h1 : a = hdr
  · by_cases h2 : b = tag P (macStep P d.mac hdr)
    · -- header intact: the frame stage decides
      right
      rw [hassoc, h1, h2, hhdr, readHeader_hdr P hw d fsize _ hf]
      simp only
      rw [← hhdr]
      have hce : c ≠ frame ∨ e ≠ tag P (macStep P (macStep P d.mac hdr ++ frame) (P.H (macStep P d.mac hdr ++ frame))) := by
        rcases hchg with h | h | h | h
        · exact absurd h1 h
        · exact absurd h2 h
        · exact Or.inl h
        · exact Or.inr h
      have hne : tag P (macStep P (macStep P d.mac hdr ++ c) (P.H (macStep P d.mac hdr ++ c))) ≠ e := by
        by_cases h3 : c = frame
        · rcases hce with h | h
          · exact absurd h3 h
          · rw [h3]; exact fun x => h x.symm
        · rw [hreg2 h3]
          apply hcfF
          apply macStep_ne_of_prefix_ne
          · simp [hc, hfl]
          · intro x; exact h3 (List.append_cancel_left x)
      rw [readFrame_tampered P hw _ _ _ c e rest hc he hne]
    · -- only the header MAC field changed
      left
      rw [hassoc, readHeader_tampered_hdr P hw d a b _ ha hb (by rw [h1]; exact fun x => h2 x.symm)]
  · left
    have hbt := hreg1 h1
    have hne : tag P (macStep P d.mac a) ≠ b := by
      rw [hbt]
      apply hcfH
      intro x
      exact h1 (macStep_inj_seed P hw d.mac a hdr ha hhl x)
    rw [hassoc, readHeader_tampered_hdr P hw d a b _ ha hb hne]

/-- non-vacuity: the frame of `m0` under `P0`, first header byte flipped, everything else as written; the toy MAC
    (last 16 absorbed bytes) separates the two header inputs. -/
def hdr0 : Bytes := xorKs P0 d0.pos (hdrPlain 3)
def frame0 : Bytes := xorKs P0 (d0.pos + 16) ([3, 0xAA, 0xBB] ++ padOf 3)
example :
    readMsg P0 false d0 (hdr0.set 0 0xEE ++ tag P0 (macStep P0 d0.mac hdr0) ++ frame0 ++
        tag P0 (macStep P0 (macStep P0 d0.mac hdr0 ++ frame0) (P0.H (macStep P0 d0.mac hdr0 ++ frame0))) ++ []) = .err .badHeaderMAC ∨
    readMsg P0 false d0 (hdr0.set 0 0xEE ++ tag P0 (macStep P0 d0.mac hdr0) ++ frame0 ++
        tag P0 (macStep P0 (macStep P0 d0.mac hdr0 ++ frame0) (P0.H (macStep P0 d0.mac hdr0 ++ frame0))) ++ []) = .err .badFrameMAC :=
  frame_tamper_detected_partial P0 P0_wf false d0 3 [3, 0xAA, 0xBB] [] (hdr0.set 0 0xEE) _ frame0 _
    (by decide) (by decide) (by decide) (by decide) (by decide) (by decide) hdr0 frame0 rfl rfl
    (Or.inl (by decide)) (fun _ => rfl) (fun _ => rfl) (fun _ => by decide) (fun h => absurd rfl h)

/-- every single altered byte of a written frame is detected (corollary of `frame_tamper_detected_partial`):
    for each position `i` of header ‖ header-MAC ‖ frame ‖ frame-MAC and each new value `v` for that byte, `ReadMsg`
    answers with a MAC error, provided no other 16-byte header / no other frame of the same length has the MAC tag of the
    written one (second-preimage freedom of the truncated Keccak MAC at the written header and frame). -/
theorem frame_single_byte_tamper_detected (P : Prims) (hw : Wf P) (snappy : Bool) (d : Dir) (fsize : Nat) (body rest : Bytes)
    (hbody : body.length = fsize) (hf : fsize < 2 ^ 24)
    (hdr frame t1 t3 : Bytes) (hhdr : hdr = xorKs P d.pos (hdrPlain fsize)) (hframe : frame = xorKs P (d.pos + 16) (body ++ padOf fsize))
    (ht1 : t1 = tag P (macStep P d.mac hdr))
    (ht3 : t3 = tag P (macStep P (macStep P d.mac hdr ++ frame) (P.H (macStep P d.mac hdr ++ frame))))
    (i : Nat) (v : UInt8) (hi : i < (hdr ++ t1 ++ frame ++ t3).length) (hv : (hdr ++ t1 ++ frame ++ t3)[i]? ≠ some v)
    (hcfH : ∀ a, a.length = 16 → macStep P d.mac a ≠ macStep P d.mac hdr → tag P (macStep P d.mac a) ≠ tag P (macStep P d.mac hdr))
    (hcfF : ∀ c, c.length = frame.length →
        macStep P (macStep P d.mac hdr ++ c) (P.H (macStep P d.mac hdr ++ c)) ≠ macStep P (macStep P d.mac hdr ++ frame) (P.H (macStep P d.mac hdr ++ frame)) →
        tag P (macStep P (macStep P d.mac hdr ++ c) (P.H (macStep P d.mac hdr ++ c)))
          ≠ tag P (macStep P (macStep P d.mac hdr ++ frame) (P.H (macStep P d.mac hdr ++ frame)))) :
    readMsg P snappy d ((hdr ++ t1 ++ frame ++ t3).set i v ++ rest) = .err .badHeaderMAC ∨
    readMsg P snappy d ((hdr ++ t1 ++ frame ++ t3).set i v ++ rest) = .err .badFrameMAC := by
  have hhl : hdr.length = 16 := by rw [hhdr, xorKs_length, hdrPlain_length]
  have hfl : frame.length = rsizeOf fsize := by rw [hframe, xorKs_length, List.length_append, hbody, padOf_length]
  have h1l : t1.length = 16 := by rw [ht1]; exact tag_length P hw _
  have h3l : t3.length = 16 := by rw [ht3]; exact tag_length P hw _
  simp only [List.length_append, hhl, h1l, hfl, h3l] at hi
  by_cases c1 : i < 16
  · have hs : (hdr ++ t1 ++ frame ++ t3).set i v = hdr.set i v ++ t1 ++ frame ++ t3 := by
      rw [List.set_append_left _ _ (by simp [hhl, h1l, hfl]; omega), List.set_append_left _ _ (by simp [hhl, h1l]; omega),
        List.set_append_left _ _ (by omega)]
    have hv' : hdr[i]? ≠ some v := by
      intro e; apply hv
      rw [List.append_assoc, List.append_assoc, List.getElem?_append_left (by omega)]; exact e
    have hne := set_ne_self hdr i v (by omega) hv'
    rw [hs]
    exact frame_tamper_detected_partial P hw snappy d fsize body rest (hdr.set i v) t1 frame t3 (by simp [hhl]) h1l hfl h3l hbody hf
      hdr frame hhdr hframe (Or.inl hne) (fun _ => ht1) (fun _ => ht3) (hcfH _ (by simp [hhl])) (fun h => absurd rfl h)
  · by_cases c2 : i < 32
    · have hs : (hdr ++ t1 ++ frame ++ t3).set i v = hdr ++ t1.set (i - 16) v ++ frame ++ t3 := by
        rw [List.set_append_left _ _ (by simp [hhl, h1l, hfl]; omega), List.set_append_left _ _ (by simp [hhl, h1l]; omega),
          List.set_append_right _ _ (by omega), hhl]
      have hv' : t1[i - 16]? ≠ some v := by
        intro e; apply hv
        rw [List.append_assoc, List.append_assoc, List.getElem?_append_right (by omega), hhl,
          List.getElem?_append_left (by omega)]; exact e
      have hne := set_ne_self t1 (i - 16) v (by omega) hv'
      rw [hs]
      exact frame_tamper_detected_partial P hw snappy d fsize body rest hdr (t1.set (i - 16) v) frame t3 hhl (by simp [h1l]) hfl h3l hbody hf
        hdr frame hhdr hframe (Or.inr (Or.inl (by rw [← ht1]; exact hne))) (fun h => absurd rfl h) (fun _ => ht3)
        (fun h => absurd rfl h) (fun h => absurd rfl h)
    · by_cases c3 : i < 32 + rsizeOf fsize
      · have hs : (hdr ++ t1 ++ frame ++ t3).set i v = hdr ++ t1 ++ frame.set (i - 32) v ++ t3 := by
          rw [List.set_append_left _ _ (by simp [hhl, h1l, hfl]; omega), List.set_append_right _ _ (by simp [hhl, h1l]; omega)]
          simp [hhl, h1l]
        have hv' : frame[i - 32]? ≠ some v := by
          intro e; apply hv
          rw [List.getElem?_append_left (by simp [hhl, h1l, hfl]; omega), List.getElem?_append_right (by simp [hhl, h1l]; omega)]
          simp only [List.length_append, hhl, h1l]; exact e
        have hne := set_ne_self frame (i - 32) v (by omega) hv'
        rw [hs]
        exact frame_tamper_detected_partial P hw snappy d fsize body rest hdr t1 (frame.set (i - 32) v) t3 hhl h1l (by simp [hfl]) h3l hbody hf
          hdr frame hhdr hframe (Or.inr (Or.inr (Or.inl hne))) (fun h => absurd rfl h) (fun _ => ht3)
          (fun h => absurd rfl h) (hcfF _ (by simp))
      · have hs : (hdr ++ t1 ++ frame ++ t3).set i v = hdr ++ t1 ++ frame ++ t3.set (i - (32 + rsizeOf fsize)) v := by
          rw [List.set_append_right _ _ (by simp [hhl, h1l, hfl]; omega)]
          simp only [List.length_append, hhl, h1l, hfl]
        have hv' : t3[i - (32 + rsizeOf fsize)]? ≠ some v := by
          intro e; apply hv
          rw [List.getElem?_append_right (by simp [hhl, h1l, hfl]; omega)]
          simp only [List.length_append, hhl, h1l, hfl]; exact e
        have hne := set_ne_self t3 (i - (32 + rsizeOf fsize)) v (by omega) hv'
        rw [hs]
        exact frame_tamper_detected_partial P hw snappy d fsize body rest hdr t1 frame (t3.set (i - (32 + rsizeOf fsize)) v) hhl h1l hfl (by simp [h3l]) hbody hf
          hdr frame hhdr hframe (Or.inr (Or.inr (Or.inr (by rw [← ht3]; exact hne)))) (fun h => absurd rfl h) (fun h => absurd rfl h)
          (fun h => absurd rfl h) (fun h => absurd rfl h)

/-- non-vacuity: under `P1` (MAC tag injective on 16-byte headers and 16-byte frames) every changed byte of the
    64-byte frame of a 2-byte payload is caught, whatever position and value. -/
example (i : Nat) (v : UInt8) (w : Bytes)
    (hwd : w = xorKs P1 0 (hdrPlain 3) ++ tag P1 (macStep P1 [] (xorKs P1 0 (hdrPlain 3))) ++ xorKs P1 (0 + 16) ([3, 0xAA, 0xBB] ++ padOf 3) ++
      tag P1 (macStep P1 (macStep P1 [] (xorKs P1 0 (hdrPlain 3)) ++ xorKs P1 (0 + 16) ([3, 0xAA, 0xBB] ++ padOf 3))
        (P1.H (macStep P1 [] (xorKs P1 0 (hdrPlain 3)) ++ xorKs P1 (0 + 16) ([3, 0xAA, 0xBB] ++ padOf 3)))))
    (hi : i < w.length) (hv : w[i]? ≠ some v) :
    readMsg P1 false { mac := [], pos := 0 } (w.set i v ++ []) = .err .badHeaderMAC ∨
    readMsg P1 false { mac := [], pos := 0 } (w.set i v ++ []) = .err .badFrameMAC := by
  subst hwd
  have hhl : (xorKs P1 0 (hdrPlain 3)).length = 16 := by rw [xorKs_length, hdrPlain_length]
  have hml : (macStep P1 [] (xorKs P1 0 (hdrPlain 3))).length = 16 := by
    rw [P1_macStep _ _ (by omega)]; simp [hhl]
  refine frame_single_byte_tamper_detected P1 P1_wf false { mac := [], pos := 0 } 3 [3, 0xAA, 0xBB] [] rfl (by decide)
    _ _ _ _ rfl rfl rfl rfl i v hi hv ?_ ?_
  · intro a ha hne htag
    rw [P1_tag_hdr a ha, P1_tag_hdr _ hhl] at htag
    exact hne (by rw [htag])
  · intro c hc hne htag
    have hcl : c.length = 16 := by rw [hc, xorKs_length]; rfl
    have hfl : (xorKs P1 (0 + 16) ([3, 0xAA, 0xBB] ++ padOf 3)).length = 16 := by rw [xorKs_length]; rfl
    rw [P1_tag_frame _ c hml hcl, P1_tag_frame _ _ hml hfl] at htag
    exact hne (by rw [htag])

/-- `frame_alloc_bound`: whatever bytes arrive and whatever the session keys are, every buffer `ReadMsg` allocates
    (header, frame buffer rounded up to 16, the compressed payload copy, snappy's output) is at most 2^24 + 15 bytes;
    a snappy stream declaring more than 2^24 - 1 decompressed bytes is refused before anything is allocated for it. -/
theorem frame_alloc_bound (P : Prims) (snappy : Bool) (d : Dir) (conn : Bytes) :
    ∀ a ∈ readAllocs P snappy d conn, a ≤ 2 ^ 24 + 15 := by
  unfold readAllocs readMsgT
  cases hh : readHeader P d conn with
  | err e => simp
  | panic p => simp
  | ok r =>
    obtain ⟨mac1, fsize, conn1⟩ := r
    have hf := readHeader_fsize_lt P d conn mac1 fsize conn1 hh
    have hr := rsizeOf_le fsize
    simp only
    cases hfr : readFrame P mac1 (d.pos + 16) fsize conn1 with
    | err e => simp; omega
    | panic p => simp; omega
    | ok r2 =>
      obtain ⟨mac3, plain, conn3⟩ := r2
      simp only
      cases hsl : sliceTo plain fsize with
      | err e => simp; omega
      | panic p => simp; omega
      | ok content =>
        have hcl : content.length ≤ fsize := by
          unfold sliceTo at hsl
          split at hsl
          · injection hsl with hsl; rw [← hsl]; simp; omega
          · cases hsl
        simp only
        intro a ha
        simp only [List.mem_append, List.mem_cons, List.mem_nil_iff, or_false] at ha
        rcases ha with (rfl | rfl) | ha
        · omega
        · omega
        · have := decodeContent_allocs P snappy content a ha
          simp only [maxUint24] at this
          omega

/-- size accounting of a delivered message: `Size` never exceeds 2^24 - 1, and without snappy it is exactly the
    number of payload bytes handed to the protocol. -/
theorem frame_size_accounting (P : Prims) (snappy : Bool) (d d' : Dir) (conn rest : Bytes) (m : Msg)
    (h : readMsg P snappy d conn = .ok (d', m, rest)) :
    m.size ≤ maxUint24 ∧ (snappy = false → m.size = m.payload.length) := by
  unfold readMsg readMsgT at h
  cases hh : readHeader P d conn with
  | err e => simp [hh] at h
  | panic p => simp [hh] at h
  | ok r =>
    obtain ⟨mac1, fsize, conn1⟩ := r
    have hf := readHeader_fsize_lt P d conn mac1 fsize conn1 hh
    simp only [hh] at h
    cases hfr : readFrame P mac1 (d.pos + 16) fsize conn1 with
    | err e => simp [hfr] at h
    | panic p => simp [hfr] at h
    | ok r2 =>
      obtain ⟨mac3, plain, conn3⟩ := r2
      simp only [hfr] at h
      cases hsl : sliceTo plain fsize with
      | err e => simp [hsl] at h
      | panic p => simp [hsl] at h
      | ok content =>
        have hcl : content.length ≤ fsize := by
          unfold sliceTo at hsl
          split at hsl
          · injection hsl with hsl; rw [← hsl]; simp; omega
          · cases hsl
        simp only [hsl] at h
        unfold decodeContent at h
        cases hdc : decCode content with
        | err e => simp [hdc] at h
        | panic p => simp [hdc] at h
        | ok r3 =>
          obtain ⟨code, payload⟩ := r3
          have hpl : payload.length ≤ content.length := by
            unfold decCode at hdc
            split at hdc
            · rename_i r hr
              injection hdc with hdc
              rw [hdc] at hr
              exact rUint_rest_le _ _ _ _ hr
            · cases hdc
          simp only [hdc] at h
          cases snappy with
          | false =>
            simp only [Bool.false_eq_true, if_false] at h
            injection h with h
            injection h with _ h
            injection h with h _
            rw [← h]
            simp only [maxUint24]
            exact ⟨by simp; omega, fun _ => by simp⟩
          | true =>
            simp only [if_true] at h
            cases hl : P.snapLen payload with
            | none => simp [hl] at h
            | some size =>
              simp only [hl] at h
              by_cases hs : size > maxUint24
              · simp [hs] at h
              · simp only [hs, if_false] at h
                cases hd : P.snapDec payload with
                | none => simp [hd] at h
                | some p =>
                  simp only [hd] at h
                  injection h with h
                  injection h with _ h
                  injection h with h _
                  rw [← h]
                  simp only [maxUint24] at hs ⊢
                  exact ⟨by simp; omega, fun hc => by cases hc⟩

example : ∃ d' m rest, readMsg P0 false d0 w0 = .ok (d', m, rest) ∧ m.size = 2 := by
  refine ⟨_, _, _, (by decide : readMsg P0 false d0 w0 = .ok (d0', m0, [])), rfl⟩

/-! ## Handlers and handshake -/

/-- `handler_size_limit`: the aqua handler refuses every message whose declared size exceeds ProtocolMaxMsgSize before
    looking at it; what it processes is at most that many bytes, decoded successfully; a payload that does not decode
    is an error (the peer is dropped), never a panic in the modelled part. -/
theorem handler_size_limit (decodes : Nat → Bytes → Bool) (m : Msg) :
    (m.size > protocolMaxMsgSize → handleMsg decodes m = .err .msgTooLarge) ∧
    (∀ r, handleMsg decodes m = .ok r →
        m.size ≤ protocolMaxMsgSize ∧ r = .processed m.code (m.payload.take m.size) ∧
        (m.payload.take m.size).length ≤ protocolMaxMsgSize ∧ decodes m.code (m.payload.take m.size) = true) ∧
    (decodes m.code (m.payload.take m.size) = false → (handleMsg decodes m).isOk = false) ∧
    (handleMsg decodes m).isPanic = false := by
  unfold handleMsg
  refine ⟨fun h => by simp [h], ?_, ?_, ?_⟩
  · intro r h
    split at h
    · cases h
    · rename_i hs
      split at h
      · cases h
      · split at h
        · split at h
          · rename_i hd
            injection h with h
            refine ⟨by omega, h.symm, ?_, hd⟩
            simp only [List.length_take]; omega
          · cases h
        · cases h
  · intro hd
    by_cases h1 : m.size > protocolMaxMsgSize <;> by_cases h2 : m.code = 0 <;>
      by_cases h3 : m.code ∈ handledCodes <;> simp [h1, h2, h3, hd, Out.isOk]
  · repeat' split
    all_goals rfl

/-- the decoder is never run on more than ProtocolMaxMsgSize bytes: the handler's result does not depend on what the
    decoder would do with longer inputs. -/
theorem handler_decoder_input_bounded (dec dec' : Nat → Bytes → Bool) (m : Msg)
    (h : ∀ c p, p.length ≤ protocolMaxMsgSize → dec c p = dec' c p) : handleMsg dec m = handleMsg dec' m := by
  unfold handleMsg
  by_cases hs : m.size > protocolMaxMsgSize
  · simp [hs]
  · simp only [hs, if_false]
    rw [h m.code (m.payload.take m.size) (by simp only [List.length_take]; omega)]

/-- the same for the base-protocol handshake (2 KiB). -/
theorem proto_handshake_size_limit (decodes : Bytes → Bool) (m : Msg) :
    (m.size > baseProtocolMaxMsgSize → readProtoHandshake decodes m = .err .msgTooLarge) ∧
    (readProtoHandshake decodes m).isPanic = false := by
  unfold readProtoHandshake
  refine ⟨fun h => by simp [h], ?_⟩
  repeat' split
  all_goals rfl

/-- frames into the handler: a message delivered by `ReadMsg` (no snappy) carries `Size` = the number of payload bytes,
    so the handler's size check is a check on the real amount of data, and at most 2^24 - 1 bytes ever reach it. -/
theorem frame_to_handler (P : Prims) (d d' : Dir) (conn rest : Bytes) (m : Msg) (decodes : Nat → Bytes → Bool)
    (h : readMsg P false d conn = .ok (d', m, rest)) (r : Handled) (hr : handleMsg decodes m = .ok r) :
    r = .processed m.code m.payload ∧ m.payload.length ≤ protocolMaxMsgSize := by
  obtain ⟨_, hsz⟩ := frame_size_accounting P false d d' conn rest m h
  have hsz := hsz rfl
  obtain ⟨_, h2, _⟩ := handler_size_limit decodes m
  obtain ⟨hle, hr', _, _⟩ := h2 r hr
  rw [hsz, List.take_length] at hr'
  exact ⟨hr', by omega⟩

example : handleMsg (fun _ _ => true) m0 = .ok (.processed 3 [0xAA, 0xBB]) := by decide
example : (frame_to_handler P0 d0 d0' w0 [] m0 (fun _ _ => true) (by decide) _ (by decide : handleMsg (fun _ _ => true) m0 = .ok (.processed 3 [0xAA, 0xBB]))).1 = rfl := rfl

/-- payload consumers are total: accept or reject with an error, never a panic (the obligation the harness checks on
    the real `queue.DeliverHeaders` with wire-decoded batches). -/
theorem deliver_total (pending maps : Bool) :
    (deliverSpec pending maps).isPanic = false ∧ ((deliverSpec pending maps).isOk = true ↔ (pending = true ∧ maps = true)) := by
  cases pending <;> cases maps <;> decide

/-! ## Identity validation (the claimed static key of an RLPx initiator / of a discovered node) -/

/-- `responder_identity_validated`: for every validation predicate, ECDH and recovery function and every auth message,
    the responder derives a token / ephemeral key (the inputs of the session secrets) ONLY for an identity the predicate
    accepts, the identity it then reports is exactly the claimed one, and every rejected identity is answered with
    `bad remoteID` before ECDH is attempted. -/
theorem responder_identity_validated (P : AuthPrims) (m : AuthMsg) :
    (∀ r, handleAuthMsg P m = .ok r → P.validID m.pub = true ∧ r.remoteID = m.pub ∧ P.ecdh m.pub = some r.token) ∧
    (P.validID m.pub = false → ∀ P' : AuthPrims, P'.validID = P.validID → handleAuthMsg P' m = .err .badRemoteID) := by
  constructor
  · intro r h
    unfold handleAuthMsg at h
    cases hv : P.validID m.pub with
    | false => simp [hv] at h
    | true =>
      simp only [hv, Bool.not_true, Bool.false_eq_true, if_false] at h
      cases he : P.ecdh m.pub with
      | none => simp [he] at h
      | some token =>
        simp only [he] at h
        cases hx : xorInto token m.nonce 0 with
        | err e => simp [hx] at h
        | panic p => simp [hx] at h
        | ok signed =>
          simp only [hx] at h
          cases hr : P.recover signed m.sig with
          | none => simp [hr] at h
          | some eph =>
            simp only [hr] at h
            injection h with h
            rw [← h]
            exact ⟨rfl, rfl, rfl⟩
  · intro hv P' hP
    unfold handleAuthMsg
    rw [hP, hv]
    rfl

/-- the curve rule itself (y² = x³ + 7 mod P on the two halves): the degenerate and off-curve identities of the
    harness lattice are refused, among them (1,0) — a point of order two on y² = x³ − 1, the invalid-curve identity
    whose "shared secret" takes only four values — and the generator is accepted. -/
def idOf (x y : Nat) : Bytes :=
  List.replicate (32 - (beBytes x).length) 0 ++ beBytes x ++ (List.replicate (32 - (beBytes y).length) 0 ++ beBytes y)
def secpGx : Nat := 0x79BE667EF9DCBBAC55A06295CE870B07029BFCDB2DCE28D959F2815B16F81798
def secpGy : Nat := 0x483ADA7726A3C4655DA4FBFC0E1108A8FD17B448A68554199C47D08FFB10D4B8

theorem identity_rule_lattice :
    idOnCurve (idOf 0 0) = false ∧ idOnCurve (idOf 1 0) = false ∧ idOnCurve (idOf 0 1) = false ∧
    idOnCurve (idOf (secpP - 1) 0) = false ∧ idOnCurve (idOf (secpP - 1) 1) = false ∧ idOnCurve (idOf secpP secpP) = false ∧
    idOnCurve (idOf secpGx (secpGy + 1)) = false ∧ idOnCurve (idOf secpGx secpGx) = false ∧ idOnCurve [] = false ∧
    idOnCurve (idOf secpGx secpGy) = true ∧ idOnCurve (idOf secpGx (secpP - secpGy)) = true := by
  decide

/-- consequence: with the curve rule as the validation predicate the responder answers the order-two identity (1,0)
    with `bad remoteID`, whatever ECDH and recovery would return. -/
theorem responder_rejects_order_two_identity (P : AuthPrims) (hP : P.validID = idOnCurve) (sig nonce : Bytes) :
    handleAuthMsg P { sig := sig, pub := idOf 1 0, nonce := nonce } = .err .badRemoteID :=
  (responder_identity_validated P { sig := sig, pub := idOf 1 0, nonce := nonce }).2
    (by rw [hP]; exact identity_rule_lattice.2.1) P rfl

set_option maxRecDepth 100000 in
/-- non-vacuity: a responder run that does derive secrets (generator as the claimed identity). -/
example : (handleAuthMsg { validID := idOnCurve, ecdh := fun _ => some (List.replicate 32 1), recover := fun _ _ => some [4] }
    { sig := [], pub := idOf secpGx secpGy, nonce := List.replicate 32 2 }).isOk = true := by decide

/-- `readHandshakeMsg` (both packets): for every input, with ECIES plaintexts of the length ECIES produces, the reader
    never panics (the `decodePlain` slices and the prefix slices stay in range) and never grows its buffer beyond
    65535 + 2 bytes. -/
theorem handshake_total_and_bounded (P : HsPrims) (isAuth : Bool) (conn : Bytes)
    (hdec : ∀ c s m, P.decrypt c s = some m → m.length + eciesOverhead = c.length) :
    let plainSize := if isAuth then 307 else 210
    (readHandshakeMsg P isAuth plainSize conn).2.isPanic = false ∧
    ∀ a ∈ (readHandshakeMsg P isAuth plainSize conn).1, a ≤ 65535 + 2 := by
  intro plainSize
  have hps : plainSize = 307 ∨ plainSize = 210 := by cases isAuth <;> simp [plainSize]
  have hps2 : isAuth = true → plainSize = 307 := by intro h; simp [plainSize, h]
  unfold readHandshakeMsg
  cases hrf : readFull conn plainSize with
  | err e => exact ⟨rfl, by simp; omega⟩
  | panic p => simp [readFull] at hrf; split at hrf <;> cases hrf
  | ok r =>
    obtain ⟨buf, conn1⟩ := r
    have hbl : buf.length = plainSize := by
      unfold readFull at hrf
      split at hrf
      · cases hrf
      · injection hrf with hrf; injection hrf with hb _; rw [← hb]; simp; omega
    simp only
    cases hd1 : P.decrypt buf [] with
    | some dec =>
      have hl := hdec _ _ _ hd1
      simp only [eciesOverhead] at hl
      simp only
      refine ⟨?_, by simp; omega⟩
      cases isAuth with
      | true =>
        have := hps2 rfl
        have hdl : dec.length = 194 := by omega
        have h1 : min 65 dec.length = 65 := by omega
        have h2 : min 64 (dec.length - (65 + 32)) = 64 := by omega
        simp only [if_true, decodePlainAuth, sliceFrom, h1]
        simp [hdl, Out.isPanic]
      | false =>
        simp only [Bool.false_eq_true, if_false, decodePlainResp, sliceFrom]
        have : min 64 dec.length ≤ dec.length := Nat.min_le_right _ _
        simp [this, Out.isPanic]
    | none =>
      simp only
      rw [sliceTo_ok _ _ (by omega)]
      simp only
      have hsz : beNat (List.take 2 buf) < 65536 := by
        have := beNat_lt (List.take 2 buf)
        have hl2 : (List.take 2 buf).length = 2 := by simp; omega
        rw [hl2] at this; simpa using this
      split
      · exact ⟨rfl, by simp; omega⟩
      · rename_i hge
        have hex : (beNat (List.take 2 buf) + 65536 - plainSize % 65536 + 2) % 65536 + plainSize = beNat (List.take 2 buf) + 2 := by
          rcases hps with h | h <;> rw [h] at hge ⊢ <;> omega
        cases hrf2 : readFull conn1 ((beNat (List.take 2 buf) + 65536 - plainSize % 65536 + 2) % 65536) with
        | err e => exact ⟨rfl, by simp; omega⟩
        | panic p => simp [readFull] at hrf2; split at hrf2 <;> cases hrf2
        | ok r2 =>
          obtain ⟨more, _⟩ := r2
          simp only
          rw [sliceFrom_ok _ _ (by simp; omega)]
          simp only
          cases P.decrypt (List.drop 2 (buf ++ more)) (List.take 2 buf) with
          | none => exact ⟨rfl, by simp; omega⟩
          | some dec =>
            simp only
            refine ⟨?_, by simp; omega⟩
            split <;> rfl

/-- non-vacuity: an ECIES stand-in whose plaintext is the ciphertext without its 113 bytes of overhead. -/
def hs0 : HsPrims := { decrypt := fun c _ => if 113 ≤ c.length then some (c.drop 113) else none, decodeEip8 := fun _ => true }
example : ∀ c s m, hs0.decrypt c s = some m → m.length + eciesOverhead = c.length := by
  intro c s m h
  simp only [hs0] at h
  split at h
  · injection h with h; rw [← h]; simp [eciesOverhead]; omega
  · cases h
example : (readHandshakeMsg hs0 true 307 (List.replicate 307 4)).2 = .ok 307 := by decide

end Aqv.Props.C17

/-
  Aqv.Props.C18 — "No RPC endpoint can make the node sign unless explicitly opted in".

  The quantifier of the property is a finite table regenerated from the source on every run (Aqv.Gen.Rpc): every exported
  method and subscription of every service the node registers, with its namespace, the Go method name RegisterName filters on,
  and static reachability to the keystore signing entry points; plus the string constants of isProtectedMethodName and the
  per-transport flag table of RegisterName. The theorems below are therefore re-proved against what the code says now; when
  the code falsifies one, the rows on which `decide` fails are the counterexample (the harness reproduces them on the real node).

  Node kinds: `pow` — aqua.CreateConsensusEngine builds aquahash (chainConfig.Clique == nil: mainnet, testnet, testnet2);
  `clique` — it builds the proof-of-authority engine (testnet3, dev chains), whose block sealing signs with a keystore key.
-/
import Aqv.Gen.Rpc
import Aqv.Lemmas.Rpc
import Aqv.Lemmas.Translated.Rpc
namespace Aqv.Props.C18
open Aqv.Model.Rpc Aqv.Gen.Rpc Aqv.Lemmas.Rpc

/-! ### the generated table against the specification -/

/-- RegisterName gates every transport by exactly the variable designated for it. -/
theorem flag_table_is_designated : ∀ t, flagOf t = some (designated t) := by
  intro t; cases t <;> rfl

/-- `signers` lists exactly the rows of the table that can reach a signing entry point (on some node kind). -/
theorem signers_complete : methods.filter (fun m => m.reachesSign || m.reachesSignPow) = signers := by decide

/-- on a pow node, every method that can reach a keystore signing entry point is a callback (not a subscription) whose
    Go name is in isProtectedMethodName. This is the table fact; it fails exactly on unprotected signing methods. -/
theorem pow_signers_are_protected :
    ∀ m ∈ signers, m.reachesSignPow = true → m.isSub = false ∧ isProtected params m.goName = true := by decide

/-- the methods that reach signing only through the clique engine's block sealing (they start the miner). -/
def cliqueSealStarters : List (String × String) := [("aqua", "getWork"), ("miner", "start"), ("testing", "getBlockTemplate")]

/-- apart from the seal starters, the same holds on a clique node. -/
theorem clique_signers_are_protected :
    ∀ m ∈ signers, m.reachesSign = true → (m.ns, m.name) ∉ cliqueSealStarters →
      m.isSub = false ∧ isProtected params m.goName = true := by decide

/-! ### C18, first sentence -/

/-- **No signing unless opted in** (pow nodes: mainnet and every aquahash network). For every registered method, every module
    white-list configuration, every transport and every environment: if the method is exposed on the transport and can reach a
    keystore signing entry point, the transport was explicitly opted in. -/
theorem no_signing_unless_opted_in :
    ∀ m ∈ methods, ∀ (cfg : Cfg) (t : Transport) (env : Env),
      exposed params .pow cfg env t m = true → signs .pow m = true → optedIn env t = true := by
  intro m hm cfg t env hx hs
  have hmem : m ∈ signers :=
    mem_filter_of _ methods signers signers_complete m hm (by simp only [signs] at hs; simp [hs])
  have ⟨hsub, hprot⟩ := pow_signers_are_protected m hmem hs
  exact optedIn_of_exposed_protected params flag_table_is_designated .pow cfg env t m hx hsub hprot

example : ∃ m ∈ methods, exposed params .pow Cfg.default ⟨false, false, true, false, false⟩ .http m = true ∧ signs .pow m = true :=
  ⟨⟨"aqua", "sign", "Sign", "aquaapi.PublicTransactionPoolAPI", false, true, false, false, true, true⟩, by decide, by decide, by decide⟩

/-- in the default environment no transport of a pow node exposes a method that can reach a signing entry point. -/
theorem default_env_exposes_no_signer :
    ∀ m ∈ methods, ∀ (cfg : Cfg) (t : Transport), exposed params .pow cfg Env.default t m = true → signs .pow m = false := by
  intro m hm cfg t hx
  cases hs : signs .pow m with
  | false => rfl
  | true =>
    have h := no_signing_unless_opted_in m hm cfg t Env.default hx hs
    cases t <;> simp [optedIn, designated, Env.get, Env.default] at h

example : ∃ m ∈ methods, exposed params .pow Cfg.default Env.default .ipc m = true :=
  ⟨⟨"personal", "listAccounts", "ListAccounts", "aquaapi.PrivateAccountAPI", false, false, false, false, false, false⟩, by decide, by decide⟩

/-- FULL STATEMENT over both node kinds (false for the code as written, see `clique_sealing_witness`):
      ∀ k, ∀ m ∈ methods, ∀ cfg t env, exposed params k cfg env t m → signs k m → optedIn env t
    What is provable: the same with the three miner-starting methods excluded on clique nodes. What is missing: on a node
    whose engine is clique, starting the miner (miner_start, aqua_getWork, testing_getBlockTemplate) makes the sealing loop sign
    block headers with the unlocked aquabase key through KeyStore.SignHashAllowed, and none of the three is gated. -/
theorem no_signing_unless_opted_in_anykind_partial :
    ∀ (k : Kind), ∀ m ∈ methods, (m.ns, m.name) ∉ cliqueSealStarters → ∀ (cfg : Cfg) (t : Transport) (env : Env),
      exposed params k cfg env t m = true → signs k m = true → optedIn env t = true := by
  intro k m hm hex cfg t env hx hs
  cases k with
  | pow => exact no_signing_unless_opted_in m hm cfg t env hx hs
  | clique =>
    have hmem : m ∈ signers :=
      mem_filter_of _ methods signers signers_complete m hm (by simp only [signs] at hs; simp [hs])
    have ⟨hsub, hprot⟩ := clique_signers_are_protected m hmem hs hex
    exact optedIn_of_exposed_protected params flag_table_is_designated .clique cfg env t m hx hsub hprot

example : ∃ m ∈ methods, (m.ns, m.name) ∉ cliqueSealStarters ∧
    exposed params .clique Cfg.default ⟨false, true, false, false, false⟩ .ipc m = true ∧ signs .clique m = true :=
  ⟨⟨"personal", "sign", "Sign", "aquaapi.PrivateAccountAPI", false, false, false, false, true, true⟩, by decide, by decide, by decide, by decide⟩

/-- the negation of the full statement on a concrete witness: on a clique node, in the default environment and with the default
    module configuration, the HTTP endpoint exposes the public method aqua_getWork, which reaches KeyStore.SignHashAllowed
    (confirmed on the real node by the harness: the chain head advances to a block sealed by the keystore account). -/
theorem clique_sealing_witness :
    ∃ m ∈ methods, exposed params .clique Cfg.default Env.default .http m = true ∧ signs .clique m = true ∧
      optedIn Env.default .http = false :=
  ⟨⟨"aqua", "getWork", "GetWork", "aqua.PublicMinerAPI", false, true, false, false, true, false⟩, by decide, by decide, by decide, by decide⟩

/-! ### how the variables are read (sense.EnvBool): only an opting-in value opts in -/

/-- tie: the model of sense.EnvBool agrees with the real function on the regenerated value lattice (unset, empty, every
    spelling in several cases, unparsable values) — dumped from the compiled package on every run. -/
theorem envbool_table_agrees : ∀ r ∈ envBoolTable, envBool r.1 = r.2 := by decide +kernel

/-- hence the real function gives the documented reading on every row of the lattice. -/
theorem envbool_table_is_documented : ∀ r ∈ envBoolTable, envOn r.1 = r.2 := by
  intro r hr
  rw [← envBool_eq_envOn]; exact envbool_table_agrees r hr

example : (some "", false) ∈ envBoolTable ∧ (some " 1", true) ∈ envBoolTable ∧ (none, false) ∈ envBoolTable := by decide

/-- **A variable that is present but empty does not opt in** (`export UNSAFE_ALLOW_SIGN_IPC=`, an empty `.env` line, an
    undefined `${VAR}` substitution): neither for the documented reading nor for the model of EnvBool, on any transport. -/
theorem empty_value_is_off :
    envOn (some "") = false ∧ envBool (some "") = false ∧
    ∀ (r : RawEnv) (t : Transport), r.get (designated t) = some "" → optedInRaw r t = false ∧ optedIn r.read t = false := by
  refine ⟨by decide +kernel, by decide +kernel, ?_⟩
  intro r t h
  have h1 : optedInRaw r t = false := by simp only [optedInRaw, h]; decide +kernel
  exact ⟨h1, by rw [optedIn_read, h1]⟩

example : ∃ r : RawEnv, r.get (designated .ipc) = some "" := ⟨{ RawEnv.unset with ipc := some "" }, rfl⟩

/-- falsy spellings and an unset variable do not opt in either; any other non-empty value does (documented reading). -/
theorem only_opting_values_opt_in (v : Option String) :
    envOn v = true ↔ ∃ x, v = some x ∧ x.toLower ≠ "" ∧ x.toLower ∉ falsyWords := by
  cases v with
  | none => simp [envOn]
  | some x => simp [envOn]

/-- **No signing unless opted in, on the raw process environment** (pow nodes): whatever the five variables contain, a
    transport exposes a method that can reach a signing entry point only if its designated variable carries an opting-in value. -/
theorem no_signing_unless_opted_in_raw :
    ∀ m ∈ methods, ∀ (cfg : Cfg) (t : Transport) (r : RawEnv),
      exposed params .pow cfg r.read t m = true → signs .pow m = true → optedInRaw r t = true := by
  intro m hm cfg t r hx hs
  rw [← optedIn_read]
  exact no_signing_unless_opted_in m hm cfg t r.read hx hs

example : ∃ m ∈ methods, exposed params .pow Cfg.default ({ RawEnv.unset with http := some "yes" }).read .http m = true ∧ signs .pow m = true :=
  ⟨⟨"aqua", "sign", "Sign", "aquaapi.PublicTransactionPoolAPI", false, true, false, false, true, true⟩, by decide, by decide +kernel, by decide⟩

/-! ### Growth 5: the full statement for every chain configuration, the clique sealing finding being the only exclusion -/

/-- tie: the only config-gated engine is clique, and its guard is the `Clique` field of the chain configuration (T-gen). -/
theorem clique_engine_guard :
    gatedEngines = [("gitlab.com/aquachain/aquachain/consensus/clique.Clique", "params.ChainConfig.Clique != nil")] := by decide

/-- **Every chain configuration without a Clique section** (`chainConfig.Clique == nil`): the full statement, over the raw
    process environment, every module configuration and every transport. -/
theorem no_signing_unless_opted_in_nonclique :
    ∀ (cliqueSet : Bool), cliqueSet = false → ∀ m ∈ methods, ∀ (cfg : Cfg) (t : Transport) (r : RawEnv),
      exposed params (kindOfCfg cliqueSet) cfg r.read t m = true → signs (kindOfCfg cliqueSet) m = true → optedInRaw r t = true := by
  intro c hc m hm cfg t r hx hs
  subst hc
  exact no_signing_unless_opted_in_raw m hm cfg t r hx hs

example : kindOfCfg false = .pow ∧ kindOfCfg true = .clique := by decide

/-- **Any chain configuration**: a method that is exposed and can reach a signing entry point either had its transport opted in,
    or the configuration selects clique and the method is one of the three miner starters (the recorded finding) — nothing else. -/
theorem no_signing_unless_opted_in_anychain :
    ∀ (cliqueSet : Bool), ∀ m ∈ methods, ∀ (cfg : Cfg) (t : Transport) (r : RawEnv),
      exposed params (kindOfCfg cliqueSet) cfg r.read t m = true → signs (kindOfCfg cliqueSet) m = true →
      optedInRaw r t = true ∨ (cliqueSet = true ∧ (m.ns, m.name) ∈ cliqueSealStarters) := by
  intro c m hm cfg t r hx hs
  cases c with
  | false => exact Or.inl (no_signing_unless_opted_in_nonclique false rfl m hm cfg t r hx hs)
  | true =>
    by_cases hex : (m.ns, m.name) ∈ cliqueSealStarters
    · exact Or.inr ⟨rfl, hex⟩
    · left
      rw [← optedIn_read]
      exact no_signing_unless_opted_in_anykind_partial .clique m hm hex cfg t r.read hx hs

example : ∃ m ∈ methods, exposed params (kindOfCfg true) Cfg.default RawEnv.unset.read .http m = true ∧ signs (kindOfCfg true) m = true ∧
    (m.ns, m.name) ∈ cliqueSealStarters :=
  ⟨⟨"aqua", "getWork", "GetWork", "aqua.PublicMinerAPI", false, true, false, false, true, false⟩, by decide, by decide, by decide, by decide⟩

/-- of the chain configurations registered in package params (regenerated: `Clique != nil` per name) exactly testnet3 has a
    Clique section … -/
theorem builtin_clique_networks : (builtinNets.filter (·.2)).map (·.1) = ["testnet3"] := by decide

/-- … so on mainnet, testnet, testnet2 and the dev/test configurations the full statement holds. -/
theorem no_signing_unless_opted_in_builtin_networks :
    ∀ n ∈ builtinNets, n.1 ≠ "testnet3" → ∀ m ∈ methods, ∀ (cfg : Cfg) (t : Transport) (r : RawEnv),
      exposed params (kindOfCfg n.2) cfg r.read t m = true → signs (kindOfCfg n.2) m = true → optedInRaw r t = true := by
  intro n hn hne m hm cfg t r hx hs
  have h : ∀ n ∈ builtinNets, n.1 ≠ "testnet3" → n.2 = false := by decide
  exact no_signing_unless_opted_in_nonclique n.2 (h n hn hne) m hm cfg t r hx hs

example : ("mainnet", false) ∈ builtinNets ∧ ("mainnet", false).1 ≠ "testnet3" := by decide

/-! ### C18, second sentence: opting in is per transport -/

/-- **Opt-in is per transport**: setting (or clearing) the variable designated for transport t' changes nothing about what any
    other transport t exposes — for every method (not only those of the table), node kind and module configuration. -/
theorem opt_in_is_per_transport :
    ∀ (t t' : Transport), t ≠ t' → ∀ (k : Kind) (cfg : Cfg) (env : Env) (b : Bool) (m : Method),
      exposed params k cfg (env.set (designated t') b) t m = exposed params k cfg env t m := by
  intro t t' hne k cfg env b m
  apply exposed_set_other
  rw [show params.flagOf t = flagOf t from rfl, flag_table_is_designated t]
  intro h
  cases t <;> cases t' <;> first | exact absurd rfl hne | (simp [designated] at h)

example : (Transport.http ≠ Transport.ws) := by decide

/-- UNSAFE_RPC_SIGNING, which the doc comment of RegisterName names, is read but never consulted: it enables nothing. -/
theorem global_flag_is_inert :
    ∀ (k : Kind) (cfg : Cfg) (env : Env) (b : Bool) (t : Transport) (m : Method),
      exposed params k cfg (env.set .rpcSigning b) t m = exposed params k cfg env t m := by
  intro k cfg env b t m
  apply exposed_set_other
  rw [show params.flagOf t = flagOf t from rfl, flag_table_is_designated t]
  cases t <;> simp [designated]

/-- opting in for exactly one transport enables signing methods on that transport only (pow nodes). -/
theorem only_the_opted_transport_signs :
    ∀ (t t' : Transport), t' ≠ t → ∀ m ∈ methods, ∀ (cfg : Cfg),
      exposed params .pow cfg (Env.default.set (designated t) true) t' m = true → signs .pow m = false := by
  intro t t' hne m hm cfg hx
  rw [opt_in_is_per_transport t' t hne] at hx
  exact default_env_exposes_no_signer m hm cfg t' hx

example : ∃ m ∈ methods, exposed params .pow Cfg.default (Env.default.set (designated .ipc) true) .ws m = true :=
  ⟨⟨"aqua", "accounts", "Accounts", "aquaapi.PublicAccountAPI", false, true, false, false, false, false⟩, by decide, by decide⟩

/-- and it does enable them there: an opted-in transport registers the protected methods of every module it serves. -/
theorem opt_in_enables :
    ∀ (k : Kind) (cfg : Cfg) (env : Env) (t : Transport) (m : Method),
      optedIn env t = true → m.builtin = false → moduleAllowed cfg t m = true → present k m = true →
      exposed params k cfg env t m = true := by
  intro k cfg env t m ho hb hm hp
  exact exposed_of_optedIn params flag_table_is_designated k cfg env t m ho hb hm hp

example : exposed params .pow Cfg.default ⟨false, true, false, false, false⟩ .ipc
    ⟨"personal", "sign", "Sign", "aquaapi.PrivateAccountAPI", false, false, false, false, true, true⟩ = true := by decide

/-! ### tie by translation (T-gen `translated`, DESIGN 2.2 mini-translator): rpc.isProtectedMethodName -/

/-- the go/ssa body of rpc.isProtectedMethodName, translated to Lean on every run (`Aqv.Gen.Translated`, regenerated from the
    tree under test), IS the protected-name test `isProtected params` that every theorem above is stated on.  (The string
    constants in `params` are extracted independently, from the syntax, by the rpcsign extractor: the two must agree.  The proof
    compares the two sets of names, so reordering the disjuncts or rewriting them as a `switch` keeps it provable.) -/
theorem isProtectedMethodName_code_is_model :
    Aqv.Gen.Translated.isProtectedMethodName = isProtected params :=
  Aqv.Lemmas.Translated.isProtectedMethodName_translated_eq

example : Aqv.Gen.Translated.isProtectedMethodName "Sign" = true ∧
    Aqv.Gen.Translated.isProtectedMethodName "Accounts" = false := by decide

/-- … so the table fact transfers to the code: on a pow node the translated isProtectedMethodName answers `true` for the Go
    name of every method that can reach a keystore signing entry point; and the four names protected at the pinned revision
    (a hand-written list, not regenerated) are still protected by the code as it is now (protecting more is allowed). -/
theorem pow_signers_are_protected_by_code :
    (∀ m ∈ signers, m.reachesSignPow = true → Aqv.Gen.Translated.isProtectedMethodName m.goName = true) ∧
    (∀ n ∈ Aqv.Lemmas.Translated.protectedNamesRef, Aqv.Gen.Translated.isProtectedMethodName n = true) := by
  refine ⟨fun m hm hs => ?_, Aqv.Lemmas.Translated.isProtectedMethodName_translated_ref⟩
  rw [isProtectedMethodName_code_is_model]
  exact (pow_signers_are_protected m hm hs).2

example : ∃ m ∈ signers, m.reachesSignPow = true ∧ m.goName ∈ Aqv.Lemmas.Translated.protectedNamesRef :=
  ⟨⟨"aqua", "sign", "Sign", "aquaapi.PublicTransactionPoolAPI", false, true, false, false, true, true⟩, by decide, by decide, by decide⟩

end Aqv.Props.C18

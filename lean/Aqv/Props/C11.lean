/-
  C11 — RLP is a canonical, total and bounded codec.  Property theorems only (helpers live in Aqv/Lemmas).
  Model: Aqv.Model.Rlp (enc = rlp/encode.go, dec = the strict rules of rlp/decode.go and rlp/raw.go) and
  Aqv.Model.RlpTyped (decTy/encTy = the typed decoders and writers that makeDecoder/makeWriter select per Go type),
  Aqv.Model.RlpStream (the Go-shaped `rlp.Stream` state machine: Kind/readKind/readUint/readFull/readByte/willRead/
  Bytes/List/ListEnd/decodeInterface with the stack of list extents, the input budget and a ghost allocation counter).
-/
import Aqv.Lemmas.RlpCanon
import Aqv.Lemmas.RlpTyped
import Aqv.Lemmas.RlpStream
import Aqv.Lemmas.RlpRaw
import Aqv.Lemmas.RlpRawSpec
import Aqv.Lemmas.RlpStreamTyped
import Aqv.Lemmas.Translated.Rlp
namespace Aqv.Props.C11
open Aqv Aqv.Rlp

/-- Round trip: decoding the encoding of any item (sizes below 2^64) returns the item. -/
theorem dec_enc (it : Item) (h : it.sizeOk = true) : dec (enc it) = .ok it := by
  unfold dec
  have hw := weight_le it
  have := decItem_enc it h (3 * (enc it).length + 1) [] (by omega)
  rw [List.append_nil] at this
  rw [this]

/-- Canonicity: every accepted byte string is exactly the encoding of the value it decodes to. -/
theorem enc_dec (bs : Bytes) (it : Item) (h : dec bs = .ok it) : enc it = bs := by
  unfold dec at h
  split at h
  · rename_i it' hd
    simp only [Except.ok.injEq] at h
    subst h
    have := ((dec_canon _).1 _ _ _ hd).1
    rw [List.append_nil] at this
    exact this.symm
  · simp at h
  · simp at h

/-- One accepted encoding per value: two accepted byte strings that decode to the same item are equal. -/
theorem one_encoding_per_value (b₁ b₂ : Bytes) (it : Item) (h₁ : dec b₁ = .ok it) (h₂ : dec b₂ = .ok it) :
    b₁ = b₂ := by
  rw [← enc_dec b₁ it h₁, ← enc_dec b₂ it h₂]

/-- The encoder is injective on well-sized items (distinct values never share an encoding). -/
theorem enc_injective (a b : Item) (ha : a.sizeOk = true) (hb : b.sizeOk = true) (h : enc a = enc b) : a = b := by
  have h1 := dec_enc a ha
  have h2 := dec_enc b hb
  rw [h] at h1
  rw [h1] at h2
  simpa using h2

/-- Totality: decoding any byte string returns a value or an error — never the out-of-fuel outcome
    (fuel 3·len+1 always suffices), i.e. the recursion depth/allocation is bounded by the input length. -/
theorem decoded_item_wellsized (bs : Bytes) (it : Item) (h : dec bs = .ok it) : it.sizeOk = true := by
  unfold dec at h
  split at h
  · rename_i it' hd
    simp only [Except.ok.injEq] at h
    subst h
    exact ((dec_canon _).1 _ _ _ hd).2
  · simp at h
  · simp at h

/-- Bounded: the decoded item re-encodes to exactly the input, so its total content length is ≤ the input's. -/
theorem decoded_size_le_input (bs : Bytes) (it : Item) (h : dec bs = .ok it) : (enc it).length = bs.length := by
  rw [enc_dec bs it h]

-- non-vacuity: a nested item with a 56-byte string, an empty list and a byte ≥ 0x80 meets `sizeOk` and round-trips.
example : (Item.list [.str [0x80], .list [], .str (List.replicate 56 7)]).sizeOk = true := by decide
example : dec (enc (Item.list [.str [0x80], .list [], .str [1, 2, 3]])) =
    .ok (Item.list [.str [0x80], .list [], .str [1, 2, 3]]) := by rfl
-- non-canonical inputs are rejected: 0x8105 (single byte < 0x80 wrapped), 0xb801.. (long form for short size)
example : dec [0x81, 0x05] = .error .canonSize := by rfl
example : dec [0xb8, 0x01, 0xff] = .error .canonSize := by rfl
example : dec [0xc2, 0x81, 0x05] = .error .canonSize := by rfl

/-- Totality of the untyped decoder: `dec` never reports the out-of-fuel outcome — fuel `3·len+1` always suffices,
    so every byte string is either rejected with a proper error or decoded. -/
theorem dec_total (bs : Bytes) : dec bs ≠ .error .fuel := dec_ne_fuel bs

example : dec [0xc1] = .error .tooLarge := by rfl

/-! ## Typed layer (Aqv.Model.RlpTyped): the decoders Go selects per target type -/

/-- Typed round trip: for every supported type and every well-formed value of it (`WFVal`: uint fits its 8..64-bit
    width, sizes < 2^64, `[n]byte` has n bytes, `[n]T` has n elements, one value per struct field, plain pointers
    non-nil, an `rlp:"nil"` pointer is nil or points to something that does not encode to an empty value, a RawValue
    is exactly one header+content, interface items well-sized) decoding its encoding — in front of any further
    input — returns the value and leaves exactly that further input. -/
theorem typed_dec_enc (ty : Ty) (v : Val) (h : WFVal ty v = true) (rest : Bytes) :
    decTy ty (encTy ty v ++ rest) = .ok (v, rest) :=
  decTy_encTy ty v h rest

/-- … and the top-level corollary for `DecodeBytes`. -/
theorem typed_dec_enc_top (ty : Ty) (v : Val) (h : WFVal ty v = true) : decTop ty (encTy ty v) = .ok v := by
  unfold decTop
  have := decTy_encTy ty v h []
  rw [List.append_nil] at this
  rw [this]

/-- Typed canonicity: for every canonical type (`Ty.canon`: all of the universe INCLUDING `raw`, except `rlp:"nil"`
    pointers to pointers / to RawValue, see `typed_nil_ptr_ptr_two_encodings_witness`), whatever the typed decoder
    accepts is exactly the encoder's output for the value it returns, followed by the unread rest. -/
theorem typed_enc_dec (ty : Ty) (hc : ty.canon = true) (bs : Bytes) (v : Val) (rest : Bytes)
    (h : decTy ty bs = .ok (v, rest)) : bs = encTy ty v ++ rest :=
  (decTy_canon ty hc bs v rest h).1

/-- … the value the decoder returns is always well-formed (so it round-trips again). -/
theorem typed_decoded_wf (ty : Ty) (hc : ty.canon = true) (bs : Bytes) (v : Val) (rest : Bytes)
    (h : decTy ty bs = .ok (v, rest)) : WFVal ty v = true :=
  (decTy_canon ty hc bs v rest h).2

/-- … and the top-level corollary: `DecodeBytes` accepts only the encoding of the value it returns. -/
theorem typed_enc_dec_top (ty : Ty) (hc : ty.canon = true) (bs : Bytes) (v : Val) (h : decTop ty bs = .ok v) :
    encTy ty v = bs := by
  unfold decTop at h
  split at h
  · rename_i v' hd
    simp only [Except.ok.injEq] at h
    subst h
    have := (decTy_canon ty hc bs _ _ hd).1
    rw [List.append_nil] at this
    exact this.symm
  · simp at h
  · simp at h

/-- One accepted encoding per typed value (what block and transaction hashes rely on). -/
theorem typed_one_encoding_per_value (ty : Ty) (hc : ty.canon = true) (b₁ b₂ : Bytes) (v : Val)
    (h₁ : decTop ty b₁ = .ok v) (h₂ : decTop ty b₂ = .ok v) : b₁ = b₂ := by
  rw [← typed_enc_dec_top ty hc b₁ v h₁, ← typed_enc_dec_top ty hc b₂ v h₂]

/-- The typed encoder is injective on well-formed values of one type. -/
theorem typed_enc_injective (ty : Ty) (a b : Val) (ha : WFVal ty a = true) (hb : WFVal ty b = true)
    (h : encTy ty a = encTy ty b) : a = b := by
  have h1 := typed_dec_enc_top ty a ha
  have h2 := typed_dec_enc_top ty b hb
  rw [h] at h1
  rw [h1] at h2
  simpa using h2

/-- Typed totality: decoding any byte string into any type returns a value or a proper error, never the
    out-of-fuel outcome.  `decTy` recurses structurally on the type; its only input-driven loop (slice elements) is
    fuelled with the payload length and `interface{}` targets with `3·len+1` — both always suffice. -/
theorem typed_decode_total (ty : Ty) (bs : Bytes) : decTy ty bs ≠ .error (.rlp .fuel) :=
  decTy_ne_fuel ty bs

theorem typed_decode_total_top (ty : Ty) (bs : Bytes) : decTop ty bs ≠ .error (.rlp .fuel) := by
  unfold decTop
  have := decTy_ne_fuel ty bs
  split
  · simp
  · simp
  · rename_i e he; intro h; simp only [Except.error.injEq] at h; subst h; exact this he

/-- Bounded/progress: a successful typed decode consumes at least one byte and never more than the input. -/
theorem typed_decode_consumes (ty : Ty) (bs : Bytes) (v : Val) (rest : Bytes) (h : decTy ty bs = .ok (v, rest)) :
    rest.length < bs.length :=
  decTy_consumes ty bs v rest h

/-- Bounded: the decoded typed value re-encodes to exactly the input, so its content is no larger than the input. -/
theorem typed_decoded_size_eq_input (ty : Ty) (hc : ty.canon = true) (bs : Bytes) (v : Val) (h : decTop ty bs = .ok v) :
    (encTy ty v).length = bs.length := by
  rw [typed_enc_dec_top ty hc bs v h]

/-- The item view of typed values (what the harness renders and the driver's Spec judgement re-encodes): for every
    type and value the item `toG ty v` encodes to exactly the typed encoding — typed values are items, and typed
    canonicity is item canonicity seen through `toG`. -/
theorem typed_item_view (ty : Ty) (v : Val) : (toG ty v).enc = encTy ty v := toG_enc ty v

/-- … hence a typed decode is canonical at the item level: the item view of the decoded value re-encodes to the input. -/
theorem typed_item_view_canonical (ty : Ty) (hc : ty.canon = true) (bs : Bytes) (v : Val) (h : decTop ty bs = .ok v) :
    (toG ty v).enc = bs := by
  rw [toG_enc, typed_enc_dec_top ty hc bs v h]

/-- Why `Ty.canon` excludes `rlp:"nil"` pointers to pointers: Go's makeOptionalPtrDecoder keeps `strict = false`
    for them, so both empty values decode to nil — two accepted encodings of one value (no type in /repo has this shape). -/
theorem typed_nil_ptr_ptr_two_encodings_witness :
    decTop (.struct [.ptrNil (.ptr (.uint 64))]) [0xc1, 0x80] = .ok (.list [.pnil]) ∧
    decTop (.struct [.ptrNil (.ptr (.uint 64))]) [0xc1, 0xc0] = .ok (.list [.pnil]) ∧
    (Ty.struct [.ptrNil (.ptr (.uint 64))]).canon = false := by
  refine ⟨by rfl, by rfl, by rfl⟩

/-! ### non-vacuity: the consensus shapes -/

/-- the shape of `types.txdata`. -/
def txTy : Ty := .struct [.uint 64, .big, .uint 64, .ptrNil (.bytesN 20), .big, .bytes, .big, .big, .big]
/-- the shape of `types.Header` (the `rlp:"-"` Version field is absent). -/
def headerTy : Ty :=
  .struct [.bytesN 32, .bytesN 32, .bytesN 20, .bytesN 32, .bytesN 32, .bytesN 32, .bytesN 256, .big, .big,
           .uint 64, .uint 64, .big, .bytes, .bytesN 32, .bytesN 8]
/-- the shape of `types.extblock`. -/
def blockTy : Ty := .struct [.ptr headerTy, .list (.ptr txTy), .list (.ptr headerTy)]

def txCreate : Val :=
  .list [.num 1, .num 1000000000, .num 21000, .pnil, .num 5, .bytes [1, 2, 3], .num 27, .num 77777, .num 0]
def txCall : Val :=
  .list [.num 0, .num 300, .num 0xffffffffffffffff, .psome (.bytes (List.replicate 20 0)), .num 0, .bytes [],
         .num 28, .num 1, .num 2]
def hdrVal : Val :=
  .list [.bytes (List.replicate 32 1), .bytes (List.replicate 32 2), .bytes (List.replicate 20 0),
         .bytes (List.replicate 32 4), .bytes (List.replicate 32 5), .bytes (List.replicate 32 6),
         .bytes (List.replicate 256 0), .num 131072, .num 7, .num 4712388, .num 0, .num 1537000000,
         .bytes [0x61, 0x71], .bytes (List.replicate 32 0), .bytes [0, 0, 0, 0, 0, 0, 0, 42]]

example : txTy.canon = true ∧ headerTy.canon = true ∧ blockTy.canon = true := by decide
example : WFVal txTy txCreate = true := by decide
example : WFVal txTy txCall = true := by decide
set_option maxRecDepth 8000 in
example : WFVal headerTy hdrVal = true := by rfl
set_option maxRecDepth 8000 in
example : WFVal blockTy (.list [.psome hdrVal, .list [.psome txCreate, .psome txCall], .list []]) = true := by rfl
example : decTop txTy (encTy txTy txCreate) = .ok txCreate := by rfl
example : decTop txTy (encTy txTy txCall) = .ok txCall := by rfl
example : (toG txTy txCreate).render = "[s01,s3b9aca00,s5208,s,s05,s010203,s1b,s012fd1,s]" := by decide
set_option maxRecDepth 8000 in
example : decTop headerTy (encTy headerTy hdrVal) = .ok hdrVal := by rfl
-- two distinct well-formed transactions (hypotheses of `typed_enc_injective`) with distinct encodings
example : encTy txTy txCreate ≠ encTy txTy txCall := by decide
-- the recipient of a transaction: only 0x80 is nil (fix 7811107); 0xC0 is the wrong kind of empty value
example : decTop txTy [0xc9, 0x80, 0x80, 0x80, 0x80, 0x80, 0x80, 0x80, 0x80, 0x80] =
    .ok (.list [.num 0, .num 0, .num 0, .pnil, .num 0, .bytes [], .num 0, .num 0, .num 0]) := by rfl
example : decTop txTy [0xc9, 0x80, 0x80, 0x80, 0xc0, 0x80, 0x80, 0x80, 0x80, 0x80] = .error .wrongEmpty := by rfl
-- integers: leading zero / single zero byte / wrapped small byte / overflow are rejected
example : decTop .big [0x82, 0x00, 0x01] = .error .canonInt := by rfl
example : decTop (.uint 64) [0x00] = .error .canonInt := by rfl
example : decTop (.uint 64) [0x81, 0x05] = .error (.rlp .canonSize) := by rfl
example : decTop (.uint 8) [0x82, 0x01, 0x00] = .error .overflow := by rfl
example : decTop .bool [0x02] = .error .badBool := by rfl
-- [1]byte takes a single byte as its value, including 0x00 (fix 613896f); [3]uint16 needs exactly three elements
example : decTop (.list (.bytesN 1)) [0xc2, 0x00, 0x01] = .ok (.list [.bytes [0], .bytes [1]]) := by rfl
example : decTop (.arr 3 (.uint 16)) [0xc2, 0x01, 0x02] = .error .tooFew := by rfl
example : decTop (.arr 3 (.uint 16)) [0xc4, 0x01, 0x02, 0x03, 0x04] = .error .tooMany := by rfl
-- RawValue: the inner content is not validated (0x8105 stays as it is), the header is
example : decTop (.struct [.raw]) [0xc2, 0x81, 0x05] = .ok (.list [.bytes [0x81, 0x05]]) := by rfl
example : decTop (.struct [.raw]) [0xc2, 0xb8, 0x00] = .error (.rlp .canonSize) := by rfl
-- tail: the last field swallows the remaining elements
example : decTop (.structTail [.uint 8] (.uint 16)) [0xc3, 0x01, 0x02, 0x03] =
    .ok (.tail [.num 1] [.num 2, .num 3]) := by rfl

/-! ## The Go-shaped Stream machine (Aqv.Model.RlpStream) refines the strict decoder -/

/-- `stream_refines` (DecodeBytes): for every byte string, decoding into `interface{}` through the Stream machine
    with input limit = len (`DecodeBytes`: NewStream(bytes.NewReader(b), len(b)), Decode, then `r.Len() > 0` is
    ErrMoreThanOneValue) accepts exactly what the strict decoder `dec` accepts, with the same item. -/
theorem stream_refines (bs : Bytes) (it : Item) :
    (RlpStream.decodeBytes bs).1 = .ok it ↔ dec bs = .ok it := by
  obtain ⟨hok, herr⟩ := RlpStream.first_decode bs
  unfold RlpStream.decodeBytes dec
  cases hd : decItem (3 * bs.length + 1) bs with
  | ok p =>
    obtain ⟨it', rest⟩ := p
    obtain ⟨s', hdi, _, _, _, _, hinp, _⟩ := hok it' rest hd
    rw [hdi]
    simp only [hinp]
    cases rest with
    | nil => simp
    | cons b t => simp
  | error e =>
    obtain ⟨e', s', hdi, _, _⟩ := herr e hd
    rw [hdi]
    simp

/-- … same accept/reject: the machine rejects exactly the byte strings `dec` rejects. -/
theorem stream_refines_reject (bs : Bytes) :
    (∃ e, (RlpStream.decodeBytes bs).1 = .error e) ↔ (∃ e, dec bs = .error e) := by
  constructor
  · rintro ⟨e, he⟩
    cases hd : dec bs with
    | ok it => rw [(stream_refines bs it).2 hd] at he; simp at he
    | error e' => exact ⟨e', rfl⟩
  · rintro ⟨e, he⟩
    cases hm : (RlpStream.decodeBytes bs).1 with
    | ok it => rw [(stream_refines bs it).1 hm] at he; simp at he
    | error e' => exact ⟨e', rfl⟩

/-- … the ErrMoreThanOneValue handling of DecodeBytes: the encoding of a value followed by more input is reported as
    exactly that error (and the empty input as io.EOF, see the examples below). -/
theorem stream_more_than_one_value (it : Item) (hs : it.sizeOk = true) (rest : Bytes) (hne : rest ≠ []) :
    (RlpStream.decodeBytes (enc it ++ rest)).1 = .error .moreThanOneValue := by
  obtain ⟨hok, _⟩ := RlpStream.first_decode (enc it ++ rest)
  have hw := weight_le it
  have hd := decItem_enc it hs (3 * (enc it ++ rest).length + 1) rest (by simp only [List.length_append]; omega)
  obtain ⟨s', hdi, _, _, _, _, hinp, _⟩ := hok it rest hd
  unfold RlpStream.decodeBytes
  rw [hdi]
  cases rest with
  | nil => exact absurd rfl hne
  | cons b t => simp [hinp]

/-- `stream_refines` for the explicit Stream entry point: `s := NewStream(r, len)`, `s.Decode(&v)`, and a second
    `s.Decode(&w)` that must return io.EOF — accepts exactly what `dec` accepts, with the same item. -/
theorem stream_refines_stream (bs : Bytes) (it : Item) :
    (RlpStream.decodeStream bs).1 = .ok it ↔ dec bs = .ok it := by
  obtain ⟨hok, herr⟩ := RlpStream.first_decode bs
  unfold RlpStream.decodeStream dec
  cases hd : decItem (3 * bs.length + 1) bs with
  | ok p =>
    obtain ⟨it', rest⟩ := p
    obtain ⟨s', hdi, hr', hk', hst', _, hinp, hal⟩ := hok it' rest hd
    have hn : s'.inp.length ≤ bs.length := by rw [hinp]; omega
    obtain ⟨h2e, h2n⟩ := RlpStream.second_decode bs.length s' hr' hk' hst' hn
    rw [hdi]
    cases rest with
    | nil =>
      obtain ⟨s'', hd2, _⟩ := h2e hinp
      simp [hd2]
    | cons b t =>
      obtain ⟨r, s'', hd2, hne, _, _⟩ := h2n (by rw [hinp]; simp)
      simp only [hd2]
      cases r with
      | ok x => simp
      | error e =>
        have : e ≠ .eof := fun hc => hne (by rw [hc])
        cases e <;> simp_all
  | error e =>
    obtain ⟨e', s', hdi, _, _⟩ := herr e hd
    rw [hdi]
    simp

/-- `alloc_bound`: for length-limited input (both entry points set limit = len) the ghost counter — the SUM over the
    whole run of the sizes of all input-dependent byte buffers the Stream allocates (`make([]byte, size)` in Bytes,
    the one-byte literal for a single byte) — never exceeds the input length, for accepted and rejected inputs alike.
    The counter only grows, so its final value bounds every intermediate value and every single allocation.
    (Why it holds: `Kind` has checked `size` against the rest of the innermost list extent, and the invariant `Ready`
    keeps that extent within the unread input, so each buffer is paid for by input bytes that are then consumed.)
    Not counted: the fixed 8-byte `uintbuf` of Reset and the `[]interface{}` element slices of decodeSliceElems. -/
theorem alloc_bound (bs : Bytes) :
    (RlpStream.decodeBytes bs).2.alloc ≤ bs.length ∧ (RlpStream.decodeStream bs).2.alloc ≤ bs.length := by
  obtain ⟨hok, herr⟩ := RlpStream.first_decode bs
  unfold RlpStream.decodeBytes RlpStream.decodeStream
  cases hd : decItem (3 * bs.length + 1) bs with
  | ok p =>
    obtain ⟨it', rest⟩ := p
    obtain ⟨s', hdi, hr', hk', hst', _, hinp, hal⟩ := hok it' rest hd
    have hn : s'.inp.length ≤ bs.length := by rw [hinp]; omega
    obtain ⟨h2e, h2n⟩ := RlpStream.second_decode bs.length s' hr' hk' hst' hn
    rw [hdi]
    constructor
    · simp only; split <;> (simp only; omega)
    · cases rest with
      | nil =>
        obtain ⟨s'', hd2, hal2⟩ := h2e hinp
        simp only [hd2, hal2]; omega
      | cons b t =>
        obtain ⟨r, s'', hd2, _, _, hal2⟩ := h2n (by rw [hinp]; simp)
        have hb : s''.alloc ≤ bs.length := by rw [hinp] at hal2; omega
        simp only [hd2]
        cases r with
        | ok x => exact hb
        | error e => cases e <;> exact hb
  | error e =>
    obtain ⟨e', s', hdi, _, hal⟩ := herr e hd
    rw [hdi]
    exact ⟨hal, hal⟩

/-- `stream_total`: neither entry point of the machine ever reports the out-of-fuel outcome (the model has no panic
    outcome at all: every Go panic site of this path — slice bounds in readFull, `make` with an unchecked size — is
    guarded by `willRead`/`Kind`, which is what `Ready` and `alloc_bound` express). -/
theorem stream_total (bs : Bytes) :
    (RlpStream.decodeBytes bs).1 ≠ .error .fuel ∧ (RlpStream.decodeStream bs).1 ≠ .error .fuel := by
  obtain ⟨hok, herr⟩ := RlpStream.first_decode bs
  unfold RlpStream.decodeBytes RlpStream.decodeStream
  cases hd : decItem (3 * bs.length + 1) bs with
  | ok p =>
    obtain ⟨it', rest⟩ := p
    obtain ⟨s', hdi, hr', hk', hst', _, hinp, hal⟩ := hok it' rest hd
    have hn : s'.inp.length ≤ bs.length := by rw [hinp]; omega
    obtain ⟨h2e, h2n⟩ := RlpStream.second_decode bs.length s' hr' hk' hst' hn
    rw [hdi]
    constructor
    · simp only; split <;> simp
    · cases rest with
      | nil =>
        obtain ⟨s'', hd2, _⟩ := h2e hinp
        simp [hd2]
      | cons b t =>
        obtain ⟨r, s'', hd2, _, hnf, _⟩ := h2n (by rw [hinp]; simp)
        simp only [hd2]
        cases r with
        | ok x => simp
        | error e =>
          have : e ≠ .fuel := fun hc => hnf (by rw [hc])
          cases e <;> simp_all
  | error e =>
    obtain ⟨e', s', hdi, hnf, _⟩ := herr e hd
    rw [hdi]
    exact ⟨by simpa using hnf, by simpa using hnf⟩

/-- machine invariant at the end of an accepted decode: the stream is re-armed, no list is open, and the budget is
    exactly the unread input (`Ready`: limited, `remaining = len(unread)`, innermost extent `pos ≤ size` within budget). -/
theorem stream_invariant (bs : Bytes) (it : Item) (rest : Bytes)
    (h : decItem (3 * bs.length + 1) bs = .ok (it, rest)) :
    ∃ s', RlpStream.decodeInterface (RlpStream.fuelFor bs.length) (RlpStream.newStream bs bs.length) = (.ok it, s') ∧
      RlpStream.Ready s' ∧ s'.kind = none ∧ s'.stack = [] ∧ s'.inp = rest := by
  obtain ⟨s', h1, h2, h3, h4, _, h5, _⟩ := (RlpStream.first_decode bs).1 it rest h
  exact ⟨s', h1, h2, h3, h4, h5⟩

-- non-vacuity: hypotheses of `stream_more_than_one_value`
example : (Item.list [.str [1]]).sizeOk = true ∧ ([0x05] : Bytes) ≠ [] := by decide

/-! ### tie by translation (T-gen `translated`, DESIGN 2.2 mini-translator): rlp.headsize -/

/-- the go/ssa body of rlp.headsize, translated to Lean on every run (`Aqv.Gen.Translated.headsize`, regenerated from the tree
    under test), returns exactly the length of the header the model's `header` (puthead) emits, for every tag base and every
    size.  `rlp.intsize` is a loop (outside the translator's grammar, refused on every run as a self-test): it is the explicit
    parameter `intsize`, characterised by `IntsizeSpec` — the number of bytes of the minimal big-endian size — which the
    differential harness checks on the real function. -/
theorem headsize_code_is_model (intsize : UInt64 → Int64) (hint : Aqv.Lemmas.Translated.IntsizeSpec intsize)
    (base : Nat) (size : UInt64) :
    (Aqv.Gen.Translated.headsize intsize size).toInt = ((header base size.toNat).length : Int) :=
  Aqv.Lemmas.Translated.headsize_translated_eq intsize hint base size

example : Aqv.Lemmas.Translated.IntsizeSpec Aqv.Lemmas.Translated.intsizeRef := Aqv.Lemmas.Translated.intsizeRef_spec
example : Aqv.Gen.Translated.headsize Aqv.Lemmas.Translated.intsizeRef 55 = 1 ∧
    Aqv.Gen.Translated.headsize Aqv.Lemmas.Translated.intsizeRef 56 = 2 ∧
    Aqv.Gen.Translated.headsize Aqv.Lemmas.Translated.intsizeRef 1024 = 3 := by decide

-- concrete behaviour of the machine (the list case through `stream_refines`: evaluating the machine itself on a list
-- by `rfl` is very expensive for the elaborator)
example : (RlpStream.decodeBytes []).1 = .error .eof := by rfl
example : (RlpStream.decodeBytes [0x01, 0x01]).1 = .error .moreThanOneValue := by rfl
example : (RlpStream.decodeBytes [0xb9, 0xff, 0xff, 0x01]).1 = .error .valueTooLarge := by rfl
example : (RlpStream.decodeBytes [0xc3, 0x01, 0x02, 0x03]).1 = .ok (.list [.str [1], .str [2], .str [3]]) :=
  (stream_refines _ _).2 (by rfl)
example : (RlpStream.decodeStream [0xc3, 0x01, 0x02, 0x03]).1 = .ok (.list [.str [1], .str [2], .str [3]]) :=
  (stream_refines_stream _ _).2 (by rfl)
example : (RlpStream.decodeBytes [0xc3, 0x01, 0x02, 0x03, 0x04]).1 = .error .moreThanOneValue :=
  stream_more_than_one_value (.list [.str [1], .str [2], .str [3]]) (by decide) [0x04] (by simp)

/-! ## rlp/raw.go: Split, SplitString, SplitList, CountValues never panic -/

/-- `split_total`: on every byte slice `Split`, `SplitString` and `SplitList` return a result or an error — the slice
    expressions `b[ts:ts+cs]`, `b[ts+cs:]` are always in bounds, because a successful `readKind` has checked
    `contentsize ≤ len(buf) - tagsize` (in unsigned arithmetic that cannot wrap: `tagsize ≤ len(buf)`). -/
theorem split_total (b : Bytes) :
    RlpRaw.split b ≠ .panic ∧ RlpRaw.splitString b ≠ .panic ∧ RlpRaw.splitList b ≠ .panic :=
  ⟨RlpRaw.split_ne_panic b, RlpRaw.splitString_ne_panic b, RlpRaw.splitList_ne_panic b⟩

/-- `countValues_total`: `CountValues` never panics and its loop terminates (every round consumes at least one byte). -/
theorem countValues_total (b : Bytes) : RlpRaw.countValues b ≠ .panic ∧ RlpRaw.countValues b ≠ .err .fuel :=
  RlpRaw.countValues_total b

/-- what a successful `readKind` of raw.go guarantees: the value lies inside the buffer and is not empty. -/
theorem raw_readKind_in_bounds (buf : Bytes) (k : RlpRaw.K) (ts cs : Nat) (h : RlpRaw.rawReadKind buf = .ok (k, ts, cs)) :
    ts + cs ≤ buf.length ∧ 1 ≤ ts + cs :=
  ⟨(RlpRaw.rawReadKind_ok buf k ts cs h).1, (RlpRaw.rawReadKind_ok buf k ts cs h).2.1⟩

-- an 8-byte size just below 2^63 (the wrap-around point of a signed index) is rejected, at top level and in a list walk
set_option maxRecDepth 4000 in
example : RlpRaw.rawReadKind [0xbf, 0x7f, 0xff, 0xff, 0xff, 0xff, 0xff, 0xff, 0xff] = .error .valueTooLarge := by rfl
set_option maxRecDepth 4000 in
example : RlpRaw.rawReadKind [0xff, 0x7f, 0xff, 0xff, 0xff, 0xff, 0xff, 0xff, 0xf7, 0x00] = .error .valueTooLarge := by rfl
set_option maxRecDepth 4000 in
example : RlpRaw.rawReadKind [0xc3, 0x01, 0x02, 0x03, 0x04] = .ok (.list, 1, 3) := by rfl

/-- `split_spec`: the Go-shaped `Split` of raw.go returns (kind, content, rest) exactly when the `readHead`-based shallow
    reader (`RlpRaw.shallowSplit`: canonical header, content within the input, canonical single-byte rule) accepts,
    with the same three parts; otherwise it returns an error (never a panic, `split_total`). -/
theorem split_spec (bs : Bytes) (r : RlpRaw.K × Bytes × Bytes) :
    RlpRaw.split bs = .ok r ↔ RlpRaw.shallowSplit bs = some r :=
  RlpRaw.split_ok_iff bs r

theorem split_spec_reject (bs : Bytes) : (∃ e, RlpRaw.split bs = .err e) ↔ RlpRaw.shallowSplit bs = none := by
  have h := RlpRaw.split_eq_shallow bs
  have hp := RlpRaw.split_ne_panic bs
  cases hs : RlpRaw.split bs with
  | ok r => rw [hs] at h; simp only [RlpRaw.Out.toOption] at h; rw [← h]; simp
  | err e => rw [hs] at h; simp only [RlpRaw.Out.toOption] at h; rw [← h]; simp
  | panic => exact absurd hs hp

/-- `countValues_spec`: `CountValues bs = n` exactly when `bs` is a concatenation of `n` values each accepted by the
    shallow (header-only) reader (`RlpRaw.shallowCount`, fuel = length). -/
theorem countValues_spec (bs : Bytes) (n : Nat) :
    RlpRaw.countValues bs = .ok n ↔ RlpRaw.shallowCount bs.length bs = some n :=
  RlpRaw.countValues_ok_iff bs n

/-- `dec`-level facts transfer to raw.go: if the strict decoder accepts `bs` as a list, `SplitList bs` returns exactly the
    payload (the concatenated canonical encodings of the elements) with nothing left, and `CountValues` of that payload is
    the number of elements. -/
theorem dec_list_split (bs : Bytes) (xs : List Item) (h : dec bs = .ok (.list xs)) :
    RlpRaw.splitList bs = .ok (encList xs, []) ∧ RlpRaw.countValues (encList xs) = .ok xs.length :=
  RlpRaw.dec_list_split bs xs h

example : dec [0xc3, 0x01, 0x82, 0x04] = .error .tooLarge := by rfl
example : dec [0xc4, 0x01, 0x82, 0x04, 0x00] = .ok (.list [.str [1], .str [4, 0]]) := by rfl
set_option maxRecDepth 4000 in
example : RlpRaw.shallowSplit [0xc4, 0x01, 0x82, 0x04, 0x00, 0x09] = some (.list, [0x01, 0x82, 0x04, 0x00], [0x09]) := by rfl

/-- `stream_refines_typed_partial` — PARTIAL: covers the typed primitives `uint(maxbits)` and `Bool()` of the Stream machine
    (the decoders of `Ty.uint`/`Ty.bool`); NOT yet covered: `Bytes`/big, `Raw`, and the composite decoders.
    On every ready, re-armed stream state with something to read — at top level or positioned at an element inside an open
    list — the machine's `uint(8k)` / `Bool()` accept exactly when the typed-layer primitives `Rlp.readUint k` /
    `Rlp.readBool` accept the window the stream may read from, with the same value, the input advanced by the same number
    of bytes (`Step`), the cache re-armed, and nothing allocated. -/
theorem stream_refines_typed_partial (k : Nat) (s : RlpStream.St) (hr : RlpStream.Ready s) (hk : s.kind = none)
    (ha : 1 ≤ RlpStream.avail s) :
    ((∀ n rest, Rlp.readUint k (RlpStream.win s) = .ok (n, rest) →
        ∃ s', RlpStream.uint k s = (.ok n, s') ∧ RlpStream.Step s ((RlpStream.win s).length - rest.length) s' ∧
          s'.kind = none ∧ rest = RlpStream.win s' ∧ s'.alloc = s.alloc) ∧
     (∀ e, Rlp.readUint k (RlpStream.win s) = .error e → ∃ e' s', RlpStream.uint k s = (.error e', s') ∧ s'.alloc = s.alloc)) ∧
    ((∀ b rest, Rlp.readBool (RlpStream.win s) = .ok (b, rest) →
        ∃ s', RlpStream.bool s = (.ok b, s') ∧ RlpStream.Step s ((RlpStream.win s).length - rest.length) s' ∧
          s'.kind = none ∧ rest = RlpStream.win s' ∧ s'.alloc = s.alloc) ∧
     (∀ e, Rlp.readBool (RlpStream.win s) = .error e → ∃ e' s', RlpStream.bool s = (.error e', s') ∧ s'.alloc = s.alloc)) :=
  ⟨RlpStream.uint_refines k s hr hk ha, RlpStream.bool_refines s hr hk ha⟩

/-- … instantiated for a fresh `NewStream(r, len)` over a non-empty input: `Stream.Uint()` (= `uint(64)`) accepts exactly
    what the typed decoder of `uint64` accepts, with the same value and the same unread rest. -/
theorem stream_uint64_top (bs : Bytes) (hne : bs ≠ []) (n : Nat) :
    (∃ s', RlpStream.uint 8 (RlpStream.newStream bs bs.length) = (.ok n, s')) ↔
      (∃ rest, decTy (.uint 64) bs = .ok (.num n, rest)) := by
  have hr := RlpStream.newStream_ready bs
  have hw := RlpStream.newStream_win bs
  have hav := RlpStream.newStream_avail bs
  have ha : 1 ≤ RlpStream.avail (RlpStream.newStream bs bs.length) := by
    rw [hav]; cases bs with
    | nil => exact absurd rfl hne
    | cons b t => simp
  obtain ⟨hok, herr⟩ := RlpStream.uint_refines 8 _ hr rfl ha
  rw [hw] at hok herr
  simp only [decTy]
  constructor
  · rintro ⟨s', hs'⟩
    cases hu : Rlp.readUint (64 / 8) bs with
    | ok p =>
      obtain ⟨m, rest⟩ := p
      obtain ⟨s'', hm, _⟩ := hok m rest hu
      rw [hs'] at hm
      simp only [Prod.mk.injEq, Except.ok.injEq] at hm
      exact ⟨rest, by rw [hm.1]⟩
    | error e =>
      obtain ⟨e', s'', hm, _⟩ := herr e hu
      rw [hs'] at hm; simp at hm
  · rintro ⟨rest, h⟩
    cases hu : Rlp.readUint (64 / 8) bs with
    | ok p =>
      obtain ⟨m, rest'⟩ := p
      rw [hu] at h
      simp only [Except.ok.injEq, Prod.mk.injEq, Val.num.injEq] at h
      obtain ⟨s', hm, _⟩ := hok m rest' hu
      exact ⟨s', by rw [← h.1]; exact hm⟩
    | error e => rw [hu] at h; simp at h

-- non-vacuity: a fresh stream over a non-empty input is ready, re-armed and has something to read
example : RlpStream.Ready (RlpStream.newStream [0x82, 0x01, 0x00] 3) ∧ (RlpStream.newStream [0x82, 0x01, 0x00] 3).kind = none ∧
    1 ≤ RlpStream.avail (RlpStream.newStream [0x82, 0x01, 0x00] 3) :=
  ⟨RlpStream.newStream_ready [0x82, 0x01, 0x00], rfl, by decide⟩
example : decTy (.uint 64) [0x82, 0x01, 0x00] = .ok (.num 256, []) := by rfl

/-- `stream_refines_typed_bytes` (narrows the exclusion of `stream_refines_typed_partial`): on every ready, re-armed stream
    state with something to read — top level or at a list element — the machine's `Bytes()` accepts exactly when the
    typed-layer primitive `Rlp.readBytes` accepts the window, with the same bytes, the input advanced by the same number of
    bytes, the cache re-armed, and the ghost allocation grown by at most the bytes consumed (at most the window on errors).
    `Bytes()` is the reader under `decodeString`, `decodeByteSlice` and `decodeBigInt` (`Rlp.readBig` is `readBytes` followed
    by the leading-zero test), so the typed universe {uint, bool, bytes, big} is now covered at the primitive level.
    STILL EXCLUDED: `Raw()` (RawValue) and the composite decoders (list/array/struct/pointer), which are tied by
    correspondence (`sprim raw`, `tdec`) only. -/
theorem stream_refines_typed_bytes (s : RlpStream.St) (hr : RlpStream.Ready s) (hk : s.kind = none)
    (ha : 1 ≤ RlpStream.avail s) :
    (∀ b rest, Rlp.readBytes (RlpStream.win s) = .ok (b, rest) →
      ∃ s', RlpStream.bytes s = (.ok b, s') ∧ RlpStream.Step s ((RlpStream.win s).length - rest.length) s' ∧
        s'.kind = none ∧ rest = RlpStream.win s' ∧ s'.alloc ≤ s.alloc + ((RlpStream.win s).length - rest.length)) ∧
    (∀ e, Rlp.readBytes (RlpStream.win s) = .error e →
      ∃ e' s', RlpStream.bytes s = (.error e', s') ∧ s'.alloc ≤ s.alloc + RlpStream.avail s) :=
  RlpStream.bytes_refines s hr hk ha

/-- … for a fresh `NewStream(r, len)` over a non-empty input: `Stream.Bytes()` accepts exactly what the typed decoder of
    `[]byte`/`string` accepts, with the same bytes, and allocates no more than the input length. -/
theorem stream_bytes_top (bs : Bytes) (hne : bs ≠ []) (b : Bytes) :
    (∃ s', RlpStream.bytes (RlpStream.newStream bs bs.length) = (.ok b, s') ∧ s'.alloc ≤ bs.length) ↔
      (∃ rest, decTy .bytes bs = .ok (.bytes b, rest)) := by
  have hr := RlpStream.newStream_ready bs
  have hw := RlpStream.newStream_win bs
  have hav := RlpStream.newStream_avail bs
  have ha : 1 ≤ RlpStream.avail (RlpStream.newStream bs bs.length) := by
    rw [hav]; cases bs with
    | nil => exact absurd rfl hne
    | cons x t => simp
  obtain ⟨hok, herr⟩ := RlpStream.bytes_refines _ hr rfl ha
  rw [hw] at hok herr
  simp only [decTy]
  constructor
  · rintro ⟨s', hs', _⟩
    cases hu : Rlp.readBytes bs with
    | ok p =>
      obtain ⟨m, rest⟩ := p
      obtain ⟨s'', hm, _⟩ := hok m rest hu
      rw [hs'] at hm
      simp only [Prod.mk.injEq, Except.ok.injEq] at hm
      exact ⟨rest, by rw [hm.1]⟩
    | error e =>
      obtain ⟨e', s'', hm, _⟩ := herr e hu
      rw [hs'] at hm; simp at hm
  · rintro ⟨rest, h⟩
    cases hu : Rlp.readBytes bs with
    | ok p =>
      obtain ⟨m, rest'⟩ := p
      rw [hu] at h
      simp only [Except.ok.injEq, Prod.mk.injEq, Val.bytes.injEq] at h
      obtain ⟨s', hm, _, _, _, hal⟩ := hok m rest' hu
      refine ⟨s', by rw [← h.1]; exact hm, ?_⟩
      have : (RlpStream.newStream bs bs.length).alloc = 0 := rfl
      omega
    | error e => rw [hu] at h; simp at h

example : decTy .bytes [0x83, 0x01, 0x02, 0x03, 0xff] = .ok (.bytes [1, 2, 3], [0xff]) := by rfl

end Aqv.Props.C11

/-
  C11 — RLP is a canonical, total and bounded codec.  Property theorems only (helpers live in Aqv/Lemmas).
  Model: Aqv.Model.Rlp (enc = rlp/encode.go, dec = the strict rules of rlp/decode.go and rlp/raw.go).
-/
import Aqv.Lemmas.RlpCanon
namespace Aqv.Props.C11
open Aqv Aqv.Rlp

/-- Round trip: decoding the encoding of any item (sizes below 2^64) returns the item. -/
theorem dec_enc (it : Item) (h : it.sizeOk = true) : dec (enc it) = .ok it := by
  unfold dec
  have hw := weight_le it
  have := decItem_enc it h (3 * (enc it).length + 1) [] (by omega)
  rw [List.append_nil] at this
  rw [this]

/-- Canonicity: every accepted byte string is exactly the encoding of the value it decodes to. -/
theorem enc_dec (bs : Bytes) (it : Item) (h : dec bs = .ok it) : enc it = bs := by
  unfold dec at h
  split at h
  · rename_i it' hd
    simp only [Except.ok.injEq] at h
    subst h
    have := ((dec_canon _).1 _ _ _ hd).1
    rw [List.append_nil] at this
    exact this.symm
  · simp at h
  · simp at h

/-- One accepted encoding per value: two accepted byte strings that decode to the same item are equal. -/
theorem one_encoding_per_value (b₁ b₂ : Bytes) (it : Item) (h₁ : dec b₁ = .ok it) (h₂ : dec b₂ = .ok it) :
    b₁ = b₂ := by
  rw [← enc_dec b₁ it h₁, ← enc_dec b₂ it h₂]

/-- The encoder is injective on well-sized items (distinct values never share an encoding). -/
theorem enc_injective (a b : Item) (ha : a.sizeOk = true) (hb : b.sizeOk = true) (h : enc a = enc b) : a = b := by
  have h1 := dec_enc a ha
  have h2 := dec_enc b hb
  rw [h] at h1
  rw [h1] at h2
  simpa using h2

/-- Totality: decoding any byte string returns a value or an error — never the out-of-fuel outcome
    (fuel 3·len+1 always suffices), i.e. the recursion depth/allocation is bounded by the input length. -/
theorem decoded_item_wellsized (bs : Bytes) (it : Item) (h : dec bs = .ok it) : it.sizeOk = true := by
  unfold dec at h
  split at h
  · rename_i it' hd
    simp only [Except.ok.injEq] at h
    subst h
    exact ((dec_canon _).1 _ _ _ hd).2
  · simp at h
  · simp at h

/-- Bounded: the decoded item re-encodes to exactly the input, so its total content length is ≤ the input's. -/
theorem decoded_size_le_input (bs : Bytes) (it : Item) (h : dec bs = .ok it) : (enc it).length = bs.length := by
  rw [enc_dec bs it h]

-- non-vacuity: a nested item with a 56-byte string, an empty list and a byte ≥ 0x80 meets `sizeOk` and round-trips.
example : (Item.list [.str [0x80], .list [], .str (List.replicate 56 7)]).sizeOk = true := by decide
example : dec (enc (Item.list [.str [0x80], .list [], .str [1, 2, 3]])) =
    .ok (Item.list [.str [0x80], .list [], .str [1, 2, 3]]) := by rfl
-- non-canonical inputs are rejected: 0x8105 (single byte < 0x80 wrapped), 0xb801.. (long form for short size)
example : dec [0x81, 0x05] = .error .canonSize := by rfl
example : dec [0xb8, 0x01, 0xff] = .error .canonSize := by rfl
example : dec [0xc2, 0x81, 0x05] = .error .canonSize := by rfl

end Aqv.Props.C11

/-
  C20 — Keystore encryption round-trips and rejects wrong passphrases and tampering.  Property theorems only.
  Model: Aqv.Model.Keystore (EncryptKey / DecryptKey v3+v1 / getKDFKey / GetKey of aqua/accounts/keystore).
  KDF (scrypt, PBKDF2), Keccak-256 (`H`), the AES-CTR keystream, AES-CBC and scalar->address are parameters (`Prims`);
  every theorem holds for ALL instantiations of them.  Where a clause needs a cryptographic fact it is an explicit
  hypothesis about the finitely many values involved (collision-freedom of `H` on two MAC inputs, the KDF output
  differing on bytes 16..32, address derivation separating two scalars).

  Clause map
    "recovered with that passphrase as the identical key and address"      roundtrip, roundtrip_keeps_leading_zeros
    "with any other passphrase unlocking fails with an error"              wrong_pass_rejected, wrong_pass_never_unlocks
    "after modification of ciphertext, MAC, salt, KDF parameters ..."      tamper_ct_mac_salt_params_rejected,
                                                                            tamper_ct_rejected, tamper_mac_rejected
    "... or IV ... never a different key / account with another address"   tamper_never_yields_other_key (KeyStore.GetKey level,
                                                                            any tampering), getKey_rejects_iv_tamper;
                                                                            FALSE for bare DecryptKey: decryptKey_iv_tamper_witness,
                                                                            decryptKey_iv_tamper_yields_other_key
    "fails WITH AN ERROR" (not a crash)                                    decrypt_total_partial + decryptKey_kdf_panic_witness
-/
import Aqv.Lemmas.Keystore
namespace Aqv.Props.C20
open Aqv Aqv.Keystore

/-! ## 1. Round trip -/

/-- For every private scalar `d` (in particular small ones, whose 32-byte encoding starts with zero bytes), every passphrase,
    salt, IV and scrypt parameters: if the KDF delivers a key (32 bytes or more), `EncryptKey` produces a file that
    `DecryptKey` opens, under the same passphrase, to exactly `d` with the address derived from `d`; and
    `KeyStore`-level `GetKey` for that address accepts it. -/
theorem roundtrip (P : Prims) (d : Nat) (hd : d < secpN) (addr id auth salt iv : Bytes) (n p : Int)
    (buf : Bytes) (len : Nat) (hk : P.kdf (.scrypt auth salt n scryptR p scryptDKLen) = .ok buf len)
    (hcap : 32 ≤ buf.length) (hiv : iv.length = 16) :
    ∃ f, encryptKey P d addr id auth salt iv n p = .ok f ∧
         decryptBytes P f auth = .ok (paddedBigBytes d 32) ∧
         decryptKey P f auth = .ok ⟨d, P.addrOf d⟩ ∧
         getKey P (P.addrOf d) f auth = .ok ⟨d, P.addrOf d⟩ := by
  have hpt : ∀ f, encryptKey P d addr id auth salt iv n p = .ok f → decryptBytes P f auth = .ok (paddedBigBytes d 32) := by
    intro f hf
    unfold encryptKey at hf
    rw [hk] at hf
    simp only [if_neg (show ¬ buf.length < 32 by omega), hiv, ne_eq, not_true_eq_false, if_false] at hf
    injection hf with hf
    subst hf
    have hkdf := getKDFKey_scryptParams P
      { cipher := ascii "aes-128-ctr", ciphertext := hexEncode (xorStream (P.ks (encKey buf) iv) 0 (paddedBigBytes d 32)),
        iv := hexEncode iv, kdf := ascii "scrypt", kdfparams := scryptParams n p salt,
        mac := hexEncode (P.H (macKey buf ++ xorStream (P.ks (encKey buf) iv) 0 (paddedBigBytes d 32))) } auth salt n p rfl rfl
    rw [hk] at hkdf
    have hcm := checkMac_of (P := P) (auth := auth) (hexDecode_hexEncode _) (hexDecode_hexEncode iv) (hexDecode_hexEncode _)
      hkdf hcap
    simp only [ne_eq, not_true_eq_false, if_false] at hcm
    simp only [decryptBytes, isV1, decryptKeyV3, scryptParams] at *
    simp only [hcm, hiv, xorStream_xorStream]
    simp
  have henc : ∃ f, encryptKey P d addr id auth salt iv n p = .ok f := by
    unfold encryptKey
    rw [hk]
    simp only [if_neg (show ¬ buf.length < 32 by omega), hiv, ne_eq, not_true_eq_false, if_false]
    exact ⟨_, rfl⟩
  obtain ⟨f, hf⟩ := henc
  have h1 := hpt f hf
  refine ⟨f, hf, h1, ?_, ?_⟩
  · rw [decryptKey_of_bytes h1, scalarOfBytes_padded d hd]
  · unfold getKey
    rw [decryptKey_of_bytes h1, scalarOfBytes_padded d hd]
    simp

/-- The 32-byte encoding keeps leading zero bytes, and reading it back gives the same scalar (the "31-byte key" slip
    cannot happen): for every valid scalar the encoding has exactly 32 bytes and decodes to the scalar; conversely every
    32-byte string is the encoding of its value. -/
theorem roundtrip_keeps_leading_zeros (d : Nat) (hd : d < secpN) :
    (paddedBigBytes d 32).length = 32 ∧ scalarOfBytes (paddedBigBytes d 32) = d ∧
    ∀ b : Bytes, b.length = 32 → paddedBigBytes (beNat b) 32 = b :=
  ⟨paddedBigBytes_length d (Nat.lt_trans hd secpN_lt), scalarOfBytes_padded d hd, paddedBigBytes_beNat⟩

/-! ## 2. Wrong passphrase -/

/-- Any file (v3 scrypt, v3 pbkdf2 or v1) that opens under `pw`: under a passphrase `pw'` for which the KDF output differs
    on bytes 16..32, and with `H` collision-free on the two MAC inputs, DecryptKey returns ErrDecrypt. -/
theorem wrong_pass_rejected (P : Prims) (f : KeyFile) (pw pw' : Bytes) (k : Key)
    (hok : decryptKey P f pw = .ok k)
    (buf buf' : Bytes) (len len' : Nat)
    (hk : getKDFKey P f.crypto pw = .ok (buf, len)) (hk' : getKDFKey P f.crypto pw' = .ok (buf', len'))
    (hcap' : 32 ≤ buf'.length)
    (hdiff : macKey buf' ≠ macKey buf)
    (hcr : ∀ ct, hexDecode f.crypto.ciphertext = some ct →
      P.H (macKey buf' ++ ct) = P.H (macKey buf ++ ct) → macKey buf' ++ ct = macKey buf ++ ct) :
    decryptKey P f pw' = .err .decrypt := by
  obtain ⟨pt, hpt, _⟩ := decryptKey_ok hok
  obtain ⟨hj, b0, iv, ct, hcm, hivl, hcase⟩ := decryptBytes_ok hpt
  obtain ⟨mac, l0, hmac, hiv, hct, hk0, hcap, hH⟩ := checkMac_ok hcm
  rw [hk] at hk0
  injection hk0 with hk0
  injection hk0 with hb hl
  subst hb
  have hne : P.H (macKey buf' ++ ct) ≠ mac := by
    intro h
    have := hcr ct hct (h.trans hH.symm)
    have := List.append_inj_left this (by rw [macKey_length _ hcap', macKey_length _ hcap])
    exact hdiff this
  have hcm' := checkMac_of (P := P) (auth := pw') hmac hiv hct hk' hcap'
  rw [if_pos hne] at hcm'
  unfold decryptKey decryptBytes
  rcases hcase with ⟨hv1, hv3, hver, hcip, _⟩ | ⟨hv1, hv1ok, _, _⟩
  · simp [hj, hv1, hv3, decryptKeyV3, hver, hcip, hcm']
  · simp [hj, hv1, hv1ok, decryptKeyV1, hcm']

/-- Whatever the KDF does under the other passphrase (key, error or panic): as long as *a delivered key* differs on bytes
    16..32 (and `H` does not collide on the two MAC inputs), the other passphrase never unlocks. -/
theorem wrong_pass_never_unlocks (P : Prims) (f : KeyFile) (pw pw' : Bytes) (k : Key)
    (hok : decryptKey P f pw = .ok k)
    (hdiff : ∀ buf buf' len len', getKDFKey P f.crypto pw = .ok (buf, len) → getKDFKey P f.crypto pw' = .ok (buf', len') →
      macKey buf' ≠ macKey buf)
    (hcr : ∀ buf buf' len len' ct, getKDFKey P f.crypto pw = .ok (buf, len) → getKDFKey P f.crypto pw' = .ok (buf', len') →
      hexDecode f.crypto.ciphertext = some ct →
      P.H (macKey buf' ++ ct) = P.H (macKey buf ++ ct) → macKey buf' ++ ct = macKey buf ++ ct) :
    ∀ k', decryptKey P f pw' ≠ .ok k' := by
  intro k' hok'
  obtain ⟨pt, hpt, _⟩ := decryptKey_ok hok
  obtain ⟨_, b0, iv, ct, hcm, _, _⟩ := decryptBytes_ok hpt
  obtain ⟨mac, l0, _, _, hct, hk0, _, _⟩ := checkMac_ok hcm
  obtain ⟨pt', hpt', _⟩ := decryptKey_ok hok'
  obtain ⟨_, b1, iv', ct', hcm', _, _⟩ := decryptBytes_ok hpt'
  obtain ⟨mac', l1, _, _, _, hk1, hcap1, _⟩ := checkMac_ok hcm'
  have := wrong_pass_rejected P f pw pw' k hok b0 b1 l0 l1 hk0 hk1 hcap1 (hdiff _ _ _ _ hk0 hk1)
    (fun ct hc => hcr _ _ _ _ ct hk0 hk1 hc)
  rw [hok'] at this
  cases this

/-! ## 3. Tampering with ciphertext, MAC, salt, KDF parameters -/

/-- Two files `f` (the stored one) and `f'` (after tampering) read on the same path with the same decoded IV.  If
    (a) the MAC field still decodes to the same bytes (tampering with ciphertext, salt, KDF name or any KDF parameter), or
    (b) ciphertext and derived MAC key are unchanged (tampering with the MAC field),
    then — `H` collision-free on the two MAC inputs, and the two KDF outputs agreeing on bytes 0..16 whenever they agree
    on bytes 16..32 — whatever `f'` opens to under the same passphrase is the ORIGINAL key.
    (So the outcome is an error, a panic, or the original key; never another key.) -/
theorem tamper_ct_mac_salt_params_rejected (P : Prims) (f f' : KeyFile) (pw : Bytes) (k k' : Key)
    (hok : decryptKey P f pw = .ok k) (hok' : decryptKey P f' pw = .ok k')
    (hpath : isV1 f' = isV1 f)
    (hiv : hexDecode f'.crypto.iv = hexDecode f.crypto.iv)
    (hsame : hexDecode f'.crypto.mac = hexDecode f.crypto.mac ∨
             (hexDecode f'.crypto.ciphertext = hexDecode f.crypto.ciphertext ∧
              ∀ buf buf' len len', getKDFKey P f.crypto pw = .ok (buf, len) → getKDFKey P f'.crypto pw = .ok (buf', len') →
                macKey buf' = macKey buf))
    (hcr : ∀ buf buf' len len' ct ct', getKDFKey P f.crypto pw = .ok (buf, len) → getKDFKey P f'.crypto pw = .ok (buf', len') →
      hexDecode f.crypto.ciphertext = some ct → hexDecode f'.crypto.ciphertext = some ct' →
      P.H (macKey buf' ++ ct') = P.H (macKey buf ++ ct) → macKey buf' ++ ct' = macKey buf ++ ct)
    (hbind : ∀ buf buf' len len', getKDFKey P f.crypto pw = .ok (buf, len) → getKDFKey P f'.crypto pw = .ok (buf', len') →
      macKey buf' = macKey buf → encKey buf' = encKey buf) :
    k' = k := by
  obtain ⟨pt, hpt, hkk⟩ := decryptKey_ok hok
  obtain ⟨_, b0, iv, ct, hcm, _, hcase⟩ := decryptBytes_ok hpt
  obtain ⟨mac, l0, hmac, hiv0, hct, hk0, hcap0, hH⟩ := checkMac_ok hcm
  obtain ⟨pt', hpt', hkk'⟩ := decryptKey_ok hok'
  obtain ⟨_, b1, iv', ct', hcm', _, hcase'⟩ := decryptBytes_ok hpt'
  obtain ⟨mac', l1, hmac', hiv1, hct', hk1, hcap1, hH'⟩ := checkMac_ok hcm'
  have hivEq : iv' = iv := by
    rw [hiv1, hiv0] at hiv
    injection hiv
  -- both the MAC key and the ciphertext are the same
  have hboth : macKey b1 = macKey b0 ∧ ct' = ct := by
    rcases hsame with hm | ⟨hc, hmk⟩
    · rw [hmac', hmac] at hm
      injection hm with hm
      have := hcr _ _ _ _ ct ct' hk0 hk1 hct hct' (by rw [hH', hH, hm])
      exact ⟨List.append_inj_left this (by rw [macKey_length _ hcap1, macKey_length _ hcap0]),
             List.append_inj_right this (by rw [macKey_length _ hcap1, macKey_length _ hcap0])⟩
    · rw [hct', hct] at hc
      injection hc with hc
      exact ⟨hmk _ _ _ _ hk0 hk1, hc⟩
  obtain ⟨hmk, hctEq⟩ := hboth
  have hek := hbind _ _ _ _ hk0 hk1 hmk
  subst hivEq; subst hctEq
  have hptEq : pt' = pt := by
    rcases hcase with ⟨hv1, _, _, _, hx⟩ | ⟨hv1, _, _, hu⟩
    · rcases hcase' with ⟨_, _, _, _, hx'⟩ | ⟨hv1', _, _, _⟩
      · rw [hx, hx', hek]
      · rw [hpath, hv1] at hv1'; cases hv1'
    · rcases hcase' with ⟨hv1', _, _, _, _⟩ | ⟨_, _, _, hu'⟩
      · rw [hpath, hv1] at hv1'; cases hv1'
      · rw [hek, hu] at hu'
        injection hu' with hu'
        exact hu'.symm
  rw [hkk, hkk', hptEq]

/-- Ciphertext altered (the hex still decodes, to different bytes), everything else as stored: rejected with ErrDecrypt
    or an earlier error — never opened — provided `H` does not collide on the two MAC inputs. -/
theorem tamper_ct_rejected (P : Prims) (f : KeyFile) (pw : Bytes) (k : Key) (newCt : Bytes)
    (hok : decryptKey P f pw = .ok k)
    (hdiff : hexDecode newCt ≠ hexDecode f.crypto.ciphertext)
    (hcr : ∀ buf len ct ct', getKDFKey P f.crypto pw = .ok (buf, len) →
      hexDecode f.crypto.ciphertext = some ct → hexDecode newCt = some ct' →
      P.H (macKey buf ++ ct') = P.H (macKey buf ++ ct) → macKey buf ++ ct' = macKey buf ++ ct) :
    ∀ k', decryptKey P { f with crypto := { f.crypto with ciphertext := newCt } } pw ≠ .ok k' := by
  intro k' hok'
  obtain ⟨pt, hpt, _⟩ := decryptKey_ok hok
  obtain ⟨_, b0, iv, ct, hcm, _, _⟩ := decryptBytes_ok hpt
  obtain ⟨mac, l0, hmac, _, hct, hk0, hcap0, hH⟩ := checkMac_ok hcm
  obtain ⟨pt', hpt', _⟩ := decryptKey_ok hok'
  obtain ⟨_, b1, iv', ct', hcm', _, _⟩ := decryptBytes_ok hpt'
  obtain ⟨mac', l1, hmac', _, hct', hk1, _, hH'⟩ := checkMac_ok hcm'
  -- the KDF sees the same parameters
  have hkdfEq : getKDFKey P { f.crypto with ciphertext := newCt } pw = getKDFKey P f.crypto pw := rfl
  simp only at hmac' hct' hk1
  rw [hkdfEq, hk0] at hk1
  injection hk1 with hk1
  injection hk1 with hb _
  subst hb
  rw [hmac] at hmac'
  injection hmac' with hm
  have := hcr _ _ ct ct' hk0 hct hct' (by rw [hH', hH, hm])
  have := List.append_inj_right this rfl
  apply hdiff
  rw [hct', hct, this]

/-- MAC field altered (to anything that does not decode to the stored MAC bytes), everything else as stored: rejected.
    No cryptographic assumption needed. -/
theorem tamper_mac_rejected (P : Prims) (f : KeyFile) (pw : Bytes) (k : Key) (newMac : Bytes)
    (hok : decryptKey P f pw = .ok k)
    (hdiff : hexDecode newMac ≠ hexDecode f.crypto.mac) :
    ∀ k', decryptKey P { f with crypto := { f.crypto with mac := newMac } } pw ≠ .ok k' := by
  intro k' hok'
  obtain ⟨pt, hpt, _⟩ := decryptKey_ok hok
  obtain ⟨_, b0, iv, ct, hcm, _, _⟩ := decryptBytes_ok hpt
  obtain ⟨mac, l0, hmac, _, hct, hk0, _, hH⟩ := checkMac_ok hcm
  obtain ⟨pt', hpt', _⟩ := decryptKey_ok hok'
  obtain ⟨_, b1, iv', ct', hcm', _, _⟩ := decryptBytes_ok hpt'
  obtain ⟨mac', l1, hmac', _, hct', hk1, _, hH'⟩ := checkMac_ok hcm'
  have hkdfEq : getKDFKey P { f.crypto with mac := newMac } pw = getKDFKey P f.crypto pw := rfl
  simp only at hmac' hct' hk1
  rw [hkdfEq, hk0] at hk1
  injection hk1 with hk1
  injection hk1 with hb _
  subst hb
  rw [hct] at hct'
  injection hct' with hc
  subst hc
  apply hdiff
  rw [hmac', hmac, ← hH, ← hH']

/-! ## 4. KeyStore level: nothing but the account's own key is ever handed out -/

/-- `keyStorePassphrase.GetKey` (what Unlock / SignWithPassphrase / Export / Update / Delete go through): for ANY two
    files and passphrases — i.e. after arbitrary tampering with any field including the IV, or a swapped file — a
    successful result carries the requested account's address, and that address is the one derived from the returned
    scalar.  If address derivation separates the two scalars (no address collision) the two keys are identical. -/
theorem tamper_never_yields_other_key (P : Prims) (a : Bytes) (f f' : KeyFile) (pw pw' : Bytes) (k k' : Key)
    (hok : getKey P a f pw = .ok k) (hok' : getKey P a f' pw' = .ok k') :
    k.addr = a ∧ k'.addr = a ∧ k'.addr = P.addrOf k'.d ∧
    ((P.addrOf k'.d = P.addrOf k.d → k'.d = k.d) → k' = k) := by
  have key : ∀ (g : KeyFile) (q : Bytes) (x : Key), getKey P a g q = .ok x → x.addr = a ∧ x.addr = P.addrOf x.d := by
    intro g q x h
    unfold getKey at h
    split at h
    · rename_i k0 hk0
      split at h
      · cases h
      · rename_i hne
        injection h with h
        subst h
        obtain ⟨pt, _, hk⟩ := decryptKey_ok hk0
        refine ⟨by simpa using hne, ?_⟩
        rw [hk]
    · rename_i hno
      exact absurd h (hno x)
  obtain ⟨h1, h2⟩ := key f pw k hok
  obtain ⟨h1', h2'⟩ := key f' pw' k' hok'
  refine ⟨h1, h1', h2', ?_⟩
  intro hinj
  have hd : k'.d = k.d := hinj (by rw [← h2', ← h2, h1, h1'])
  cases k; cases k'
  simp only at hd h1 h1'
  subst hd; subst h1; subst h1'
  rfl

/-- GetKey = DecryptKey + address comparison (the only difference between the two levels). -/
theorem getKey_ok_iff (P : Prims) (a : Bytes) (f : KeyFile) (pw : Bytes) (k : Key) :
    getKey P a f pw = .ok k ↔ decryptKey P f pw = .ok k ∧ k.addr = a := by
  unfold getKey
  constructor
  · intro h
    split at h
    · rename_i k0 hk0
      split at h
      · cases h
      · rename_i hne
        injection h with h
        subst h
        exact ⟨hk0, by simpa using hne⟩
    · rename_i hno
      exact absurd h (hno k)
  · intro ⟨h, ha⟩
    rw [h]
    simp [ha]

/-! ## 5. The IV is not covered by the MAC -/

/-- General form of the defect (v3 files): if a file opens, replacing the IV by ANY other 16-byte value for which the
    keystream differs somewhere within the ciphertext length makes bare `DecryptKey` succeed with DIFFERENT key bytes. -/
theorem decryptKey_iv_tamper_yields_other_key (P : Prims) (f : KeyFile) (pw pt : Bytes)
    (hok : decryptBytes P f pw = .ok pt) (hv3 : isV1 f = false)
    (iv iv' : Bytes) (hiv : hexDecode f.crypto.iv = some iv) (hlen : iv'.length = 16)
    (buf : Bytes) (len : Nat) (hk : getKDFKey P f.crypto pw = .ok (buf, len))
    (i : Nat) (hi : i < pt.length) (hks : P.ks (encKey buf) iv' i ≠ P.ks (encKey buf) iv i) :
    ∃ pt', decryptBytes P { f with crypto := { f.crypto with iv := hexEncode iv' } } pw = .ok pt' ∧ pt' ≠ pt := by
  obtain ⟨hj, b0, iv0, ct, hcm, hivl, hcase⟩ := decryptBytes_ok hok
  obtain ⟨mac, l0, hmac, hiv0, hct, hk0, hcap0, hH⟩ := checkMac_ok hcm
  rw [hiv] at hiv0
  injection hiv0 with hiv0
  subst hiv0
  rw [hk] at hk0
  injection hk0 with hk0
  injection hk0 with hb _
  subst hb
  rcases hcase with ⟨_, hv3ok, hver, hcip, hx⟩ | ⟨hv1, _, _, _⟩
  · refine ⟨xorStream (P.ks (encKey buf) iv') 0 ct, ?_, ?_⟩
    · have hkdfEq : getKDFKey P { f.crypto with iv := hexEncode iv' } pw = .ok (buf, len) := hk
      have hcm' := checkMac_of (P := P) (c := { f.crypto with iv := hexEncode iv' }) (auth := pw) hmac
        (hexDecode_hexEncode iv') hct hkdfEq hcap0
      rw [if_neg (by simpa using hH)] at hcm'
      exact decryptBytes_v3_of (f := { f with crypto := { f.crypto with iv := hexEncode iv' } }) hj hv3 hv3ok hver hcip hcm' hlen
    · rw [hx]
      have hl : pt.length = ct.length := by rw [hx, xorStream_length]
      exact xorStream_ne _ _ 0 ct i (by omega) (by simpa using hks)
  · rw [hv3] at hv1; cases hv1

/-- Toy primitives satisfying every cryptographic hypothesis used above: `H` injective (identity), address derivation
    injective, a constant KDF.  The keystream depends on the IV. -/
def toyP : Prims where
  kdf := fun _ => .ok ((List.range 32).map UInt8.ofNat) 32
  H := id
  ks := fun _ iv i => iv.getD i 0
  cbc := fun _ _ c => c
  addrOf := fun d => beBytes d

def wIv : Bytes := List.replicate 16 0
def wFile : KeyFile :=
  match encryptKey toyP 5 (toyP.addrOf 5) [] (ascii "pw") [1, 2, 3] wIv 2 1 with
  | .ok f => f
  | _ => ⟨false, none, false, false, 0, [], [], ⟨[], [], [], [], [], []⟩⟩
/-- the stored file with ONE character of the IV field changed ('0' -> '1' in the first position). -/
def wFileIv : KeyFile := { wFile with crypto := { wFile.crypto with iv := ascii "10000000000000000000000000000000" } }

/-- Concrete witness that the clause "never yields a different key" FAILS for bare `DecryptKey` when the IV field is
    altered: the file is what EncryptKey wrote for scalar 5; it opens to 5; with one IV character changed it opens —
    without error — to a different scalar with a different address.  `KeyStore.GetKey` rejects the same file. -/
theorem decryptKey_iv_tamper_witness :
    encryptKey toyP 5 (toyP.addrOf 5) [] (ascii "pw") [1, 2, 3] wIv 2 1 = .ok wFile ∧
    decryptKey toyP wFile (ascii "pw") = .ok ⟨5, toyP.addrOf 5⟩ ∧
    ((wFile.crypto.iv.zip wFileIv.crypto.iv).filter (fun p => p.1 != p.2)).length = 1 ∧
    (∃ k', decryptKey toyP wFileIv (ascii "pw") = .ok k' ∧ k'.d ≠ 5 ∧ k'.addr ≠ toyP.addrOf 5) ∧
    getKey toyP (toyP.addrOf 5) wFileIv (ascii "pw") = .err .mismatch := by
  refine ⟨by decide, by decide, by decide, ⟨⟨2 ^ 252 + 5, toyP.addrOf (2 ^ 252 + 5)⟩, by decide, by decide, by decide⟩, by decide⟩

/-- Positive statement at KeyStore level for the IV: if the IV-tampered file opens at all to a scalar whose address
    differs from the account's, `GetKey` answers with the mismatch error. -/
theorem getKey_rejects_iv_tamper (P : Prims) (a : Bytes) (f' : KeyFile) (pw : Bytes) (k' : Key)
    (hdec : decryptKey P f' pw = .ok k') (haddr : k'.addr ≠ a) :
    getKey P a f' pw = .err .mismatch := by
  unfold getKey
  rw [hdec]
  simp [haddr]

/-! ## 6. "fails with an error": where DecryptKey can panic instead -/

/-- Partial totality: DecryptKey never panics EXCEPT in the listed situations — a `kdfparams` entry missing or of the
    wrong JSON type (failed type assertion), a panic inside the KDF call itself, a derived-key buffer of capacity < 32,
    and (only after the MAC matched) an IV that is not 16 bytes or a v1 ciphertext that is not a multiple of 16 bytes.
    Partial because the Go runtime is not modelled: only the panics of the modelled expressions are covered. -/
theorem decrypt_total_partial (P : Prims) (f : KeyFile) (pw : Bytes) (h : decryptKey P f pw = .panic) :
    getKDFKey P f.crypto pw = .panic ∨
    (∃ buf len, getKDFKey P f.crypto pw = .ok (buf, len) ∧ buf.length < 32) ∨
    (∃ iv, hexDecode f.crypto.iv = some iv ∧ iv.length ≠ 16) ∨
    (isV1 f = true ∧ ∃ ct, hexDecode f.crypto.ciphertext = some ct ∧ ct.length % 16 ≠ 0) := by
  have hcm : ∀ (c : Crypto), checkMac P c pw = .panic →
      getKDFKey P c pw = .panic ∨ (∃ buf len, getKDFKey P c pw = .ok (buf, len) ∧ buf.length < 32) := by
    intro c hc
    unfold checkMac at hc
    split at hc
    · cases hc
    split at hc
    · cases hc
    split at hc
    · cases hc
    split at hc
    · cases hc
    · rename_i hp; exact Or.inl hp
    · rename_i buf len hk
      split at hc
      · rename_i hl; exact Or.inr ⟨buf, len, hk, hl⟩
      · split at hc <;> cases hc
  unfold decryptKey at h
  split at h
  · cases h
  · rename_i hb
    unfold decryptBytes at hb
    split at hb
    · cases hb
    split at hb
    · rename_i hv1
      split at hb
      · cases hb
      unfold decryptKeyV1 at hb
      split at hb
      · cases hb
      · rename_i hp
        rcases hcm _ hp with h1 | h2
        · exact Or.inl h1
        · exact Or.inr (Or.inl h2)
      · rename_i buf iv ct hc
        obtain ⟨_, _, _, hiv, hct, _, _, _⟩ := checkMac_ok hc
        split at hb
        · rename_i hl; exact Or.inr (Or.inr (Or.inl ⟨iv, hiv, hl⟩))
        · split at hb
          · rename_i hl; exact Or.inr (Or.inr (Or.inr ⟨hv1, ct, hct, hl⟩))
          · split at hb <;> cases hb
    · split at hb
      · cases hb
      unfold decryptKeyV3 at hb
      split at hb
      · cases hb
      split at hb
      · cases hb
      split at hb
      · cases hb
      · rename_i hp
        rcases hcm _ hp with h1 | h2
        · exact Or.inl h1
        · exact Or.inr (Or.inl h2)
      · rename_i buf iv ct hc
        obtain ⟨_, _, _, hiv, _, _, _, _⟩ := checkMac_ok hc
        split at hb
        · rename_i hl; exact Or.inr (Or.inr (Or.inl ⟨iv, hiv, hl⟩))
        · cases hb
  · cases h

/-- and getKDFKey panics only on a missing / wrongly typed `kdfparams` entry or when the KDF call itself panics. -/
theorem getKDFKey_panic_only_if (P : Prims) (c : Crypto) (pw : Bytes) (h : getKDFKey P c pw = .panic) :
    asString (lookup c.kdfparams (ascii "salt")) = none ∨ ensureInt (lookup c.kdfparams (ascii "dklen")) = none ∨
    (c.kdf = ascii "scrypt" ∧ (ensureInt (lookup c.kdfparams (ascii "n")) = none ∨
       ensureInt (lookup c.kdfparams (ascii "r")) = none ∨ ensureInt (lookup c.kdfparams (ascii "p")) = none)) ∨
    (c.kdf = ascii "pbkdf2" ∧ (ensureInt (lookup c.kdfparams (ascii "c")) = none ∨
       asString (lookup c.kdfparams (ascii "prf")) = none)) ∨
    ∃ req, P.kdf req = .panic := by
  have hres : ∀ r, kdfRes r = .panic → r = .panic := by
    intro r hr; cases r <;> simp [kdfRes] at hr ⊢
  unfold getKDFKey at h
  split at h
  · rename_i hs; exact Or.inl hs
  split at h
  · cases h
  split at h
  · rename_i hd; exact Or.inr (Or.inl hd)
  split at h
  · rename_i hkdf
    split at h
    · rename_i hn; exact Or.inr (Or.inr (Or.inl ⟨hkdf, Or.inl hn⟩))
    split at h
    · rename_i hr; exact Or.inr (Or.inr (Or.inl ⟨hkdf, Or.inr (Or.inl hr)⟩))
    split at h
    · rename_i hp; exact Or.inr (Or.inr (Or.inl ⟨hkdf, Or.inr (Or.inr hp)⟩))
    exact Or.inr (Or.inr (Or.inr (Or.inr ⟨_, hres _ h⟩)))
  split at h
  · rename_i hkdf
    split at h
    · rename_i hc; exact Or.inr (Or.inr (Or.inr (Or.inl ⟨hkdf, Or.inl hc⟩)))
    split at h
    · rename_i hp; exact Or.inr (Or.inr (Or.inr (Or.inl ⟨hkdf, Or.inr hp⟩)))
    split at h
    · cases h
    exact Or.inr (Or.inr (Or.inr (Or.inr ⟨_, hres _ h⟩)))
  · cases h

/-- a KDF that panics on degenerate parameters, as x/crypto scrypt does for r = 0 or p = 0 (integer division by zero)
    and pbkdf2 for a negative dklen (slice bound). -/
def toyPanicP : Prims :=
  { toyP with kdf := fun req => match req with
      | .scrypt _ _ _ r p dklen => if r = 0 ∨ p = 0 ∨ dklen < 0 then .panic else .ok ((List.range 32).map UInt8.ofNat) 32
      | .pbkdf2 _ _ _ dklen => if dklen < 0 then .panic else .ok ((List.range 32).map UInt8.ofNat) 32 }

def wFileP0 : KeyFile :=
  { wFile with crypto := { wFile.crypto with kdfparams :=
      [(ascii "dklen", .num 32), (ascii "n", .num 2), (ascii "p", .num 0), (ascii "r", .num 8), (ascii "salt", .str (ascii "010203"))] } }

/-- Witness for the clause "fails WITH AN ERROR": nothing in DecryptKey catches a panic of the KDF call, so a key file
    whose scrypt `p` was altered from 1 to 0 makes DecryptKey (and GetKey) panic rather than return an error. -/
theorem decryptKey_kdf_panic_witness :
    decryptKey toyPanicP wFile (ascii "pw") = .ok ⟨5, toyP.addrOf 5⟩ ∧
    decryptKey toyPanicP wFileP0 (ascii "pw") = .panic ∧
    getKey toyPanicP (toyP.addrOf 5) wFileP0 (ascii "pw") = .panic := by
  refine ⟨by decide, by decide, by decide⟩

/-! ## Non-vacuity: the hypotheses of the theorems above are satisfiable on non-trivial instances -/

/-- roundtrip: a scalar with 31 leading zero bytes under the toy primitives. -/
example : ∃ f, encryptKey toyP 5 (toyP.addrOf 5) [] (ascii "pw") [1, 2, 3] wIv 2 1 = .ok f ∧
    decryptKey toyP f (ascii "pw") = .ok ⟨5, toyP.addrOf 5⟩ := by
  obtain ⟨f, h1, _, h3, _⟩ := roundtrip toyP 5 (by decide) (toyP.addrOf 5) [] (ascii "pw") [1, 2, 3] wIv 2 1
    ((List.range 32).map UInt8.ofNat) 32 rfl (by decide) (by decide)
  exact ⟨f, h1, h3⟩

/-- a KDF that depends on the passphrase: first byte of the passphrase added to every output byte. -/
def toyP2 : Prims :=
  { toyP with kdf := fun req => match req with
      | .scrypt pw _ _ _ _ _ => .ok ((List.range 32).map (fun i => UInt8.ofNat i + pw.headD 0)) 32
      | .pbkdf2 pw _ _ _ => .ok ((List.range 32).map (fun i => UInt8.ofNat i + pw.headD 0)) 32 }

def wFile2 : KeyFile :=
  match encryptKey toyP2 5 (toyP.addrOf 5) [] (ascii "pw") [1, 2, 3] wIv 2 1 with
  | .ok f => f
  | _ => ⟨false, none, false, false, 0, [], [], ⟨[], [], [], [], [], []⟩⟩

/-- wrong_pass_rejected: all hypotheses hold for ("pw", "qw") under toyP2 (H = id is collision-free), and the conclusion
    is observed. -/
example : decryptKey toyP2 wFile2 (ascii "pw") = .ok ⟨5, toyP.addrOf 5⟩ ∧
    decryptKey toyP2 wFile2 (ascii "qw") = .err .decrypt := by
  refine ⟨by decide, ?_⟩
  exact wrong_pass_rejected toyP2 wFile2 (ascii "pw") (ascii "qw") ⟨5, toyP.addrOf 5⟩ (by decide)
    ((List.range 32).map (fun i => UInt8.ofNat i + 112)) ((List.range 32).map (fun i => UInt8.ofNat i + 113)) 32 32
    (by decide) (by decide) (by decide) (by decide) (fun ct _ h => h)

/-- tamper theorem: hypotheses satisfiable with f' = f except `dklen` 32 -> 12 (the KDF buffer is the same), and the
    tampered file still opens to the original key. -/
def wFileDk : KeyFile :=
  { wFile with crypto := { wFile.crypto with kdfparams :=
      [(ascii "dklen", .num 12), (ascii "n", .num 2), (ascii "p", .num 1), (ascii "r", .num 8), (ascii "salt", .str (ascii "010203"))] } }

example : decryptKey toyP wFileDk (ascii "pw") = .ok ⟨5, toyP.addrOf 5⟩ := by decide

example : ∀ k', decryptKey toyP wFileDk (ascii "pw") = .ok k' → k' = ⟨5, toyP.addrOf 5⟩ := by
  intro k' hk'
  exact tamper_ct_mac_salt_params_rejected toyP wFile wFileDk (ascii "pw") _ k' (by decide) hk' rfl rfl (Or.inl rfl)
    (fun _ _ _ _ _ _ _ _ _ _ h => h)
    (fun buf buf' _ _ h1 h2 _ => by
      have e1 : getKDFKey toyP wFile.crypto (ascii "pw") = .ok ((List.range 32).map UInt8.ofNat, 32) := by decide
      have e2 : getKDFKey toyP wFileDk.crypto (ascii "pw") = .ok ((List.range 32).map UInt8.ofNat, 32) := by decide
      rw [e1] at h1; rw [e2] at h2
      injection h1 with h1; injection h2 with h2
      injection h1 with h1 _; injection h2 with h2 _
      rw [← h1, ← h2])

/-- tamper_ct_rejected / tamper_mac_rejected: hypotheses satisfiable (one ciphertext / MAC character changed). -/
example : ∀ k', decryptKey toyP { wFile with crypto := { wFile.crypto with
      ciphertext := ascii "1000000000000000000000000000000000000000000000000000000000000005" } } (ascii "pw") ≠ .ok k' :=
  tamper_ct_rejected toyP wFile (ascii "pw") ⟨5, toyP.addrOf 5⟩ _ (by decide) (by decide) (fun _ _ _ _ _ _ _ h => h)

example : ∀ k', decryptKey toyP { wFile with crypto := { wFile.crypto with mac := ascii "00" } } (ascii "pw") ≠ .ok k' :=
  tamper_mac_rejected toyP wFile (ascii "pw") ⟨5, toyP.addrOf 5⟩ _ (by decide) (by decide)

/-- tamper_never_yields_other_key: hypotheses satisfiable (the same file twice), and getKey_rejects_iv_tamper applies to the
    IV-tampered witness. -/
example : getKey toyP (toyP.addrOf 5) wFile (ascii "pw") = .ok ⟨5, toyP.addrOf 5⟩ := by decide
example : getKey toyP (toyP.addrOf 5) wFileIv (ascii "pw") = .err .mismatch :=
  getKey_rejects_iv_tamper toyP _ wFileIv (ascii "pw") ⟨2 ^ 252 + 5, toyP.addrOf (2 ^ 252 + 5)⟩ (by decide) (by decide)

/-- decryptKey_iv_tamper_yields_other_key: hypotheses satisfiable on the witness file. -/
example : ∃ pt', decryptBytes toyP { wFile with crypto := { wFile.crypto with iv := hexEncode (1 :: List.replicate 15 0) } }
    (ascii "pw") = .ok pt' ∧ pt' ≠ paddedBigBytes 5 32 :=
  decryptKey_iv_tamper_yields_other_key toyP wFile (ascii "pw") (paddedBigBytes 5 32) (by decide) (by decide) wIv
    (1 :: List.replicate 15 0) (by decide) (by decide) ((List.range 32).map UInt8.ofNat) 32 (by decide) 0 (by decide) (by decide)

/-- decrypt_total_partial: a panicking instance exists (see decryptKey_kdf_panic_witness) and it falls under the first
    disjunct. -/
example : getKDFKey toyPanicP wFileP0.crypto (ascii "pw") = .panic := by decide

end Aqv.Props.C20

/-
  C20 — Keystore encryption round-trips and rejects wrong passphrases and tampering.  Property theorems only.
  Model: Aqv.Model.Keystore (EncryptKey / DecryptKey v3+v1 / getKDFKey / GetKey of aqua/accounts/keystore).
  KDF (scrypt, PBKDF2), Keccak-256 (`H`), the AES-CTR keystream, AES-CBC and scalar->address are parameters (`Prims`);
  every theorem holds for ALL instantiations of them.  Where a clause needs a cryptographic fact it is an explicit
  hypothesis about the finitely many values involved (collision-freedom of `H` on two MAC inputs, the KDF output
  differing on bytes 16..32, address derivation separating two scalars).

  The model mirrors /repo at or after a73be14 (DecryptKey compares the decrypted key with the file's "address") and e55659c
  (KDF parameters and IV validated instead of panicking).

  Clause map
    "recovered with that passphrase as the identical key and address"      roundtrip, roundtrip_keeps_leading_zeros,
                                                                            short_plaintext_roundtrip (legacy files with stripped zeros),
                                                                            update_then_read, update_then_unlock (file = last write),
                                                                            write_without_truncation_leaves_residue,
                                                                            unlocked_key_is_stored_key (the key Sign* uses, over unlock histories),
                                                                            indefinite_unlock_survives
    "with any other passphrase unlocking fails with an error"              wrong_pass_rejected, wrong_pass_never_unlocks
    "after modification of ciphertext, MAC, salt, KDF parameters ..."      tamper_ct_mac_salt_params_rejected,
                                                                            tamper_ct_rejected, tamper_mac_rejected
    "... or IV ... never a different key / account with another address"   tamper_never_yields_other_key (KeyStore.GetKey level),
                                                                            decryptKey_tamper_never_yields_other_key (bare DecryptKey, file
                                                                            carries its address), import_never_yields_other_account
                                                                            (KeyStore.Import), decryptKey_rejects_key_of_other_address;
                                                                            residual (file WITHOUT an address field, not written by this
                                                                            keystore): decryptKey_no_address_iv_tamper_residual(+_witness)
    "fails WITH AN ERROR" (not a crash)                                    decrypt_total, decrypt_panic_only_from_kdf,
                                                                            degenerate_kdfparams_are_errors
-/
import Aqv.Lemmas.Keystore
namespace Aqv.Props.C20
open Aqv Aqv.Keystore

/-! ## 1. Round trip -/

/-- For every private scalar `d` (in particular small ones, whose 32-byte encoding starts with zero bytes), every passphrase,
    salt, IV and scrypt parameters (p positive), the key's Address being the one derived from `d` (newKeyFromECDSA):
    if the KDF delivers a key (32 bytes or more), `EncryptKey` produces a file that
    `DecryptKey` opens, under the same passphrase, to exactly `d` with the address derived from `d`; and
    `KeyStore`-level `GetKey` for that address accepts it. -/
theorem roundtrip (P : Prims) (d : Nat) (hd : d < secpN) (addr id auth salt iv : Bytes) (n p : Int) (hp0 : 0 < p)
    (haddr : addr = P.addrOf d)
    (buf : Bytes) (len : Nat) (hk : P.kdf (.scrypt auth salt n scryptR p scryptDKLen) = .ok buf len)
    (hcap : 32 ≤ buf.length) (hiv : iv.length = 16) :
    ∃ f, encryptKey P d addr id auth salt iv n p = .ok f ∧
         decryptBytes P f auth = .ok (paddedBigBytes d 32) ∧
         decryptKey P f auth = .ok ⟨d, P.addrOf d⟩ ∧
         getKey P (P.addrOf d) f auth = .ok ⟨d, P.addrOf d⟩ := by
  have hpt : ∀ f, encryptKey P d addr id auth salt iv n p = .ok f → decryptBytes P f auth = .ok (paddedBigBytes d 32) := by
    intro f hf
    unfold encryptKey at hf
    rw [hk] at hf
    simp only [if_neg (show ¬ buf.length < 32 by omega), hiv, ne_eq, not_true_eq_false, if_false] at hf
    injection hf with hf
    subst hf
    have hkdf := getKDFKey_scryptParams P
      { cipher := ascii "aes-128-ctr", ciphertext := hexEncode (xorStream (P.ks (encKey buf) iv) 0 (paddedBigBytes d 32)),
        iv := hexEncode iv, kdf := ascii "scrypt", kdfparams := scryptParams n p salt,
        mac := hexEncode (P.H (macKey buf ++ xorStream (P.ks (encKey buf) iv) 0 (paddedBigBytes d 32))) } auth salt n p hp0 rfl rfl
    rw [hk] at hkdf
    have hcm := checkMac_of (P := P) (auth := auth) (hexDecode_hexEncode _) (hexDecode_hexEncode iv) (hexDecode_hexEncode _)
      hkdf hcap
    simp only [ne_eq, not_true_eq_false, if_false] at hcm
    simp only [decryptBytes, isV1, decryptKeyV3, scryptParams] at *
    simp only [hcm, hiv, xorStream_xorStream]
    simp
  have henc : ∃ f, encryptKey P d addr id auth salt iv n p = .ok f := by
    unfold encryptKey
    rw [hk]
    simp only [if_neg (show ¬ buf.length < 32 by omega), hiv, ne_eq, not_true_eq_false, if_false]
    exact ⟨_, rfl⟩
  obtain ⟨f, hf⟩ := henc
  have h1 := hpt f hf
  have hfa : f.address = hexEncode addr := by
    unfold encryptKey at hf
    rw [hk] at hf
    simp only [if_neg (show ¬ buf.length < 32 by omega), hiv, ne_eq, not_true_eq_false, if_false] at hf
    injection hf with hf
    subst hf
    rfl
  have hchk : addrCheck P f (scalarOfBytes (paddedBigBytes d 32)) := by
    right
    rw [hfa, fileAddr_hexEncode, scalarOfBytes_padded d hd, haddr]
  refine ⟨f, hf, h1, ?_, ?_⟩
  · rw [decryptKey_of_bytes h1 hchk, scalarOfBytes_padded d hd]
  · unfold getKey
    rw [decryptKey_of_bytes h1 hchk, scalarOfBytes_padded d hd]
    simp

/-- The 32-byte encoding keeps leading zero bytes, and reading it back gives the same scalar (the "31-byte key" slip
    cannot happen): for every valid scalar the encoding has exactly 32 bytes and decodes to the scalar; conversely every
    32-byte string is the encoding of its value. -/
theorem roundtrip_keeps_leading_zeros (d : Nat) (hd : d < secpN) :
    (paddedBigBytes d 32).length = 32 ∧ scalarOfBytes (paddedBigBytes d 32) = d ∧
    ∀ b : Bytes, b.length = 32 → paddedBigBytes (beNat b) 32 = b :=
  ⟨paddedBigBytes_length d (Nat.lt_trans hd secpN_lt), scalarOfBytes_padded d hd, paddedBigBytes_beNat⟩

/-- Read side, legacy key files: some clients wrote the private key with its leading zero bytes STRIPPED (a 31- or 30-byte
    plaintext; the repo's `31_byte_key` / `30_byte_key` vectors).  Whatever width n <= 32 the plaintext has, DecryptKey reads
    it as a big-endian number — i.e. pads on the LEFT — and returns the original scalar `d` (and its 32-byte serialisation
    `paddedBigBytes d 32`), with the file's address, if present, matching; GetKey for that address accepts. -/
theorem short_plaintext_roundtrip (P : Prims) (f : KeyFile) (pw : Bytes) (d n : Nat) (hd : d < secpN) (hn : n ≤ 32)
    (hpt : decryptBytes P f pw = .ok (paddedBigBytes d n))
    (haddr : f.address = [] ∨ fileAddr f.address = some (P.addrOf d)) :
    decryptKey P f pw = .ok ⟨d, P.addrOf d⟩ ∧ getKey P (P.addrOf d) f pw = .ok ⟨d, P.addrOf d⟩ ∧
    (⟨d, P.addrOf d⟩ : Key).bytes = paddedBigBytes d 32 := by
  have hs := scalarOfBytes_padded_any d n hd hn
  have hdk : decryptKey P f pw = .ok ⟨d, P.addrOf d⟩ := by
    have := decryptKey_of_bytes hpt (by unfold addrCheck; rw [hs]; exact haddr)
    rw [hs] at this
    exact this
  refine ⟨hdk, ?_, rfl⟩
  unfold getKey
  rw [hdk]
  simp

/-- KeyStore.Update / writeKeyFile: the stored file after a write is EXACTLY the new blob — whatever was there before, of
    whatever length (a longer scrypt-N encoding, an indented or v1 file): no residue; other paths are untouched. -/
theorem update_then_read (d : Disk) (path blob : Bytes) :
    writeFile d path blob path = some blob ∧ ∀ q, q ≠ path → writeFile d path blob q = d q := by
  refine ⟨by simp [writeFile], ?_⟩
  intro q hq
  simp [writeFile, hq]

/-- why the truncation matters: a write that does not truncate equals the new blob only if the old content was not longer. -/
theorem write_without_truncation_leaves_residue (old new : Bytes) : writeNoTrunc old new = new ↔ old.length ≤ new.length := by
  unfold writeNoTrunc
  constructor
  · intro h
    have := congrArg List.length h
    simp only [List.length_append, List.length_drop] at this
    omega
  · intro h
    rw [List.drop_of_length_le h, List.append_nil]

/-- Update = GetKey under the old passphrase, EncryptKey under the new one, write: afterwards the path holds the new file
    only, it opens under the NEW passphrase to the identical key and address, and every other path is as before. -/
theorem update_then_unlock (P : Prims) (s : Store) (path : Bytes) (d : Nat) (hd : d < secpN)
    (id pwOld pwNew salt iv : Bytes) (n p : Int) (hp0 : 0 < p)
    (_hold : getKeyAt P s (P.addrOf d) path pwOld = some (.ok ⟨d, P.addrOf d⟩))   -- Update got the key with the old passphrase
    (buf : Bytes) (len : Nat) (hk : P.kdf (.scrypt pwNew salt n scryptR p scryptDKLen) = .ok buf len)
    (hcap : 32 ≤ buf.length) (hiv : iv.length = 16) :
    ∃ fNew, encryptKey P d (P.addrOf d) id pwNew salt iv n p = .ok fNew ∧
      getKeyAt P (s.write path fNew) (P.addrOf d) path pwNew = some (.ok ⟨d, P.addrOf d⟩) ∧
      ∀ q, q ≠ path → (s.write path fNew) q = s q := by
  obtain ⟨f, h1, _, _, h4⟩ := roundtrip P d hd (P.addrOf d) id pwNew salt iv n p hp0 rfl buf len hk hcap hiv
  refine ⟨f, h1, ?_, ?_⟩
  · simp [getKeyAt, Store.write, h4]
  · intro q hq
    simp [Store.write, hq]

/-! ## 2. Wrong passphrase -/

/-- Any file (v3 scrypt, v3 pbkdf2 or v1) that opens under `pw`: under a passphrase `pw'` for which the KDF output differs
    on bytes 16..32, and with `H` collision-free on the two MAC inputs, DecryptKey returns ErrDecrypt. -/
theorem wrong_pass_rejected (P : Prims) (f : KeyFile) (pw pw' : Bytes) (k : Key)
    (hok : decryptKey P f pw = .ok k)
    (buf buf' : Bytes) (len len' : Nat)
    (hk : getKDFKey P f.crypto pw = .ok (buf, len)) (hk' : getKDFKey P f.crypto pw' = .ok (buf', len'))
    (hcap' : 32 ≤ buf'.length)
    (hdiff : macKey buf' ≠ macKey buf)
    (hcr : ∀ ct, hexDecode f.crypto.ciphertext = some ct →
      P.H (macKey buf' ++ ct) = P.H (macKey buf ++ ct) → macKey buf' ++ ct = macKey buf ++ ct) :
    decryptKey P f pw' = .err .decrypt := by
  obtain ⟨pt, hpt, _, _⟩ := decryptKey_ok hok
  obtain ⟨hj, b0, iv, ct, hcm, hivl, hcase⟩ := decryptBytes_ok hpt
  obtain ⟨mac, l0, hmac, hiv, hct, hk0, hcap, hH⟩ := checkMac_ok hcm
  rw [hk] at hk0
  injection hk0 with hk0
  injection hk0 with hb hl
  subst hb
  have hne : P.H (macKey buf' ++ ct) ≠ mac := by
    intro h
    have := hcr ct hct (h.trans hH.symm)
    have := List.append_inj_left this (by rw [macKey_length _ hcap', macKey_length _ hcap])
    exact hdiff this
  have hcm' := checkMac_of (P := P) (auth := pw') hmac hiv hct hk' hcap'
  rw [if_pos hne] at hcm'
  unfold decryptKey decryptBytes
  rcases hcase with ⟨hv1, hv3, hver, hcip, _⟩ | ⟨hv1, hv1ok, _, _⟩
  · simp [hj, hv1, hv3, decryptKeyV3, hver, hcip, hcm']
  · simp [hj, hv1, hv1ok, decryptKeyV1, hcm']

/-- Whatever the KDF does under the other passphrase (key, error or panic): as long as *a delivered key* differs on bytes
    16..32 (and `H` does not collide on the two MAC inputs), the other passphrase never unlocks. -/
theorem wrong_pass_never_unlocks (P : Prims) (f : KeyFile) (pw pw' : Bytes) (k : Key)
    (hok : decryptKey P f pw = .ok k)
    (hdiff : ∀ buf buf' len len', getKDFKey P f.crypto pw = .ok (buf, len) → getKDFKey P f.crypto pw' = .ok (buf', len') →
      macKey buf' ≠ macKey buf)
    (hcr : ∀ buf buf' len len' ct, getKDFKey P f.crypto pw = .ok (buf, len) → getKDFKey P f.crypto pw' = .ok (buf', len') →
      hexDecode f.crypto.ciphertext = some ct →
      P.H (macKey buf' ++ ct) = P.H (macKey buf ++ ct) → macKey buf' ++ ct = macKey buf ++ ct) :
    ∀ k', decryptKey P f pw' ≠ .ok k' := by
  intro k' hok'
  obtain ⟨pt, hpt, _, _⟩ := decryptKey_ok hok
  obtain ⟨_, b0, iv, ct, hcm, _, _⟩ := decryptBytes_ok hpt
  obtain ⟨mac, l0, _, _, hct, hk0, _, _⟩ := checkMac_ok hcm
  obtain ⟨pt', hpt', _, _⟩ := decryptKey_ok hok'
  obtain ⟨_, b1, iv', ct', hcm', _, _⟩ := decryptBytes_ok hpt'
  obtain ⟨mac', l1, _, _, _, hk1, hcap1, _⟩ := checkMac_ok hcm'
  have := wrong_pass_rejected P f pw pw' k hok b0 b1 l0 l1 hk0 hk1 hcap1 (hdiff _ _ _ _ hk0 hk1)
    (fun ct hc => hcr _ _ _ _ ct hk0 hk1 hc)
  rw [hok'] at this
  cases this

/-! ## 3. Tampering with ciphertext, MAC, salt, KDF parameters -/

/-- Two files `f` (the stored one) and `f'` (after tampering) read on the same path with the same decoded IV.  If
    (a) the MAC field still decodes to the same bytes (tampering with ciphertext, salt, KDF name or any KDF parameter), or
    (b) ciphertext and derived MAC key are unchanged (tampering with the MAC field),
    then — `H` collision-free on the two MAC inputs, and the two KDF outputs agreeing on bytes 0..16 whenever they agree
    on bytes 16..32 — whatever `f'` opens to under the same passphrase is the ORIGINAL key.
    (So the outcome is an error, a panic, or the original key; never another key.) -/
theorem tamper_ct_mac_salt_params_rejected (P : Prims) (f f' : KeyFile) (pw : Bytes) (k k' : Key)
    (hok : decryptKey P f pw = .ok k) (hok' : decryptKey P f' pw = .ok k')
    (hpath : isV1 f' = isV1 f)
    (hiv : hexDecode f'.crypto.iv = hexDecode f.crypto.iv)
    (hsame : hexDecode f'.crypto.mac = hexDecode f.crypto.mac ∨
             (hexDecode f'.crypto.ciphertext = hexDecode f.crypto.ciphertext ∧
              ∀ buf buf' len len', getKDFKey P f.crypto pw = .ok (buf, len) → getKDFKey P f'.crypto pw = .ok (buf', len') →
                macKey buf' = macKey buf))
    (hcr : ∀ buf buf' len len' ct ct', getKDFKey P f.crypto pw = .ok (buf, len) → getKDFKey P f'.crypto pw = .ok (buf', len') →
      hexDecode f.crypto.ciphertext = some ct → hexDecode f'.crypto.ciphertext = some ct' →
      P.H (macKey buf' ++ ct') = P.H (macKey buf ++ ct) → macKey buf' ++ ct' = macKey buf ++ ct)
    (hbind : ∀ buf buf' len len', getKDFKey P f.crypto pw = .ok (buf, len) → getKDFKey P f'.crypto pw = .ok (buf', len') →
      macKey buf' = macKey buf → encKey buf' = encKey buf) :
    k' = k := by
  obtain ⟨pt, hpt, hkk, _⟩ := decryptKey_ok hok
  obtain ⟨_, b0, iv, ct, hcm, _, hcase⟩ := decryptBytes_ok hpt
  obtain ⟨mac, l0, hmac, hiv0, hct, hk0, hcap0, hH⟩ := checkMac_ok hcm
  obtain ⟨pt', hpt', hkk', _⟩ := decryptKey_ok hok'
  obtain ⟨_, b1, iv', ct', hcm', _, hcase'⟩ := decryptBytes_ok hpt'
  obtain ⟨mac', l1, hmac', hiv1, hct', hk1, hcap1, hH'⟩ := checkMac_ok hcm'
  have hivEq : iv' = iv := by
    rw [hiv1, hiv0] at hiv
    injection hiv
  -- both the MAC key and the ciphertext are the same
  have hboth : macKey b1 = macKey b0 ∧ ct' = ct := by
    rcases hsame with hm | ⟨hc, hmk⟩
    · rw [hmac', hmac] at hm
      injection hm with hm
      have := hcr _ _ _ _ ct ct' hk0 hk1 hct hct' (by rw [hH', hH, hm])
      exact ⟨List.append_inj_left this (by rw [macKey_length _ hcap1, macKey_length _ hcap0]),
             List.append_inj_right this (by rw [macKey_length _ hcap1, macKey_length _ hcap0])⟩
    · rw [hct', hct] at hc
      injection hc with hc
      exact ⟨hmk _ _ _ _ hk0 hk1, hc⟩
  obtain ⟨hmk, hctEq⟩ := hboth
  have hek := hbind _ _ _ _ hk0 hk1 hmk
  subst hivEq; subst hctEq
  have hptEq : pt' = pt := by
    rcases hcase with ⟨hv1, _, _, _, hx⟩ | ⟨hv1, _, _, hu⟩
    · rcases hcase' with ⟨_, _, _, _, hx'⟩ | ⟨hv1', _, _, _⟩
      · rw [hx, hx', hek]
      · rw [hpath, hv1] at hv1'; cases hv1'
    · rcases hcase' with ⟨hv1', _, _, _, _⟩ | ⟨_, _, _, hu'⟩
      · rw [hpath, hv1] at hv1'; cases hv1'
      · rw [hek, hu] at hu'
        injection hu' with hu'
        exact hu'.symm
  rw [hkk, hkk', hptEq]

/-- Ciphertext altered (the hex still decodes, to different bytes), everything else as stored: rejected with ErrDecrypt
    or an earlier error — never opened — provided `H` does not collide on the two MAC inputs. -/
theorem tamper_ct_rejected (P : Prims) (f : KeyFile) (pw : Bytes) (k : Key) (newCt : Bytes)
    (hok : decryptKey P f pw = .ok k)
    (hdiff : hexDecode newCt ≠ hexDecode f.crypto.ciphertext)
    (hcr : ∀ buf len ct ct', getKDFKey P f.crypto pw = .ok (buf, len) →
      hexDecode f.crypto.ciphertext = some ct → hexDecode newCt = some ct' →
      P.H (macKey buf ++ ct') = P.H (macKey buf ++ ct) → macKey buf ++ ct' = macKey buf ++ ct) :
    ∀ k', decryptKey P { f with crypto := { f.crypto with ciphertext := newCt } } pw ≠ .ok k' := by
  intro k' hok'
  obtain ⟨pt, hpt, _, _⟩ := decryptKey_ok hok
  obtain ⟨_, b0, iv, ct, hcm, _, _⟩ := decryptBytes_ok hpt
  obtain ⟨mac, l0, hmac, _, hct, hk0, hcap0, hH⟩ := checkMac_ok hcm
  obtain ⟨pt', hpt', _, _⟩ := decryptKey_ok hok'
  obtain ⟨_, b1, iv', ct', hcm', _, _⟩ := decryptBytes_ok hpt'
  obtain ⟨mac', l1, hmac', _, hct', hk1, _, hH'⟩ := checkMac_ok hcm'
  -- the KDF sees the same parameters
  have hkdfEq : getKDFKey P { f.crypto with ciphertext := newCt } pw = getKDFKey P f.crypto pw := rfl
  simp only at hmac' hct' hk1
  rw [hkdfEq, hk0] at hk1
  injection hk1 with hk1
  injection hk1 with hb _
  subst hb
  rw [hmac] at hmac'
  injection hmac' with hm
  have := hcr _ _ ct ct' hk0 hct hct' (by rw [hH', hH, hm])
  have := List.append_inj_right this rfl
  apply hdiff
  rw [hct', hct, this]

/-- MAC field altered (to anything that does not decode to the stored MAC bytes), everything else as stored: rejected.
    No cryptographic assumption needed. -/
theorem tamper_mac_rejected (P : Prims) (f : KeyFile) (pw : Bytes) (k : Key) (newMac : Bytes)
    (hok : decryptKey P f pw = .ok k)
    (hdiff : hexDecode newMac ≠ hexDecode f.crypto.mac) :
    ∀ k', decryptKey P { f with crypto := { f.crypto with mac := newMac } } pw ≠ .ok k' := by
  intro k' hok'
  obtain ⟨pt, hpt, _, _⟩ := decryptKey_ok hok
  obtain ⟨_, b0, iv, ct, hcm, _, _⟩ := decryptBytes_ok hpt
  obtain ⟨mac, l0, hmac, _, hct, hk0, _, hH⟩ := checkMac_ok hcm
  obtain ⟨pt', hpt', _, _⟩ := decryptKey_ok hok'
  obtain ⟨_, b1, iv', ct', hcm', _, _⟩ := decryptBytes_ok hpt'
  obtain ⟨mac', l1, hmac', _, hct', hk1, _, hH'⟩ := checkMac_ok hcm'
  have hkdfEq : getKDFKey P { f.crypto with mac := newMac } pw = getKDFKey P f.crypto pw := rfl
  simp only at hmac' hct' hk1
  rw [hkdfEq, hk0] at hk1
  injection hk1 with hk1
  injection hk1 with hb _
  subst hb
  rw [hct] at hct'
  injection hct' with hc
  subst hc
  apply hdiff
  rw [hmac', hmac, ← hH, ← hH']

/-! ## 4. KeyStore level: nothing but the account's own key is ever handed out -/

/-- `keyStorePassphrase.GetKey` (what Unlock / SignWithPassphrase / Export / Update / Delete go through): for ANY two
    files and passphrases — i.e. after arbitrary tampering with any field including the IV, or a swapped file — a
    successful result carries the requested account's address, and that address is the one derived from the returned
    scalar.  If address derivation separates the two scalars (no address collision) the two keys are identical. -/
theorem tamper_never_yields_other_key (P : Prims) (a : Bytes) (f f' : KeyFile) (pw pw' : Bytes) (k k' : Key)
    (hok : getKey P a f pw = .ok k) (hok' : getKey P a f' pw' = .ok k') :
    k.addr = a ∧ k'.addr = a ∧ k'.addr = P.addrOf k'.d ∧
    ((P.addrOf k'.d = P.addrOf k.d → k'.d = k.d) → k' = k) := by
  have key : ∀ (g : KeyFile) (q : Bytes) (x : Key), getKey P a g q = .ok x → x.addr = a ∧ x.addr = P.addrOf x.d := by
    intro g q x h
    unfold getKey at h
    split at h
    · rename_i k0 hk0
      split at h
      · cases h
      · rename_i hne
        injection h with h
        subst h
        obtain ⟨pt, _, hk, _⟩ := decryptKey_ok hk0
        refine ⟨by simpa using hne, ?_⟩
        rw [hk]
    · rename_i hno
      exact absurd h (hno x)
  obtain ⟨h1, h2⟩ := key f pw k hok
  obtain ⟨h1', h2'⟩ := key f' pw' k' hok'
  refine ⟨h1, h1', h2', ?_⟩
  intro hinj
  have hd : k'.d = k.d := hinj (by rw [← h2', ← h2, h1, h1'])
  cases k; cases k'
  simp only at hd h1 h1'
  subst hd; subst h1; subst h1'
  rfl

/-- GetKey = DecryptKey + address comparison (the only difference between the two levels). -/
theorem getKey_ok_iff (P : Prims) (a : Bytes) (f : KeyFile) (pw : Bytes) (k : Key) :
    getKey P a f pw = .ok k ↔ decryptKey P f pw = .ok k ∧ k.addr = a := by
  unfold getKey
  constructor
  · intro h
    split at h
    · rename_i k0 hk0
      split at h
      · cases h
      · rename_i hne
        injection h with h
        subst h
        exact ⟨hk0, by simpa using hne⟩
    · rename_i hno
      exact absurd h (hno k)
  · intro ⟨h, ha⟩
    rw [h]
    simp [ha]

/-- every live entry of the unlocked table is a key its account's file opens to. -/
def UnlockedOK (P : Prims) (s : KsState) : Prop :=
  ∀ a k t, s.unlocked a = some (k, t) → ∃ f pw, s.store a = some f ∧ getKey P a f pw = .ok k

/-- Unlock-state histories: after ANY sequence of Unlock / TimedUnlock (right or wrong passphrase, on locked or already
    unlocked accounts), Lock / expiry and Update, starting with nothing unlocked, whatever sits in the unlocked table for
    account `a` — the key SignHash and SignTx use — is a key the account's stored file opens to, so it has the account's
    address (address derivation assumed collision-free across Update).  In particular a second successful unlock never
    damages or replaces the live key by anything else. -/
theorem unlocked_key_is_stored_key (P : Prims) (hinj : ∀ d d', P.addrOf d = P.addrOf d' → d = d')
    (s0 : KsState) (h0 : ∀ a, s0.unlocked a = none) (ops : List KsOp) :
    UnlockedOK P (ops.foldl (KsState.step P) s0) ∧
    ∀ a k, (ops.foldl (KsState.step P) s0).signingKey a = some k → k.addr = a := by
  have step : ∀ (s : KsState) (op : KsOp), UnlockedOK P s → UnlockedOK P (s.step P op) := by
    intro s op hs
    cases op with
    | unlock a pw timed =>
      simp only [KsState.step]
      cases hst : s.store a with
      | none => simpa [hst] using hs
      | some f =>
        simp only [Option.map_some]
        cases hg : getKey P a f pw with
        | err e => simpa using hs
        | panic => simpa using hs
        | ok k =>
          simp only
          cases hu : s.unlocked a with
          | none =>
            simp only
            intro x k' t hx
            by_cases hxa : x = a
            · subst hxa
              simp at hx
              obtain ⟨h1, _⟩ := hx
              subst h1
              exact ⟨f, pw, hst, hg⟩
            · simp [hxa] at hx
              exact hs x k' t hx
          | some e =>
            obtain ⟨k0, t0⟩ := e
            cases t0 with
            | false => simpa using hs
            | true =>
              simp only
              intro x k' t hx
              by_cases hxa : x = a
              · subst hxa
                simp at hx
                obtain ⟨h1, _⟩ := hx
                subst h1
                exact ⟨f, pw, hst, hg⟩
              · simp [hxa] at hx
                exact hs x k' t hx
    | lock a =>
      simp only [KsState.step]
      intro x k t hx
      by_cases hxa : x = a
      · simp [hxa] at hx
      · simp [hxa] at hx
        exact hs x k t hx
    | update a pwOld pwNew fNew =>
      simp only [KsState.step]
      cases hst : s.store a with
      | none => simpa [hst] using hs
      | some f =>
        simp only [Option.map_some]
        cases hg : getKey P a f pwOld with
        | err e => simpa using hs
        | panic => simpa using hs
        | ok k =>
          simp only
          by_cases hn : getKey P a fNew pwNew = .ok k
          · rw [if_pos hn]
            intro x k' t hx
            by_cases hxa : x = a
            · subst hxa
              obtain ⟨f0, pw0, hf0, hk0⟩ := hs x k' t hx
              rw [hst] at hf0
              injection hf0 with hf0
              subst hf0
              -- the live key and the key Update decrypted come from the same file: they are the same key
              have := (tamper_never_yields_other_key P x f f pwOld pw0 k k' hg hk0).2.2.2 (hinj _ _)
              subst this
              exact ⟨fNew, pwNew, by simp, hn⟩
            · obtain ⟨f0, pw0, hf0, hk0⟩ := hs x k' t hx
              exact ⟨f0, pw0, by simp [hxa, hf0], hk0⟩
          · rw [if_neg hn]; exact hs
  have all : ∀ (ops : List KsOp) (s : KsState), UnlockedOK P s → UnlockedOK P (ops.foldl (KsState.step P) s) := by
    intro ops
    induction ops with
    | nil => intro s hs; exact hs
    | cons op rest ih => intro s hs; exact ih _ (step s op hs)
  have hfin := all ops s0 (by intro a k t h; rw [h0 a] at h; cases h)
  refine ⟨hfin, ?_⟩
  intro a k hk
  unfold KsState.signingKey at hk
  cases hu : (ops.foldl (KsState.step P) s0).unlocked a with
  | none => rw [hu] at hk; cases hk
  | some e =>
    obtain ⟨k0, t⟩ := e
    rw [hu] at hk
    simp at hk
    subst hk
    obtain ⟨f, pw, _, hg⟩ := hfin a k0 t hu
    exact ((getKey_ok_iff P a f pw k0).mp hg).2

/-- The step the harness histories replay through the driver: an account that is unlocked INDEFINITELY keeps exactly its live
    key through any further Unlock / TimedUnlock, right or wrong passphrase (the fresh copy is the one discarded) — and
    `Lock` / expiry empties the entry, so signing answers ErrLocked. -/
theorem indefinite_unlock_survives (P : Prims) (s : KsState) (a pw : Bytes) (timed : Bool) (k : Key)
    (h : s.unlocked a = some (k, false)) :
    (s.step P (.unlock a pw timed)).unlocked a = some (k, false) ∧
    (s.step P (.unlock a pw timed)).signingKey a = some k ∧ (s.step P (.lock a)).signingKey a = none := by
  have h1 : (s.step P (.unlock a pw timed)).unlocked a = some (k, false) := by
    simp only [KsState.step]
    cases hst : s.store a with
    | none => simpa using h
    | some f =>
      simp only [Option.map_some]
      cases hg : getKey P a f pw with
      | err e => simpa using h
      | panic => simpa using h
      | ok k' => simp only [h]
  refine ⟨h1, ?_, ?_⟩
  · simp [KsState.signingKey, h1]
  · simp [KsState.signingKey, KsState.step]

/-! ## 5. Bare DecryptKey and KeyStore.Import: the file's own address authenticates what the MAC does not cover -/

/-- What a73be14 added: whenever `DecryptKey` succeeds on a file that names an address, the returned key HAS that address. -/
theorem decryptKey_ok_matches_file_address (P : Prims) (f : KeyFile) (pw : Bytes) (k : Key)
    (hok : decryptKey P f pw = .ok k) (ha : f.address ≠ []) :
    fileAddr f.address = some k.addr ∧ k.addr = P.addrOf k.d := by
  obtain ⟨pt, _, hk, hc⟩ := decryptKey_ok hok
  rcases hc with hc | hc
  · exact absurd hc ha
  · rw [hk]; exact ⟨hc, rfl⟩

/-- Bare `DecryptKey`, a key file that carries its address (every file written by EncryptKey / this keystore does): after ANY
    modification that leaves the address field alone — ciphertext, MAC, salt, KDF parameters, IV, cipher, version, several at
    once, under any passphrase — a successful result has the ORIGINAL address, and (address derivation separating the two
    scalars) is the ORIGINAL key.  No assumption on KDF, MAC or cipher. -/
theorem decryptKey_tamper_never_yields_other_key (P : Prims) (f f' : KeyFile) (pw pw' : Bytes) (k k' : Key)
    (hok : decryptKey P f pw = .ok k) (hok' : decryptKey P f' pw' = .ok k')
    (ha : f.address ≠ []) (hsame : f'.address = f.address) :
    k'.addr = k.addr ∧ ((P.addrOf k'.d = P.addrOf k.d → k'.d = k.d) → k' = k) := by
  obtain ⟨h1, h2⟩ := decryptKey_ok_matches_file_address P f pw k hok ha
  obtain ⟨h1', h2'⟩ := decryptKey_ok_matches_file_address P f' pw' k' hok' (by rw [hsame]; exact ha)
  rw [hsame, h1] at h1'
  injection h1' with h1'
  refine ⟨h1'.symm, ?_⟩
  intro hinj
  have hd : k'.d = k.d := hinj (by rw [← h2', ← h2, h1'])
  cases k; cases k'
  simp only at hd h1'
  subst hd; subst h1'
  rfl

/-- The same at `KeyStore.Import` level: the account Import stores for a tampered JSON (address field untouched) has the
    address of the original key — "never an account with a different address". -/
theorem import_never_yields_other_account (P : Prims) (f f' : KeyFile) (pw pw' : Bytes) (a a' : Bytes)
    (hok : importAccount P f pw = .ok a) (hok' : importAccount P f' pw' = .ok a')
    (ha : f.address ≠ []) (hsame : f'.address = f.address) : a' = a := by
  have inv : ∀ (g : KeyFile) (q x : Bytes), importAccount P g q = .ok x → ∃ k, decryptKey P g q = .ok k ∧ k.addr = x := by
    intro g q x h
    unfold importAccount at h
    split at h
    · rename_i k hk
      injection h with h
      exact ⟨k, hk, h⟩
    · cases h
    · cases h
  obtain ⟨k, hk, e⟩ := inv f pw a hok
  obtain ⟨k', hk', e'⟩ := inv f' pw' a' hok'
  rw [← e, ← e']
  exact (decryptKey_tamper_never_yields_other_key P f f' pw pw' k k' hk hk' ha hsame).1

/-- How an altered IV (or anything else that makes the plaintext come out different) ends: if the bytes decrypt to a scalar
    whose address is not the one the file names, `DecryptKey` returns the "key file corrupted" error. -/
theorem decryptKey_rejects_key_of_other_address (P : Prims) (f : KeyFile) (pw pt : Bytes)
    (hpt : decryptBytes P f pw = .ok pt) (ha : f.address ≠ [])
    (hother : fileAddr f.address ≠ some (P.addrOf (scalarOfBytes pt))) :
    decryptKey P f pw = .err .corrupted ∧ importAccount P f pw = .err .corrupted := by
  have h := decryptKey_corrupted hpt ha hother
  exact ⟨h, by unfold importAccount; rw [h]⟩

/-- RESIDUAL (not reachable for files this keystore wrote, which always carry "address"; reachable for key files of other
    tools that omit it): the IV is outside the MAC, so for a v3 file WITHOUT an address field, replacing the IV by any other
    16-byte value whose keystream differs within the ciphertext length makes bare `DecryptKey` succeed with different key
    bytes — it has nothing to compare against.  `KeyStore.GetKey` still compares with the account's address
    (`tamper_never_yields_other_key`, `getKey_rejects_iv_tamper`). -/
theorem decryptKey_no_address_iv_tamper_residual (P : Prims) (f : KeyFile) (pw pt : Bytes)
    (hok : decryptBytes P f pw = .ok pt) (hv3 : isV1 f = false) (hna : f.address = [])
    (iv iv' : Bytes) (hiv : hexDecode f.crypto.iv = some iv) (hlen : iv'.length = 16)
    (buf : Bytes) (len : Nat) (hk : getKDFKey P f.crypto pw = .ok (buf, len))
    (i : Nat) (hi : i < pt.length) (hks : P.ks (encKey buf) iv' i ≠ P.ks (encKey buf) iv i) :
    ∃ pt', pt' ≠ pt ∧
      decryptKey P { f with crypto := { f.crypto with iv := hexEncode iv' } } pw =
        .ok ⟨scalarOfBytes pt', P.addrOf (scalarOfBytes pt')⟩ := by
  obtain ⟨hj, b0, iv0, ct, hcm, hivl, hcase⟩ := decryptBytes_ok hok
  obtain ⟨mac, l0, hmac, hiv0, hct, hk0, hcap0, hH⟩ := checkMac_ok hcm
  rw [hiv] at hiv0
  injection hiv0 with hiv0
  subst hiv0
  rw [hk] at hk0
  injection hk0 with hk0
  injection hk0 with hb _
  subst hb
  rcases hcase with ⟨_, hv3ok, hver, hcip, hx⟩ | ⟨hv1, _, _, _⟩
  · refine ⟨xorStream (P.ks (encKey buf) iv') 0 ct, ?_, ?_⟩
    · rw [hx]
      have hl : pt.length = ct.length := by rw [hx, xorStream_length]
      exact xorStream_ne _ _ 0 ct i (by omega) (by simpa using hks)
    · have hkdfEq : getKDFKey P { f.crypto with iv := hexEncode iv' } pw = .ok (buf, len) := hk
      have hcm' := checkMac_of (P := P) (c := { f.crypto with iv := hexEncode iv' }) (auth := pw) hmac
        (hexDecode_hexEncode iv') hct hkdfEq hcap0
      rw [if_neg (by simpa using hH)] at hcm'
      have hb := decryptBytes_v3_of (f := { f with crypto := { f.crypto with iv := hexEncode iv' } }) hj hv3 hv3ok hver hcip hcm' hlen
      exact decryptKey_of_bytes hb (Or.inl hna)
  · rw [hv3] at hv1; cases hv1

/-- Toy primitives satisfying every cryptographic hypothesis used above: `H` injective (identity), address derivation
    injective, a constant KDF.  The keystream depends on the IV. -/
def toyP : Prims where
  kdf := fun _ => .ok ((List.range 32).map UInt8.ofNat) 32
  H := id
  ks := fun _ iv i => iv.getD i 0
  cbc := fun _ _ c => c
  addrOf := fun d => beBytes d

def wIv : Bytes := List.replicate 16 0
def wFile : KeyFile :=
  match encryptKey toyP 5 (toyP.addrOf 5) [] (ascii "pw") [1, 2, 3] wIv 2 1 with
  | .ok f => f
  | _ => ⟨false, none, false, false, 0, [], [], ⟨[], [], [], [], [], []⟩⟩
/-- the stored file with ONE character of the IV field changed ('0' -> '1' in the first position). -/
def wFileIv : KeyFile := { wFile with crypto := { wFile.crypto with iv := ascii "10000000000000000000000000000000" } }
/-- the same two files with the "address" field removed (as some other wallets write them). -/
def wFileNoAddr : KeyFile := { wFile with address := [] }
def wFileNoAddrIv : KeyFile := { wFileIv with address := [] }

/-- Concrete picture of both sides on one stored key (scalar 5): the file EncryptKey wrote opens to 5; with one IV character
    changed, bare DecryptKey and Import now answer "key file corrupted" (before a73be14: another key, silently) and GetKey
    rejects as before; only with the address field stripped does bare DecryptKey still hand out another key. -/
theorem decryptKey_no_address_iv_tamper_residual_witness :
    encryptKey toyP 5 (toyP.addrOf 5) [] (ascii "pw") [1, 2, 3] wIv 2 1 = .ok wFile ∧
    decryptKey toyP wFile (ascii "pw") = .ok ⟨5, toyP.addrOf 5⟩ ∧
    ((wFile.crypto.iv.zip wFileIv.crypto.iv).filter (fun p => p.1 != p.2)).length = 1 ∧
    decryptKey toyP wFileIv (ascii "pw") = .err .corrupted ∧
    importAccount toyP wFileIv (ascii "pw") = .err .corrupted ∧
    decryptKey toyP wFileNoAddr (ascii "pw") = .ok ⟨5, toyP.addrOf 5⟩ ∧
    decryptKey toyP wFileNoAddrIv (ascii "pw") = .ok ⟨2 ^ 252 + 5, toyP.addrOf (2 ^ 252 + 5)⟩ ∧
    getKey toyP (toyP.addrOf 5) wFileNoAddrIv (ascii "pw") = .err .mismatch := by
  refine ⟨by decide, by decide, by decide, by decide, by decide, by decide, by decide, by decide⟩

/-- Positive statement at KeyStore level for whatever bare DecryptKey returns: a key whose address differs from the account's
    is answered with the mismatch error. -/
theorem getKey_rejects_iv_tamper (P : Prims) (a : Bytes) (f' : KeyFile) (pw : Bytes) (k' : Key)
    (hdec : decryptKey P f' pw = .ok k') (haddr : k'.addr ≠ a) :
    getKey P a f' pw = .err .mismatch := by
  unfold getKey
  rw [hdec]
  simp [haddr]

/-! ## 6. "fails with an error": DecryptKey is total -/

/-- a KDF request with the parameters getKDFKey lets through. -/
def KdfReq.positive : KdfReq → Prop
  | .scrypt _ _ _ r p dklen => 0 < r ∧ 0 < p ∧ 0 < dklen
  | .pbkdf2 _ _ _ dklen => 0 < dklen

/-- what scrypt / PBKDF2 do on positive parameters: no panic, and the returned slice sits in whole 32-byte blocks. -/
def KdfSane (P : Prims) : Prop :=
  ∀ req, KdfReq.positive req → P.kdf req ≠ .panic ∧ ∀ buf len, P.kdf req = .ok buf len → 32 ≤ buf.length

/-- getKDFKey either fails with an error or is the KDF called on POSITIVE r, p, dklen (e55659c). -/
theorem getKDFKey_error_or_positive_call (P : Prims) (c : Crypto) (pw : Bytes) :
    (∃ e, getKDFKey P c pw = .err e) ∨ ∃ req, KdfReq.positive req ∧ getKDFKey P c pw = kdfRes (P.kdf req) := by
  unfold getKDFKey
  split
  · exact Or.inl ⟨_, rfl⟩
  split
  · exact Or.inl ⟨_, rfl⟩
  split
  · exact Or.inl ⟨_, rfl⟩
  rename_i dkLen _
  split
  · exact Or.inl ⟨_, rfl⟩
  rename_i hdk
  split
  · split
    · exact Or.inl ⟨_, rfl⟩
    split
    · exact Or.inl ⟨_, rfl⟩
    split
    · exact Or.inl ⟨_, rfl⟩
    split
    · exact Or.inl ⟨_, rfl⟩
    rename_i hrp
    refine Or.inr ⟨_, ?_, rfl⟩
    simp only [KdfReq.positive]
    omega
  split
  · split
    · exact Or.inl ⟨_, rfl⟩
    split
    · exact Or.inl ⟨_, rfl⟩
    split
    · exact Or.inl ⟨_, rfl⟩
    refine Or.inr ⟨_, ?_, rfl⟩
    simp only [KdfReq.positive]
    omega
  · exact Or.inl ⟨_, rfl⟩

/-- Unconditionally: the only ways left for DecryptKey to panic are a panic of the KDF call itself or a derived-key buffer
    of capacity below 32 — never a kdfparams entry, never the IV, never the ciphertext length. -/
theorem decrypt_panic_only_from_kdf (P : Prims) (f : KeyFile) (pw : Bytes) (h : decryptKey P f pw = .panic) :
    getKDFKey P f.crypto pw = .panic ∨ ∃ buf len, getKDFKey P f.crypto pw = .ok (buf, len) ∧ buf.length < 32 := by
  have hcm : ∀ (c : Crypto), checkMac P c pw = .panic →
      getKDFKey P c pw = .panic ∨ (∃ buf len, getKDFKey P c pw = .ok (buf, len) ∧ buf.length < 32) := by
    intro c hc
    unfold checkMac at hc
    split at hc
    · cases hc
    split at hc
    · cases hc
    split at hc
    · cases hc
    split at hc
    · cases hc
    · rename_i hp; exact Or.inl hp
    · rename_i buf len hk
      split at hc
      · rename_i hl; exact Or.inr ⟨buf, len, hk, hl⟩
      · split at hc <;> cases hc
  unfold decryptKey at h
  split at h
  · cases h
  · rename_i hb
    unfold decryptBytes at hb
    split at hb
    · cases hb
    split at hb
    · split at hb
      · cases hb
      unfold decryptKeyV1 at hb
      split at hb
      · cases hb
      · rename_i hp; exact hcm _ hp
      · split at hb
        · cases hb
        · split at hb <;> cases hb
    · split at hb
      · cases hb
      unfold decryptKeyV3 at hb
      split at hb
      · cases hb
      split at hb
      · cases hb
      split at hb
      · cases hb
      · rename_i hp; exact hcm _ hp
      · split at hb <;> cases hb
  · simp only at h
    split at h <;> cases h

/-- TOTALITY: with a KDF that behaves like scrypt / PBKDF2 on positive parameters, `DecryptKey`, `GetKey` and `Import` never
    panic on ANY key file and passphrase — every failure is an error value.  (Before e55659c: `"p":0`, `"r":0`, `"dklen":-2`,
    a missing kdfparams key or a missing IV crashed the caller.)  Scope: the modelled expressions; allocation failure for
    absurd n / dklen is outside. -/
theorem decrypt_total (P : Prims) (hP : KdfSane P) (f : KeyFile) (pw : Bytes) :
    decryptKey P f pw ≠ .panic ∧ (∀ a, getKey P a f pw ≠ .panic) ∧ importAccount P f pw ≠ .panic := by
  have h1 : decryptKey P f pw ≠ .panic := by
    intro h
    rcases getKDFKey_error_or_positive_call P f.crypto pw with ⟨e, he⟩ | ⟨req, hpos, hreq⟩
    · rcases decrypt_panic_only_from_kdf P f pw h with hp | ⟨buf, len, hk, _⟩
      · rw [he] at hp; cases hp
      · rw [he] at hk; cases hk
    · obtain ⟨hnp, hcap⟩ := hP req hpos
      rcases decrypt_panic_only_from_kdf P f pw h with hp | ⟨buf, len, hk, hl⟩
      · rw [hreq] at hp
        cases hq : P.kdf req with
        | ok b l => rw [hq] at hp; cases hp
        | err => rw [hq] at hp; cases hp
        | panic => exact hnp hq
      · rw [hreq] at hk
        cases hq : P.kdf req with
        | ok b l =>
          rw [hq] at hk
          simp only [kdfRes] at hk
          injection hk with hk
          injection hk with hb _
          subst hb
          have := hcap b l hq
          omega
        | err => rw [hq] at hk; cases hk
        | panic => exact hnp hq
  refine ⟨h1, ?_, ?_⟩
  · intro a h
    unfold getKey at h
    split at h
    · split at h <;> cases h
    · rename_i hno
      exact h1 h
  · intro h
    unfold importAccount at h
    split at h
    · cases h
    · cases h
    · rename_i hp; exact h1 hp

/-- Degenerate scrypt parameters are errors, whatever the KDF would do with them: r ≤ 0 or p ≤ 0 (well-typed otherwise)
    never reaches the KDF. -/
theorem degenerate_kdfparams_are_errors (P : Prims) (c : Crypto) (pw salt : Bytes) (dklen n r p : Int)
    (hs : asString (lookup c.kdfparams (ascii "salt")) = some (hexEncode salt))
    (hd : ensureInt (lookup c.kdfparams (ascii "dklen")) = some dklen)
    (hkdf : c.kdf = ascii "scrypt")
    (hn : ensureInt (lookup c.kdfparams (ascii "n")) = some n)
    (hr : ensureInt (lookup c.kdfparams (ascii "r")) = some r)
    (hp : ensureInt (lookup c.kdfparams (ascii "p")) = some p)
    (hbad : dklen ≤ 0 ∨ r ≤ 0 ∨ p ≤ 0) : getKDFKey P c pw = .err .kdfParams := by
  unfold getKDFKey
  simp only [hs, hexDecode_hexEncode, hd, hkdf, hn, hr, hp, if_true]
  by_cases h0 : dklen ≤ 0
  · rw [if_pos h0]
  · rw [if_neg h0, if_pos (by omega)]

/-! ## Non-vacuity: the hypotheses of the theorems above are satisfiable on non-trivial instances -/

/-- roundtrip: a scalar with 31 leading zero bytes under the toy primitives. -/
example : ∃ f, encryptKey toyP 5 (toyP.addrOf 5) [] (ascii "pw") [1, 2, 3] wIv 2 1 = .ok f ∧
    decryptKey toyP f (ascii "pw") = .ok ⟨5, toyP.addrOf 5⟩ := by
  obtain ⟨f, h1, _, h3, _⟩ := roundtrip toyP 5 (by decide) (toyP.addrOf 5) [] (ascii "pw") [1, 2, 3] wIv 2 1 (by decide) rfl
    ((List.range 32).map UInt8.ofNat) 32 rfl (by decide) (by decide)
  exact ⟨f, h1, h3⟩

/-- write_without_truncation_leaves_residue: an old content one byte longer than the new one leaves its last byte behind. -/
example : writeNoTrunc [1, 2, 3] [9, 9] = [9, 9, 3] := by decide

/-- short_plaintext_roundtrip: the witness file with its ciphertext cut to the last byte (plaintext = the 1-byte blob 05, the 31
    zero bytes stripped; MAC recomputed — H is the identity here) still opens to scalar 5. -/
def wCryptoShort : Crypto :=
  { cipher := wFile.crypto.cipher, ciphertext := ascii "05", iv := wFile.crypto.iv, kdf := wFile.crypto.kdf,
    kdfparams := wFile.crypto.kdfparams, mac := hexEncode (macKey ((List.range 32).map UInt8.ofNat) ++ [5]) }
def wFileShort : KeyFile := { wFile with crypto := wCryptoShort }

example : decryptBytes toyP wFileShort (ascii "pw") = .ok (paddedBigBytes 5 1) ∧
    decryptKey toyP wFileShort (ascii "pw") = .ok ⟨5, toyP.addrOf 5⟩ := by
  refine ⟨by decide, ?_⟩
  exact (short_plaintext_roundtrip toyP wFileShort (ascii "pw") 5 1 (by decide) (by decide) (by decide) (Or.inr (by decide))).1

/-- a KDF that depends on the passphrase: first byte of the passphrase added to every output byte. -/
def toyP2 : Prims :=
  { toyP with kdf := fun req => match req with
      | .scrypt pw _ _ _ _ _ => .ok ((List.range 32).map (fun i => UInt8.ofNat i + pw.headD 0)) 32
      | .pbkdf2 pw _ _ _ => .ok ((List.range 32).map (fun i => UInt8.ofNat i + pw.headD 0)) 32 }

def wFile2 : KeyFile :=
  match encryptKey toyP2 5 (toyP.addrOf 5) [] (ascii "pw") [1, 2, 3] wIv 2 1 with
  | .ok f => f
  | _ => ⟨false, none, false, false, 0, [], [], ⟨[], [], [], [], [], []⟩⟩

/-- wrong_pass_rejected: all hypotheses hold for ("pw", "qw") under toyP2 (H = id is collision-free), and the conclusion
    is observed. -/
example : decryptKey toyP2 wFile2 (ascii "pw") = .ok ⟨5, toyP.addrOf 5⟩ ∧
    decryptKey toyP2 wFile2 (ascii "qw") = .err .decrypt := by
  refine ⟨by decide, ?_⟩
  exact wrong_pass_rejected toyP2 wFile2 (ascii "pw") (ascii "qw") ⟨5, toyP.addrOf 5⟩ (by decide)
    ((List.range 32).map (fun i => UInt8.ofNat i + 112)) ((List.range 32).map (fun i => UInt8.ofNat i + 113)) 32 32
    (by decide) (by decide) (by decide) (by decide) (fun ct _ h => h)

/-- tamper theorem: hypotheses satisfiable with f' = f except `dklen` 32 -> 12 (the KDF buffer is the same), and the
    tampered file still opens to the original key. -/
def wFileDk : KeyFile :=
  { wFile with crypto := { wFile.crypto with kdfparams :=
      [(ascii "dklen", .num 12), (ascii "n", .num 2), (ascii "p", .num 1), (ascii "r", .num 8), (ascii "salt", .str (ascii "010203"))] } }

example : decryptKey toyP wFileDk (ascii "pw") = .ok ⟨5, toyP.addrOf 5⟩ := by decide

example : ∀ k', decryptKey toyP wFileDk (ascii "pw") = .ok k' → k' = ⟨5, toyP.addrOf 5⟩ := by
  intro k' hk'
  exact tamper_ct_mac_salt_params_rejected toyP wFile wFileDk (ascii "pw") _ k' (by decide) hk' rfl rfl (Or.inl rfl)
    (fun _ _ _ _ _ _ _ _ _ _ h => h)
    (fun buf buf' _ _ h1 h2 _ => by
      have e1 : getKDFKey toyP wFile.crypto (ascii "pw") = .ok ((List.range 32).map UInt8.ofNat, 32) := by decide
      have e2 : getKDFKey toyP wFileDk.crypto (ascii "pw") = .ok ((List.range 32).map UInt8.ofNat, 32) := by decide
      rw [e1] at h1; rw [e2] at h2
      injection h1 with h1; injection h2 with h2
      injection h1 with h1 _; injection h2 with h2 _
      rw [← h1, ← h2])

/-- tamper_ct_rejected / tamper_mac_rejected: hypotheses satisfiable (one ciphertext / MAC character changed). -/
example : ∀ k', decryptKey toyP { wFile with crypto := { wFile.crypto with
      ciphertext := ascii "1000000000000000000000000000000000000000000000000000000000000005" } } (ascii "pw") ≠ .ok k' :=
  tamper_ct_rejected toyP wFile (ascii "pw") ⟨5, toyP.addrOf 5⟩ _ (by decide) (by decide) (fun _ _ _ _ _ _ _ h => h)

example : ∀ k', decryptKey toyP { wFile with crypto := { wFile.crypto with mac := ascii "00" } } (ascii "pw") ≠ .ok k' :=
  tamper_mac_rejected toyP wFile (ascii "pw") ⟨5, toyP.addrOf 5⟩ _ (by decide) (by decide)

/-- unlocked_key_is_stored_key: a history on the witness file — unlock, unlock again (timed) while unlocked, wrong passphrase,
    lock, timed unlock — leaves the stored key 5 as the signing key (toy address derivation is injective). -/
def wState : KsState := ⟨fun a => if a = toyP.addrOf 5 then some wFile else none, fun _ => none⟩
example : ((([KsOp.unlock (toyP.addrOf 5) (ascii "pw") false, .unlock (toyP.addrOf 5) (ascii "pw") true,
      .unlock (toyP.addrOf 5) (ascii "qw") false] : List KsOp).foldl (KsState.step toyP) wState).signingKey (toyP.addrOf 5)) =
    some ⟨5, toyP.addrOf 5⟩ := by decide
example : ((([KsOp.unlock (toyP.addrOf 5) (ascii "pw") false, .lock (toyP.addrOf 5)] : List KsOp).foldl (KsState.step toyP) wState).signingKey
    (toyP.addrOf 5)) = none := by decide

/-- indefinite_unlock_survives: the hypothesis holds after an indefinite unlock of the witness account. -/
example : (wState.step toyP (.unlock (toyP.addrOf 5) (ascii "pw") false)).unlocked (toyP.addrOf 5) = some (⟨5, toyP.addrOf 5⟩, false) := by
  decide

/-- tamper_never_yields_other_key / getKey_rejects_iv_tamper: hypotheses satisfiable. -/
example : getKey toyP (toyP.addrOf 5) wFile (ascii "pw") = .ok ⟨5, toyP.addrOf 5⟩ := by decide
example : getKey toyP (toyP.addrOf 5) wFileNoAddrIv (ascii "pw") = .err .mismatch :=
  getKey_rejects_iv_tamper toyP _ wFileNoAddrIv (ascii "pw") ⟨2 ^ 252 + 5, toyP.addrOf (2 ^ 252 + 5)⟩ (by decide) (by decide)

/-- decryptKey_tamper_never_yields_other_key / import_never_yields_other_account: the stored file names its address, and a
    tampered variant that still opens exists (dklen 32 -> 12), so both hypotheses are jointly satisfiable. -/
example : wFile.address ≠ [] ∧ wFileDk.address = wFile.address ∧
    importAccount toyP wFile (ascii "pw") = .ok (toyP.addrOf 5) ∧ importAccount toyP wFileDk (ascii "pw") = .ok (toyP.addrOf 5) := by
  refine ⟨by decide, rfl, by decide, by decide⟩

/-- decryptKey_rejects_key_of_other_address: hypotheses hold for the IV-tampered file. -/
example : decryptKey toyP wFileIv (ascii "pw") = .err .corrupted :=
  (decryptKey_rejects_key_of_other_address toyP wFileIv (ascii "pw") (paddedBigBytes (2 ^ 252 + 5) 32) (by decide) (by decide)
    (by decide)).1

/-- decryptKey_no_address_iv_tamper_residual: hypotheses satisfiable on the address-less witness file. -/
example : ∃ pt', pt' ≠ paddedBigBytes 5 32 ∧
    decryptKey toyP { wFileNoAddr with crypto := { wFileNoAddr.crypto with iv := hexEncode (1 :: List.replicate 15 0) } } (ascii "pw") =
      .ok ⟨scalarOfBytes pt', toyP.addrOf (scalarOfBytes pt')⟩ :=
  decryptKey_no_address_iv_tamper_residual toyP wFileNoAddr (ascii "pw") (paddedBigBytes 5 32) (by decide) (by decide) rfl wIv
    (1 :: List.replicate 15 0) (by decide) (by decide) ((List.range 32).map UInt8.ofNat) 32 (by decide) 0 (by decide) (by decide)

/-- decrypt_total: the toy KDF is sane; degenerate_kdfparams_are_errors: a file with p = 0 is an error even under a KDF that
    would panic on it. -/
example : KdfSane toyP := fun _ _ => ⟨by simp [toyP], fun buf len h => by
  simp only [toyP] at h
  injection h with h1 _
  subst h1
  decide⟩

def toyPanicP : Prims :=
  { toyP with kdf := fun req => match req with
      | .scrypt _ _ _ r p dklen => if r = 0 ∨ p = 0 ∨ dklen < 0 then .panic else .ok ((List.range 32).map UInt8.ofNat) 32
      | .pbkdf2 _ _ _ dklen => if dklen < 0 then .panic else .ok ((List.range 32).map UInt8.ofNat) 32 }

def wFileP0 : KeyFile :=
  { wFile with crypto := { wFile.crypto with kdfparams :=
      [(ascii "dklen", .num 32), (ascii "n", .num 2), (ascii "p", .num 0), (ascii "r", .num 8), (ascii "salt", .str (ascii "010203"))] } }

example : decryptKey toyPanicP wFileP0 (ascii "pw") = .err .kdfParams ∧
    getKey toyPanicP (toyP.addrOf 5) wFileP0 (ascii "pw") = .err .kdfParams := by
  refine ⟨by decide, by decide⟩

end Aqv.Props.C20

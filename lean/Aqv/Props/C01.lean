/-
  C01 — Block import is deterministic and accepts only self-consistent blocks.   Property theorems only.
  Model: Aqv.Model.BlockImport
    Layer A  core/state Finalise / IntermediateRoot / Commit / updateTrie as folds over an arbitrary iteration order,
    Layer B  Process / ApplyTransaction / ValidateBody / ValidateState / Finalize / GenerateChain / commitNewWork / NewBlock
             composed from abstract components,
    Layer C  insertChain2 / WriteBlockWithState / WriteBlockWithoutState over a store with an explicit write log.
  `R` (storage root of a content) and `A` (account-trie root of a content) are PARAMETERS: that a trie root is a function of
  the content alone is what C09/C10 prove (`root_content_only`); nothing here depends on which function it is.
-/
import Aqv.Lemmas.BlockImportToy
namespace Aqv.Props.C01
open Aqv.BlockImport

variable {St Tx : Type}

/-! ## 1. Go map iteration order cannot reach a root -/

/-- `Finalise(del)`: for ALL permutations π₁ π₂ of `stateObjectsDirty` and, per account, all permutations σ₁ a, σ₂ a of its
    `dirtyStorage`, the resulting StateDB is the same: the same account-trie content and, for every account, the same
    storage-trie content, the same `data.Root`, the same flags. -/
theorem finalise_perm_invariant (R : (Slot → Word) → Hash) (del : Bool) (s : SDB)
    (π₁ π₂ : List Addr) (σ₁ σ₂ : Addr → List Slot) (hπ : π₁.Perm π₂) (hσ : ∀ a, (σ₁ a).Perm (σ₂ a)) :
    finalise R del π₁ σ₁ s = finalise R del π₂ σ₂ s :=
  finalise_perm R del σ₁ σ₂ hπ hσ s

/-- … hence the same account-trie content and the same storage content of every account (the form quoted in the design). -/
theorem finalise_content_perm_invariant (R : (Slot → Word) → Hash) (del : Bool) (s : SDB)
    (π₁ π₂ : List Addr) (σ₁ σ₂ : Addr → List Slot) (hπ : π₁.Perm π₂) (hσ : ∀ a, (σ₁ a).Perm (σ₂ a)) :
    (finalise R del π₁ σ₁ s).trie = (finalise R del π₂ σ₂ s).trie ∧
    ∀ a, ((finalise R del π₁ σ₁ s).objs a).map (·.storage) = ((finalise R del π₂ σ₂ s).objs a).map (·.storage) := by
  rw [finalise_perm_invariant R del s π₁ π₂ σ₁ σ₂ hπ hσ]
  exact ⟨rfl, fun _ => rfl⟩

/-- `IntermediateRoot(del)`: whatever function `A` of the account-trie content the root is, it is the same for all
    iteration orders. -/
theorem intermediateRoot_perm_invariant (A : (Addr → Option Leaf) → Hash) (R : (Slot → Word) → Hash) (del : Bool) (s : SDB)
    (π₁ π₂ : List Addr) (σ₁ σ₂ : Addr → List Slot) (hπ : π₁.Perm π₂) (hσ : ∀ a, (σ₁ a).Perm (σ₂ a)) :
    intermediateRoot A R del π₁ σ₁ s = intermediateRoot A R del π₂ σ₂ s := by
  unfold intermediateRoot
  rw [finalise_perm_invariant R del s π₁ π₂ σ₁ σ₂ hπ hσ]

/-- `stateObject.updateTrie`: the storage-trie content after flushing `dirtyStorage` does not depend on the order. -/
theorem updateTrie_perm_invariant (o : Obj) (ks₁ ks₂ : List Slot) (h : ks₁.Perm ks₂) :
    updateTrie ks₁ o = updateTrie ks₂ o :=
  updateTrie_perm o h

/-- `Commit(del)` (the loop over ALL live objects that `WriteBlockWithState` runs): same state and root for every order. -/
theorem commit_perm_invariant (A : (Addr → Option Leaf) → Hash) (R : (Slot → Word) → Hash) (del : Bool) (s : SDB)
    (ρ₁ ρ₂ : List Addr) (σ₁ σ₂ : Addr → List Slot) (hρ : ρ₁.Perm ρ₂) (hσ : ∀ a, (σ₁ a).Perm (σ₂ a)) :
    commit A R del ρ₁ σ₁ s = commit A R del ρ₂ σ₂ s := by
  have hs : ∀ (ρ : List Addr) (t : SDB), ρ.foldl (commitStep R del σ₁) t = ρ.foldl (commitStep R del σ₂) t := by
    intro ρ
    induction ρ with
    | nil => intro t; rfl
    | cons a rest ih =>
      intro t
      simp only [List.foldl_cons]
      have e : commitStep R del σ₁ t a = commitStep R del σ₂ t a := by
        unfold commitStep
        cases t.objs a with
        | none => rfl
        | some o =>
          have : settleCommit R del (σ₁ a) (t.dirty a) o = settleCommit R del (σ₂ a) (t.dirty a) o := by
            unfold settleCommit; rw [updateRoot_perm R o (hσ a)]
          simp only [this]
      rw [e]; exact ih _
  unfold commit
  rw [hs ρ₁ s, commitFold_perm R del σ₂ hρ s]

/-- a second `Finalise`/`IntermediateRoot` over the same dirty set (ValidateState after Finalize) changes nothing. -/
theorem finalise_idempotent (R : (Slot → Word) → Hash) (del : Bool) (π : List Addr) (σ : Addr → List Slot) (s : SDB) :
    finalise R del π σ (finalise R del π σ s) = finalise R del π σ s :=
  finalise_idem R del π σ s

/-- an adversarial, state-dependent choice of iteration orders cannot influence the pipeline: two order oracles that
    enumerate the same sets give the same `Finalise` function, hence (for any way `mk` of completing it to the components
    of Layer B) the same `process`. -/
theorem process_order_oracle_independent (R : (Slot → Word) → Hash)
    (ord₁ ord₂ : SDB → List Addr × (Addr → List Slot))
    (h : ∀ s, (ord₁ s).1.Perm (ord₂ s).1 ∧ ∀ a, ((ord₁ s).2 a).Perm ((ord₂ s).2 a))
    (mk : (Bool → SDB → SDB) → Comp SDB Tx) (cfg : Cfg) (pst : SDB) (b : Block Tx) :
    process (mk (fun del s => finalise R del (ord₁ s).1 (ord₁ s).2 s)) cfg pst b =
    process (mk (fun del s => finalise R del (ord₂ s).1 (ord₂ s).2 s)) cfg pst b := by
  have e : (fun del s => finalise R del (ord₁ s).1 (ord₁ s).2 s) = (fun del s => finalise R del (ord₂ s).1 (ord₂ s).2 s) := by
    funext del s
    exact finalise_perm_invariant R del s _ _ _ _ (h s).1 (h s).2
  rw [e]

-- non-vacuity: two dirty accounts (1 has two dirty slots incl. a deletion, 2 is suicided) under two different orders.
section
def exObj1 : Obj :=
  { nonce := 1, balance := 5, codeHash := 0, sroot := 0, storage := upd (fun _ => 0) 6 9,
    dirty := upd (upd (fun _ => none) 5 (some 7)) 6 (some 0), suicided := false, deleted := false }
def exObj2 : Obj := { exObj1 with suicided := true }
def exS : SDB :=
  { trie := upd (fun _ => none) 2 (some ⟨0, 1, 0, 0⟩), objs := upd (upd (fun _ => none) 1 (some exObj1)) 2 (some exObj2),
    dirty := fun a => a == 1 || a == 2, fault := false }
def exR : (Slot → Word) → Hash := fun f => f 5 * 100 + f 6
example : [1, 2].Perm [2, 1] := List.Perm.swap 2 1 []
example : ((finalise exR true [1, 2] (fun _ => [5, 6]) exS).trie 1, (finalise exR true [1, 2] (fun _ => [5, 6]) exS).trie 2)
    = (some ⟨1, 5, 700, 0⟩, none) := by rfl
example : ((finalise exR true [2, 1] (fun _ => [6, 5]) exS).trie 1, (finalise exR true [2, 1] (fun _ => [6, 5]) exS).trie 2)
    = (some ⟨1, 5, 700, 0⟩, none) := by rfl
end

/-! ## 2. Accepted ⇔ self-consistent -/

/-- `ValidateBody`'s hash checks and `ValidateState` (after `Process` on the parent state) succeed
    ⇔ all six header commitments — transaction root, uncle hash, state root, receipt root, log bloom, gas used — equal the
    values recomputed from the body and the parent state. -/
theorem validate_iff (C : Comp St Tx) (cfg : Cfg) (pst : St) (b : Block Tx) :
    (∃ p, validateAll C cfg pst b = .ok p) ↔ recompute C cfg pst b = some b.header.commitments :=
  validateAll_iff_commitments C cfg pst b

/-- the two halves separately, with the individual equalities spelled out. -/
theorem validateBody_iff (C : Comp St Tx) (b : Block Tx) :
    validateBodyHashes C b = .ok () ↔ (C.uncleHash b.uncles = b.header.uncleHash ∧ C.txRoot b.txs = b.header.txHash) :=
  validateBodyHashes_ok_iff C b

theorem validateState_iff (C : Comp St Tx) (cfg : Cfg) (b : Block Tx) (st : St) (rcs : List Receipt) (used : Nat) :
    validateState C cfg b st rcs used = .ok () ↔
      (b.header.gasUsed = used ∧ createBloom C rcs = b.header.bloom ∧ C.receiptRoot rcs = b.header.receiptHash ∧
        (C.interRoot (isForked cfg.eip158 b.header.number) st).2 = b.header.root) :=
  validateState_ok_iff C cfg b st rcs used

/-- every block for which `WriteBlockWithState` runs during an import has all six commitments right
    (for the check order of the tree as it is now, `bodyFirst = true`). -/
theorem accepted_only_if_self_consistent (C : ChainComp St Tx) (cfg : Cfg) (hbf : C.bodyFirst = true) (coin : Bool)
    (S : Store St Tx) (b : Block Tx) (h : (importBlock C cfg coin S b).1 = .written) :
    ∃ pst, recompute C.toComp cfg pst b = some b.header.commitments := by
  obtain ⟨hg, pst, p, hr⟩ := importBlock_written C cfg coin S b h
  refine ⟨pst, (validate_iff C.toComp cfg pst b).1 ⟨p, ?_⟩⟩
  exact (validateAll_ok_iff _ _ _ _ _).2 ⟨bodyGate_none C b hbf hg, hr⟩

/-- … and the state-side commitments (root, receipt root, bloom, gas used) are right whatever the check order. -/
theorem accepted_only_if_state_consistent (C : ChainComp St Tx) (cfg : Cfg) (coin : Bool)
    (S : Store St Tx) (b : Block Tx) (h : (importBlock C cfg coin S b).1 = .written) :
    ∃ pst p, result C.toComp cfg pst b = .ok p :=
  (importBlock_written C cfg coin S b h).2

/-- Why the order of checks in `ValidateBody` matters (the defect fixed by 9f7e060, kept as a regression witness):
    with the OLD order a block whose hash is already known (with state, above the head) is re-imported without comparing the
    body with the header — the same header with its two transactions swapped is written although its transaction root is wrong;
    with the order of the tree as it is now it is refused. -/
theorem known_block_body_check_witness :
    (importBlock (Toy.chain false) Toy.cfg false (Toy.forked false) Toy.b2swapped).1 = .written ∧
    validateBodyHashes Toy.comp Toy.b2swapped = .error .txRoot ∧
    (importBlock (Toy.chain true) Toy.cfg false (Toy.forked true) Toy.b2swapped).1 = .abort .txRoot := by
  refine ⟨by decide, rfl, by decide⟩

-- non-vacuity: the toy block B2 validates on state 0 (= state after B1) and its commitments are the recomputed ones;
-- a wrong root is reported as such.
example : (validateAll Toy.comp Toy.cfg 0 Toy.b2).toOption.map (·.gasUsed) = some 2 := by decide
example : recompute Toy.comp Toy.cfg 0 Toy.b2 = some Toy.b2.header.commitments := by decide
example : (validateAll Toy.comp Toy.cfg 0 Toy.b2badRoot).toOption.isNone = true := by decide
example : (importBlock (Toy.chain true) Toy.cfg false (Toy.forked true) Toy.b2badRoot).1 = .abort .stateRoot := by decide

/-! ## 3. The node accepts what it builds -/

/-- A block assembled by the node's own building path (GenerateChain / commitNewWork: fork edits, ApplyTransaction with an
    explicit author accumulating into header.GasUsed, engine.Finalize, NewBlock) is accepted by the import path — `Process`
    yields the same state, receipts and gas, and both validators pass.
    Hypotheses: the three constants NewBlock uses for empty lists are what the hash functions return on `[]`
    (checked against the real code by the harness), and a second IntermediateRoot does not change the root (for the state
    model of Layer A this is `finalise_idempotent`). -/
theorem build_then_import (C : Comp St Tx) (cfg : Cfg) (eR eU : Hash)
    (h1 : C.txRoot [] = eR) (h2 : C.receiptRoot [] = eR) (h3 : C.uncleHash [] = eU)
    (idem : ∀ d st, C.root (C.finalise d (C.finalise d st)) = C.root (C.finalise d st))
    (parent : Header) (pst : St) (coinbase : Addr) (time extra : Nat) (txs : List Tx) (uncles : List Header) (B : Built St Tx)
    (hB : buildBlock C cfg eR eU parent pst coinbase time extra txs uncles = .ok B) :
    (∃ p, process C cfg pst B.block = .ok p ∧ p.st = B.st ∧ p.receipts = B.receipts ∧ p.gasUsed = B.block.header.gasUsed ∧
          C.root p.st = B.block.header.root) ∧
    (∃ q, validateAll C cfg pst B.block = .ok q ∧ q.receipts = B.receipts ∧ q.gasUsed = B.block.header.gasUsed) := by
  obtain ⟨p, hp, e1, e2, e3, e4, hb, hv⟩ := build_import_lemma C cfg eR eU h1 h2 h3 idem parent pst coinbase time extra txs uncles B hB
  refine ⟨⟨p, hp, e1, e2, e3, e4⟩, ⟨{ p with st := C.finalise (isForked cfg.eip158 B.block.header.number) p.st }, ?_, e2, e3⟩⟩
  rw [validateAll_ok_iff]
  refine ⟨hb, ?_⟩
  rw [result_ok_iff]
  exact ⟨p, hp, hv, rfl⟩

-- non-vacuity: the toy builder produces a block with two transactions on top of genesis and the hypotheses hold.
example : (buildBlock Toy.comp Toy.cfg 7 0 Toy.g 0 9 10 5 [1, 2] []).toOption.map (fun B => (B.block.header.root, B.block.header.gasUsed, B.block.header.txHash))
    = some (3, 2, 712) := by decide
example : Toy.comp.txRoot [] = 7 ∧ Toy.comp.receiptRoot [] = 0 ∧ Toy.comp.uncleHash [] = 0 := by decide

/-- **A skipped candidate leaves the state as before it.**  In the miner's loop (`commitTransactions`) a pending transaction that
    cannot be applied — whatever `ApplyTransaction` had already done to the state before failing (nonce bumped, gas bought) — is
    dropped with state, receipts and `header.GasUsed` exactly as they were before the attempt (`Snapshot` / `RevertToSnapshot`);
    only the gas pool (not journalled) may have shrunk.  This is the obligation the seeded change C01-4 breaks. -/
theorem build_skips_leave_state (C : Comp St Tx) (cfg : Cfg) (h : Header) (author : Option Addr) (skipPool : Nat → Tx → Nat)
    (st : St) (pool used : Nat) (tx : Tx) (rest : List Tx) (e : Err)
    (hfail : applyTransaction C cfg h author st pool used tx = .error e) :
    commitTxs C cfg h author skipPool st pool used (tx :: rest) =
      commitTxs C cfg h author skipPool st (skipPool pool tx) used rest := by
  simp only [commitTxs, hfail]

/-- … in particular a pending set none of which can be applied yields an empty block on the untouched state. -/
theorem build_all_skipped (C : Comp St Tx) (cfg : Cfg) (h : Header) (author : Option Addr) (skipPool : Nat → Tx → Nat)
    (cands : List Tx) (st : St) (pool used : Nat)
    (hfail : ∀ tx ∈ cands, ∀ p, ∃ e, applyTransaction C cfg h author st p used tx = .error e) :
    (commitTxs C cfg h author skipPool st pool used cands).st = st ∧
    (commitTxs C cfg h author skipPool st pool used cands).included = [] ∧
    (commitTxs C cfg h author skipPool st pool used cands).receipts = [] ∧
    (commitTxs C cfg h author skipPool st pool used cands).used = used := by
  induction cands generalizing pool with
  | nil => exact ⟨rfl, rfl, rfl, rfl⟩
  | cons tx rest ih =>
    obtain ⟨e, he⟩ := hfail tx (List.mem_cons_self ..) pool
    rw [build_skips_leave_state C cfg h author skipPool st pool used tx rest e he]
    exact ih (skipPool pool tx) (fun t ht => hfail t (List.mem_cons_of_mem _ ht))

/-- **The miner's block — built from ANY pending set, with any candidates skipped along the way — is the builder's block over
    the transactions that were committed**, hence (by `build_then_import`) accepted by the import path with the same state,
    receipts and gas.  Hypotheses: a failed attempt never enlarges the gas pool, and the gas pool only has to be large enough
    (`PoolMono`: the importer, which never attempted the skipped candidates, has at least as much gas left). -/
theorem build_pending_then_import (C : Comp St Tx) (cfg : Cfg) (eR eU : Hash)
    (h1 : C.txRoot [] = eR) (h2 : C.receiptRoot [] = eR) (h3 : C.uncleHash [] = eU)
    (idem : ∀ d st, C.root (C.finalise d (C.finalise d st)) = C.root (C.finalise d st))
    (hm : PoolMono C) (skipPool : Nat → Tx → Nat) (hs : ∀ p tx, skipPool p tx ≤ p)
    (parent : Header) (pst : St) (coinbase : Addr) (time extra : Nat) (cands : List Tx) (uncles : List Header) :
    let B := buildBlockPending C cfg eR eU parent pst coinbase time extra skipPool cands uncles
    buildBlock C cfg eR eU parent pst coinbase time extra B.block.txs uncles = .ok B ∧
    (∃ p, process C cfg pst B.block = .ok p ∧ p.st = B.st ∧ p.receipts = B.receipts ∧ p.gasUsed = B.block.header.gasUsed ∧
          C.root p.st = B.block.header.root) ∧
    (∃ q, validateAll C cfg pst B.block = .ok q ∧ q.receipts = B.receipts ∧ q.gasUsed = B.block.header.gasUsed) := by
  intro B
  have hb : buildBlock C cfg eR eU parent pst coinbase time extra B.block.txs uncles = .ok B := by
    have htx : B.block.txs = (commitTxs C cfg (makeHeader C parent coinbase time extra) (some (makeHeader C parent coinbase time extra).coinbase)
        skipPool (forkEdits C cfg (makeHeader C parent coinbase time extra).number pst) (makeHeader C parent coinbase time extra).gasLimit
        (makeHeader C parent coinbase time extra).gasUsed cands).included := by
      show (newBlock C eR eU _ _ uncles _).txs = _
      unfold newBlock
      simp only []
    obtain ⟨pf, hpf⟩ := commitTxs_replay C hm cfg (makeHeader C parent coinbase time extra)
      (some (makeHeader C parent coinbase time extra).coinbase) skipPool hs cands
      (forkEdits C cfg (makeHeader C parent coinbase time extra).number pst) _ _ (makeHeader C parent coinbase time extra).gasUsed
      (Nat.le_refl (makeHeader C parent coinbase time extra).gasLimit)
    unfold buildBlock
    simp only []
    rw [htx, hpf]
    rfl
  obtain ⟨hp, hq⟩ := build_then_import C cfg eR eU h1 h2 h3 idem parent pst coinbase time extra B.block.txs uncles B hb
  exact ⟨hb, hp, hq⟩

-- non-vacuity: with a gas pool of 2 the toy miner commits the first two of three candidates (each costs 1 gas), skips the
-- third ("gas limit reached") and the block carries exactly the two; the toy components satisfy `PoolMono`.
example : ((commitTxs Toy.comp Toy.cfg Toy.g none (fun p _ => p) 0 2 0 [1, 2, 4]).included,
           (commitTxs Toy.comp Toy.cfg Toy.g none (fun p _ => p) 0 2 0 [1, 2, 4]).st,
           (commitTxs Toy.comp Toy.cfg Toy.g none (fun p _ => p) 0 2 0 [1, 2, 4]).used) = ([1, 2], 3, 2) := by decide
example : PoolMono Toy.comp := by
  intro cfg ctx st p p' tx r h hp
  simp only [Toy.comp] at h ⊢
  by_cases e : p = 0
  · rw [if_pos e] at h; cases h
  · rw [if_neg e] at h
    have e' : p' ≠ 0 := by omega
    rw [if_neg e']
    cases h
    simp only [Except.ok.injEq, MsgResult.mk.injEq, true_and]
    omega

/-! ## 4. A refused block leaves nothing behind -/

/-- If any stage before `WriteBlockWithState` fails for a block whose parent state is at hand — blacklist, header, body hashes,
    uncles, a transaction that cannot be applied, gas used, bloom, receipt root, state root — the store (database content,
    head, write log) after the step IS the store before it. -/
theorem reject_leaves_unchanged (C : ChainComp St Tx) (cfg : Cfg) (coin : Bool) (S : Store St Tx) (b : Block Tx)
    (ps : Stored Tx) (pst : St) (hp : S.blocks b.header.parentHash = some ps) (hst : S.states ps.block.header.root = some pst)
    (e : Err) (h : (importBlock C cfg coin S b).1 = .abort e) :
    (importBlock C cfg coin S b).2 = S :=
  importBlock_abort_unchanged C cfg coin S b ps pst hp hst e h

/-- the abort discipline of a batch: when the blocks `pre` import without error and the next block `bad` is refused, the
    batch `pre ++ bad :: rest` stops at `bad`'s index with the store reached after `pre` — no write for `bad`, none for `rest`,
    head and write log exactly those after `pre`. -/
theorem insertChain_aborts_at_first_invalid (C : ChainComp St Tx) (cfg : Cfg) (coins : Nat → Bool) (S S₁ : Store St Tx) (n : Nat)
    (pre rest : List (Block Tx)) (bad : Block Tx) (e : Err)
    (hpre : importLoop C cfg coins S 0 pre = (n, none, S₁))
    (ps : Stored Tx) (pst : St) (hp : S₁.blocks bad.header.parentHash = some ps) (hst : S₁.states ps.block.header.root = some pst)
    (hbad : (importBlock C cfg (coins n) S₁ bad).1 = .abort e) :
    importLoop C cfg coins S 0 (pre ++ bad :: rest) = (n, some e, S₁) := by
  rw [importLoop_append, hpre]
  simp only []
  have h2 := reject_leaves_unchanged C cfg (coins n) S₁ bad ps pst hp hst e hbad
  apply importLoop_cons_abort
  cases hib : importBlock C cfg (coins n) S₁ bad with
  | mk o S' =>
    rw [hib] at hbad h2
    simp only [] at hbad h2
    rw [hbad, h2]

-- non-vacuity: in the toy store the block with the wrong root has its parent state at hand, is refused, and the batch
-- [B2badRoot] after a good prefix stops with the prefix's store.
example : ((Toy.forked true).blocks Toy.b2badRoot.header.parentHash).isSome = true := by decide
example : ((importBlock (Toy.chain true) Toy.cfg false (Toy.forked true) Toy.b2badRoot).2.log.length,
           (importBlock (Toy.chain true) Toy.cfg false (Toy.forked true) Toy.b2badRoot).2.head)
        = ((Toy.forked true).log.length, (Toy.forked true).head) := by decide

/-- **What is stored is the block that was handed in.**  `WriteBlockWithState` stores, under the block's hash, exactly the input
    block (header, transactions, uncles).  In this functional model the input cannot be changed by an import; for the real node
    that is a checked correspondence: the harness records every block's RLP bytes before any import and requires (i) the shared
    in-memory objects to encode to the same bytes after every history, (ii) the body read back from the database after a
    restart to match the header's transaction root and uncle hash (the seeded change C01-9 — CALLVALUE handing out the
    transaction's own big.Int — breaks both). -/
theorem write_stores_input_block (C : ChainComp St Tx) (S : Store St Tx) (b : Block Tx) (p : Processed St) (coin : Bool) :
    ((writeBlockWithState C S b p coin).blocks (C.hashHeader b.header)).map (·.block) = some b := by
  unfold writeBlockWithState
  simp only [upd_same, Option.map_some]

/-! ## 5. The result of an import is a function of (parent state, block) -/

/-- For EVERY arrival history — any sequence of batches (any split, any interleaving of forks, known blocks re-sent),
    prunings of arbitrary sets of states, restarts — whatever the node has stored as the result of importing a block
    (receipts incl. logs, gas used, state root) is the value of ONE fixed function, `result`, at (a state whose root is the
    root committed by the parent header, the block): nothing about the history enters. -/
theorem import_is_function (C : ChainComp St Tx) (cfg : Cfg) (g : Header) (gst : St) (hg : C.root gst = g.root)
    (evs : List (Event Tx)) (h : Hash) (s : Stored Tx) (rs : List Receipt)
    (hs : ((genesisStore C.toComp g gst).run C cfg evs).blocks h = some s) (hrs : s.receipts = some rs) :
    s = genesisEntry g ∨
    ∃ (pst : St) (ph : Header) (p : Processed St),
      C.hashHeader ph = s.block.header.parentHash ∧ C.root pst = ph.root ∧
      result C.toComp cfg pst s.block = .ok p ∧ p.receipts = rs ∧ p.gasUsed = s.gasUsed ∧ C.root p.st = s.block.header.root :=
  (run_inv C cfg g _ (genesis_inv C cfg g gst hg) evs).just h s rs hs hrs

/-- … hence, when hashes do not collide (state root ↦ state and header hash ↦ header injective — the collision-freedom
    assumption of DESIGN §2.5, made explicit), two nodes that received the same block through different histories have
    stored the same receipts, logs and gas for it. -/
theorem import_history_independent (C : ChainComp St Tx) (cfg : Cfg) (g : Header) (gst : St) (hg : C.root gst = g.root)
    (rootInj : ∀ s₁ s₂ : St, C.root s₁ = C.root s₂ → s₁ = s₂)
    (hashInj : ∀ h₁ h₂ : Header, C.hashHeader h₁ = C.hashHeader h₂ → h₁ = h₂)
    (evs₁ evs₂ : List (Event Tx)) (h : Hash) (s₁ s₂ : Stored Tx) (rs₁ rs₂ : List Receipt)
    (hs₁ : ((genesisStore C.toComp g gst).run C cfg evs₁).blocks h = some s₁)
    (hs₂ : ((genesisStore C.toComp g gst).run C cfg evs₂).blocks h = some s₂)
    (hb : s₁.block = s₂.block) (hn₁ : s₁ ≠ genesisEntry g) (hn₂ : s₂ ≠ genesisEntry g)
    (hr₁ : s₁.receipts = some rs₁) (hr₂ : s₂.receipts = some rs₂) :
    rs₁ = rs₂ ∧ s₁.gasUsed = s₂.gasUsed := by
  rcases import_is_function C cfg g gst hg evs₁ h s₁ rs₁ hs₁ hr₁ with e | ⟨pst₁, ph₁, p₁, k₁, r₁, res₁, a₁, b₁, _⟩
  · exact absurd e hn₁
  rcases import_is_function C cfg g gst hg evs₂ h s₂ rs₂ hs₂ hr₂ with e | ⟨pst₂, ph₂, p₂, k₂, r₂, res₂, a₂, b₂, _⟩
  · exact absurd e hn₂
  rw [hb] at k₁ res₁
  have eph : ph₁ = ph₂ := hashInj _ _ (k₁.trans k₂.symm)
  subst eph
  have est : pst₁ = pst₂ := rootInj _ _ (r₁.trans r₂.symm)
  subst est
  rw [res₁] at res₂
  cases res₂
  exact ⟨a₁.symm.trans a₂, b₁.symm.trans b₂⟩

-- non-vacuity: in the toy history the block B2 is stored with its receipts (two receipts, cumulative gas 1 and 2), and
-- the same block arriving alone after its parent, or in one batch, or after a pruning of B1's state and a restart, is
-- stored with the same result.
example : (((Toy.forked true).blocks 2002).bind (·.receipts)).map (fun rs => rs.map (·.cumGas)) = some [1, 2] := by decide
example :
    let S₂ := (genesisStore Toy.comp Toy.g 0).run (Toy.chain true) Toy.cfg
      [.insert [Toy.b1] Toy.noCoin, .restart, .insert [Toy.a1] Toy.noCoin, .insert [Toy.b2] Toy.noCoin]
    (S₂.blocks 2002).bind (·.receipts) = ((Toy.forked true).blocks 2002).bind (·.receipts) := by decide


/-! ## 6. Warm or cold caches: the runtime caches cannot influence an import -/

/-- Reading through coherent caches IS reading the store: `GetBlock`, `GetTd`, `HasBlock`, `HasState`, `state.New` answer
    the same whether they are served from `blockCache` / `bodyCache` / header, number and td caches / `pastTries` or from the
    database. -/
theorem reads_through_coherent_caches (codeDb : Hash → Option Nat) (K : Caches St Tx) (S : Store St Tx) (h : Coh codeDb K S) :
    view K S = S :=
  view_eq codeDb K S h

/-- **Coherence is an invariant of the running node.**  Start from any store satisfying the store invariant whose bodies match
    their headers, with ANY coherent cache contents; let the node run any history of imports (every read through the caches),
    prunings, restarts (caches dropped), SetHead rewinds (block-keyed caches purged, as the code does), arbitrary LRU evictions
    and arbitrary cache fills.  Then every cached entry still equals what the store holds for its key.
    Needs: the current order of checks in ValidateBody (`bodyFirst`; otherwise `block_cache_needs_body_check_witness`), and
    collision-freedom of header hash, transaction root, uncle hash and state root — the block and state caches are keyed by
    hash and are NOT updated by writes, so a write under an existing key must write the same value. -/
theorem cache_coherence_preserved (C : ChainComp St Tx) (cfg : Cfg) (g : Header) (codeDb : Hash → Option Nat)
    (hbf : C.bodyFirst = true) (cf : CollisionFree C) (N : NodeK St Tx) (hN : NInv C cfg g codeDb N) (evs : List (EventK St Tx)) :
    Coh codeDb (N.run C cfg evs).caches (N.run C cfg evs).store :=
  (nodeK_run C cfg g codeDb hbf cf evs N hN).2.coh

/-- **The import result is the same for every cache state** (warm vs cold, any LRU contents, any eviction schedule): two nodes
    holding the same store with different coherent caches, driven through histories that differ only in cache traffic
    (fills / evictions), end with the same store — database content, states, head, write log — which is the store of the
    node without caches.  With `import_is_function` this closes the clause "with warm or cold caches" for the model; what
    remains outside is only whether Go's LRU and trie-node implementations realise "a cache entry is what was put in". -/
theorem import_cache_independent (C : ChainComp St Tx) (cfg : Cfg) (g : Header) (codeDb : Hash → Option Nat)
    (hbf : C.bodyFirst = true) (cf : CollisionFree C) (S : Store St Tx) (hI : Inv C cfg g S) (hB : BodiesOk C S)
    (K₁ K₂ : Caches St Tx) (h₁ : Coh codeDb K₁ S) (h₂ : Coh codeDb K₂ S)
    (evs₁ evs₂ : List (EventK St Tx)) (he : stripK evs₁ = stripK evs₂) :
    (NodeK.run C cfg ⟨S, K₁⟩ evs₁).store = (NodeK.run C cfg ⟨S, K₂⟩ evs₂).store ∧
    (NodeK.run C cfg ⟨S, K₁⟩ evs₁).store = S.run C cfg (stripK evs₁) := by
  have r₁ := (nodeK_run C cfg g codeDb hbf cf evs₁ ⟨S, K₁⟩ ⟨hI, hB, h₁⟩).1
  have r₂ := (nodeK_run C cfg g codeDb hbf cf evs₂ ⟨S, K₂⟩ ⟨hI, hB, h₂⟩).1
  exact ⟨by rw [r₁, r₂, he], r₁⟩

/-- the freshly initialised node satisfies the hypotheses of `import_cache_independent` (with empty caches, or any coherent ones). -/
theorem genesis_node_invariant (C : ChainComp St Tx) (cfg : Cfg) (g : Header) (gst : St) (codeDb : Hash → Option Nat)
    (hg : C.root gst = g.root) (hgb : validateBodyHashes C.toComp { header := g, txs := [], uncles := [] } = .ok ()) :
    NInv C cfg g codeDb ⟨genesisStore C.toComp g gst, Caches.empty⟩ := by
  refine ⟨genesis_inv C cfg g gst hg, ?_, coh_empty codeDb _⟩
  intro h s hs
  unfold genesisStore upd at hs
  simp only [] at hs
  split at hs
  · cases hs; exact hgb
  · cases hs

/-- The code-size cache as the tree keys it (by CODE HASH) is transparent: on any coherent cache the lookup returns what the
    content-addressed code table holds — for every account of every state, hence on every fork — and leaves the cache coherent. -/
theorem codesize_cache_by_codehash_transparent (cache : Nat → Option Nat) (db : Hash → Option Nat)
    (hc : ∀ c n, cache c = some n → db c = some n) (a : Addr) (codeHash : Hash) :
    (codeSizeLookup keyByCodeHash cache db a codeHash).1 = db codeHash ∧
    ∀ c n, (codeSizeLookup keyByCodeHash cache db a codeHash).2 c = some n → db c = some n :=
  codeSize_byHash cache db hc a codeHash

/-- Witness of a NON-coherent cache key (the seeded change C01-2): keyed by ADDRESS, the size learnt for address 7 on a fork
    where it carries the 4-byte code `1` is served on the fork where the same address carries the 25-byte code `2` — the entry
    is not a function of its key, so EXTCODESIZE (and with it the state root) depends on which fork was imported first.
    Keyed by code hash the second lookup answers 25. -/
theorem codesize_cache_keyed_by_address_witness :
    let db : Hash → Option Nat := fun ch => if ch = 1 then some 4 else if ch = 2 then some 25 else none
    let warmByAddr := (codeSizeLookup keyByAddress (fun _ => none) db 7 1).2
    let warmByHash := (codeSizeLookup keyByCodeHash (fun _ => none) db 7 1).2
    (codeSizeLookup keyByAddress warmByAddr db 7 2).1 = some 4 ∧ db 2 = some 25 ∧
    (codeSizeLookup keyByAddress (fun _ => none) db 7 2).1 = some 25 ∧
    (codeSizeLookup keyByCodeHash warmByHash db 7 2).1 = some 25 := by
  decide

/-- Witness that the block cache is coherent only BECAUSE bodies are checked against headers: with the pre-9f7e060 order of
    checks the re-import of the known block B2 with swapped transactions rewrites the database entry of hash 2002 while a
    `blockCache` holding the original B2 is left as it is — the cache (transactions [1,2]) no longer equals the store ([2,1]). -/
theorem block_cache_needs_body_check_witness :
    let S' := (importBlock (Toy.chain false) Toy.cfg false (Toy.forked false) Toy.b2swapped).2
    ((Toy.forked false).blocks 2002).map (·.block.txs) = some [1, 2] ∧ (S'.blocks 2002).map (·.block.txs) = some [2, 1] := by
  decide

-- non-vacuity: the toy genesis node satisfies the invariant; a history with fills, evictions, a restart and a SetHead, run
-- with caches, ends with the head and the stored receipts of the cache-free run.
example : validateBodyHashes Toy.comp { header := Toy.g, txs := ([] : List Nat), uncles := [] } = .ok () := by rfl
example :
    let evs : List (EventK Nat Nat) :=
      [.chain (.insert [Toy.a1] Toy.noCoin), .fill (fun _ => true) (fun _ => true) (fun _ => true),
       .chain (.insert [Toy.b1, Toy.b2] Toy.noCoin), .evict (fun h => h == 1001) (fun _ => false) (fun _ => true) (fun _ => true),
       .chain .restart, .chain (.insert [Toy.b2] Toy.noCoin), .chain (.setHead (fun h => h != 2002) 1001)]
    let N := NodeK.run (Toy.chain true) Toy.cfg ⟨genesisStore Toy.comp Toy.g 0, Caches.empty⟩ evs
    (N.store.head, (N.store.blocks 1002).bind (·.receipts), (N.store.blocks 2002).isSome) = (1001, some [], false) := by decide

/-- **The sender cache cannot influence a verdict**: when the cached address is served only under signer EQUALITY
    (`same s s' = true → s = s'`) and the cache holds what recovery under its own signer gives, `types.Sender` IS recovery under
    the requested signer — for every cache content (no cache, the pool's EIP155 entry, an entry left by another fork's import). -/
theorem sender_cache_transparent {Signer : Type} (recover : Signer → Tx → Option Addr) (same : Signer → Signer → Bool)
    (hsame : ∀ s s', same s s' = true → s = s') (cache : Option (Signer × Addr)) (tx : Tx)
    (hc : ∀ s a, cache = some (s, a) → recover s tx = some a) (signer : Signer) :
    senderCached recover same cache signer tx = recover signer tx := by
  unfold senderCached
  cases cache with
  | none => rfl
  | some p =>
    obtain ⟨s, a⟩ := p
    simp only []
    by_cases e : same s signer = true
    · rw [if_pos e]; have := hsame s signer e; subst this; exact (hc s a rfl).symm
    · rw [if_neg e]

/-- … hence the verdict on a block is a function of the block and the parent state alone: however the components are completed
    from a sender-resolution function (`mk`), resolving senders through ANY coherent per-transaction caches gives the same
    `validateAll` as resolving them by recovery. -/
theorem block_verdict_sender_cache_independent {Signer : Type} (recover : Signer → Tx → Option Addr) (same : Signer → Signer → Bool)
    (hsame : ∀ s s', same s s' = true → s = s') (caches : Tx → Option (Signer × Addr))
    (hc : ∀ tx s a, caches tx = some (s, a) → recover s tx = some a)
    (mk : (Signer → Tx → Option Addr) → Comp St Tx) (cfg : Cfg) (pst : St) (b : Block Tx) :
    validateAll (mk (fun signer tx => senderCached recover same (caches tx) signer tx)) cfg pst b =
    validateAll (mk recover) cfg pst b := by
  have e : (fun signer tx => senderCached recover same (caches tx) signer tx) = recover := by
    funext signer tx
    exact sender_cache_transparent recover same hsame (caches tx) tx (hc tx) signer
  rw [e]

/-- Witness of what goes wrong when the cache is served ACROSS signers (seeded change C01-8: EIP155 ↔ Homestead treated as
    interchangeable): signer 0 = Homestead cannot recover the replay-protected transaction, signer 1 = EIP155 recovers address 7;
    with the pool's entry (1, 7) in the cache the Homestead lookup answers 7 instead of failing — warm and cold nodes disagree. -/
theorem sender_cache_across_signers_witness :
    let recover : Nat → Nat → Option Addr := fun signer _ => if signer = 1 then some 7 else none
    let lax : Nat → Nat → Bool := fun _ _ => true
    let strict : Nat → Nat → Bool := fun a b => a == b
    senderCached recover lax (some (1, 7)) 0 0 = some 7 ∧ senderCached recover lax none 0 0 = none ∧
    senderCached recover strict (some (1, 7)) 0 0 = none := by
  decide

/-- BLOCKHASH is answered from the executed block's OWN ancestry: the walk from `ref.ParentHash` reads no head and no canonical
    number index, so it is the same whichever branch is the head.  Witness of the seeded change C01-7 (answering from the
    canonical index when `number = head + 1`): headers 10 ← 21 (branch A, height 1) and 10 ← 22 ← 32 (branch B); executing a child
    of 32... of 22 at height 2 = head(21).number + 1, BLOCKHASH(1) is 22 by the walk but 21 by the canonical index. -/
theorem blockhash_walk_ignores_head_witness :
    let mkH (parent number : Nat) : Header :=
      { parentHash := parent, number := number, coinbase := 0, gasLimit := 0, time := 0, difficulty := 0, extra := 0,
        uncleHash := 0, root := 0, txHash := 0, receiptHash := 0, bloom := 0, gasUsed := 0 }
    let hdr : Hash → Option Header := fun h =>
      if h = 10 then some (mkH 0 0) else if h = 21 then some (mkH 10 1) else if h = 22 then some (mkH 10 1) else none
    let canonical : Nat → Hash := fun n => if n = 0 then 10 else if n = 1 then 21 else 0
    blockHashWalk hdr 3 22 1 = 22 ∧ canonical 1 = 21 ∧ blockHashWalk hdr 3 22 0 = 10 := by
  decide

/-! ## 7. Equal content ⇒ equal ROOT, on real Merkle-Patricia tries (composition with C10) -/

/-- **`Finalise` / `IntermediateRoot` on real tries**: run the two map loops on actual Merkle-Patricia tries (every storage
    trie and the account trie is the history of its `TryUpdate` / `TryDelete` calls in iteration order, roots by
    `Trie.hashRoot` for an ARBITRARY hash function `H`).  For all permutations of `stateObjectsDirty` and of every
    `dirtyStorage` the STATE ROOT is the same, every account's storage root is the same, and the content view is the same.
    No "root is a function of content" hypothesis: that is `Aqv.Props.C10.root_content_only`, used inside.  The only
    hypothesis is `Codec.Ok`: trie keys are injective and encoded values non-empty. -/
theorem finalise_root_perm_invariant (H : Bytes → Bytes) (cd : Codec) (ok : cd.Ok) (del : Bool) (s : CSDB) (hc : CCoh cd s)
    (π₁ π₂ : List Addr) (σ₁ σ₂ : Addr → List Slot) (hπ : π₁.Perm π₂) (hσ : ∀ a, (σ₁ a).Perm (σ₂ a)) :
    cIntermediateRoot H cd del π₁ σ₁ s = cIntermediateRoot H cd del π₂ σ₂ s ∧
    (cFinalise H cd del π₁ σ₁ s).base = (cFinalise H cd del π₂ σ₂ s).base ∧
    ∀ a o, (cFinalise H cd del π₁ σ₁ s).base.objs a = some o →
      trieRoot H ((cFinalise H cd del π₁ σ₁ s).hists a) = trieRoot H ((cFinalise H cd del π₂ σ₂ s).hists a) := by
  obtain ⟨b₁, c₁⟩ := cFinalise_refines H cd ok del π₁ σ₁ s hc
  obtain ⟨b₂, c₂⟩ := cFinalise_refines H cd ok del π₂ σ₂ s hc
  have eb : (cFinalise H cd del π₁ σ₁ s).base = (cFinalise H cd del π₂ σ₂ s).base := by
    rw [b₁, b₂]; exact finalise_perm_invariant _ del s.base π₁ π₂ σ₁ σ₂ hπ hσ
  refine ⟨?_, eb, ?_⟩
  · unfold cIntermediateRoot
    apply trieRoot_eq_of_content
    rw [c₁.ac, c₂.ac, eb]
  · intro a o ho
    apply trieRoot_eq_of_content
    rw [c₁.st a o ho, c₂.st a o (eb ▸ ho)]

/-- the root the node computes is THE root of the content: `IntermediateRoot` on real tries equals the root of (any history
    producing) the account-trie content that Layer A's `finalise` yields — the function `A` the Layer-A theorems take as a
    parameter exists, and it is what the code computes. -/
theorem intermediateRoot_is_content_root (H : Bytes → Bytes) (cd : Codec) (ok : cd.Ok) (del : Bool) (s : CSDB) (hc : CCoh cd s)
    (π : List Addr) (σ : Addr → List Slot) :
    natOfRoot (cIntermediateRoot H cd del π σ s) =
      (intermediateRoot (accountRootOf H cd) (storageRootOf H cd) del π σ s.base).2 := by
  obtain ⟨b, c⟩ := cFinalise_refines H cd ok del π σ s hc
  unfold cIntermediateRoot intermediateRoot accountRootOf
  simp only []
  rw [trieRoot_content, c.ac, b]

/-- … also when the tries are only PARTIALLY loaded (trie cache generations: any clean subtree may have been unloaded, nodes
    are resolved on demand through the node database): two nodes that reached their account tries through the operation
    histories of two different iteration orders — with whatever interleaving of Hash / Commit / unloading / reopening — have
    the same root.  From C10 `root_content_only_partial`; its hypotheses (32-byte hash, collision-freedom of `H` on the nodes
    the histories pass through, sizes below 2^64) are C10's. -/
theorem finalise_root_perm_invariant_partially_loaded (H : Bytes → Bytes) (hH : ∀ x, (H x).length = 32) (cd : Codec) (ok : cd.Ok)
    (del : Bool) (s : CSDB) (hc : CCoh cd s) (π₁ π₂ : List Addr) (σ₁ σ₂ : Addr → List Slot) (hπ : π₁.Perm π₂)
    (hσ : ∀ a, (σ₁ a).Perm (σ₂ a)) (x₁ x₂ : Aqv.Trie.XState)
    (r₁ : Aqv.Trie.Reach H (cFinalise H cd del π₁ σ₁ s).acct x₁) (r₂ : Aqv.Trie.Reach H (cFinalise H cd del π₂ σ₂ s).acct x₂)
    (f₁ : Aqv.Trie.CFHist H (cFinalise H cd del π₁ σ₁ s).acct) (f₂ : Aqv.Trie.CFHist H (cFinalise H cd del π₂ σ₂ s).acct)
    (z₁ : Aqv.Trie.SzHist H (cFinalise H cd del π₁ σ₁ s).acct) (z₂ : Aqv.Trie.SzHist H (cFinalise H cd del π₂ σ₂ s).acct) :
    Aqv.Trie.hashRootX H x₁.root = Aqv.Trie.hashRootX H x₂.root := by
  obtain ⟨b₁, c₁⟩ := cFinalise_refines H cd ok del π₁ σ₁ s hc
  obtain ⟨b₂, c₂⟩ := cFinalise_refines H cd ok del π₂ σ₂ s hc
  have eb : (cFinalise H cd del π₁ σ₁ s).base = (cFinalise H cd del π₂ σ₂ s).base := by
    rw [b₁, b₂]; exact finalise_perm_invariant _ del s.base π₁ π₂ σ₁ σ₂ hπ hσ
  apply Aqv.Props.C10.root_content_only_partial H hH _ _ x₁ x₂ r₁ r₂ f₁ f₂ z₁ z₂
  intro kb
  rw [c₁.ac, c₂.ac, eb]

-- non-vacuity: the toy codec satisfies `Codec.Ok`, the toy real-trie StateDB is coherent, and the two orders issue
-- different operation histories (so the equality of roots is not an equality of inputs).
example : Toy.codec.Ok := Toy.codec_ok
example : CCoh Toy.codec Toy.csdb := by
  refine ⟨?_, ?_⟩
  · intro a o ho
    have : o.storage = fun _ => 0 := by
      simp only [Toy.csdb, upd] at ho
      split at ho
      · cases ho; rfl
      · split at ho
        · cases ho; rfl
        · cases ho
    funext kb
    rw [this]
    simp only [imgS]
    cases Toy.codec.slotInv kb <;> rfl
  · funext kb
    simp only [imgA, Toy.csdb]
    cases Toy.codec.addrInv kb <;> rfl
example :
    let keys (ops : List Aqv.Trie.Op) : List Bytes := ops.map (fun op => match op with | .update k _ => k | .delete k => k | .other => [])
    keys ((cFinalise (fun x => x) Toy.codec true [1, 2] (fun _ => [5, 6]) Toy.csdb).hists 1) = [Toy.unary 5, Toy.unary 6] ∧
    keys ((cFinalise (fun x => x) Toy.codec true [2, 1] (fun _ => [6, 5]) Toy.csdb).hists 1) = [Toy.unary 6, Toy.unary 5] ∧
    keys (cFinalise (fun x => x) Toy.codec true [1, 2] (fun _ => [5, 6]) Toy.csdb).acct = [Toy.unary 1, Toy.unary 2] ∧
    keys (cFinalise (fun x => x) Toy.codec true [2, 1] (fun _ => [6, 5]) Toy.csdb).acct = [Toy.unary 2, Toy.unary 1] := by
  decide

end Aqv.Props.C01

/-
  C01 — Block import is deterministic and accepts only self-consistent blocks.   Property theorems only.
  Model: Aqv.Model.BlockImport
    Layer A  core/state Finalise / IntermediateRoot / Commit / updateTrie as folds over an arbitrary iteration order,
    Layer B  Process / ApplyTransaction / ValidateBody / ValidateState / Finalize / GenerateChain / commitNewWork / NewBlock
             composed from abstract components,
    Layer C  insertChain2 / WriteBlockWithState / WriteBlockWithoutState over a store with an explicit write log.
  `R` (storage root of a content) and `A` (account-trie root of a content) are PARAMETERS: that a trie root is a function of
  the content alone is what C09/C10 prove (`root_content_only`); nothing here depends on which function it is.
-/
import Aqv.Lemmas.BlockImportToy
namespace Aqv.Props.C01
open Aqv.BlockImport

variable {St Tx : Type}

/-! ## 1. Go map iteration order cannot reach a root -/

/-- `Finalise(del)`: for ALL permutations π₁ π₂ of `stateObjectsDirty` and, per account, all permutations σ₁ a, σ₂ a of its
    `dirtyStorage`, the resulting StateDB is the same: the same account-trie content and, for every account, the same
    storage-trie content, the same `data.Root`, the same flags. -/
theorem finalise_perm_invariant (R : (Slot → Word) → Hash) (del : Bool) (s : SDB)
    (π₁ π₂ : List Addr) (σ₁ σ₂ : Addr → List Slot) (hπ : π₁.Perm π₂) (hσ : ∀ a, (σ₁ a).Perm (σ₂ a)) :
    finalise R del π₁ σ₁ s = finalise R del π₂ σ₂ s :=
  finalise_perm R del σ₁ σ₂ hπ hσ s

/-- … hence the same account-trie content and the same storage content of every account (the form quoted in the design). -/
theorem finalise_content_perm_invariant (R : (Slot → Word) → Hash) (del : Bool) (s : SDB)
    (π₁ π₂ : List Addr) (σ₁ σ₂ : Addr → List Slot) (hπ : π₁.Perm π₂) (hσ : ∀ a, (σ₁ a).Perm (σ₂ a)) :
    (finalise R del π₁ σ₁ s).trie = (finalise R del π₂ σ₂ s).trie ∧
    ∀ a, ((finalise R del π₁ σ₁ s).objs a).map (·.storage) = ((finalise R del π₂ σ₂ s).objs a).map (·.storage) := by
  rw [finalise_perm_invariant R del s π₁ π₂ σ₁ σ₂ hπ hσ]
  exact ⟨rfl, fun _ => rfl⟩

/-- `IntermediateRoot(del)`: whatever function `A` of the account-trie content the root is, it is the same for all
    iteration orders. -/
theorem intermediateRoot_perm_invariant (A : (Addr → Option Leaf) → Hash) (R : (Slot → Word) → Hash) (del : Bool) (s : SDB)
    (π₁ π₂ : List Addr) (σ₁ σ₂ : Addr → List Slot) (hπ : π₁.Perm π₂) (hσ : ∀ a, (σ₁ a).Perm (σ₂ a)) :
    intermediateRoot A R del π₁ σ₁ s = intermediateRoot A R del π₂ σ₂ s := by
  unfold intermediateRoot
  rw [finalise_perm_invariant R del s π₁ π₂ σ₁ σ₂ hπ hσ]

/-- `stateObject.updateTrie`: the storage-trie content after flushing `dirtyStorage` does not depend on the order. -/
theorem updateTrie_perm_invariant (o : Obj) (ks₁ ks₂ : List Slot) (h : ks₁.Perm ks₂) :
    updateTrie ks₁ o = updateTrie ks₂ o :=
  updateTrie_perm o h

/-- `Commit(del)` (the loop over ALL live objects that `WriteBlockWithState` runs): same state and root for every order. -/
theorem commit_perm_invariant (A : (Addr → Option Leaf) → Hash) (R : (Slot → Word) → Hash) (del : Bool) (s : SDB)
    (ρ₁ ρ₂ : List Addr) (σ₁ σ₂ : Addr → List Slot) (hρ : ρ₁.Perm ρ₂) (hσ : ∀ a, (σ₁ a).Perm (σ₂ a)) :
    commit A R del ρ₁ σ₁ s = commit A R del ρ₂ σ₂ s := by
  have hs : ∀ (ρ : List Addr) (t : SDB), ρ.foldl (commitStep R del σ₁) t = ρ.foldl (commitStep R del σ₂) t := by
    intro ρ
    induction ρ with
    | nil => intro t; rfl
    | cons a rest ih =>
      intro t
      simp only [List.foldl_cons]
      have e : commitStep R del σ₁ t a = commitStep R del σ₂ t a := by
        unfold commitStep
        cases t.objs a with
        | none => rfl
        | some o =>
          have : settleCommit R del (σ₁ a) (t.dirty a) o = settleCommit R del (σ₂ a) (t.dirty a) o := by
            unfold settleCommit; rw [updateRoot_perm R o (hσ a)]
          simp only [this]
      rw [e]; exact ih _
  unfold commit
  rw [hs ρ₁ s, commitFold_perm R del σ₂ hρ s]

/-- a second `Finalise`/`IntermediateRoot` over the same dirty set (ValidateState after Finalize) changes nothing. -/
theorem finalise_idempotent (R : (Slot → Word) → Hash) (del : Bool) (π : List Addr) (σ : Addr → List Slot) (s : SDB) :
    finalise R del π σ (finalise R del π σ s) = finalise R del π σ s :=
  finalise_idem R del π σ s

/-- an adversarial, state-dependent choice of iteration orders cannot influence the pipeline: two order oracles that
    enumerate the same sets give the same `Finalise` function, hence (for any way `mk` of completing it to the components
    of Layer B) the same `process`. -/
theorem process_order_oracle_independent (R : (Slot → Word) → Hash)
    (ord₁ ord₂ : SDB → List Addr × (Addr → List Slot))
    (h : ∀ s, (ord₁ s).1.Perm (ord₂ s).1 ∧ ∀ a, ((ord₁ s).2 a).Perm ((ord₂ s).2 a))
    (mk : (Bool → SDB → SDB) → Comp SDB Tx) (cfg : Cfg) (pst : SDB) (b : Block Tx) :
    process (mk (fun del s => finalise R del (ord₁ s).1 (ord₁ s).2 s)) cfg pst b =
    process (mk (fun del s => finalise R del (ord₂ s).1 (ord₂ s).2 s)) cfg pst b := by
  have e : (fun del s => finalise R del (ord₁ s).1 (ord₁ s).2 s) = (fun del s => finalise R del (ord₂ s).1 (ord₂ s).2 s) := by
    funext del s
    exact finalise_perm_invariant R del s _ _ _ _ (h s).1 (h s).2
  rw [e]

-- non-vacuity: two dirty accounts (1 has two dirty slots incl. a deletion, 2 is suicided) under two different orders.
section
def exObj1 : Obj :=
  { nonce := 1, balance := 5, codeHash := 0, sroot := 0, storage := upd (fun _ => 0) 6 9,
    dirty := upd (upd (fun _ => none) 5 (some 7)) 6 (some 0), suicided := false, deleted := false }
def exObj2 : Obj := { exObj1 with suicided := true }
def exS : SDB :=
  { trie := upd (fun _ => none) 2 (some ⟨0, 1, 0, 0⟩), objs := upd (upd (fun _ => none) 1 (some exObj1)) 2 (some exObj2),
    dirty := fun a => a == 1 || a == 2, fault := false }
def exR : (Slot → Word) → Hash := fun f => f 5 * 100 + f 6
example : [1, 2].Perm [2, 1] := List.Perm.swap 2 1 []
example : ((finalise exR true [1, 2] (fun _ => [5, 6]) exS).trie 1, (finalise exR true [1, 2] (fun _ => [5, 6]) exS).trie 2)
    = (some ⟨1, 5, 700, 0⟩, none) := by rfl
example : ((finalise exR true [2, 1] (fun _ => [6, 5]) exS).trie 1, (finalise exR true [2, 1] (fun _ => [6, 5]) exS).trie 2)
    = (some ⟨1, 5, 700, 0⟩, none) := by rfl
end

/-! ## 2. Accepted ⇔ self-consistent -/

/-- `ValidateBody`'s hash checks and `ValidateState` (after `Process` on the parent state) succeed
    ⇔ all six header commitments — transaction root, uncle hash, state root, receipt root, log bloom, gas used — equal the
    values recomputed from the body and the parent state. -/
theorem validate_iff (C : Comp St Tx) (cfg : Cfg) (pst : St) (b : Block Tx) :
    (∃ p, validateAll C cfg pst b = .ok p) ↔ recompute C cfg pst b = some b.header.commitments :=
  validateAll_iff_commitments C cfg pst b

/-- the two halves separately, with the individual equalities spelled out. -/
theorem validateBody_iff (C : Comp St Tx) (b : Block Tx) :
    validateBodyHashes C b = .ok () ↔ (C.uncleHash b.uncles = b.header.uncleHash ∧ C.txRoot b.txs = b.header.txHash) :=
  validateBodyHashes_ok_iff C b

theorem validateState_iff (C : Comp St Tx) (cfg : Cfg) (b : Block Tx) (st : St) (rcs : List Receipt) (used : Nat) :
    validateState C cfg b st rcs used = .ok () ↔
      (b.header.gasUsed = used ∧ createBloom C rcs = b.header.bloom ∧ C.receiptRoot rcs = b.header.receiptHash ∧
        (C.interRoot (isForked cfg.eip158 b.header.number) st).2 = b.header.root) :=
  validateState_ok_iff C cfg b st rcs used

/-- every block for which `WriteBlockWithState` runs during an import has all six commitments right
    (for the check order of the tree as it is now, `bodyFirst = true`). -/
theorem accepted_only_if_self_consistent (C : ChainComp St Tx) (cfg : Cfg) (hbf : C.bodyFirst = true) (coin : Bool)
    (S : Store St Tx) (b : Block Tx) (h : (importBlock C cfg coin S b).1 = .written) :
    ∃ pst, recompute C.toComp cfg pst b = some b.header.commitments := by
  obtain ⟨hg, pst, p, hr⟩ := importBlock_written C cfg coin S b h
  refine ⟨pst, (validate_iff C.toComp cfg pst b).1 ⟨p, ?_⟩⟩
  exact (validateAll_ok_iff _ _ _ _ _).2 ⟨bodyGate_none C b hbf hg, hr⟩

/-- … and the state-side commitments (root, receipt root, bloom, gas used) are right whatever the check order. -/
theorem accepted_only_if_state_consistent (C : ChainComp St Tx) (cfg : Cfg) (coin : Bool)
    (S : Store St Tx) (b : Block Tx) (h : (importBlock C cfg coin S b).1 = .written) :
    ∃ pst p, result C.toComp cfg pst b = .ok p :=
  (importBlock_written C cfg coin S b h).2

/-- Why the order of checks in `ValidateBody` matters (the defect fixed by 9f7e060, kept as a regression witness):
    with the OLD order a block whose hash is already known (with state, above the head) is re-imported without comparing the
    body with the header — the same header with its two transactions swapped is written although its transaction root is wrong;
    with the order of the tree as it is now it is refused. -/
theorem known_block_body_check_witness :
    (importBlock (Toy.chain false) Toy.cfg false (Toy.forked false) Toy.b2swapped).1 = .written ∧
    validateBodyHashes Toy.comp Toy.b2swapped = .error .txRoot ∧
    (importBlock (Toy.chain true) Toy.cfg false (Toy.forked true) Toy.b2swapped).1 = .abort .txRoot := by
  refine ⟨by decide, rfl, by decide⟩

-- non-vacuity: the toy block B2 validates on state 0 (= state after B1) and its commitments are the recomputed ones;
-- a wrong root is reported as such.
example : (validateAll Toy.comp Toy.cfg 0 Toy.b2).toOption.map (·.gasUsed) = some 2 := by decide
example : recompute Toy.comp Toy.cfg 0 Toy.b2 = some Toy.b2.header.commitments := by decide
example : (validateAll Toy.comp Toy.cfg 0 Toy.b2badRoot).toOption.isNone = true := by decide
example : (importBlock (Toy.chain true) Toy.cfg false (Toy.forked true) Toy.b2badRoot).1 = .abort .stateRoot := by decide

/-! ## 3. The node accepts what it builds -/

/-- A block assembled by the node's own building path (GenerateChain / commitNewWork: fork edits, ApplyTransaction with an
    explicit author accumulating into header.GasUsed, engine.Finalize, NewBlock) is accepted by the import path — `Process`
    yields the same state, receipts and gas, and both validators pass.
    Hypotheses: the three constants NewBlock uses for empty lists are what the hash functions return on `[]`
    (checked against the real code by the harness), and a second IntermediateRoot does not change the root (for the state
    model of Layer A this is `finalise_idempotent`). -/
theorem build_then_import (C : Comp St Tx) (cfg : Cfg) (eR eU : Hash)
    (h1 : C.txRoot [] = eR) (h2 : C.receiptRoot [] = eR) (h3 : C.uncleHash [] = eU)
    (idem : ∀ d st, C.root (C.finalise d (C.finalise d st)) = C.root (C.finalise d st))
    (parent : Header) (pst : St) (coinbase : Addr) (time extra : Nat) (txs : List Tx) (uncles : List Header) (B : Built St Tx)
    (hB : buildBlock C cfg eR eU parent pst coinbase time extra txs uncles = .ok B) :
    (∃ p, process C cfg pst B.block = .ok p ∧ p.st = B.st ∧ p.receipts = B.receipts ∧ p.gasUsed = B.block.header.gasUsed ∧
          C.root p.st = B.block.header.root) ∧
    (∃ q, validateAll C cfg pst B.block = .ok q ∧ q.receipts = B.receipts ∧ q.gasUsed = B.block.header.gasUsed) := by
  obtain ⟨p, hp, e1, e2, e3, e4, hb, hv⟩ := build_import_lemma C cfg eR eU h1 h2 h3 idem parent pst coinbase time extra txs uncles B hB
  refine ⟨⟨p, hp, e1, e2, e3, e4⟩, ⟨{ p with st := C.finalise (isForked cfg.eip158 B.block.header.number) p.st }, ?_, e2, e3⟩⟩
  rw [validateAll_ok_iff]
  refine ⟨hb, ?_⟩
  rw [result_ok_iff]
  exact ⟨p, hp, hv, rfl⟩

-- non-vacuity: the toy builder produces a block with two transactions on top of genesis and the hypotheses hold.
example : (buildBlock Toy.comp Toy.cfg 7 0 Toy.g 0 9 10 5 [1, 2] []).toOption.map (fun B => (B.block.header.root, B.block.header.gasUsed, B.block.header.txHash))
    = some (3, 2, 712) := by decide
example : Toy.comp.txRoot [] = 7 ∧ Toy.comp.receiptRoot [] = 0 ∧ Toy.comp.uncleHash [] = 0 := by decide

/-! ## 4. A refused block leaves nothing behind -/

/-- If any stage before `WriteBlockWithState` fails for a block whose parent state is at hand — blacklist, header, body hashes,
    uncles, a transaction that cannot be applied, gas used, bloom, receipt root, state root — the store (database content,
    head, write log) after the step IS the store before it. -/
theorem reject_leaves_unchanged (C : ChainComp St Tx) (cfg : Cfg) (coin : Bool) (S : Store St Tx) (b : Block Tx)
    (ps : Stored Tx) (pst : St) (hp : S.blocks b.header.parentHash = some ps) (hst : S.states ps.block.header.root = some pst)
    (e : Err) (h : (importBlock C cfg coin S b).1 = .abort e) :
    (importBlock C cfg coin S b).2 = S :=
  importBlock_abort_unchanged C cfg coin S b ps pst hp hst e h

/-- the abort discipline of a batch: when the blocks `pre` import without error and the next block `bad` is refused, the
    batch `pre ++ bad :: rest` stops at `bad`'s index with the store reached after `pre` — no write for `bad`, none for `rest`,
    head and write log exactly those after `pre`. -/
theorem insertChain_aborts_at_first_invalid (C : ChainComp St Tx) (cfg : Cfg) (coins : Nat → Bool) (S S₁ : Store St Tx) (n : Nat)
    (pre rest : List (Block Tx)) (bad : Block Tx) (e : Err)
    (hpre : importLoop C cfg coins S 0 pre = (n, none, S₁))
    (ps : Stored Tx) (pst : St) (hp : S₁.blocks bad.header.parentHash = some ps) (hst : S₁.states ps.block.header.root = some pst)
    (hbad : (importBlock C cfg (coins n) S₁ bad).1 = .abort e) :
    importLoop C cfg coins S 0 (pre ++ bad :: rest) = (n, some e, S₁) := by
  rw [importLoop_append, hpre]
  simp only []
  have h2 := reject_leaves_unchanged C cfg (coins n) S₁ bad ps pst hp hst e hbad
  apply importLoop_cons_abort
  cases hib : importBlock C cfg (coins n) S₁ bad with
  | mk o S' =>
    rw [hib] at hbad h2
    simp only [] at hbad h2
    rw [hbad, h2]

-- non-vacuity: in the toy store the block with the wrong root has its parent state at hand, is refused, and the batch
-- [B2badRoot] after a good prefix stops with the prefix's store.
example : ((Toy.forked true).blocks Toy.b2badRoot.header.parentHash).isSome = true := by decide
example : ((importBlock (Toy.chain true) Toy.cfg false (Toy.forked true) Toy.b2badRoot).2.log.length,
           (importBlock (Toy.chain true) Toy.cfg false (Toy.forked true) Toy.b2badRoot).2.head)
        = ((Toy.forked true).log.length, (Toy.forked true).head) := by decide

/-! ## 5. The result of an import is a function of (parent state, block) -/

/-- For EVERY arrival history — any sequence of batches (any split, any interleaving of forks, known blocks re-sent),
    prunings of arbitrary sets of states, restarts — whatever the node has stored as the result of importing a block
    (receipts incl. logs, gas used, state root) is the value of ONE fixed function, `result`, at (a state whose root is the
    root committed by the parent header, the block): nothing about the history enters. -/
theorem import_is_function (C : ChainComp St Tx) (cfg : Cfg) (g : Header) (gst : St) (hg : C.root gst = g.root)
    (evs : List (Event Tx)) (h : Hash) (s : Stored Tx) (rs : List Receipt)
    (hs : ((genesisStore C.toComp g gst).run C cfg evs).blocks h = some s) (hrs : s.receipts = some rs) :
    s = genesisEntry g ∨
    ∃ (pst : St) (ph : Header) (p : Processed St),
      C.hashHeader ph = s.block.header.parentHash ∧ C.root pst = ph.root ∧
      result C.toComp cfg pst s.block = .ok p ∧ p.receipts = rs ∧ p.gasUsed = s.gasUsed ∧ C.root p.st = s.block.header.root :=
  (run_inv C cfg g _ (genesis_inv C cfg g gst hg) evs).just h s rs hs hrs

/-- … hence, when hashes do not collide (state root ↦ state and header hash ↦ header injective — the collision-freedom
    assumption of DESIGN §2.5, made explicit), two nodes that received the same block through different histories have
    stored the same receipts, logs and gas for it. -/
theorem import_history_independent (C : ChainComp St Tx) (cfg : Cfg) (g : Header) (gst : St) (hg : C.root gst = g.root)
    (rootInj : ∀ s₁ s₂ : St, C.root s₁ = C.root s₂ → s₁ = s₂)
    (hashInj : ∀ h₁ h₂ : Header, C.hashHeader h₁ = C.hashHeader h₂ → h₁ = h₂)
    (evs₁ evs₂ : List (Event Tx)) (h : Hash) (s₁ s₂ : Stored Tx) (rs₁ rs₂ : List Receipt)
    (hs₁ : ((genesisStore C.toComp g gst).run C cfg evs₁).blocks h = some s₁)
    (hs₂ : ((genesisStore C.toComp g gst).run C cfg evs₂).blocks h = some s₂)
    (hb : s₁.block = s₂.block) (hn₁ : s₁ ≠ genesisEntry g) (hn₂ : s₂ ≠ genesisEntry g)
    (hr₁ : s₁.receipts = some rs₁) (hr₂ : s₂.receipts = some rs₂) :
    rs₁ = rs₂ ∧ s₁.gasUsed = s₂.gasUsed := by
  rcases import_is_function C cfg g gst hg evs₁ h s₁ rs₁ hs₁ hr₁ with e | ⟨pst₁, ph₁, p₁, k₁, r₁, res₁, a₁, b₁, _⟩
  · exact absurd e hn₁
  rcases import_is_function C cfg g gst hg evs₂ h s₂ rs₂ hs₂ hr₂ with e | ⟨pst₂, ph₂, p₂, k₂, r₂, res₂, a₂, b₂, _⟩
  · exact absurd e hn₂
  rw [hb] at k₁ res₁
  have eph : ph₁ = ph₂ := hashInj _ _ (k₁.trans k₂.symm)
  subst eph
  have est : pst₁ = pst₂ := rootInj _ _ (r₁.trans r₂.symm)
  subst est
  rw [res₁] at res₂
  cases res₂
  exact ⟨a₁.symm.trans a₂, b₁.symm.trans b₂⟩

/-- restarts are invisible: closing and reopening the chain between any two imports changes nothing the import path reads.
    `_partial`: the model has no runtime caches — Go's LRU block/body/futureBlocks caches, `pastTries`, `codeSizeCache` and
    the trie node cache generations are exactly what a restart drops; that they do not influence results is what the
    metamorphic differential of the harness exercises on the real node (cold vs warm, archive vs pruning), not a theorem. -/
theorem import_cache_independent_partial (C : ChainComp St Tx) (cfg : Cfg) (S : Store St Tx) (evs₁ evs₂ : List (Event Tx)) :
    S.run C cfg (evs₁ ++ .restart :: evs₂) = S.run C cfg (evs₁ ++ evs₂) := by
  unfold Store.run
  rw [List.foldl_append, List.foldl_append]
  rfl

-- non-vacuity: in the toy history the block B2 is stored with its receipts (two receipts, cumulative gas 1 and 2), and
-- the same block arriving alone after its parent, or in one batch, or after a pruning of B1's state and a restart, is
-- stored with the same result.
example : (((Toy.forked true).blocks 2002).bind (·.receipts)).map (fun rs => rs.map (·.cumGas)) = some [1, 2] := by decide
example :
    let S₂ := (genesisStore Toy.comp Toy.g 0).run (Toy.chain true) Toy.cfg
      [.insert [Toy.b1] Toy.noCoin, .restart, .insert [Toy.a1] Toy.noCoin, .insert [Toy.b2] Toy.noCoin]
    (S₂.blocks 2002).bind (·.receipts) = ((Toy.forked true).blocks 2002).bind (·.receipts) := by decide

end Aqv.Props.C01

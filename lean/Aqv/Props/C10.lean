/-
  C10 — The Merkle-Patricia trie commits to exactly its content.  Property theorems only (helpers: Aqv/Lemmas/Trie*).
  Model: Aqv.Model.Trie (insert/delete/get = trie/trie.go workers incl. dirty flag and panic outcome, hexToCompact &c =
  trie/encoding.go, ref/body/hashRoot = trie/hasher.go for an ARBITRARY hash function H).
-/
import Aqv.Lemmas.TrieBuild
import Aqv.Lemmas.TrieProof
import Aqv.Lemmas.TrieLoad
import Aqv.Lemmas.TrieGc
import Aqv.Lemmas.TrieLoadFast
namespace Aqv.Props.C10
open Aqv Aqv.Trie Aqv.Rlp

/-! ### map refinement: lookups return exactly the live content -/

/-- On a canonical trie and a terminated key, `insert` does not panic and the new trie answers `get` like the updated
    finite map. -/
theorem get_insert (t : Node) (h : WFRoot t) (k k' : List Nib) (hk : Term k) (hk' : Term k') (v : Bytes) (hv : v ≠ []) :
    ∃ d t', insert t k v = some (d, t') ∧ get t' k' = if k' = k then some (some v) else get t k' := by
  obtain ⟨d, hd⟩ := insert_spec t k v (pos_of_wfroot h hk)
  refine ⟨d, _, hd, ?_⟩
  rw [get_eq_lookup _ _ (pos_of_wfroot (Or.inr (ins_wf t k v hk h hv)) hk'), get_eq_lookup _ _ (pos_of_wfroot h hk'),
    ins_lookup t k v (pos_of_wfroot h hk)]
  split <;> rfl

/-- `delete` does not panic and the new trie answers `get` like the finite map with the key removed. -/
theorem get_delete (t : Node) (h : WFRoot t) (k k' : List Nib) (hk : Term k) (hk' : Term k') :
    ∃ d t', delete t k = some (d, t') ∧ get t' k' = if k' = k then some none else get t k' := by
  obtain ⟨d, hd⟩ := delete_spec t k (pos_of_wfroot h hk)
  refine ⟨d, _, hd, ?_⟩
  rw [get_eq_lookup _ _ (pos_of_wfroot (del_wf t k hk h) hk'), get_eq_lookup _ _ (pos_of_wfroot h hk'),
    del_lookup t k (pos_of_wfroot h hk)]
  split <;> rfl

/-- `get` computes the denotation `lookup` (and never panics) on canonical tries and terminated keys. -/
theorem get_is_lookup (t : Node) (h : WFRoot t) (k : List Nib) (hk : Term k) : get t k = some (lookup t k) :=
  get_eq_lookup t k (pos_of_wfroot h hk)

/-- the dirty flag is only an optimisation: a clean result is the unchanged node. -/
theorem insert_clean_unchanged (t : Node) (k : List Nib) (v : Bytes) (t' : Node) (h : insert t k v = some (false, t')) :
    t' = t := insert_fst_false t k v t' h

theorem delete_clean_unchanged (t : Node) (k : List Nib) (t' : Node) (h : delete t k = some (false, t')) : t' = t :=
  delete_fst_false t k t' h

/-! ### the canonical shape is preserved -/

theorem wf_insert (t : Node) (h : WFRoot t) (k : List Nib) (hk : Term k) (v : Bytes) (hv : v ≠ []) (d : Bool) (t' : Node)
    (hi : insert t k v = some (d, t')) : WF t' := by
  obtain ⟨d', hd⟩ := insert_spec t k v (pos_of_wfroot h hk)
  rw [hd] at hi
  simp only [Option.some.injEq, Prod.mk.injEq] at hi
  rw [← hi.2]
  exact ins_wf t k v hk h hv

theorem wf_delete (t : Node) (h : WFRoot t) (k : List Nib) (hk : Term k) (d : Bool) (t' : Node)
    (hi : delete t k = some (d, t')) : WFRoot t' := by
  obtain ⟨d', hd⟩ := delete_spec t k (pos_of_wfroot h hk)
  rw [hd] at hi
  simp only [Option.some.injEq, Prod.mk.injEq] at hi
  rw [← hi.2]
  exact del_wf t k hk h

/-! ### uniqueness of the canonical shape ⇒ the root depends on the content only -/

/-- Two canonical tries with the same content are the same tree. -/
theorem wf_unique (t₁ t₂ : Node) (h₁ : WFRoot t₁) (h₂ : WFRoot t₂) (h : ∀ k, lookup t₁ k = lookup t₂ k) : t₁ = t₂ :=
  wfroot_unique h₁ h₂ h

/-- the same, phrased with the Go-shaped `get` over terminated keys only. -/
theorem wf_unique_get (t₁ t₂ : Node) (h₁ : WFRoot t₁) (h₂ : WFRoot t₂) (h : ∀ k, Term k → get t₁ k = get t₂ k) :
    t₁ = t₂ := by
  apply wfroot_unique h₁ h₂
  intro k
  by_cases hk : Term k
  · have := h k hk
    rw [get_is_lookup t₁ h₁ k hk, get_is_lookup t₂ h₂ k hk] at this
    simpa using this
  · have e₁ : lookup t₁ k = none := by
      apply Classical.byContradiction; intro hne; exact hk (wfroot_lookup_term h₁ hne)
    have e₂ : lookup t₂ k = none := by
      apply Classical.byContradiction; intro hne; exact hk (wfroot_lookup_term h₂ hne)
    rw [e₁, e₂]

/-- Every history over the public API (update / delete / anything else, in any order) runs without panic, ends in a
    canonical trie, and `TryGet` answers exactly the reference map. -/
theorem run_refines (ops : List Op) :
    ∃ t, run ops = some t ∧ WFRoot t ∧ ∀ kb, tryGet t kb = some (absOf ops kb) := by
  obtain ⟨t, hr, hi⟩ := inv_run ops
  refine ⟨t, hr, hi.wf, ?_⟩
  intro kb
  unfold tryGet
  rw [get_is_lookup t hi.wf _ (term_keybytesToHex kb), hi.content]

/-- **The root is a function of the content alone**: two histories with the same resulting key→value map end in the
    same trie, hence in the same root hash — for ANY hash function `H`, any insertion/deletion order, any interleaving
    of other operations. -/
theorem root_content_only (H : Bytes → Bytes) (ops₁ ops₂ : List Op) (t₁ t₂ : Node)
    (h₁ : run ops₁ = some t₁) (h₂ : run ops₂ = some t₂) (h : ∀ kb, absOf ops₁ kb = absOf ops₂ kb) :
    t₁ = t₂ ∧ hashRoot H t₁ = hashRoot H t₂ := by
  obtain ⟨t₁', hr₁, hi₁⟩ := inv_run ops₁
  obtain ⟨t₂', hr₂, hi₂⟩ := inv_run ops₂
  rw [h₁] at hr₁; rw [h₂] at hr₂
  simp only [Option.some.injEq] at hr₁ hr₂
  subst hr₁; subst hr₂
  have := inv_unique hi₁ hi₂ h
  exact ⟨this, by rw [this]⟩

/-! ### iteration yields exactly the content, in order; the root is the specification's root of that content -/

/-- The leaf iterator's sequence holds exactly the (key, value) pairs of the denoted map … -/
theorem iter_is_content (t : Node) (k : List Nib) (v : Bytes) : (k, v) ∈ toList t ↔ lookup t k = some v :=
  mem_toList t k v

/-- … strictly increasing in the iteration order (hence without duplicates). -/
theorem iter_sorted (t : Node) : (toList t).Pairwise (fun a b => keyLt a.1 b.1 = true) := toList_sorted t

/-- `hashRoot t` is the Merkle-Patricia root the specification defines (`mptRoot`: Yellow-Paper construction, which
    does not use insert/delete) for the content of `t`, given as ANY list that is sorted and holds exactly the content;
    for every hash function. -/
theorem root_eq_spec (H : Bytes → Bytes) (t : Node) (h : WFRoot t) (kvs : List (List Nib × Bytes))
    (hs : kvs.Pairwise (fun a b => keyLt a.1 b.1 = true)) (hc : ∀ k v, (k, v) ∈ kvs ↔ lookup t k = some v) :
    hashRoot H t = mptRoot H kvs := by
  rw [toList_unique t kvs hs hc]
  exact hashRoot_eq_mptRoot H h

/-- History form (what the model driver recomputes on every run): after any history the root equals `mptRoot` of the
    reference map listed in key order. -/
theorem root_eq_spec_run (H : Bytes → Bytes) (ops : List Op) (t : Node) (hr : run ops = some t)
    (m : List (Bytes × Bytes)) (hs : m.Pairwise (fun a b => keyLt (keybytesToHex a.1) (keybytesToHex b.1) = true))
    (hc : ∀ kb v, (kb, v) ∈ m ↔ absOf ops kb = some v) :
    hashRoot H t = mptRoot H (m.map fun kv => (keybytesToHex kv.1, kv.2)) := by
  obtain ⟨t', hr', hi⟩ := inv_run ops
  rw [hr] at hr'
  simp only [Option.some.injEq] at hr'
  subst hr'
  apply root_eq_spec H t hi.wf
  · rw [List.pairwise_map]; exact hs
  · intro k v
    simp only [List.mem_map, Prod.mk.injEq]
    constructor
    · rintro ⟨⟨kb, w⟩, hm, rfl, rfl⟩
      rw [hi.content]; exact (hc kb w).1 hm
    · intro hl
      obtain ⟨kb, rfl⟩ := hi.bytekeys k (by rw [hl]; simp)
      rw [hi.content] at hl
      exact ⟨(kb, v), (hc kb v).2 hl, rfl, rfl⟩

/-! ### Merkle proofs -/

/-- `decodeNode` inverts the hasher's node encoding on canonical nodes (children come back as embedded nodes,
    32-byte hash references, nil or values) — the fact behind reloading from the node database and behind proofs.
    `hH`: the hash function has 32-byte outputs; `SizeOk`: every RLP length fits the 8-byte length header. -/
theorem decode_encode_node (H : Bytes → Bytes) (hH : ∀ x, (H x).length = 32) (n : Node) (hw : WF n) (hs : SizeOk H n) :
    decodeNode ((enc (body H n)).length + 1) (enc (body H n)) = .ok (toP H n) := by
  have := decodeNode_body H hH hw hs ((enc (body H n)).length + 1) [] (by omega)
  rwa [List.append_nil] at this

/-- **Completeness.** The node list `Prove` produces for ANY key (present or absent) in ANY canonical trie (the empty
    one included), stored under the hashes of its elements, makes `VerifyProof` return exactly the content's answer —
    provided the hash function does not collide on those finitely many elements (`cf`) nor between the root node and
    the empty string (`hroot`); both explicit and decidable on instances. -/
theorem prove_verify (H : Bytes → Bytes) (hH : ∀ x, (H x).length = 32) (t : Node) (hw : WFRoot t) (hs : SizeOk H t)
    (hroot : t ≠ .nil → hashRoot H t ≠ emptyRoot H)
    (k : List Nib) (hk : Term k) (els : List Bytes) (hp : prove H t k = some els)
    (cf : ∀ e ∈ els, ∀ e' ∈ els, H e = H e' → e = e') :
    verifyProof H (dbOf H els) (verifyFuel k) (hashRoot H t) k =
      match lookup t k with
      | some v => .value v
      | none => .absent := by
  rcases hw with rfl | hw
  · have : hashRoot H .nil = emptyRoot H := rfl
    simp [verifyProof, this, lookup]
  · have hne := hroot (wf_ne_nil hw)
    simp only [verifyProof, hne, if_false]
    have := prove_verify_core H hH hw hs hk hp (dbOf H els) (dbOf_self H els cf) (verifyFuel k) (by simp [verifyFuel])
    rw [this]
    cases lookup t k <;> rfl

/-- `Prove` itself never panics on a canonical trie and a terminated key. -/
theorem prove_total (H : Bytes → Bytes) (t : Node) (hw : WFRoot t) (k : List Nib) (hk : Term k) :
    ∃ els, prove H t k = some els := by
  have hpath : ∀ (n : Node) (k : List Nib), Pos n k → ∃ l, provePath n k = some l := by
    intro n
    induction n with
    | nil => intro k _; cases k <;> exact ⟨[], rfl⟩
    | value w =>
      intro k hp
      rcases hp with ⟨_, h | h⟩ | ⟨rfl, _⟩
      · cases h
      · exact absurd h (not_wf_value w)
      · exact ⟨[], rfl⟩
    | short p c ih =>
      intro k hp
      rcases hp with ⟨hk, h | hw⟩ | ⟨_, h | ⟨w, h⟩⟩
      · cases h
      · obtain ⟨x, r, rfl⟩ := List.exists_cons_of_ne_nil (term_ne_nil hk)
        simp only [provePath]
        split
        · next ht =>
          obtain ⟨r', hr'⟩ := take_eq_iff.1 ht
          have hpos : Pos c (List.drop p.length (x :: r)) := by
            rw [hr']; simp only [List.drop_left]; rw [hr'] at hk; exact pos_short_child hw hk
          obtain ⟨l, hl⟩ := ih _ hpos
          exact ⟨_, by rw [hl]; rfl⟩
        · exact ⟨_, rfl⟩
      · cases h
      · cases h
    | full cs ih =>
      intro k hp
      rcases hp with ⟨hk, h | hw⟩ | ⟨_, h | ⟨w, h⟩⟩
      · cases h
      · obtain ⟨x, r, rfl⟩ := List.exists_cons_of_ne_nil (term_ne_nil hk)
        simp only [provePath]
        obtain ⟨l, hl⟩ := ih x r (pos_full_child hw hk)
        exact ⟨_, by rw [hl]; rfl⟩
      · cases h
      · cases h
  obtain ⟨l, hl⟩ := hpath t k (pos_of_wfroot hw hk)
  exact ⟨proofElems H true l, by simp [prove, hl]⟩

/-- **Soundness: no altered proof verifies to a different value.** For an ARBITRARY node list `p` (altered, truncated,
    extended, forged), stored under the hashes of its elements: whenever `VerifyProof` against the root of `t` returns a
    value it is the value `t` holds, whenever it reports absence the key is absent, and it never panics — under the explicit
    hypothesis `cf` that no element of `p` collides under `H` with a genuine node of `t` without being that node's
    encoding (and `hroot`: the root node does not collide with the empty string). Any amount of fuel (loop iterations). -/
theorem verify_sound (H : Bytes → Bytes) (hH : ∀ x, (H x).length = 32) (t : Node) (hw : WFRoot t) (hs : SizeOk H t)
    (hroot : t ≠ .nil → hashRoot H t ≠ emptyRoot H)
    (p : List Bytes) (cf : ∀ e ∈ p, ∀ m, Sub m t → H e = hashOf H m → e = enc (body H m))
    (k : List Nib) (hk : Term k) (f : Nat) :
    (∀ v, verifyProof H (dbOf H p) f (hashRoot H t) k = .value v → lookup t k = some v) ∧
    (verifyProof H (dbOf H p) f (hashRoot H t) k = .absent → lookup t k = none) ∧
    verifyProof H (dbOf H p) f (hashRoot H t) k ≠ .panic := by
  rcases hw with rfl | hw
  · have : hashRoot H .nil = emptyRoot H := rfl
    simp [verifyProof, this, lookup]
  · have hne := hroot (wf_ne_nil hw)
    simp only [verifyProof, hne, if_false]
    apply verify_core H hH (dbOf H p) t _ f t k (Sub.refl t) hw hs hk
    intro m hsub _ blob hd
    obtain ⟨h1, h2⟩ := dbOf_some hd
    exact cf blob h1 m hsub h2

/-- **Binding** (the converse of `root_content_only`): two canonical tries with the same root hash are the same trie —
    hence hold the same content — provided `H` does not collide between a node of one and a node of the other (`CFp`,
    explicit). Together: the root determines and is determined by the content. -/
theorem root_binding (H : Bytes → Bytes) (hH : ∀ x, (H x).length = 32) (t₁ t₂ : Node) (h₁ : WF t₁) (h₂ : WF t₂)
    (s₁ : SizeOk H t₁) (s₂ : SizeOk H t₂) (cf : CFp H t₁ t₂) (h : hashRoot H t₁ = hashRoot H t₂) :
    t₁ = t₂ ∧ ∀ k, lookup t₁ k = lookup t₂ k := by
  have := root_binding_core H hH h₁ h₂ s₁ s₂ cf h
  exact ⟨this, fun k => by rw [this]⟩

/-! ### reopening from a committed root (cache eviction / reload from the node database) -/

/-- A trie reopened from its committed root reproduces the trie: resolving every hash reference from the root hash
    through a node database that holds each node of the committed trie under its hash (`hdb`: what `Commit` writes)
    rebuilds exactly `t` — hence the same content, iteration and root. (`∃ f₀`: enough resolution steps.) -/
theorem commit_reopen (H : Bytes → Bytes) (hH : ∀ x, (H x).length = 32) (t : Node) (hw : WF t) (hs : SizeOk H t)
    (db : Bytes → Option Bytes) (hdb : ∀ m, Sub m t → IsSF m → db (hashOf H m) = some (enc (body H m))) :
    ∃ f₀, ∀ f, f₀ ≤ f → loadP db f (.hash (hashRoot H t)) = some t := by
  obtain ⟨f₀, h₀⟩ := loadP_refP H hH db t (Or.inr (Or.inr hw)) hs hdb
  refine ⟨f₀ + 1, fun f hf => ?_⟩
  obtain ⟨g, rfl⟩ : ∃ g, f = g + 1 := ⟨f - 1, by omega⟩
  have hdec := decodeNode_body H hH hw hs ((enc (body H t)).length + 1) [] (by omega)
  rw [List.append_nil] at hdec
  have hroot : db (hashRoot H t) = some (enc (body H t)) := hdb t (Sub.refl t) (wf_isSF hw)
  simp only [loadP, hroot, hdec]
  exact (h₀ g (by omega)).2 (wf_isSF hw)

/-- A lookup that starts from nothing but the root hash and such a node database — resolve, decode, descend, as a
    reopened (fully unloaded) trie does on `TryGet` — returns exactly the content. -/
theorem reopen_get (H : Bytes → Bytes) (hH : ∀ x, (H x).length = 32) (t : Node) (hw : WF t) (hs : SizeOk H t)
    (db : Bytes → Option Bytes) (hdb : ∀ m, Sub m t → IsSF m → db (hashOf H m) = some (enc (body H m)))
    (k : List Nib) (hk : Term k) :
    verify db (verifyFuel k) (hashRoot H t) k =
      match lookup t k with
      | some v => .value v
      | none => .absent := by
  rw [reopen_get_core H hH hw hs db hdb hk (verifyFuel k) (by simp [verifyFuel])]
  cases lookup t k <;> rfl

/-! ### partially loaded tries: on-demand resolution, unloading, Commit, missing nodes

  `Repr H db am r x t` (Lemmas.TrieLoad): the partially loaded node `x` (hash nodes = unloaded subtrees) stands for the
  fully loaded canonical node `t` over the node database `db`; `am = false`: the database holds every referenced node,
  `am = true`: it may lack some. `xget`/`xinsert`/`xdelete` are the workers of trie.go WITH the `hashNode` cases
  (`resolveHash` through `db`), `hashRootX` the hasher on such nodes, `Unload` the hasher's unloading step (any clean
  node, nondeterministically), `commitDb` what `Commit` stores. -/

/-- **unload_denotation (get)**: on any representation of `t`, the on-demand `tryGet` returns the content's answer and a
    node (with the path now loaded) that still stands for `t`. -/
theorem unload_get (H : Bytes → Bytes) (hH : ∀ x, (H x).length = 32) (db : Bytes → Option Bytes) (r : Bool) (x : PNode)
    (t : Node) (hr : Repr H db false r x t) (ht : WFRoot t) (k : List Nib) (hk : Term k) :
    ∃ x', xget db (xfuel k) x k = .ok (lookup t k, x') ∧ Repr H db false r x' t := by
  rcases xget_repr H hH db false hr k _ (pos_of_wfroot ht hk) (need_le_xfuel _ _) with h | ⟨ha, _⟩
  · exact h
  · cases ha

/-- **unload_denotation (insert)**: same dirty flag as on the fully loaded trie, and the result stands for the updated
    trie `ins t k v` (= what `insert` returns, `insert_spec`). -/
theorem unload_insert (H : Bytes → Bytes) (hH : ∀ x, (H x).length = 32) (db : Bytes → Option Bytes) (r : Bool) (x : PNode)
    (t : Node) (hr : Repr H db false r x t) (ht : WFRoot t) (k : List Nib) (hk : Term k) (v : Bytes) :
    ∃ d x' t', insert t k v = some (d, t') ∧ xinsert db (xfuel k) x k v = .ok (d, x') ∧ Repr H db false false x' t' := by
  rcases xinsert_repr H hH db false hr k _ v (pos_of_wfroot ht hk) (need_le_xfuel _ _) with ⟨d, x', h1, h2, h3⟩ | ⟨ha, _⟩
  · exact ⟨d, x', _, h1, h2, h3⟩
  · cases ha

/-- **unload_denotation (delete)**, including the collapse step that resolves the single remaining child. -/
theorem unload_delete (H : Bytes → Bytes) (hH : ∀ x, (H x).length = 32) (db : Bytes → Option Bytes) (r : Bool) (x : PNode)
    (t : Node) (hr : Repr H db false r x t) (ht : WFRoot t) (k : List Nib) (hk : Term k) :
    ∃ d x' t', delete t k = some (d, t') ∧ xdelete db (xfuel k) x k = .ok (d, x') ∧ Repr H db false false x' t' := by
  rcases xdelete_repr H hH db false hr k _ (pos_of_wfroot ht hk) (need_le_xfuel _ _) with ⟨d, x', h1, h2, h3, _⟩ | ⟨ha, _⟩
  · exact ⟨d, x', _, h1, h2, h3⟩
  · cases ha

/-- **unload_denotation (Hash)**: hashing any representation gives the root of the trie it stands for (a hash node is
    its own reference; no database access, no collision-freedom needed). -/
theorem unload_hashRoot (H : Bytes → Bytes) (db : Bytes → Option Bytes) (am r : Bool) (x : PNode) (t : Node)
    (hr : Repr H db am r x t) : hashRootX H x = hashRoot H t := hashRootX_repr H db am hr

/-- **Unloading is invisible**: replacing ANY clean loaded subtree (stored in `db` with everything loaded below it) by
    its hash node — whatever the cache generation / `SetCacheLimit` made the hasher pick — still stands for `t`. -/
theorem unload_denotation (H : Bytes → Bytes) (db : Bytes → Option Bytes) (r : Bool) (x x' : PNode) (t : Node)
    (hu : Unload H db r x x') (hr : Repr H db false r x t) (ht : WFRoot t) (hs : SizeOk H t) :
    Repr H db false r x' t := unload_repr H db hu hr (slot_of_wfroot ht) hs

/-- **Commit, then reopen from the root hash**: after `Commit` the database extends the old one, the loaded trie still
    stands for `t`, and so does the bare root hash node (what `New(root, db)` starts from). Collision-freedom of `H`
    is needed exactly here: between the nodes of `t` (`hcf`) and against blobs already stored under their hashes
    (`hold`) — `db.insert` keeps the first blob stored under a hash. -/
theorem commit_reopen_partial (H : Bytes → Bytes) (db : Bytes → Option Bytes) (r : Bool) (x : PNode) (t : Node)
    (hr : Repr H db false r x t) (ht : WF t) (hs : SizeOk H t) (hx : isSFX x = true)
    (hold : ∀ m, Sub m t → WF m → ∀ b, db (hashOf H m) = some b → b = enc (body H m)) (hcf : CFp H t t) :
    Repr H (commitDb H db x) false true x t ∧ Repr H (commitDb H db x) false true (.hash (hashRootX H x)) t :=
  commit_reopen_repr H db hr (Or.inr (Or.inr ht)) hs hx hold hcf

/-- **missing_node_is_reported**: over a database that may LACK nodes (never holds wrong ones), the on-demand workers
    either behave exactly as on the full trie or return the MissingNodeError — never a wrong value, a panic, or a node
    standing for a different trie. -/
theorem missing_node_is_reported (H : Bytes → Bytes) (hH : ∀ x, (H x).length = 32) (db : Bytes → Option Bytes) (r : Bool)
    (x : PNode) (t : Node) (hr : Repr H db true r x t) (ht : WFRoot t) (k : List Nib) (hk : Term k) (v : Bytes) :
    ((∃ x', xget db (xfuel k) x k = .ok (lookup t k, x') ∧ Repr H db true r x' t) ∨ ∃ h, xget db (xfuel k) x k = .missing h) ∧
    ((∃ d x', xinsert db (xfuel k) x k v = .ok (d, x') ∧ Repr H db true false x' (ins t k v)) ∨
      ∃ h, xinsert db (xfuel k) x k v = .missing h) ∧
    ((∃ d x', xdelete db (xfuel k) x k = .ok (d, x') ∧ Repr H db true false x' (del t k)) ∨
      ∃ h, xdelete db (xfuel k) x k = .missing h) := by
  have hp := pos_of_wfroot ht hk
  refine ⟨?_, ?_, ?_⟩
  · rcases xget_repr H hH db true hr k _ hp (need_le_xfuel _ _) with h | ⟨_, h⟩
    · exact Or.inl h
    · exact Or.inr h
  · rcases xinsert_repr H hH db true hr k _ v hp (need_le_xfuel _ _) with ⟨d, x', _, h2, h3⟩ | ⟨_, h⟩
    · exact Or.inl ⟨d, x', h2, h3⟩
    · exact Or.inr h
  · rcases xdelete_repr H hH db true hr k _ hp (need_le_xfuel _ _) with ⟨d, x', _, h2, h3, _⟩ | ⟨_, h⟩
    · exact Or.inl ⟨d, x', h2, h3⟩
    · exact Or.inr h

/-- **Histories over partially loaded states.** Any state reachable by update / delete / get / Commit / unloading steps
    in any interleaving (`Reach`; reopen = Commit followed by unloading the root) stands for the canonical trie of the
    history: its `Hash` is that trie's root, every `TryGet` succeeds with the reference map's answer, every further
    update / delete succeeds (no MissingNodeError, no panic). Hypotheses: `H` collision-free on the finitely many nodes
    of the tries the history passes through (`CFHist`, used at Commit only), sizes below 2^64 (`SzHist`). -/
theorem partial_history_refines (H : Bytes → Bytes) (hH : ∀ x, (H x).length = 32) (ops : List Op) (s : XState)
    (hr : Reach H ops s) (hcf : CFHist H ops) (hsz : SzHist H ops) :
    ∃ t, run ops = some t ∧ WFRoot t ∧ hashRootX H s.root = hashRoot H t ∧
      (∀ kb, ∃ n, xget s.db (xfuel (keybytesToHex kb)) s.root (keybytesToHex kb) = .ok (absOf ops kb, n)) ∧
      (∀ kb v, ∃ d n, xinsert s.db (xfuel (keybytesToHex kb)) s.root (keybytesToHex kb) v = .ok (d, n)) ∧
      (∀ kb, ∃ d n, xdelete s.db (xfuel (keybytesToHex kb)) s.root (keybytesToHex kb) = .ok (d, n)) := by
  obtain ⟨t, hi⟩ := reach_xinv H hH hr hcf hsz
  refine ⟨t, hi.run, hi.inv.wf, hashRootX_repr H _ _ hi.repr, ?_, ?_, ?_⟩
  · intro kb
    obtain ⟨x', hx, _⟩ := unload_get H hH s.db true s.root t hi.repr hi.inv.wf _ (term_keybytesToHex kb)
    rw [hi.inv.content] at hx
    exact ⟨x', hx⟩
  · intro kb v
    obtain ⟨d, x', _, _, hx, _⟩ := unload_insert H hH s.db true s.root t hi.repr hi.inv.wf _ (term_keybytesToHex kb) v
    exact ⟨d, x', hx⟩
  · intro kb
    obtain ⟨d, x', _, _, hx, _⟩ := unload_delete H hH s.db true s.root t hi.repr hi.inv.wf _ (term_keybytesToHex kb)
    exact ⟨d, x', hx⟩

/-- `root_content_only` for partially loaded states: two reachable states (different histories, different interleavings
    of Hash / Commit / unload / reopen, different load states) with the same content have the same root hash. -/
theorem root_content_only_partial (H : Bytes → Bytes) (hH : ∀ x, (H x).length = 32) (ops₁ ops₂ : List Op) (s₁ s₂ : XState)
    (h₁ : Reach H ops₁ s₁) (h₂ : Reach H ops₂ s₂) (c₁ : CFHist H ops₁) (c₂ : CFHist H ops₂) (z₁ : SzHist H ops₁)
    (z₂ : SzHist H ops₂) (h : ∀ kb, absOf ops₁ kb = absOf ops₂ kb) : hashRootX H s₁.root = hashRootX H s₂.root := by
  obtain ⟨t₁, r₁, _, e₁, _⟩ := partial_history_refines H hH ops₁ s₁ h₁ c₁ z₁
  obtain ⟨t₂, r₂, _, e₂, _⟩ := partial_history_refines H hH ops₂ s₂ h₂ c₂ z₂
  rw [e₁, e₂, (root_content_only H ops₁ ops₂ t₁ t₂ r₁ r₂ h).2]

/-! ### the reference-counted node store (trie/database.go `reference` / `dereference`; state pruning) -/

section Gc
open Aqv.Gc
variable {α : Type} [DecidableEq α]

/-- **Counting invariant.** After any legal history of `hasher.store` / `Reference(root, {})` / `Dereference(root, {})`
    calls (nodes stored with the child list their content determines; only outstanding pins released) whose cascades ran
    to completion: for every cached node, `parents` = its outstanding root pins + the number of cached parents holding
    a registered reference to it — every reference counted exactly once, repeated root pins included. -/
theorem gc_parents_count (K : α → List α) (fuel : Nat) (ops : List (GcOp α)) (s' : Store α)
    (hl : LegalRun K fuel ops Store.empty) (hr : gcRun fuel ops Store.empty = some s') :
    ∀ n ∈ s'.nodes, s'.parents n = s'.pins n + (inE s' n : Int) := by
  intro n hn
  have := (gcRun_inv K fuel ops _ s' (ginv_empty K) hl hr).count n hn
  simpa using this

/-- **gc_keeps_referenced.** Under the same conditions, every root with at least one outstanding pin is still cached,
    and so is every node reachable from it along registered child references (shared subtries included): releasing other
    roots — or the same root fewer times than it was pinned — never evicts it. -/
theorem gc_keeps_referenced (K : α → List α) (fuel : Nat) (ops : List (GcOp α)) (s' : Store α)
    (hl : LegalRun K fuel ops Store.empty) (hr : gcRun fuel ops Store.empty = some s') (r : α) (hp : 1 ≤ s'.pins r) :
    ∀ d, Desc s' r d → d ∈ s'.nodes :=
  ginv_keeps (gcRun_inv K fuel ops _ s' (ginv_empty K) hl hr) hp

end Gc

/-- Witness for the seeded shape (C10-6): if only the FIRST reference from the meta root bumps `parents` while every
    dereference decrements it, a root pinned twice and released once is evicted together with its subtrie although one
    pin is outstanding; with the real `pin` the same history keeps both nodes. -/
theorem single_count_first_reference_only_loses_node :
    (∃ s : Gc.Store Nat, Gc.unpin 10 (Gc.pinFirstOnly (Gc.pinFirstOnly (Gc.storeNode (Gc.storeNode Gc.Store.empty 2 []) 1 [2]) 1) 1) 1
        = some s ∧ s.pins 1 = 1 ∧ 1 ∉ s.nodes ∧ 2 ∉ s.nodes) ∧
    (∃ s : Gc.Store Nat, Gc.unpin 10 (Gc.pin (Gc.pin (Gc.storeNode (Gc.storeNode Gc.Store.empty 2 []) 1 [2]) 1) 1) 1
        = some s ∧ s.pins 1 = 1 ∧ 1 ∈ s.nodes ∧ 2 ∈ s.nodes) :=
  ⟨⟨_, rfl, by decide, by decide, by decide⟩, ⟨_, rfl, by decide, by decide, by decide⟩⟩

/-! ### the executable shortcuts of the model driver refine the specification-level functions -/

/-- The driver's one-pass commit over a hash-map database IS `commitDb` (and its pass lists exactly `storeList` and
    computes `refX`): replaying `Commit` with it is replaying it in the model. No hypotheses. -/
theorem commit_fast_refines (H : Bytes → Bytes) (m : DbMap) (x : PNode) :
    dbFun (commitMap H m x) = commitDb H (dbFun m) x ∧ (storePass H x).2 = storeList H x ∧ (storePass H x).1 = refX H x :=
  ⟨commitMap_spec H m x, (storePass_spec H x).2, (storePass_spec H x).1⟩

/-- The driver's materialising loader IS `loadP` (so `commit_reopen` speaks about what the driver iterates / proves on). -/
theorem load_fast_refines (db : Bytes → Option Bytes) (f : Nat) (x : PNode) : loadFast db f x = loadP db f x :=
  loadFast_spec db f x

/-! ### key encodings -/

theorem keybytes_hex_roundtrip (s : Bytes) : hexToKeybytes (keybytesToHex s) = some s := keybytes_hex_roundtrip' s

theorem compact_hex_roundtrip (k : List Nib) (hk : Hex k ∨ Term k) : compactToHex (hexToCompact k) = some k :=
  compact_hex_roundtrip' k hk

/-! ### non-vacuity -/

-- a canonical trie with a branch, a value in slot 16 (key "a" is a prefix of key "ab"), an extension and leaves
private def exT : Node := ((tryUpdate ((tryUpdate ((tryUpdate .nil [0x61] [1]).getD .nil) [0x61, 0x62] [2]).getD .nil)
  [0x61, 0x63] [3]).getD .nil)
example : tryGet exT [0x61] = some (some [1]) := by decide
example : tryGet exT [0x61, 0x62] = some (some [2]) := by decide
example : tryGet exT [0x62] = some none := by decide
example : ∃ cs, exT = .short [6, 1] (.full cs) ∧ cs T = .value [1] := ⟨_, rfl, rfl⟩
example : WFRoot exT := (run_refines [.update [0x61] [1], .update [0x61, 0x62] [2], .update [0x61, 0x63] [3]]).elim
  fun t h => by
    have : run [.update [0x61] [1], .update [0x61, 0x62] [2], .update [0x61, 0x63] [3]] = some exT := rfl
    rw [this] at h
    simp only [Option.some.injEq] at h
    rw [h.1]; exact h.2.1
example : Term (keybytesToHex [0x61, 0x62]) := term_keybytesToHex _
-- two different histories, same content
example : absOf [.update [1] [7], .update [2] [8], .delete [1]] [2] = absOf [.update [2] [8]] [2] := by decide
example : run [.update [1] [7], .update [2] [8], .delete [1]] = run [.update [2] [8]] := by rfl
example : compactToHex (hexToCompact [1, 2, 3, T]) = some [1, 2, 3, T] := by decide
example : hexToCompact [1, 2, 3, T] = [0x31, 0x23] := by decide
example : mptRoot (fun b => b) [(keybytesToHex [0x61], [1]), (keybytesToHex [0x61, 0x62], [2])] =
    hashRoot (fun b => b) ((tryUpdate ((tryUpdate .nil [0x61, 0x62] [2]).getD .nil) [0x61] [1]).getD .nil) := by decide
-- Merkle proofs, with a toy 32-byte "hash" (first 32 bytes, zero padded) so that everything is decidable
private def toyH (b : Bytes) : Bytes := (b ++ List.replicate 32 0).take 32
example : ∀ x, (toyH x).length = 32 := by intro x; simp [toyH]
private def leafT : Node := .short (keybytesToHex [0x61]) (.value [7, 7])
example : WF leafT := WF.leaf _ _ (term_keybytesToHex _) (by decide)
example : SizeOk toyH leafT := ⟨by decide, trivial⟩
example : prove toyH leafT (keybytesToHex [0x61]) = some [[0xc6, 0x82, 0x20, 0x61, 0x82, 7, 7]] := by decide
example : verifyProof toyH (dbOf toyH [[0xc6, 0x82, 0x20, 0x61, 0x82, 7, 7]]) 5 (hashRoot toyH leafT) (keybytesToHex [0x61]) =
    .value [7, 7] := by decide
example : verifyProof toyH (dbOf toyH [[0xc6, 0x82, 0x20, 0x61, 0x82, 7, 7]]) 5 (hashRoot toyH leafT) (keybytesToHex [0x62]) =
    .absent := by decide
-- an altered element is simply not found under the root hash
example : verifyProof toyH (dbOf toyH [[0xc6, 0x82, 0x20, 0x61, 0x82, 7, 8]]) 5 (hashRoot toyH leafT) (keybytesToHex [0x61]) =
    .err := by decide
-- the empty trie: the empty proof verifies every key to absence; `hroot` holds for the leaf trie
example : prove toyH .nil (keybytesToHex [0x61]) = some [] := by decide
example : verifyProof toyH (dbOf toyH []) 5 (hashRoot toyH .nil) (keybytesToHex [0x61]) = .absent := by decide
example : hashRoot toyH leafT ≠ emptyRoot toyH := by decide
-- the collision-freedom hypothesis of `verify_sound` is satisfiable (here: the genuine proof against a one-leaf trie)
example : ∀ e ∈ [[0xc6, 0x82, 0x20, 0x61, 0x82, (7 : UInt8), 7]], ∀ m, Sub m leafT → toyH e = hashOf toyH m →
    e = enc (body toyH m) := by
  intro e he m hsub hh
  simp only [List.mem_singleton] at he
  subst he
  cases hsub with
  | refl => decide
  | short _ h =>
    cases h with
    | refl => exact absurd hh (by decide)
-- `CFp` is satisfiable: the one-leaf trie against itself
example : CFp toyH leafT leafT := by
  intro m₁ m₂ s₁ s₂ w₁ w₂ _
  have e₁ : m₁ = leafT := by
    cases s₁ with
    | refl => rfl
    | short _ h => cases h with
      | refl => exact absurd w₁ (not_wf_value _)
  have e₂ : m₂ = leafT := by
    cases s₂ with
    | refl => rfl
    | short _ h => cases h with
      | refl => exact absurd w₂ (not_wf_value _)
  rw [e₁, e₂]
-- reopening: the node database of the one-leaf trie
example : loadP (fun h => if h = hashRoot toyH leafT then some (enc (body toyH leafT)) else none) 3
    (.hash (hashRoot toyH leafT)) = some leafT := by rfl
-- partially loaded tries: a reachable committed + fully unloaded state, its hypotheses, and a lacking database
private def xleaf : PNode := .short (keybytesToHex [0x61]) (.value [7, 7])
private def exOps : List Op := [.update [0x61] [7, 7], .other, .other]

example : Repr toyH (fun _ => none) false true xleaf leafT := .short _ _ (.value _ _)

private theorem exReach : Reach toyH exOps ⟨commitDb toyH (fun _ => none) xleaf, .hash (hashRootX toyH xleaf)⟩ :=
  Reach.unload _ (Reach.commit (Reach.insert [0x61] [7, 7] true xleaf Reach.init (by decide) rfl))
    (Unload.here true xleaf rfl (Or.inl rfl) (by decide) (by intro kv h; revert kv; decide))

private theorem exHist : ∀ pre t, pre <+: exOps → run pre = some t → t = .nil ∨ t = leafT := by
  intro pre t hp hr
  obtain ⟨s, hs⟩ := hp
  match pre, hs, hr with
  | [], _, hr => left; exact (Option.some.inj hr).symm
  | [a], hs, hr =>
    simp only [exOps, List.cons_append, List.nil_append, List.cons.injEq] at hs
    obtain ⟨rfl, _⟩ := hs
    right; exact (Option.some.inj hr).symm
  | [a, b], hs, hr =>
    simp only [exOps, List.cons_append, List.nil_append, List.cons.injEq] at hs
    obtain ⟨rfl, rfl, _⟩ := hs
    right; exact (Option.some.inj hr).symm
  | [a, b, c], hs, hr =>
    simp only [exOps, List.cons_append, List.nil_append, List.cons.injEq] at hs
    obtain ⟨rfl, rfl, rfl, _⟩ := hs
    right; exact (Option.some.inj hr).symm
  | a :: b :: c :: d :: r, hs, _ =>
    simp [exOps] at hs

private theorem exNode : ∀ m, HistNode exOps m → m = leafT := by
  intro m ⟨pre, t, hp, hr, hs, hw⟩
  rcases exHist pre t hp hr with rfl | rfl
  · cases hs; exact absurd hw not_wf_nil
  · cases hs with
    | refl => rfl
    | short _ h => cases h; exact absurd hw (not_wf_value _)

example : CFHist toyH exOps := by
  intro m₁ m₂ h₁ h₂ _
  rw [exNode m₁ h₁, exNode m₂ h₂]

example : SzHist toyH exOps := by
  intro pre t hp hr
  rcases exHist pre t hp hr with rfl | rfl
  · trivial
  · exact ⟨by decide, trivial⟩

-- the unloaded, reopened state answers from the database, and a database lacking the node reports it
example : ∃ n, xget (commitDb toyH (fun _ => none) xleaf) 6 (.hash (hashRootX toyH xleaf)) (keybytesToHex [0x61]) =
    .ok (some [7, 7], n) := ⟨_, rfl⟩
example : xget (fun _ => none) 6 (.hash (hashRootX toyH xleaf)) (keybytesToHex [0x61]) =
    .missing (hashRootX toyH xleaf) := rfl
example : Repr toyH (fun _ => none) true true (.hash (hashOf toyH leafT)) leafT :=
  .gone _ rfl (WF.leaf _ _ (term_keybytesToHex _) (by decide)) (Or.inl rfl) rfl

-- the reference-counted store: a legal history (child 2 stored before its parent 1, root 1 pinned twice, released once)
private def exK : Nat → List Nat := fun n => if n = 1 then [2] else []
private def exGc : List (Gc.GcOp Nat) := [.store 2 [], .store 1 [2], .pin 1, .pin 1, .unpin 1]
example : Gc.LegalRun exK 10 exGc Gc.Store.empty := by
  refine ⟨rfl, fun s h => ?_⟩
  obtain rfl := Option.some.inj h
  refine ⟨rfl, fun s h => ?_⟩
  obtain rfl := Option.some.inj h
  refine ⟨trivial, fun s h => ?_⟩
  obtain rfl := Option.some.inj h
  refine ⟨trivial, fun s h => ?_⟩
  obtain rfl := Option.some.inj h
  exact ⟨(by decide : (1 : Int) ≤ (Gc.pin (Gc.pin (Gc.storeNode (Gc.storeNode Gc.Store.empty 2 []) 1 [2]) 1) 1).pins 1),
    fun _ _ => trivial⟩
example : ∃ s, Gc.gcRun 10 exGc Gc.Store.empty = some s ∧ s.pins 1 = 1 ∧ s.parents 1 = 1 ∧ s.parents 2 = 1 :=
  ⟨_, rfl, by decide, by decide, by decide⟩
-- the fast commit on a concrete node: one entry (the forced root), found again through `dbFun`
example : (dbFun (commitMap toyH {} xleaf)) (hashRootX toyH xleaf) = some (enc (bodyX toyH xleaf)) := by
  have h0 : dbFun ({} : DbMap) = fun _ => none := by funext h; simp [dbFun]
  rw [(commit_fast_refines toyH {} xleaf).1, h0]; decide
-- hostile node blobs: decode error, and the modelled Go panic (empty compact key)
private def outcome : Except DErr PNode → Nat
  | .ok _ => 0
  | .error .err => 1
  | .error .panic => 2
example : outcome (decodeNode 9 [0xc2, 0x80, 0x01]) = 2 := by decide
example : outcome (decodeNode 9 [0xc3, 0x20, 0x01, 0x02]) = 1 := by decide
example : outcome (decodeNode 9 [0xc2, 0x20, 0x01]) = 0 := by decide
-- the panic outcomes of the workers are real (non-canonical positions): they are not totalised away
example : get (.full emptyCs) [] = none := rfl
example : insert (.short [1, 2] (.value [9])) [1] [7] = none := rfl

end Aqv.Props.C10

/-
  C14 — A proof-of-work seal is accepted exactly when it meets the target.   Property theorems only.
  Model: Aqv.Model.Pow (Impl = VerifySeal / mine / GetBlockVersion / Header.Hash / HashNoNonce as written, the hash
  primitives as parameters; Spec = SealValid, versionSpec).  Constants and fork maps from Aqv.Gen.Params / Aqv.Gen.Pow.
-/
import Aqv.Lemmas.Pow
import Aqv.Model.PowGen
import Aqv.Lemmas.Translated.Params
namespace Aqv.Props.C14
open Aqv Aqv.Consensus Aqv.Pow

/-! ## T-gen -/

/-- the regenerated `epochLength`, `maxEpoch` and target numerator are the statement's (30000, 2048, 2^256). -/
theorem gen_pow_constants : Gen.powParams = Spec.powParams := by decide

/-- **memory parameter**: behind `crypto.VersionHash` version 1 is Keccak-256 and versions 2, 3, 4 are argon2id with
    time 1, one lane and 1 KiB, 16 KiB, 32 KiB of memory (recovered from the compiled code by matching against
    golang.org/x/crypto/argon2.IDKey over a parameter grid); 4 is the highest known version. -/
theorem memory_parameter :
    Aqv.Gen.Pow.argon = [(2, 1, 1, 1), (3, 1, 16, 1), (4, 1, 32, 1)] ∧ Aqv.Gen.Pow.v1IsKeccak = true ∧ Aqv.Gen.Pow.knownVersion = 4 ∧
    Aqv.Gen.Pow.hashesConcatenation = true := by decide

/-! ## the acceptance predicate -/

/-- the decision logic of `VerifySeal` is the acceptance predicate, for every epoch bound and target numerator. -/
theorem verifySeal_iff_general (Pp : PowParams) (Hs : Hashes) (s : SealInput) :
    verifySeal Pp Hs s = none ↔ SealValidP Pp Hs s := by
  unfold verifySeal SealValidP
  by_cases h1 : s.number % two64 / Pp.epochLength ≥ Pp.maxEpoch
  · have : ¬ s.number % two64 / Pp.epochLength < Pp.maxEpoch := by omega
    simp [h1, this]
  have h1' : s.number % two64 / Pp.epochLength < Pp.maxEpoch := by omega
  by_cases h2 : s.difficulty ≤ 0
  · have : ¬ 0 < s.difficulty := by omega
    simp [h1, h2, this]
  have h2' : 0 < s.difficulty := by omega
  simp only [h1, h2, if_false, h1', h2', true_and]
  unfold recompute
  by_cases v0 : s.version = 0
  · simp [v0]
  by_cases v1 : s.version = 1
  · have hn : ¬ (s.version = 2 ∨ s.version = 3 ∨ s.version = 4) := by omega
    simp only [v0, v1, if_false, if_true, hn, false_and, or_false, true_and]
    by_cases hm : s.mixDigest = (Hs.ethash s.number s.hnn s.nonce).1
    · simp only [hm, ne_eq, not_true_eq_false, if_false, true_and]
      rw [← target_cmp _ _ _ h2']
      by_cases ht : beNat (Hs.ethash s.number s.hnn s.nonce).2 > Pp.maxUint256 / s.difficulty.toNat <;> simp [ht]
    · simp [hm]
  by_cases hv : s.version = 2 ∨ s.version = 3 ∨ s.version = 4
  · simp only [v0, v1, if_false, versionHash_argon Hs _ _ hv, false_and, false_or, hv, true_and, sealSeed]
    by_cases hm : s.mixDigest = zeroDigest
    · simp only [hm, ne_eq, not_true_eq_false, if_false, true_and]
      rw [← target_cmp _ _ _ h2']
      by_cases ht : beNat (Hs.vh s.version (s.hnn ++ le64 s.nonce)) > Pp.maxUint256 / s.difficulty.toNat <;> simp [ht]
    · simp [hm]
  · simp [v0, v1, versionHash_bad Hs _ _ v1 hv, hv]

/-- **accepted exactly when valid** — with the regenerated constants: for every hash function, header, nonce, difficulty
    (positive or not), version (including unset and unknown ones, which panic and are therefore not accepted) and height. -/
theorem verifySeal_iff (Hs : Hashes) (s : SealInput) :
    verifySeal Gen.powParams Hs s = none ↔ SealValid Hs s := by
  rw [gen_pow_constants]
  exact verifySeal_iff_general _ _ _

/-- the boundary is exact: with the target `t = ⌊2^256 / d⌋`, a hash equal to `t` is accepted and `t + 1` is rejected. -/
theorem target_boundary (Hs : Hashes) (s : SealInput) (hv : s.version = 2 ∨ s.version = 3 ∨ s.version = 4) (hd : 0 < s.difficulty)
    (hn : s.number % two64 / 30000 < 2048) (hm : s.mixDigest = zeroDigest) :
    (beNat (Hs.vh s.version (s.hnn ++ le64 s.nonce)) = two256 / s.difficulty.toNat → verifySeal Gen.powParams Hs s = none) ∧
    (beNat (Hs.vh s.version (s.hnn ++ le64 s.nonce)) = two256 / s.difficulty.toNat + 1 → verifySeal Gen.powParams Hs s = some .invalidPoW) := by
  have hv1 : s.version ≠ 1 := by omega
  have hv0 : s.version ≠ 0 := by omega
  constructor
  · intro he
    rw [verifySeal_iff]
    refine ⟨hn, hd, Or.inr ⟨hv, hm, ?_⟩⟩
    show (beNat (Hs.vh s.version (s.hnn ++ le64 s.nonce)) : Int) ≤ (two256 : Int) / s.difficulty
    rw [← target_cmp _ _ _ hd]; omega
  · intro he
    rw [gen_pow_constants]
    unfold verifySeal Spec.powParams recompute
    have h1 : ¬ s.number % two64 / 30000 ≥ 2048 := by omega
    have h2 : ¬ s.difficulty ≤ 0 := by omega
    simp only [h1, h2, if_false, hv0, hv1, versionHash_argon Hs _ _ hv, sealSeed, hm, ne_eq, not_true_eq_false]
    rw [he]
    simp

/-! ## the miner -/

/-- **every seal the miner returns passes the check**: for every hash function, start nonce, thread (threads only differ in
    their start nonce) and amount of search, whatever `mine` reports as found is accepted by `VerifySeal` — provided the
    seal-free hash the miner used (`HashNoNonce` of the block's header as handed to `Seal`) is the one the verifier
    recomputes (`hnn`), which holds whenever the block's header carries the version of its height, as the worker sets it. -/
theorem mined_seal_verifies (Hs : Hashes) (version number : Nat) (difficulty : Int) (hnn : Bytes) (start fuel nonce : Nat) (digest : Bytes)
    (hn : number % two64 / 30000 < 2048) (hd : 0 < difficulty)
    (hm : mine Gen.powParams Hs version number difficulty hnn start fuel = .ok (some (nonce, digest))) :
    verifySeal Gen.powParams Hs { number := number, difficulty := difficulty, mixDigest := digest, nonce := nonce, version := version, hnn := hnn } = none := by
  rw [verifySeal_iff]
  rw [gen_pow_constants] at hm
  unfold mine Spec.powParams at hm
  have hd0 : difficulty ≠ 0 := by omega
  simp only [hd0, if_false] at hm
  by_cases hbad : version = 0 ∨ version > 4
  · simp [hbad] at hm
  simp only [hbad, if_false, Out.ok.injEq] at hm
  have hs := mineFrom_sound Hs version number hnn _ fuel start nonce digest hm
  have hv' : version = 1 ∨ version = 2 ∨ version = 3 ∨ version = 4 := by omega
  show SealValidP Spec.powParams Hs _
  refine ⟨hn, hd, ?_⟩
  by_cases hv : version = 1
  · subst hv
    simp only [if_true] at hs
    exact Or.inl ⟨rfl, hs.1, hs.2⟩
  · simp only [hv, if_false, sealSeed] at hs
    exact Or.inr ⟨by rcases hv' with h | h; exact absurd h hv; exact h, hs.1, hs.2⟩

/-- **every seal `Seal` returns passes the check, for all thread counts and all schedules**: n sealer threads, each with its
    own start nonce and its own seed buffer, interleaved arbitrarily at the granularity write-nonce / hash / compare, first hit
    wins — whatever (nonce, digest) is returned verifies (argon2id versions; `hnn` as in `mined_seal_verifies`). -/
theorem mined_seal_verifies_any_schedule (Hs : Hashes) (version number : Nat) (difficulty : Int) (hnn : Bytes)
    (starts schedule : List Nat) (nonce : Nat) (digest : Bytes)
    (hv : version = 2 ∨ version = 3 ∨ version = 4) (hn : number % two64 / 30000 < 2048) (hd : 0 < difficulty)
    (hm : sealRun Gen.powParams Hs version difficulty hnn false starts schedule = some (nonce, digest)) :
    verifySeal Gen.powParams Hs { number := number, difficulty := difficulty, mixDigest := digest, nonce := nonce, version := version, hnn := hnn } = none := by
  rw [verifySeal_iff]
  unfold sealRun at hm
  have inv := sealRun_inv Hs version hnn _ schedule _ (sealInit_inv Hs version hnn ((Gen.powParams.maxUint256 : Int) / difficulty) starts)
  obtain ⟨hdg, hle⟩ := inv.found nonce digest hm
  rw [gen_pow_constants] at hle
  show SealValidP Spec.powParams Hs _
  exact ⟨hn, hd, Or.inr ⟨hv, hdg, by simpa [sealSeed] using hle⟩⟩

/-- private buffers are what makes this true: if the threads write their nonce into ONE shared buffer, there is a two-thread
    schedule (A writes, B writes, A hashes, A compares) in which A reports its own nonce for a hash computed over B's nonce,
    and the block `Seal` returns is rejected by `VerifySeal`.  (Toy hash: only nonce 1 meets the target.) -/
theorem shared_seed_buffer_witness :
    let Hs : Hashes := { keccak := id, vh := fun _ d => if d.drop 32 = le64 1 then [0] else [255], ethash := fun _ _ _ => ([], []) }
    let d : Int := 1157920892373161954235709850086879078532699846656405640394575840079131296399   -- target = 100
    sealRun Gen.powParams Hs 2 d (List.replicate 32 7) true [0, 1] [0, 1, 0, 0] = some (0, zeroDigest) ∧
    verifySeal Gen.powParams Hs { number := 5, difficulty := d, mixDigest := zeroDigest, nonce := 0, version := 2, hnn := List.replicate 32 7 } = some .invalidPoW ∧
    -- with private buffers the same schedule returns nothing yet, and a longer one returns thread B's nonce 1, which verifies
    sealRun Gen.powParams Hs 2 d (List.replicate 32 7) false [0, 1] [0, 1, 0, 0] = none ∧
    sealRun Gen.powParams Hs 2 d (List.replicate 32 7) false [0, 1] [0, 1, 0, 0, 1, 1] = some (1, zeroDigest) := by
  decide

/-- the precondition on the seal-free hash matters only through version 3: `HashNoNonce` hashes with argon2id-B when the
    header version is 3 and with Keccak-256 for every other version (as written), so a block handed to `Seal` with an unset
    or stale header version at an HF8 height is mined over a different pre-image than the verifier recomputes. -/
theorem hashNoNonce_by_version (Hs : Hashes) (v : Nat) (h : HeaderFields) :
    hashNoNonce Hs v h = if v = 3 then .ok (Hs.vh 3 (Rlp.enc (.list h.itemsNoNonce))) else .ok (Hs.keccak (Rlp.enc (.list h.itemsNoNonce))) := by
  unfold hashNoNonce rlpHash
  by_cases h3 : v = 3
  · simp [h3, versionHash_argon]
  · simp [h3]

/-- **hashes use the version**: `Header.Hash` is Keccak-256 of the RLP encoding for version 1, argon2id (version-selected
    memory) of the same encoding for versions 2–4, and refuses (panics) an unset or unknown version. -/
theorem hash_uses_version (Hs : Hashes) (v : Nat) (h : HeaderFields) :
    headerHash Hs v h =
      if v = 1 then .ok (Hs.keccak (Rlp.enc (.list (h.itemsNoNonce ++ [.str h.mixDigest, .str h.nonce]))))
      else if v = 2 ∨ v = 3 ∨ v = 4 then .ok (Hs.vh v (Rlp.enc (.list (h.itemsNoNonce ++ [.str h.mixDigest, .str h.nonce]))))
      else .panic := by
  unfold headerHash rlpHash
  by_cases h0 : v = 0
  · simp [h0]
  by_cases h1 : v = 1
  · simp [h1]
  by_cases hv : v = 2 ∨ v = 3 ∨ v = 4
  · simp [h0, h1, hv, versionHash_argon]
  · simp [h0, h1, hv, versionHash_bad]

/-! ## version by height -/

/-- the version is a function of the height alone: three thresholds read off the fork map (HF9 → 4, HF8 → 3, HF5 → 2, else 1). -/
theorem version_by_height (c : Config) (height : Nat) :
    getBlockVersion c height = versionSpec (c.getHF 5) (c.getHF 8) (c.getHF 9) height := by
  unfold getBlockVersion versionSpec Config.isHF
  rfl

/-- … always one of 1..4 … -/
theorem version_range (c : Config) (height : Nat) : 1 ≤ getBlockVersion c height ∧ getBlockVersion c height ≤ 4 := by
  unfold getBlockVersion; repeat' split
  all_goals omega

/-- … and monotone in the height, for ANY fork map. -/
theorem version_monotone (c : Config) (h₁ h₂ : Nat) (hle : h₁ ≤ h₂) : getBlockVersion c h₁ ≤ getBlockVersion c h₂ := by
  have mono : ∀ i, c.isHF i h₁ = true → c.isHF i h₂ = true := by
    intro i hi
    unfold Config.isHF at hi ⊢
    cases hg : c.getHF i with
    | none => rw [hg] at hi; cases hi
    | some s => rw [hg] at hi; simp only [decide_eq_true_eq] at hi ⊢; omega
  unfold getBlockVersion
  by_cases a9 : c.isHF 9 h₁ = true
  · simp [a9, mono 9 a9]
  by_cases a8 : c.isHF 8 h₁ = true
  · simp only [a9, a8, mono 8 a8, if_true, if_false]
    repeat' split
    all_goals first | omega | simp_all
  by_cases a5 : c.isHF 5 h₁ = true
  · simp only [a9, a8, a5, mono 5 a5, if_true, if_false]
    repeat' split
    all_goals first | omega | simp_all
  · simp only [a9, a8, a5, if_false]
    repeat' split
    all_goals first | omega | simp_all

/-- the thresholds of the generated built-in schedules: mainnet (argon2id from 22800), testnet (5 / 650), testnet2 (0 / 8 / 19),
    test and dev (argon2id from 5 resp. 0, never B or C). -/
theorem builtin_version_thresholds (height : Nat) :
    getBlockVersion (cfgOf Aqv.Gen.Params.mainnet) height = (if 22800 ≤ height then 2 else 1) ∧
    getBlockVersion (cfgOf Aqv.Gen.Params.testnet) height = (if 650 ≤ height then 3 else if 5 ≤ height then 2 else 1) ∧
    getBlockVersion (cfgOf Aqv.Gen.Params.testnet2) height = (if 19 ≤ height then 4 else if 8 ≤ height then 3 else 2) ∧
    getBlockVersion (cfgOf Aqv.Gen.Params.test) height = (if 5 ≤ height then 2 else 1) ∧
    getBlockVersion (cfgOf Aqv.Gen.Params.dev) height = 2 := by
  refine ⟨?_, ?_, ?_, ?_, ?_⟩ <;>
    simp [getBlockVersion, Config.isHF, Config.getHF, cfgOf, List.lookup, Aqv.Gen.Params.mainnet, Aqv.Gen.Params.testnet,
      Aqv.Gen.Params.testnet2, Aqv.Gen.Params.test, Aqv.Gen.Params.dev]

/-! ## non-vacuity (a toy hash family; the theorems hold for every `Hashes`) -/

def toyHs : Hashes :=
  { keccak := fun d => d.take 32
    vh := fun v d => beBytes ((beNat (d.drop 32) * 7919 + v * 104729) % 1000003)      -- depends on the nonce bytes and the version
    ethash := fun n _ nonce => ([7], beBytes ((nonce * 31 + n) % 97)) }

def toySeal : SealInput := { number := 650, difficulty := 115792089237316195423570985008687907853269984665640564039457584007913129639936 / 500000,
                             mixDigest := zeroDigest, nonce := 3, version := 3, hnn := List.replicate 32 9 }

-- `verifySeal_iff`: an accepted seal, a rejected neighbour (hash above the target), degenerate difficulties, a wrong digest
example : verifySeal Gen.powParams toyHs toySeal = none ∧ SealValid toyHs toySeal := by decide
example : verifySeal Gen.powParams toyHs { toySeal with nonce := 4 } = some .invalidPoW := by decide
example : verifySeal Gen.powParams toyHs { toySeal with difficulty := 0 } = some .invalidDifficulty ∧
    verifySeal Gen.powParams toyHs { toySeal with difficulty := -7 } = some .invalidDifficulty ∧
    verifySeal Gen.powParams toyHs { toySeal with mixDigest := [1] } = some .invalidMixDigest ∧
    verifySeal Gen.powParams toyHs { toySeal with version := 0 } = some .panic ∧
    verifySeal Gen.powParams toyHs { toySeal with version := 5 } = some .panic ∧
    verifySeal Gen.powParams toyHs { toySeal with number := 61440000 } = some .nonceOutOfRange := by decide
-- `target_boundary`: its hypotheses hold for `toySeal`
example : (toySeal.version = 2 ∨ toySeal.version = 3 ∨ toySeal.version = 4) ∧ 0 < toySeal.difficulty ∧ toySeal.number % two64 / 30000 < 2048 ∧
    toySeal.mixDigest = zeroDigest := by decide
-- `mined_seal_verifies`: the miner finds nonce 3 from start 0 and the verifier accepts it; version 1 (toy ethash) as well
example : mine Gen.powParams toyHs 3 650 toySeal.difficulty toySeal.hnn 3 10 = .ok (some (3, zeroDigest)) := by decide
example : mine Gen.powParams toyHs 1 10 2000000000000000000000000000000000000000000000000000000000000000000000000000 [1] 2 5 = .ok (some (3, [7])) := by decide   -- nonce 2 fails (72 > 57), nonce 3 passes
example : mine Gen.powParams toyHs 3 650 0 toySeal.hnn 0 10 = .panic ∧ mine Gen.powParams toyHs 7 650 5 toySeal.hnn 0 10 = .ok none := by decide
-- `version_monotone` / thresholds
example : getBlockVersion (cfgOf Aqv.Gen.Params.testnet2) 7 = 2 ∧ getBlockVersion (cfgOf Aqv.Gen.Params.testnet2) 8 = 3 ∧
    getBlockVersion (cfgOf Aqv.Gen.Params.testnet2) 18 = 3 ∧ getBlockVersion (cfgOf Aqv.Gen.Params.testnet2) 19 = 4 ∧
    getBlockVersion (cfgOf Aqv.Gen.Params.mainnet) 22799 = 1 ∧ getBlockVersion (cfgOf Aqv.Gen.Params.mainnet) 22800 = 2 := by decide

/-! ### tie by translation (T-gen `translated`, DESIGN 2.2 mini-translator): (*ChainConfig).GetBlockVersion

params.(*ChainConfig).GetBlockVersion (with IsHF and isForked) is translated from the go/ssa form of the tree under test on
every run (`Aqv.Gen.Translated`; `*big.Int` = `Option Int`, the map `c.HF` = a function, result `none` = panic).  On the fork
map of the model the translated code does not panic on a (non-nil) height and returns the model's `getBlockVersion`, the
version selector every seal theorem above is stated on (proofs in `Aqv.Lemmas.Translated.Params`; the behaviour on a nil
height — a panic — is outside the property and not part of the obligation). -/
theorem getBlockVersion_code_is_model (c : Config) (height : Nat) :
    Aqv.Gen.Translated.ChainConfig_GetBlockVersion (Aqv.Lemmas.Translated.hfMapOf c) (some (height : Int))
      = some (UInt8.ofNat (getBlockVersion c height)) :=
  Aqv.Lemmas.Translated.ChainConfig_GetBlockVersion_translated_eq c height

example : Aqv.Gen.Translated.ChainConfig_GetBlockVersion (Aqv.Lemmas.Translated.hfMapOf ⟨1, [(5, 10), (8, 20), (9, 30)]⟩) (some 25)
    = some 3 := by decide

end Aqv.Props.C14

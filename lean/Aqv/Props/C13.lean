/-
  C13 — Headers and uncles are accepted iff they satisfy the consensus rules.   Property theorems only.
  Model: Aqv.Model.Consensus (Impl = consensus/aquahash/{consensus,difficulty}.go as written; Spec = the statement's rule list,
  the era-by-era difficulty formula, the declarative uncle rules, one-by-one verification).
  Constants and fork maps come from Aqv.Gen.Params / Aqv.Gen.Pow (regenerated from the compiled Go packages on every run).
-/
import Aqv.Lemmas.ConsensusBatch
import Aqv.Lemmas.ConsensusUncles
import Aqv.Model.ConsensusGen
import Aqv.Gen.UncleExemptions
import Aqv.Lemmas.Translated.Params
import Aqv.Lemmas.Translated.Consensus
namespace Aqv.Props.C13
open Aqv.Consensus

/-! ## T-gen: what the code says now is what the statement says -/

/-- the difficulty minima / bound divisors / duration limits and the header-rule constants dumped from the compiled
    `params` and `aquahash` packages are the statement's (changing one in the Go source breaks this obligation). -/
theorem gen_constants_are_the_statements : Gen.diffParams = Spec.diffParams ∧ Gen.vParams = Spec.vParams := by
  constructor <;> decide

/-- the generated fork maps of mainnet, testnet and the test schedule are the schedules of record. -/
theorem gen_schedules_of_record :
    Gen.config? "mainnet" = some { chainId := 61717561, forks := Spec.mainnetForks } ∧
    Gen.config? "testnet" = some { chainId := 617175611, forks := Spec.testnetForks } ∧
    Gen.config? "test" = some { chainId := 3, forks := Spec.testForks } := by
  refine ⟨?_, ?_, ?_⟩ <;> decide

/-- every built-in schedule has an unambiguous era reading (no HF10, HF6/HF7 inside the HF2 era and off the reset blocks). -/
theorem builtin_schedules_ordered : ∀ c ∈ Aqv.Gen.Params.configs, (cfgOf c).ordered = true := by decide

/-! ## difficulty -/

/-- `calcDifficultyHFX` (the Go switch, as written) computes the era-by-era formula of the Spec — for ALL parameter sets,
    ALL fork maps with an unambiguous era reading, all heights, times and parents. -/
theorem difficulty_spec (P : DiffParams) (cfg : Config) (hord : cfg.ordered = true) (time : Nat) (parent : Header) (grand : Option Header) :
    calcDifficultyHFX P cfg time parent grand = .val (difficultySpec P cfg time parent) :=
  difficulty_spec_aux P cfg hord time parent grand

/-- … in particular, with the regenerated constants on every generated built-in schedule the code computes the statement's formula. -/
theorem difficulty_spec_builtin : ∀ c ∈ Aqv.Gen.Params.configs, ∀ (time : Nat) (parent : Header) (grand : Option Header),
    calcDifficultyHFX Gen.diffParams (cfgOf c) time parent grand = .val (difficultySpec Spec.diffParams (cfgOf c) time parent) := by
  intro c hc time parent grand
  rw [gen_constants_are_the_statements.1]
  exact difficulty_spec _ _ (builtin_schedules_ordered c hc) time parent grand

/-- without the ordering hypothesis the two readings can differ: if HF5 and HF6 activate at the same block the code does
    NOT reset the difficulty there (the HF6 case of the switch comes first). -/
theorem difficulty_unordered_witness :
    let cfg : Config := { chainId := 3, forks := [(5, 5), (6, 5)] }
    let parent : Header := { hash := 0, parentHash := 0, number := 4, time := 1000, difficulty := 99999999, gasLimit := 0, gasUsed := 0, extraLen := 0 }
    cfg.ordered = false ∧ calcDifficultyHFX Spec.diffParams cfg 1010 parent none ≠ .val (difficultySpec Spec.diffParams cfg 1010 parent) := by
  decide

/-- resets: at a scheduled reset block (activation of HF8, HF5, HF3, HF1) the difficulty is that fork's minimum whatever
    the parent's difficulty and the timestamps. -/
theorem difficulty_reset (P : DiffParams) (cfg : Config) (hord : cfg.ordered = true) (time : Nat) (parent : Header) (grand : Option Header)
    (v : Int) (h : resetValue P cfg (parent.number + 1) = some v) :
    calcDifficultyHFX P cfg time parent grand = .val v := by
  rw [difficulty_spec P cfg hord]; unfold difficultySpec; rw [h]

/-- the reset blocks of the mainnet schedule and their values, from the generated constants. -/
theorem mainnet_resets (time : Nat) (parent : Header) (grand : Option Header) :
    (parent.number + 1 = 3600 → calcDifficultyHFX Gen.diffParams (cfgOf Aqv.Gen.Params.mainnet) time parent grand = .val 100001792) ∧
    (parent.number + 1 = 13026 → calcDifficultyHFX Gen.diffParams (cfgOf Aqv.Gen.Params.mainnet) time parent grand = .val 30959185800) ∧
    (parent.number + 1 = 22800 → calcDifficultyHFX Gen.diffParams (cfgOf Aqv.Gen.Params.mainnet) time parent grand = .val 46039386) := by
  have hm : Aqv.Gen.Params.mainnet ∈ Aqv.Gen.Params.configs := by decide
  refine ⟨?_, ?_, ?_⟩ <;> intro h <;> rw [difficulty_spec_builtin _ hm] <;> unfold difficultySpec <;> rw [h] <;> rfl

/-- schedules on which every reset value is the minimum of the era it opens. -/
def minConsistent (c : Config) : Bool :=
  (match c.getHF 8 with | none => true | some a => a == 0 || c.isHF 5 a) &&
  (match c.getHF 3 with | none => true | some a => a == 0 || c.getHF 8 == some a || !c.isHF 5 a) &&
  (match c.getHF 1 with | none => true | some a => a == 0 || c.getHF 8 == some a || c.getHF 5 == some a || c.getHF 3 == some a || (!c.isHF 5 a && !c.isHF 3 a))

theorem minConsistent_reset (P : DiffParams) (c : Config) (hc : minConsistent c = true) (next : Nat) (hn : next ≠ 0) (v : Int)
    (h : resetValue P c next = some v) : v = eraMin P c next := by
  unfold minConsistent at hc
  simp only [Bool.and_eq_true] at hc
  obtain ⟨⟨c8, c3⟩, c1⟩ := hc
  unfold resetValue at h
  unfold eraMin
  by_cases e8 : c.getHF 8 = some next
  · rw [e8] at c8
    have : c.isHF 5 next = true := by simpa [hn] using c8
    simp only [e8, if_true, Option.some.injEq] at h
    simp [this, h]
  by_cases e5 : c.getHF 5 = some next
  · simp only [e8, e5, if_false, if_true, Option.some.injEq] at h
    simp [isHF_of_getHF c 5 next e5, h]
  by_cases e3 : c.getHF 3 = some next
  · rw [e3] at c3
    have : c.isHF 5 next = false := by simpa [hn, e8] using c3
    simp only [e8, e5, e3, if_false, if_true, Option.some.injEq] at h
    simp [this, isHF_of_getHF c 3 next e3, h]
  by_cases e1 : c.getHF 1 = some next
  · rw [e1] at c1
    have : c.isHF 5 next = false ∧ c.isHF 3 next = false := by simpa [hn, e8, e5, e3] using c1
    simp only [e8, e5, e3, e1, if_false, if_true, Option.some.injEq] at h
    simp [this.1, this.2, isHF_of_getHF c 1 next e1, h]
  · simp [e8, e5, e3, e1] at h

/-- **never below the active minimum**: on a schedule whose resets open their eras consistently, in every era that has a
    minimum (HF2 onwards on any chain; before HF2 on mainnet — the code deliberately has "testnet no minimum" there),
    the scheduled difficulty is at least the era minimum, for all times and parents (even nonsensical ones). -/
theorem difficulty_ge_min (P : DiffParams) (cfg : Config) (hc : minConsistent cfg = true) (time : Nat) (parent : Header)
    (hera : resetValue P cfg (parent.number + 1) = none → cfg.isHF 2 (parent.number + 1) = true ∨
      (cfg.chainId = P.mainnetChainId ∧ cfg.isHF 3 (parent.number + 1) = false ∧ cfg.isHF 5 (parent.number + 1) = false)) :
    eraMin P cfg (parent.number + 1) ≤ difficultySpec P cfg time parent := by
  unfold difficultySpec
  cases hr : resetValue P cfg (parent.number + 1) with
  | some v =>
    have := minConsistent_reset P cfg hc (parent.number + 1) (by omega) v hr
    simp only; omega
  | none =>
    simp only
    unfold eraFormula
    rcases hera hr with h2 | ⟨hm, h3, h5⟩
    · simp only [h2, if_true]
      split <;> omega
    · by_cases h2 : cfg.isHF 2 (parent.number + 1) = true
      · simp only [h2, if_true]
        split <;> omega
      · simp only [h2, hm, if_true, eraMin, h3, h5]
        split <;> split <;> simp_all <;> omega

/-- … in particular on mainnet, the public testnet, the test schedule and the dev schedule (generated fork maps, generated
    constants) the difficulty the code computes is never below the minimum of the active era, at any height. -/
theorem difficulty_ge_min_builtin :
    ∀ c ∈ [Aqv.Gen.Params.mainnet, Aqv.Gen.Params.testnet, Aqv.Gen.Params.test, Aqv.Gen.Params.dev],
    ∀ (time : Nat) (parent : Header) (grand : Option Header),
      ∃ d, calcDifficultyHFX Gen.diffParams (cfgOf c) time parent grand = .val d ∧ eraMin Spec.diffParams (cfgOf c) (parent.number + 1) ≤ d := by
  intro c hc time parent grand
  have hmem : c ∈ Aqv.Gen.Params.configs := by
    simp only [List.mem_cons, List.not_mem_nil, or_false] at hc
    rcases hc with rfl | rfl | rfl | rfl <;> decide
  refine ⟨_, difficulty_spec_builtin c hmem time parent grand, ?_⟩
  simp only [List.mem_cons, List.not_mem_nil, or_false] at hc
  rcases hc with rfl | rfl | rfl | rfl
  · apply difficulty_ge_min _ _ (by decide)
    intro _
    by_cases h2 : (cfgOf Aqv.Gen.Params.mainnet).isHF 2 (parent.number + 1) = true
    · exact Or.inl h2
    · refine Or.inr ⟨by decide, ?_, ?_⟩ <;>
        simp only [Config.isHF, Config.getHF, cfgOf, Aqv.Gen.Params.mainnet, List.lookup, decide_eq_true_eq, decide_eq_false_iff_not] at h2 ⊢ <;>
        simp at h2 ⊢ <;> omega
  · apply difficulty_ge_min _ _ (by decide)
    intro hr
    by_cases h2 : (cfgOf Aqv.Gen.Params.testnet).isHF 2 (parent.number + 1) = true
    · exact Or.inl h2
    · exfalso
      simp only [Config.isHF, Config.getHF, cfgOf, Aqv.Gen.Params.testnet, List.lookup] at h2
      simp at h2
      have : parent.number + 1 = 1 := by omega
      rw [this] at hr
      revert hr; decide
  · apply difficulty_ge_min _ _ (by decide)
    intro hr
    by_cases h2 : (cfgOf Aqv.Gen.Params.test).isHF 2 (parent.number + 1) = true
    · exact Or.inl h2
    · exfalso
      simp only [Config.isHF, Config.getHF, cfgOf, Aqv.Gen.Params.test, List.lookup] at h2
      simp at h2
      have : parent.number + 1 = 1 := by omega
      rw [this] at hr
      revert hr; decide
  · apply difficulty_ge_min _ _ (by decide)
    intro _
    left
    simp [Config.isHF, Config.getHF, cfgOf, Aqv.Gen.Params.dev, List.lookup]

/-- the late-era private test network `testnet2` (HF5…HF9 without HF1/HF2) is NOT covered: the switch falls through to the
    genesis-era algorithm, which has no minimum off mainnet, so the difficulty can sink below the HF5 minimum. -/
theorem testnet2_below_min_witness :
    let parent : Header := { hash := 0, parentHash := 0, number := 9, time := 1000, difficulty := 46039386, gasLimit := 0, gasUsed := 0, extraLen := 0 }
    calcDifficultyHFX Gen.diffParams (cfgOf Aqv.Gen.Params.testnet2) 1020 parent none = .val 46016906 ∧
    (46016906 : Int) < eraMin Spec.diffParams (cfgOf Aqv.Gen.Params.testnet2) 10 := by
  decide

/-! ## verifyHeader -/

/-- the environment the real engine runs in: constants regenerated from the Go packages, any schedule, clock, seal verdict. -/
def genEnv (cfg : Config) (now : Nat) (sealBad : Header → Bool) : Env :=
  { P := Gen.diffParams, V := Gen.vParams, cfg := cfg, now := now, sealBad := sealBad }

/-- **accepted iff valid, both directions** (non-uncle headers: for ALL parents below the gas cap, candidates, clocks in
    the uint64 range, schedules with an unambiguous era reading; uncles: additionally the timestamp below 2^64, see
    `uncle_time_truncation_witness`).  The code's int64/uint64 arithmetic, big.Int truncations and rule order are in `verifyHeader`;
    `HeaderValid` is the rule list of the statement. -/
theorem verifyHeader_iff (cfg : Config) (now : Nat) (sealBad : Header → Bool) (h parent : Header) (grand : Option Header) (uncle doSeal : Bool)
    (hord : cfg.ordered = true) (hpg : parent.gasLimit < two63) (hnow : uncle = false → now + 15 < two64) (htime : uncle = true → h.time < two64) :
    verifyHeader (genEnv cfg now sealBad) h parent grand uncle doSeal = none ↔
      HeaderValid Spec.diffParams cfg now sealBad h parent uncle doSeal := by
  have e := verifyHeader_eq_rule (genEnv cfg now sealBad) h parent grand uncle doSeal gen_constants_are_the_statements.2 hord hpg hnow htime
  rw [e]
  show headerRule Gen.diffParams cfg now sealBad h parent uncle doSeal = none ↔ _
  rw [gen_constants_are_the_statements.1]
  exact headerRule_none_iff _ _ _ _ _ _ _ _

/-- when a header is rejected, the error is the first violated rule in the order of the statement's list. -/
theorem verifyHeader_reports_first_violation (cfg : Config) (now : Nat) (sealBad : Header → Bool) (h parent : Header) (grand : Option Header)
    (uncle doSeal : Bool) (hord : cfg.ordered = true) (hpg : parent.gasLimit < two63) (hnow : uncle = false → now + 15 < two64)
    (htime : uncle = true → h.time < two64) :
    verifyHeader (genEnv cfg now sealBad) h parent grand uncle doSeal = headerRule Spec.diffParams cfg now sealBad h parent uncle doSeal := by
  have e := verifyHeader_eq_rule (genEnv cfg now sealBad) h parent grand uncle doSeal gen_constants_are_the_statements.2 hord hpg hnow htime
  rw [e]
  show headerRule Gen.diffParams cfg now sealBad h parent uncle doSeal = _
  rw [gen_constants_are_the_statements.1]

/-- the public entry point `VerifyHeader`: a header that is not yet known is accepted iff its parent (by hash and number) is
    known, above height 2 its grandparent too, and it is valid relative to that parent. (A known header is accepted outright.) -/
theorem verifyHeaderEntry_iff (cfg : Config) (now : Nat) (sealBad : Header → Bool) (chain : Chain) (h : Header) (doSeal : Bool)
    (hord : cfg.ordered = true) (hnow : now + 15 < two64) (hunknown : chain.getHeader h.hash h.number = none)
    (hpg : ∀ p, chain.getHeader h.parentHash (subU64 h.number 1) = some p → p.gasLimit < two63) :
    verifyHeaderEntry (genEnv cfg now sealBad) chain h doSeal = none ↔
      ∃ p, chain.getHeader h.parentHash (subU64 h.number 1) = some p ∧
        (h.number > 2 → (chain.getHeader p.parentHash (subU64 h.number 2)).isSome = true) ∧
        HeaderValid Spec.diffParams cfg now sealBad h p false doSeal := by
  unfold verifyHeaderEntry
  simp only [hunknown, Option.isSome_none, Bool.false_eq_true, if_false]
  cases hp : chain.getHeader h.parentHash (subU64 h.number 1) with
  | none => simp
  | some p =>
    simp only [Option.some.injEq, exists_eq_left']
    by_cases h2 : h.number > 2
    · cases hg : chain.getHeader p.parentHash (subU64 h.number 2) with
      | none => simp [h2]
      | some g =>
        simp only [h2, if_true, decide_true, Option.isSome_some, Option.isNone_some, Bool.and_false, Bool.false_eq_true, if_false, true_implies, true_and]
        exact verifyHeader_iff cfg now sealBad h p _ false doSeal hord (hpg p hp) (fun _ => hnow) (fun hc => by cases hc)
    · simp only [h2, if_false, decide_false, Bool.false_and, Bool.false_eq_true, false_implies, true_and]
      exact verifyHeader_iff cfg now sealBad h p _ false doSeal hord (hpg p hp) (fun _ => hnow) (fun hc => by cases hc)

/-- **finding** — uncle timestamps of 2^64 and above: `verifyHeader` hands `header.Time.Uint64()` (the low 64 bits) to the
    difficulty function, so the difficulty rule is evaluated on a wrapped timestamp.  Witness on the test schedule: an uncle
    with time `2^64 + 5` on a parent with time 1000 is ACCEPTED with the "fast block → increase" difficulty although the
    formula on its real timestamp demands the decrease. -/
theorem uncle_time_truncation_witness :
    let cfg : Config := { chainId := 3, forks := Spec.testForks }
    let parent : Header := { hash := 1, parentHash := 0, number := 20, time := 1000, difficulty := 4603938600, gasLimit := 4712388, gasUsed := 0, extraLen := 0 }
    let u : Header := { hash := 2, parentHash := 1, number := 21, time := 18446744073709551616 + 5, difficulty := 4603938600 + 35968270, gasLimit := 4712388, gasUsed := 0, extraLen := 0 }
    verifyHeader (genEnv cfg 0 (fun _ => false)) u parent none true true = none ∧
    ¬ HeaderValid Spec.diffParams cfg 0 (fun _ => false) u parent true true ∧
    difficultySpec Spec.diffParams cfg u.time parent = 4603938600 - 35968270 := by
  decide

/-- the hypothesis on the parent's gas limit is needed (and holds for every verified parent, whose own limit is ≤ 2^63-1):
    with a parent gas limit of 2^64-1 (possible only in a genesis block) the int64 subtraction wraps and a child with gas
    limit 5000 passes the "moved by less than parent/1024" rule. -/
theorem parent_gas_cap_witness :
    gasLimitBad Spec.vParams 18446744073709551615 5000 = false ∧
    ¬ ((if (18446744073709551615 : Nat) ≤ 5000 then 5000 - 18446744073709551615 else 18446744073709551615 - 5000) < 18446744073709551615 / 1024) := by
  decide

/-! ## uncles -/

/-- **uncle sets accepted iff valid** — partial: outside the reach of the hard-coded historic exemptions (the loop variable
    `number` above 15000, which holds for every block from height 15009 on, see `uncle_window_high_blocks`), with uncle
    timestamps below 2^64 (see `uncle_time_truncation_witness`), ancestors within the gas cap and no hash cycle
    (an uncle cannot name the including block as its parent).  Full statement (no `hnum`):
    `verifyUncles … = none ↔ UnclesValid …` — false on any chain below height 15009, see `uncle_exemption_witness`. -/
theorem verifyUncles_iff_partial (cfg : Config) (sealBad : Header → Bool) (chain : Chain) (block : Block)
    (hord : cfg.ordered = true)
    (hnum : 15000 < (gatherFamily chain 7 block.header.parentHash (subU64 block.header.number 1) { ancestors := [], pastUncles := [], number := 0 }).number)
    (hgas : ∀ a ∈ ancestorsOf chain 7 block.header.parentHash (subU64 block.header.number 1), a.header.gasLimit < two63)
    (hu : ∀ u ∈ block.uncles, u.parentHash ≠ block.header.hash ∧ u.time < two64) :
    verifyUncles (genEnv cfg 0 sealBad) chain block = none ↔ UnclesValid Spec.diffParams cfg sealBad chain block := by
  have := verifyUncles_iff_aux (genEnv cfg 0 sealBad) chain block gen_constants_are_the_statements.2 hord hnum hgas
    (fun u hu' => ⟨(hu u hu').1, (hu u hu').2⟩)
  rw [this]
  show UnclesValid Gen.diffParams cfg sealBad chain block ↔ _
  rw [gen_constants_are_the_statements.1]

/-- T-gen: the exemption table the model uses is the one in the source now (go/ast over `VerifyUncles`: three pairs keyed by
    the including block's hash, two by the uncle's parent hash, three by the uncle's hash; one threshold 15000 guarding both chains). -/
theorem gen_exemptions_are_the_models :
    Aqv.Gen.UncleExemptions.dup = dupExemptions ∧ Aqv.Gen.UncleExemptions.danglingParent = danglingParentExemptions ∧
    Aqv.Gen.UncleExemptions.danglingHash = danglingHashExemptions ∧ Aqv.Gen.UncleExemptions.threshold = 15000 ∧
    Aqv.Gen.UncleExemptions.guards = 2 := by decide

/-- **uncle sets accepted iff valid-or-grandfathered, at ALL heights**: `VerifyUncles` accepts exactly when the declarative
    rules hold, where — while the loop variable `number` is not above the generated threshold 15000 — an already rewarded
    uncle is tolerated iff (block hash, uncle number) is one of the generated pairs, and a dangling uncle ends the check
    with acceptance iff (uncle parent hash, number) or (uncle hash, number) is one of the generated pairs.  For every ordered
    schedule (in particular mainnet, see the corollary); uncle timestamps below 2^64, no hash cycle, ancestors within the gas cap.
    The clause is not tied to the chain id — that is known finding 2 (`uncle_exemption_witness`), kept as is. -/
theorem verifyUncles_iff_with_exemptions (cfg : Config) (sealBad : Header → Bool) (chain : Chain) (block : Block)
    (hord : cfg.ordered = true)
    (hgas : ∀ a ∈ ancestorsOf chain 7 block.header.parentHash (subU64 block.header.number 1), a.header.gasLimit < two63)
    (hu : ∀ u ∈ block.uncles, u.parentHash ≠ block.header.hash ∧ u.time < two64) :
    verifyUncles (genEnv cfg 0 sealBad) chain block = none ↔ UnclesValidEx Spec.diffParams cfg sealBad chain block := by
  have := verifyUncles_iff_ex_aux (genEnv cfg 0 sealBad) chain block gen_constants_are_the_statements.2 hord hgas
    (fun u hu' => ⟨(hu u hu').1, (hu u hu').2⟩)
  rw [this]
  show UnclesValidEx Gen.diffParams cfg sealBad chain block ↔ _
  rw [gen_constants_are_the_statements.1]

/-- … on the generated mainnet schedule. -/
theorem verifyUncles_iff_with_exemptions_mainnet (sealBad : Header → Bool) (chain : Chain) (block : Block)
    (hgas : ∀ a ∈ ancestorsOf chain 7 block.header.parentHash (subU64 block.header.number 1), a.header.gasLimit < two63)
    (hu : ∀ u ∈ block.uncles, u.parentHash ≠ block.header.hash ∧ u.time < two64) :
    verifyUncles (genEnv (cfgOf Aqv.Gen.Params.mainnet) 0 sealBad) chain block = none ↔
      UnclesValidEx Spec.diffParams (cfgOf Aqv.Gen.Params.mainnet) sealBad chain block :=
  verifyUncles_iff_with_exemptions _ sealBad chain block (builtin_schedules_ordered _ (by decide)) hgas hu

/-- **the uncle limit depends on the block's own number only**: a block with more uncles than `uncleLimit cfg block.number`
    (2; 1 from HF5 — generated `maxUncles`, `maxUnclesHF5`) is refused with `too-many-uncles` whatever the chain reader holds —
    stored ancestors, local head, clock play no part; and two blocks with the same number and uncle count get the same count verdict. -/
theorem uncle_limit_depends_on_block_number_only (cfg : Config) (now : Nat) (sealBad : Header → Bool) (chain : Chain) (block : Block)
    (h : uncleLimit cfg block.header.number < block.uncles.length) :
    verifyUncles (genEnv cfg now sealBad) chain block = some .tooManyUncles := by
  unfold verifyUncles genEnv
  simp only [gen_constants_are_the_statements.2, Spec.vParams]
  unfold uncleLimit at h
  by_cases h5 : cfg.isHF 5 block.header.number = true
  · simp only [h5, if_true] at h
    by_cases h2 : block.uncles.length > 2
    · simp [h2]
    · have : block.uncles.length > 1 := h
      simp [h2, this, h5]
  · simp only [h5, if_false] at h
    have : block.uncles.length > 2 := h
    simp [this]

/-- the head-number variant is a different rule: on the test schedule (HF5 at 5) a block #4 may carry two uncles while a node whose
    local head is at #9 would, keyed by the head, allow only one — and a block #9 with two uncles would pass on a node whose head is at #3. -/
theorem uncle_limit_head_variant_witness :
    uncleLimit { chainId := 3, forks := Spec.testForks } 4 = 2 ∧ uncleLimit { chainId := 3, forks := Spec.testForks } 9 = 1 ∧
    uncleLimit { chainId := 3, forks := Spec.testForks } 3 = 2 := by decide

/-- from height 15009 on the historic exemptions are out of reach, whatever the chain reader returns. -/
theorem uncle_window_high_blocks (chain : Chain) (block : Block) (h1 : 15009 ≤ block.header.number) (h2 : block.header.number < two64) :
    15000 < (gatherFamily chain 7 block.header.parentHash (subU64 block.header.number 1) { ancestors := [], pastUncles := [], number := 0 }).number := by
  have e : subU64 block.header.number 1 = block.header.number - 1 := by unfold subU64; unfold two64 at *; omega
  rw [e]
  have := gatherFamily_number chain 7 block.header.parentHash (block.header.number - 1) { ancestors := [], pastUncles := [], number := 0 }
    (by omega) (by omega)
  omega

/-- **finding** — the mainnet-history exemptions in `VerifyUncles` are not tied to mainnet: on ANY chain a block below height
    15009 may carry an "uncle" whose `ParentHash` is 0x6b81…2923 and whose number is 14003; `VerifyUncles` returns nil
    without looking at the uncle's ancestry, validity or the remaining uncles.  Witness on the test schedule, block 10. -/
theorem uncle_exemption_witness :
    let cfg : Config := { chainId := 3, forks := Spec.testForks }
    let fake : Header := { hash := 77, parentHash := 0x6b818656fb5059ab4dd070e2c2822a7774065090e74ff31515764212c88e2923, number := 14003,
                           time := 0, difficulty := 0, gasLimit := 0, gasUsed := 0, extraLen := 999 }
    let block : Block := { header := { hash := 10, parentHash := 9, number := 10, time := 5000, difficulty := 46039386, gasLimit := 4712388, gasUsed := 0, extraLen := 0 },
                           uncles := [fake] }
    let chain : Chain := { getHeader := fun _ _ => none, getBlock := fun _ _ => none }
    verifyUncles (genEnv cfg 0 (fun _ => false)) chain block = none ∧ ¬ UnclesValid Spec.diffParams cfg (fun _ => false) chain block := by
  decide

/-! ## batch verification -/

/-- whatever subset of the workers has completed, in whatever order, the results sent so far are the per-header results
    in input order — a prefix of the final sequence (so a consumer that stops at the first failure sees the same one). -/
theorem coordinator_prefix {α : Type} (errors : Nat → α) (n : Nat) (completion : List Nat) :
    ∃ k, k ≤ n ∧ coordinator errors n completion = (List.range k).map errors :=
  coordinator_prefix_aux errors n completion

/-- for EVERY completion order of the workers (any list in which each index occurs; in particular every permutation of
    0..n-1) the result channel carries `errors[0], …, errors[n-1]` in input order. -/
theorem coordinator_complete {α : Type} (errors : Nat → α) (n : Nat) (completion : List Nat) (hall : ∀ i, i < n → i ∈ completion) :
    coordinator errors n completion = (List.range n).map errors :=
  coordinator_complete_aux errors n completion hall

/-- **batch = one-by-one, for every worker schedule**: for a contiguous batch over a parent-closed, collision-free chain
    reader (`BatchOk`: what `InsertChain` / `ValidateHeaderChain` enforce before calling `VerifyHeaders`), for every
    completion order of the workers, `VerifyHeaders` delivers the per-header results in order and its first failure
    (index and error) is the first failure of verifying the headers one at a time, inserting each accepted one. -/
theorem batch_equals_sequential (env : Env) (chain : Chain) (hs : List Header) (seals : List Bool) (completion : List Nat)
    (ok : BatchOk chain hs) (hall : ∀ i, i < hs.length → i ∈ completion) :
    verifyHeadersBatch env chain hs seals completion = (List.range hs.length).map (workerResult env chain hs seals) ∧
    firstFailure (verifyHeadersBatch env chain hs seals completion) = sequentialFirstFailure env seals chain hs 0 := by
  have h1 : verifyHeadersBatch env chain hs seals completion = (List.range hs.length).map (workerResult env chain hs seals) :=
    coordinator_complete _ _ _ hall
  exact ⟨h1, by rw [h1, sequential_eq_workers env chain hs seals ok]⟩

/-- **the tie of the contiguity hypothesis**: the pre-check `ValidateHeaderChain` (and `insertChain`) performs before it hands a
    batch to `VerifyHeaders` — consecutive numbers AND `chain[i].ParentHash == chain[i-1].Hash()` — holds exactly when the batch
    satisfies the contiguity hypothesis `BatchOk.contiguous` of `batch_equals_sequential` (numbers in the uint64 range). -/
theorem validateHeaderChain_establishes_contiguity (hs : List Header) (hsm : ∀ a ∈ hs, a.number + 1 < two64) :
    linked hs = true ↔
      (∀ i a b, hs[i]? = some a → hs[i + 1]? = some b → b.number = a.number + 1 ∧ b.parentHash = a.hash) :=
  ⟨fun h => linked_contiguous hs h hsm, contiguous_linked hs⟩

/-- a batch that fails the pre-check is refused outright — no header of it is verified or written — for every schedule. -/
theorem validateHeaderChain_rejects_unlinked (env : Env) (chain : Chain) (hs : List Header) (seals : List Bool) (completion : List Nat)
    (h : linked hs = false) : validateHeaderChain env chain hs seals completion = .nonContiguous := by
  unfold validateHeaderChain; simp [h]

/-- **header-batch import = one-by-one verification**: `ValidateHeaderChain` (pre-check + `VerifyHeaders` + first failure), for
    every completion order of the workers, accepts a batch iff it is linked and every header passes `VerifyHeader` against the
    chain extended by its predecessors, and otherwise reports the same first failure — over a parent-closed, collision-free
    chain reader, without assuming contiguity (the pre-check provides it). -/
theorem validateHeaderChain_equals_sequential (env : Env) (chain : Chain) (hs : List Header) (seals : List Bool) (completion : List Nat)
    (hsm : ∀ a ∈ hs, a.number + 1 < two64) (hfirst : ∀ a, hs[0]? = some a → 1 ≤ a.number)
    (hwf : ∀ hash n x, chain.getHeader hash n = some x → x.hash = hash ∧ x.number = n)
    (hclosed : ∀ a ∈ hs, (chain.getHeader a.hash a.number).isSome →
      ∃ p, chain.getHeader a.parentHash (a.number - 1) = some p ∧ (2 < a.number → (chain.getHeader p.parentHash (a.number - 2)).isSome))
    (hnocoll : ∀ hash n x, chain.getHeader hash n = some x → ∀ y ∈ hs, y.hash = x.hash → y = x)
    (hall : ∀ i, i < hs.length → i ∈ completion) :
    validateHeaderChain env chain hs seals completion =
      if linked hs then
        (match sequentialFirstFailure env seals chain hs 0 with
         | none => .accepted
         | some (i, e) => .rejected i e)
      else .nonContiguous := by
  by_cases hl : linked hs = true
  · have ok : BatchOk chain hs :=
      { contiguous := linked_contiguous hs hl hsm, first := hfirst, small := fun a ha => by have := hsm a ha; omega,
        wf := hwf, closed := hclosed, nocoll := hnocoll }
    unfold validateHeaderChain
    simp only [hl, Bool.not_true, Bool.false_eq_true, if_false, if_true]
    rw [(batch_equals_sequential env chain hs seals completion ok hall).2]
    cases sequentialFirstFailure env seals chain hs 0 with
    | none => rfl
    | some ie => rfl
  · have hl' : linked hs = false := by simpa using hl
    rw [validateHeaderChain_rejects_unlinked env chain hs seals completion hl']
    simp [hl']

/-- **results are consumed in lock-step** (the assumption under which the per-index theorems speak about `InsertChain`, made
    explicit and proved for the loop as written): `insertChain2` receives exactly one result per block, in order, before any
    `continue`; hence, for every completion order of the workers, block `i` of the batch is judged by `workerResult i` — and by
    `batch_equals_sequential` by what one-by-one `VerifyHeader` says about it. -/
theorem results_consumed_in_lockstep (env : Env) (chain : Chain) (hs : List Header) (seals : List Bool) (completion : List Nat)
    (hall : ∀ i, i < hs.length → i ∈ completion) :
    consumeResults (fun _ => false) 0 hs.length (verifyHeadersBatch env chain hs seals completion) =
      (List.range hs.length).map (fun i => (i, workerResult env chain hs seals i)) := by
  have h1 : verifyHeadersBatch env chain hs seals completion = (List.range hs.length).map (workerResult env chain hs seals) :=
    coordinator_complete _ _ _ hall
  have hlen : (verifyHeadersBatch env chain hs seals completion).length = hs.length := by rw [h1]; simp
  have := consumeResults_lockstep (verifyHeadersBatch env chain hs seals completion) 0
  rw [hlen] at this
  rw [this, h1, List.range_eq_range']
  apply List.ext_getElem
  · simp
  · intro i h₁ h₂
    simp

/-- the alignment is load-bearing: a `continue` placed before the receive (e.g. for an already imported block) makes the NEXT
    block be judged by the skipped block's result — here block 1 (whose own result is `extra`) is judged by block 0's `nil`. -/
theorem skip_before_receive_misaligns :
    consumeResults (fun i => i == 0) 0 2 [(none : Option VErr), some .extra] = [(1, none)] ∧
    consumeResults (fun _ => false) 0 2 [(none : Option VErr), some .extra] = [(0, none), (1, some .extra)] := by
  decide

/-- **the verdict does not depend on the offer history**: after any history of import attempts that were all refused (a block
    offered before its parent, after a failed sibling, …) the chain is what it was, and the verdict on a header is the one it
    would have got had the history not happened — acceptance is a function of (header, chain) only. -/
theorem accept_history_independent (env : Env) (doSeal : Bool) (chain : Chain) (history : List Header) (h : Header)
    (hrej : ∀ v ∈ (offerAll env doSeal chain history).2, v ≠ none) :
    (offerAll env doSeal chain history).1 = chain ∧
    (offer env (offerAll env doSeal chain history).1 h doSeal).2 = verifyHeaderEntry env chain h doSeal := by
  have key : ∀ (hist : List Header) (c : Chain), (∀ v ∈ (offerAll env doSeal c hist).2, v ≠ none) → (offerAll env doSeal c hist).1 = c := by
    intro hist
    induction hist with
    | nil => intro c _; rfl
    | cons x xs ih =>
      intro c hr
      simp only [offerAll] at hr ⊢
      have hx : (offer env c x doSeal).2 ≠ none := hr _ List.mem_cons_self
      have hc : (offer env c x doSeal).1 = c := by
        unfold offer at hx ⊢
        cases hv : verifyHeaderEntry env c x doSeal with
        | none => rw [hv] at hx; exact absurd rfl hx
        | some e => rfl
      rw [hc] at hr ⊢
      exact ih c (fun v hv => hr v (List.mem_cons_of_mem _ hv))
  have hc := key history chain hrej
  refine ⟨hc, ?_⟩
  rw [hc]
  unfold offer
  cases verifyHeaderEntry env chain h doSeal <;> rfl

/-- … in particular a header refused as `unknown-ancestor` is accepted later exactly when it is valid relative to the chain then. -/
theorem early_offer_is_harmless (env : Env) (doSeal : Bool) (chain : Chain) (early parent : Header)
    (h1 : verifyHeaderEntry env chain early doSeal = some .unknownAncestor)
    (h2 : verifyHeaderEntry env chain parent doSeal = none) :
    (offerAll env doSeal chain [early, parent, early]).2 =
      [some .unknownAncestor, none, verifyHeaderEntry env (chain.insert parent) early doSeal] := by
  simp only [offerAll, offer, h1, h2]
  cases verifyHeaderEntry env (chain.insert parent) early doSeal <;> rfl

/-- two schedules of the same batch report the same thing. -/
theorem batch_schedule_independent (env : Env) (chain : Chain) (hs : List Header) (seals : List Bool) (c₁ c₂ : List Nat)
    (h₁ : ∀ i, i < hs.length → i ∈ c₁) (h₂ : ∀ i, i < hs.length → i ∈ c₂) :
    verifyHeadersBatch env chain hs seals c₁ = verifyHeadersBatch env chain hs seals c₂ := by
  unfold verifyHeadersBatch
  rw [coordinator_complete _ _ _ h₁, coordinator_complete _ _ _ h₂]

/-! ## non-vacuity -/

-- `difficulty_spec` / `verifyHeader_iff`: the hypotheses are met by every generated schedule (`builtin_schedules_ordered`); a
-- concrete accepted header on the test schedule (HF6 era: +parent/128 for a 100 s block), and a rejected neighbour:
def exCfg : Config := { chainId := 3, forks := Spec.testForks }
def exParent : Header := { hash := 101, parentHash := 100, number := 19998, time := 1000, difficulty := 92078772, gasLimit := 4712388, gasUsed := 0, extraLen := 0 }
def exChild : Header := { hash := 102, parentHash := 101, number := 19999, time := 1100, difficulty := 92798137, gasLimit := 4712388 + 4600, gasUsed := 21000, extraLen := 32 }

example : exCfg.ordered = true ∧ exParent.gasLimit < two63 ∧ 1700000000 + 15 < two64 := by decide
example : verifyHeader (genEnv exCfg 1700000000 (fun _ => false)) exChild exParent none false true = none := by decide
example : HeaderValid Spec.diffParams exCfg 1700000000 (fun _ => false) exChild exParent false true := by decide
example : verifyHeader (genEnv exCfg 1700000000 (fun _ => false)) { exChild with gasLimit := 4712388 + 4601 } exParent none false true = some .gasLimit := by decide
example : verifyHeader (genEnv exCfg 1700000000 (fun _ => false)) { exChild with difficulty := 92798138 } exParent none false true = some .difficulty := by decide

-- `difficulty_ge_min` / `difficulty_reset`: a reset block and an era with a clamped decrease
example : minConsistent exCfg = true ∧ resetValue Spec.diffParams exCfg 5 = some 46039386 := by decide
example : difficultySpec Spec.diffParams exCfg 2000 { exParent with difficulty := 46039386 + 10 } = 46039386 := by decide

-- `verifyUncles_iff_partial`: block 20000 of a small stored chain with one valid uncle (a sibling of its parent)
def exUncle : Header := { hash := 201, parentHash := 101, number := 19999, time := 1100, difficulty := 92798137, gasLimit := 4712388, gasUsed := 0, extraLen := 0 }
def exB1 : Block := { header := exParent, uncles := [] }
def exB2 : Block := { header := { exChild with extraLen := 0 }, uncles := [] }
def exBlock : Block := { header := { hash := 103, parentHash := 102, number := 20000, time := 1300, difficulty := 93523122, gasLimit := 4712388 + 4600, gasUsed := 0, extraLen := 0 },
                         uncles := [exUncle] }
def exChain : Chain :=
  { getHeader := fun hash n => if hash = 101 ∧ n = 19998 then some exB1.header else if hash = 102 ∧ n = 19999 then some exB2.header else none
    getBlock := fun hash n => if hash = 101 ∧ n = 19998 then some exB1 else if hash = 102 ∧ n = 19999 then some exB2 else none }

example : 15000 < (gatherFamily exChain 7 exBlock.header.parentHash (subU64 exBlock.header.number 1) { ancestors := [], pastUncles := [], number := 0 }).number :=
  uncle_window_high_blocks exChain exBlock (by decide) (by decide)
example : (∀ a ∈ ancestorsOf exChain 7 exBlock.header.parentHash (subU64 exBlock.header.number 1), a.header.gasLimit < two63) ∧
    (∀ u ∈ exBlock.uncles, u.parentHash ≠ exBlock.header.hash ∧ u.time < two64) := by decide
example : verifyUncles (genEnv exCfg 0 (fun _ => false)) exChain exBlock = none := by decide
example : UnclesValid Spec.diffParams exCfg (fun _ => false) exChain exBlock := by decide
example : verifyUncles (genEnv exCfg 0 (fun _ => false)) exChain { exBlock with uncles := [exUncle, exUncle] } = some .tooManyUncles := by decide
example : verifyUncles (genEnv exCfg 0 (fun _ => false)) exChain { exBlock with uncles := [exB2.header] } = some .uncleIsAncestor := by decide

-- `verifyUncles_iff_with_exemptions`: a low block with a listed dangling pair satisfies the grandfathered rules (and an unlisted one does not)
example :
    let fake : Header := { hash := 77, parentHash := 0x6b818656fb5059ab4dd070e2c2822a7774065090e74ff31515764212c88e2923, number := 14003,
                           time := 0, difficulty := 0, gasLimit := 0, gasUsed := 0, extraLen := 0 }
    let block : Block := { header := { hash := 10, parentHash := 9, number := 14010, time := 5000, difficulty := 46039386, gasLimit := 4712388, gasUsed := 0, extraLen := 0 },
                           uncles := [fake] }
    let chain : Chain := { getHeader := fun _ _ => none, getBlock := fun _ _ => none }
    verifyUncles (genEnv (cfgOf Aqv.Gen.Params.mainnet) 0 (fun _ => false)) chain block = none ∧
    verifyUncles (genEnv (cfgOf Aqv.Gen.Params.mainnet) 0 (fun _ => false)) chain { block with uncles := [{ fake with number := 14002 }] } = some .danglingUncle := by
  decide

-- `uncle_limit_depends_on_block_number_only`: block 20000 (HF5 active) with two uncles exceeds the limit, on any chain
example : uncleLimit exCfg exBlock.header.number < ({ exBlock with uncles := [exUncle, exUncle] } : Block).uncles.length := by decide

-- `coordinator_complete`: a permutation of 0..3
example : coordinator (fun i => i * 10) 4 [2, 0, 3, 1] = [0, 10, 20, 30] := by decide
example : coordinator (fun i => i * 10) 4 [2, 3] = [] ∧ coordinator (fun i => i * 10) 4 [2, 0, 1] = [0, 10, 20] := by decide

-- `batch_equals_sequential`: `BatchOk` holds for a two-header batch on top of one stored header …
def exGrand : Header := { exParent with hash := 100, parentHash := 99, number := 19997, time := 900 }
def exStored : Chain :=
  { getHeader := fun hash n => if hash = 101 ∧ n = 19998 then some exParent else if hash = 100 ∧ n = 19997 then some exGrand else none
    getBlock := fun _ _ => none }
def exBatch : List Header := [{ exChild with extraLen := 0 }, { exBlock.header with gasLimit := 4712388 + 4600 }]

example : BatchOk exStored exBatch where
  contiguous := by
    intro i a b ha hb
    match i with
    | 0 => simp [exBatch] at ha hb; subst ha hb; decide
    | i + 1 => simp [exBatch] at hb
  first := by intro a ha; simp [exBatch] at ha; subst ha; decide
  small := by decide
  wf := by
    intro hash n x h
    simp only [exStored] at h
    split at h
    · rename_i hc; cases h; exact ⟨hc.1.symm, hc.2.symm⟩
    · split at h
      · rename_i hc; cases h; exact ⟨hc.1.symm, hc.2.symm⟩
      · cases h
  closed := by decide
  nocoll := by
    intro hash n x h y hy hyx
    simp only [exStored] at h
    split at h
    · cases h; revert hyx; revert y; decide
    · split at h
      · cases h; revert hyx; revert y; decide
      · cases h

-- `validateHeaderChain_*`: the example batch passes the pre-check; re-pointing its second header at another parent, a number gap
-- or swapping the order fails it (and the import is refused whatever the workers would say)
example : linked exBatch = true ∧ (∀ a ∈ exBatch, a.number + 1 < two64) := by decide
example : linked [exBatch[0]!, { exBatch[1]! with parentHash := 999 }] = false ∧ linked exBatch.reverse = false ∧
    linked [exBatch[0]!, { exBatch[1]! with number := 20001 }] = false := by decide
example : validateHeaderChain (genEnv exCfg 1700000000 (fun _ => false)) exStored [exBatch[0]!, { exBatch[1]! with parentHash := 999 }] [true, true] [1, 0] = .nonContiguous := by decide

-- `accept_history_independent` / `early_offer_is_harmless`: the second header of the example batch offered before the first is an unknown ancestor, then accepted in order
example : (offerAll (genEnv exCfg 1700000000 (fun _ => false)) true exStored
    [{ exBatch[1]! with difficulty := 92073152 }, exBatch[0]!, { exBatch[1]! with difficulty := 92073152 }]).2 = [some .unknownAncestor, none, none] := by decide

-- … and the first header failing its seal is reported at index 0 by both paths, for any schedule
example : firstFailure (verifyHeadersBatch (genEnv exCfg 1700000000 (fun h => h.number == 19999)) exStored exBatch [true, true] [1, 0]) = some (0, .sealErr) ∧
    sequentialFirstFailure (genEnv exCfg 1700000000 (fun h => h.number == 19999)) [true, true] exStored exBatch 0 = some (0, .sealErr) := by decide

/-! ### tie by translation (T-gen `translated`, DESIGN 2.2 mini-translator): the fork predicates of package params

params.isForked and (*ChainConfig).IsHF / GetHF are translated from the go/ssa form of the tree under test on every run
(`Aqv.Gen.Translated`; a `*big.Int` is an `Option Int`, nil = none; the map `c.HF` is a function; result `none` = panic).
On the fork map of the model (`hfMapOf c`) the translated code never panics and computes `Config.isHF` / `Config.getHF`,
the predicates every header-rule theorem above is stated on (proofs in `Aqv.Lemmas.Translated.Params`). -/
theorem isHF_code_is_model (c : Config) (hf : Nat) (h : hf < 2 ^ 63) (num : Nat) :
    Aqv.Gen.Translated.ChainConfig_IsHF (Aqv.Lemmas.Translated.hfMapOf c) (Int64.ofNat hf) (some (num : Int)) = some (c.isHF hf num) ∧
    Aqv.Gen.Translated.ChainConfig_GetHF (Aqv.Lemmas.Translated.hfMapOf c) (Int64.ofNat hf) = some ((c.getHF hf).map Nat.cast) :=
  ⟨Aqv.Lemmas.Translated.ChainConfig_IsHF_translated_eq c hf h num, Aqv.Lemmas.Translated.ChainConfig_GetHF_translated_eq c hf h⟩

example : Aqv.Gen.Translated.ChainConfig_IsHF (Aqv.Lemmas.Translated.hfMapOf ⟨1, [(5, 100)]⟩) 5 (some 100) = some true ∧
    Aqv.Gen.Translated.ChainConfig_IsHF (Aqv.Lemmas.Translated.hfMapOf ⟨1, [(5, 100)]⟩) 5 (some 99) = some false ∧
    Aqv.Gen.Translated.ChainConfig_IsHF (Aqv.Lemmas.Translated.hfMapOf ⟨1, [(5, 100)]⟩) 6 (some 1000) = some false := by decide

/-- tie by translation, difficulty rules: consensus/aquahash.calcDifficultyStarting and calcDifficultyHF1 (math/big code updating
    `x`, `y` in place; translated from go/ssa on every run) never panic on a parent header with non-nil Time / Difficulty and
    compute the model's `calcDifficultyStarting` / `calcDifficultyHF1`, at the regenerated difficulty parameters
    (`Gen.diffParams`: divisor, minima and mainnet chain id dumped from the compiled params package) and big1 = 1, big10 = 10,
    bigMinus99 = −99.  Every package-level variable the Go code reads is a named argument. -/
theorem calcDifficulty_homestead_code_is_model (time : UInt64) (parent : Header) (chainId : UInt64) :
    Aqv.Gen.Translated.calcDifficultyStarting (g_aquahash_big1 := 1) (g_aquahash_big10 := 10) (g_aquahash_bigMinus99 := -99)
        (g_params_DifficultyBoundDivisor := Gen.diffParams.div) (g_params_MinimumDifficultyGenesis := Gen.diffParams.minGenesis)
        (g_params_MainnetChainConfig_ChainId := some (Gen.diffParams.mainnetChainId : Int)) time
        (parent_Difficulty := some parent.difficulty) (parent_Time := some (parent.time : Int)) chainId
      = some (calcDifficultyStarting Gen.diffParams time.toNat parent chainId.toNat) ∧
    Aqv.Gen.Translated.calcDifficultyHF1 (g_aquahash_big1 := 1) (g_aquahash_big10 := 10) (g_aquahash_bigMinus99 := -99)
        (g_params_DifficultyBoundDivisor := Gen.diffParams.div) (g_params_MinimumDifficultyHF1 := Gen.diffParams.minHF1)
        (g_params_MainnetChainConfig_ChainId := some (Gen.diffParams.mainnetChainId : Int)) time
        (parent_Difficulty := some parent.difficulty) (parent_Time := some (parent.time : Int)) chainId
      = some (calcDifficultyHF1 Gen.diffParams time.toNat parent chainId.toNat) :=
  ⟨Aqv.Lemmas.Translated.calcDifficultyStarting_translated_eq Gen.diffParams (by decide) (by decide) time parent chainId,
   Aqv.Lemmas.Translated.calcDifficultyHF1_translated_eq Gen.diffParams (by decide) (by decide) time parent chainId⟩

example : calcDifficultyStarting Gen.diffParams 1000 ⟨0, 0, 5, 900, 1000000, 0, 0, 0⟩ 7 = 995608 := by decide

end Aqv.Props.C13

/-
  C07 — EVM execution is total, gas-bounded and sandboxed for every program.

  Model: Aqv.Model.Vm (generic metered machine over the GENERATED instruction tables Gen.VmFlags; Run's loop order, all gas
  and memory-size functions, callGas, the five call wrappers with snapshot/revert, depth check, stipend, precompile
  dispatch). "Every program" = every oracle `o : Nat → StepIn W` (opcode, operand values, StateDB answers, effects of state
  mutations at every step of every frame), every world type `W`, every gas budget < 2^64, every instruction-set epoch and
  both gas tables. Fuel is a model artefact; `run_terminates` shows it is never exhausted when it exceeds the gas budget.

  Every theorem is followed by an `example` exhibiting its hypotheses on a non-trivial instance.
-/
import Aqv.Lemmas.VmMain
import Aqv.Lemmas.VmMemAccess
import Aqv.Lemmas.VmPrecompile
import Aqv.Lemmas.VmConv
import Aqv.Lemmas.VmStatic
import Aqv.Lemmas.Translated.VmNat
import Aqv.Lemmas.Translated.VmPre
namespace Aqv.Props.C07
open Aqv.Vm Aqv.Gen.VmFlags

variable {W V : Type}

/-! ## facts about the generated tables (re-decided against core/vm/jump_table.go on every run) -/

/-- `writes_flag_complete`: every opcode whose execute function (opSstore, makeLog, opSuicide, opCreate) or gas function
    (gasSStore, gasSuicide: AddRefund) modifies the StateDB directly carries the `writes` flag enforceRestrictions tests.
    (Value-bearing CALL is tested separately by enforceRestrictions and covered by `static_no_write`.) -/
theorem writes_flag_complete :
    ∀ ep : Epoch, ∀ f ∈ table ep,
      (execWrites f.execFn || f.execFn == .opCreate || gasTouchesState f.gasFn) = true → f.writes = true := by
  intro ep f hf h
  have h7 := (opOK_split (List.all_eq_true.mp (table_ok ep) f hf)).2.2.2.2.2.2.1
  simpa [h] using h7

example : ∃ f ∈ table .spring, (execWrites f.execFn || f.execFn == .opCreate || gasTouchesState f.gasFn) = true ∧ f.op = 0x55 := by decide

/-- every opcode with a memorySize function has a gas function that calls memoryGasCost (nothing resizes memory for free) -/
theorem memory_resizing_ops_charge_memory :
    ∀ ep : Epoch, ∀ f ∈ table ep, f.memFn ≠ .none → gasChargesMem f.gasFn = true := by
  intro ep f hf h
  have h3 := (opOK_split (List.all_eq_true.mp (table_ok ep) f hf)).2.2.1
  simpa [h] using h3

example : ∃ f ∈ table .byzantium, f.memFn ≠ .none ∧ f.op = 0x3e := by decide

/-- `stack_reads_within_validated_height`: in every instruction set, the stack height an opcode's memory-size function, gas
    function and execute function need on entry — GENERATED from the source of core/vm by a go/ssa pass (go/extract/cmd/vmaccess:
    pops, peeks, Back(n), dup(n), swap(n), stack.data[len-k] on every path; closures instantiated with the constant arguments
    of their maker; makeLog's counted loop) — is at most the height validateStack guarantees (`pops`, probed from the compiled
    table). So `st.data[len-1-n]`, `pop()` and `peek()` never index out of range. -/
theorem stack_reads_within_validated_height :
    ∀ ep : Epoch, ∀ f ∈ table ep, f.memReads ≤ f.pops ∧ f.gasReads ≤ f.pops ∧ f.execReads ≤ f.pops := by
  intro ep f hf
  have h := opOK_split (List.all_eq_true.mp (table_ok ep) f hf)
  have h6 := h.2.2.2.2.2.1
  have h8 := h.2.2.2.2.2.2.2.1
  simp only [Bool.and_eq_true, decide_eq_true_eq] at h6
  exact ⟨h6.1, h6.2, h8⟩

-- CALL needs 7 / 7 / 3 (execute / memory-size / gas function), LOG4 needs 6, SWAP16 needs 17: exactly their arities
set_option maxRecDepth 4096 in
example : (table .spring).any (fun f => f.op == 0xf1 && f.execReads == 7 && f.memReads == 7 && f.gasReads == 3 && f.pops == 7) = true := by decide
set_option maxRecDepth 4096 in
example : (table .spring).any (fun f => f.op == 0xa4 && f.execReads == 6 && f.pops == 6) = true := by decide
set_option maxRecDepth 4096 in
example : (table .spring).any (fun f => f.op == 0x9f && f.execReads == 17 && f.pops == 17) = true := by decide

/-- `mem_access_in_bounds`: in every instruction set, for every operand values, each memory range `(offset, length)` with
    length > 0 that the execute function of an opcode dereferences — GENERATED from the source by vmaccess: every call of
    memory.Get / GetPtr / Set and every element access memory.store[i], with offset and size expressed in the entry stack
    operands — ends at or below the size computed by the opcode's memorySize function, to which Run has resized the memory
    (after charging for it) before `execute` runs. -/
theorem mem_access_in_bounds (ep : Epoch) (f : OpF) (hf : f ∈ table ep) (args : List Nat) (memorySize : Nat)
    (hms : memorySizeOf (memReq f.memFn args) = .ok memorySize) :
    ∀ r ∈ f.execRanges, 0 < r.2.eval args → r.1.eval args + r.2.eval args ≤ memorySize :=
  exec_ranges_covered hf args memorySize hms

-- CALL with input [0x40, 0x40+0x20) and output [0x100, 0x100+0x40): memorySize = 0x140 covers both generated ranges
example : memorySizeOf (memReq .memoryCall [0, 0, 0, 0x40, 0x20, 0x100, 0x40]) = .ok 0x140 := rfl
set_option maxRecDepth 4096 in
example : (table .spring).any (fun f => f.op == 0xf1 && f.execRanges == [(.back 3 0, .back 4 0), (.back 5 0, .back 6 0)]) = true := by decide
set_option maxRecDepth 4096 in
example : (table .spring).any (fun f => f.op == 0x53 && f.execRanges == [(.back 0 0, .const 1)]) = true := by decide

instance (env : Env) : Decidable (EnvOK env) := by unfold EnvOK; infer_instance

/-- the rule sets the harness runs (and `Gen.VmFlags.configs` records) satisfy the hypothesis `EnvOK` of the theorems below -/
theorem generated_configs_envOK :
    ∀ c ∈ configs, ∀ e ∈ c.sets, EnvOK ⟨e, c.gasTable, c.homestead, c.eip150, c.eip158, c.byzantium⟩ := by
  decide

/-! ## total: every non-halting step costs gas, hence the interpreter terminates -/

/-- `nonhalting_costs_gas`: in every instruction set, under every gas table, for every stack / memory / state, an opcode
    after which Run's loop continues (neither `halts` nor `reverts`) costs at least 1 gas. -/
theorem nonhalting_costs_gas (env : Env) (hE : EnvOK env) (f : OpF) (hf : f ∈ table env.ep)
    (hh : f.halts = false) (hr : f.reverts = false) (i : StepIn W) (contractGas : Nat) (m : Mem) (memorySize : Nat) (out : GasOut)
    (hg : gasCost env f i contractGas m memorySize = some out) : 1 ≤ out.cost := by
  have hok : opOK f = true := List.all_eq_true.mp (table_ok env.ep) f hf
  obtain ⟨_, _, _, h4, _⟩ := opOK_split hok
  simp only [hh, hr, Bool.false_or, List.all_eq_true, decide_eq_true_eq] at h4
  have := h4 env.gt hE
  have := (gasCost_spec hg).1
  omega

def envSpring : Env := ⟨.spring, gasTableHF1, true, true, true, true⟩
def envSpringPre7 : Env := ⟨.spring, gasTableHF1, true, true, false, false⟩
def envHomestead : Env := ⟨.homestead, gasTableHomestead, true, true, false, false⟩
def envFrontierRules : Env := ⟨.frontier, gasTableHomestead, false, true, false, false⟩

theorem envSpring_ok : EnvOK envSpring := by decide
theorem envHomestead_ok : EnvOK envHomestead := by decide

example : ∃ f ∈ table envSpring.ep, f.halts = false ∧ f.reverts = false ∧ f.op = 0x5b ∧
    gasCost envSpring f (⟨0x5b, [], 2, true, false, false, id, false, id, true, none, false, false, 0, id, id, id, false, id⟩ : StepIn Nat)
      100 ⟨0, 0⟩ 0 = some ⟨1, ⟨0, 0⟩, 0⟩ := by decide

/-- `run_terminates`: the fuelled interpreter never runs out of fuel when the fuel exceeds the frame's gas — for every
    program (oracle), frame state, world and call depth. (Fuel bounds the height of the call/continuation tree; each
    loop iteration and each callee gets strictly less gas than its parent had.) -/
theorem run_terminates (env : Env) (hE : EnvOK env) (o : Nat → StepIn W) (fuel : Nat) (fr : Frame) (db : Db W) (t : Nat)
    (hfr : FrameInv fr) (hw : db.WF) (hfuel : fr.gas < fuel) : (run env o fuel fr db t).out ≠ .outOfFuel :=
  (run_good hE o (fun _ => ()) (fun _ _ => rfl) fuel fr db t hfr hw).fuel_ok hfuel

/-- termination of the five call wrappers (Call, CallCode, DelegateCall, StaticCall by `k`; Create below) -/
theorem call_terminates (env : Env) (hE : EnvOK env) (o : Nat → StepIn W) (fuel : Nat) (k : CallKind) (i : StepIn W)
    (depth : Nat) (ro : Bool) (gas : Nat) (valueNZ : Bool) (db : Db W) (t : Nat) (hw : db.WF) (hg : gas < two64)
    (hfuel : gas < fuel) : (callWrap env (run env o fuel) k i depth ro gas valueNZ db t).out ≠ .outOfFuel :=
  (callWrap_good (run_good hE o (fun _ => ()) (fun _ _ => rfl) fuel) hw hg (fun _ => rfl) _ rfl).1.fuel_ok hfuel

theorem create_terminates (env : Env) (hE : EnvOK env) (o : Nat → StepIn W) (fuel : Nat) (i : StepIn W)
    (depth : Nat) (ro : Bool) (gas : Nat) (db : Db W) (t : Nat) (hw : db.WF) (hg : gas < two64)
    (hfuel : gas < fuel) : (createWrap env (run env o fuel) i depth ro gas db t).out ≠ .outOfFuel :=
  (createWrap_good (run_good hE o (fun _ => ()) (fun _ _ => rfl) fuel) hw hg _ rfl).1.fuel_ok hfuel

/-! a small program as an oracle (world = a counter of state mutations):
    PUSH1 PUSH1 MSTORE(0) PUSH1 PUSH1 SSTORE(0→x) then: the callee of step 0 exists and has code -/
def oStore (last : Nat) : Nat → StepIn Nat := fun t =>
  match t with
  | 0 => { op := 0, args := [] }
  | 1 => { op := 0x60, args := [] }
  | 2 => { op := 0x60, args := [] }
  | 3 => { op := 0x52, args := [0] }
  | 4 => { op := 0x60, args := [] }
  | 5 => { op := 0x60, args := [] }
  | 6 => { op := 0x55, args := [], sstoreKind := 0, eff := fun w => w + 1 }
  | 7 => { op := 0x60, args := [] }
  | 8 => { op := 0x60, args := [] }
  | _ => { op := last, args := [0, 0] }

def db0 : Db Nat := ⟨0, [], 0⟩
theorem db0_wf : db0.WF := by intro p hp; cases hp

-- the program runs to completion (STOP) on 30000 gas, uses 20024 of them, grows memory to 32 bytes and writes once
example : (topCall envSpring (oStore 0x00) 30001 .call 30000 false db0).out = .ok := by decide
example : (topCall envSpring (oStore 0x00) 30001 .call 30000 false db0).gas = 9976 := by decide
example : (topCall envSpring (oStore 0x00) 30001 .call 30000 false db0).db.cur = 1 := by decide
example : ((topCall envSpring (oStore 0x00) 30001 .call 30000 false db0).trace.map (·.memLen)) = [0, 0, 32, 32, 32, 32, 32, 32, 32] := by decide
-- with too little fuel the model does report exhaustion (so `run_terminates` is not vacuous)
example : (topCall envSpring (oStore 0x00) 3 .call 30000 false db0).out = .outOfFuel := by decide

-- the hypotheses of the theorems are jointly satisfiable on this instance (EnvOK, FrameInv, WF, fuel bound)
example : (run envSpring (oStore 0x00) 30001 (newFrame 30000 1 false) db0 1).out ≠ .outOfFuel :=
  run_terminates envSpring envSpring_ok (oStore 0x00) 30001 (newFrame 30000 1 false) db0 1
    (FrameInv.new (by decide) (by decide)) db0_wf (by decide)
example : (topCall envSpring (oStore 0x00) 30001 .call 30000 false db0).out ≠ .outOfFuel :=
  call_terminates envSpring envSpring_ok (oStore 0x00) 30001 .call _ 0 false 30000 false db0 1 db0_wf (by decide) (by decide)
example : (topCreate envHomestead (oStore 0x00) 30001 30000 db0).out ≠ .outOfFuel :=
  create_terminates envHomestead envHomestead_ok (oStore 0x00) 30001 _ 0 false 30000 db0 1 db0_wf (by decide) (by decide)

/-! ## gas-bounded -/

/-- `gas_monotone`: from ANY state of a frame (hence from every intermediate state, since the rest of a run is itself a run)
    the gas the frame ends with is at most the gas it has now: contract.Gas only decreases, except by a callee's leftover,
    and that never lifts it above the value before the call step. -/
theorem gas_monotone (env : Env) (hE : EnvOK env) (o : Nat → StepIn W) (fuel : Nat) (fr : Frame) (db : Db W) (t : Nat)
    (hfr : FrameInv fr) (hw : db.WF) : (run env o fuel fr db t).gas ≤ fr.gas :=
  (run_good hE o (fun _ => ()) (fun _ _ => rfl) fuel fr db t hfr hw).gas_le

/-- `leftover_le_given` for Call / CallCode / DelegateCall / StaticCall at any depth, for any callee (code, precompile,
    empty, non-existent) -/
theorem leftover_le_given_call (env : Env) (hE : EnvOK env) (o : Nat → StepIn W) (fuel : Nat) (k : CallKind) (i : StepIn W)
    (depth : Nat) (ro : Bool) (gas : Nat) (valueNZ : Bool) (db : Db W) (t : Nat) (hw : db.WF) (hg : gas < two64) :
    (callWrap env (run env o fuel) k i depth ro gas valueNZ db t).gas ≤ gas :=
  (callWrap_good (run_good hE o (fun _ => ()) (fun _ _ => rfl) fuel) hw hg (fun _ => rfl) _ rfl).1.gas_le

/-- `leftover_le_given` for Create -/
theorem leftover_le_given_create (env : Env) (hE : EnvOK env) (o : Nat → StepIn W) (fuel : Nat) (i : StepIn W)
    (depth : Nat) (ro : Bool) (gas : Nat) (db : Db W) (t : Nat) (hw : db.WF) (hg : gas < two64) :
    (createWrap env (run env o fuel) i depth ro gas db t).gas ≤ gas :=
  (createWrap_good (run_good hE o (fun _ => ()) (fun _ _ => rfl) fuel) hw hg _ rfl).1.gas_le

example : (topCall envSpring (oStore 0xfe) 30001 .call 30000 false db0).gas = 0 := by decide

/-- 63/64 rule: with either generated gas table a CALL-family gas function forwards at most all but one 64th of what is
    left after the call's own cost -/
theorem call_forwards_at_most_63_64 (gt : GasTable) (hgt : gt ∈ gasTables) (availableGas base callCost tmp : Nat)
    (hav : availableGas < two64) (hb : base ≤ availableGas) (h : callGas gt availableGas base callCost = some tmp) :
    tmp ≤ (availableGas - base) - (availableGas - base) / 64 :=
  callGas_le (gasTables_ok gt hgt).1 hav hb h

example : callGas gasTableHF1 6400 0 (2 ^ 256 - 1) = some 6300 := by decide

/-! ## memory is paid for -/

/-- `memory_paid`: at every executed step of every frame (any depth) of a run, with w = len(memory)/32 after Resize,
    3·w + w²/512 + gas left in the frame ≤ gas the frame was given — the memory held is bounded by the gas spent. -/
theorem memory_paid (env : Env) (hE : EnvOK env) (o : Nat → StepIn W) (fuel : Nat) (fr : Frame) (db : Db W) (t : Nat)
    (hfr : FrameInv fr) (hw : db.WF) : ∀ e ∈ (run env o fuel fr db t).trace, Spec.memoryPaid e = true :=
  fun e he => ((run_good hE o (fun _ => ()) (fun _ _ => rfl) fuel fr db t hfr hw).events e he).1

theorem memory_paid_call (env : Env) (hE : EnvOK env) (o : Nat → StepIn W) (fuel : Nat) (k : CallKind) (i : StepIn W)
    (depth : Nat) (ro : Bool) (gas : Nat) (valueNZ : Bool) (db : Db W) (t : Nat) (hw : db.WF) (hg : gas < two64) :
    ∀ e ∈ (callWrap env (run env o fuel) k i depth ro gas valueNZ db t).trace, Spec.memoryPaid e = true :=
  fun e he => ((callWrap_good (run_good hE o (fun _ => ()) (fun _ _ => rfl) fuel) hw hg (fun _ => rfl) _ rfl).1.events e he).1

theorem memory_paid_create (env : Env) (hE : EnvOK env) (o : Nat → StepIn W) (fuel : Nat) (i : StepIn W)
    (depth : Nat) (ro : Bool) (gas : Nat) (db : Db W) (t : Nat) (hw : db.WF) (hg : gas < two64) :
    ∀ e ∈ (createWrap env (run env o fuel) i depth ro gas db t).trace, Spec.memoryPaid e = true :=
  fun e he => ((createWrap_good (run_good hE o (fun _ => ()) (fun _ _ => rfl) fuel) hw hg _ rfl).1.events e he).1

-- the Spec check is not trivially true: a step record with 64 KiB of memory and only 100 gas spent is rejected
example : Spec.memoryPaid ⟨1, 0x52, 1000, 100, 65536, 2, 1000, false, false⟩ = false := by decide
example : Spec.memoryPaid ⟨1, 0x52, 30000 - 6, 6, 32, 2, 30000, false, false⟩ = true := by decide

/-! ## failing frames leave the world as it was -/

/-- `frame_failure_reverts` (Call, CallCode, DelegateCall, StaticCall): if the wrapper returns an error
    (errExecutionReverted or any other) the world is exactly the world at entry — whatever the callee and its callees did.
    Uses only the revision discipline of the wrappers (every RevertToSnapshot finds its id; proved, not assumed). -/
theorem frame_failure_reverts_call (env : Env) (hE : EnvOK env) (o : Nat → StepIn W) (fuel : Nat) (k : CallKind) (i : StepIn W)
    (depth : Nat) (ro : Bool) (gas : Nat) (valueNZ : Bool) (db : Db W) (t : Nat) (hw : db.WF) (hg : gas < two64)
    (herr : (callWrap env (run env o fuel) k i depth ro gas valueNZ db t).out.isErr = true) :
    (callWrap env (run env o fuel) k i depth ro gas valueNZ db t).db.cur = db.cur :=
  (callWrap_good (run_good hE o (fun _ => ()) (fun _ _ => rfl) fuel) hw hg (fun _ => rfl) _ rfl).2 herr

-- SSTORE executes (world 0 → 1), then INVALID: the frame fails and the world is 0 again
example : (topCall envSpring (oStore 0xfe) 30001 .call 30000 false db0).out = .fail .invalidOpcode := by decide
example : (topCall envSpring (oStore 0xfe) 30001 .call 30000 false db0).db.cur = 0 := by decide
-- same with REVERT: reverted, but the remaining gas is kept
example : (topCall envSpring (oStore 0xfd) 30001 .call 30000 false db0).out = .revert := by decide
example : (topCall envSpring (oStore 0xfd) 30001 .call 30000 false db0).db.cur = 0 ∧
          (topCall envSpring (oStore 0xfd) 30001 .call 30000 false db0).gas = 9976 := by decide

/-- `frame_failure_reverts` for Create, with `create_failure_keeps_nonce`: under Homestead rules (every built-in chain
    configuration has HomesteadBlock = 0) a failing Create leaves the world at entry, plus the creator's nonce increment —
    the latter exactly when the failure is not the depth or balance check, which precede the increment. -/
theorem frame_failure_reverts_create (env : Env) (hE : EnvOK env) (hH : env.homestead = true) (o : Nat → StepIn W) (fuel : Nat)
    (i : StepIn W) (depth : Nat) (ro : Bool) (gas : Nat) (db : Db W) (t : Nat) (hw : db.WF) (hg : gas < two64)
    (herr : (createWrap env (run env o fuel) i depth ro gas db t).out.isErr = true) :
    (createWrap env (run env o fuel) i depth ro gas db t).db.cur =
      (if depth > callCreateDepth ∨ i.canTransfer = false then db.cur else i.nonceEff db.cur) :=
  (createWrap_good (run_good hE o (fun _ => ()) (fun _ _ => rfl) fuel) hw hg _ rfl).2 hH herr

/-- init code: PUSH1 PUSH1 SSTORE INVALID; the creator's nonce bump is +100, account creation/transfer +10, SSTORE +1 -/
def oCreate (last : Nat) : Nat → StepIn Nat := fun t =>
  match t with
  | 0 => { op := 0, args := [], nonceEff := fun w => w + 100, xferEff := fun w => w + 10, setCodeEff := fun w => w + 1000 }
  | 1 => { op := 0x60, args := [] }
  | 2 => { op := 0x60, args := [] }
  | 3 => { op := 0x55, args := [], sstoreKind := 0, eff := fun w => w + 1 }
  | 4 => { op := 0x60, args := [] }
  | 5 => { op := 0x60, args := [] }
  | _ => { op := last, args := [0, 40] }

example : (topCreate envSpring (oCreate 0xfe) 100000 99999 db0).out = .fail .invalidOpcode ∧
          (topCreate envSpring (oCreate 0xfe) 100000 99999 db0).db.cur = 100 := by decide
-- successful creation: RETURN(0, 40) deploys 40 bytes: all effects stay
example : (topCreate envSpring (oCreate 0xf3) 100000 99999 db0).out = .ok ∧
          (topCreate envSpring (oCreate 0xf3) 100000 99999 db0).db.cur = 1111 := by decide
-- code deposit unaffordable (40·200 gas): ErrCodeStoreOutOfGas, reverted, nonce kept
example : (topCreate envSpring (oCreate 0xf3) 100000 22000 db0).out = .fail .codeStoreOutOfGas ∧
          (topCreate envSpring (oCreate 0xf3) 100000 22000 db0).db.cur = 100 := by decide

/-- Gap, recorded not flagged: the Homestead hypothesis is necessary. Under Frontier rules (IsHomestead = false, outside the
    property's three epochs and unreachable with the built-in configurations) `Create` returns ErrCodeStoreOutOfGas WITHOUT
    reverting: account creation, transfer and the init code's writes stay. -/
theorem frontier_code_store_failure_witness :
    (topCreate envFrontierRules (oCreate 0xf3) 100000 22000 db0).out = .fail .codeStoreOutOfGas ∧
    (topCreate envFrontierRules (oCreate 0xf3) 100000 22000 db0).db.cur = 111 := by decide

/-! ## static context -/

/-- `static_no_write` (step level): under Byzantium rules no step that executes in read-only mode is a state-modifying
    opcode (SSTORE, LOGn, SELFDESTRUCT, CREATE — by `writes_flag_complete`) or a value-bearing CALL. For every program, at
    every depth. -/
theorem static_no_write (env : Env) (hE : EnvOK env) (o : Nat → StepIn W) (fuel : Nat) (k : CallKind) (i : StepIn W)
    (depth : Nat) (ro : Bool) (gas : Nat) (valueNZ : Bool) (db : Db W) (t : Nat) (hw : db.WF) (hg : gas < two64) :
    ∀ e ∈ (callWrap env (run env o fuel) k i depth ro gas valueNZ db t).trace,
      env.byzantium = true → e.ro = true → e.writesWorld = false := by
  intro e he hb hro
  have h := ((callWrap_good (run_good hE o (fun _ => ()) (fun _ _ => rfl) fuel) hw hg (fun _ => rfl) _ rfl).1.events e he).2.2
  simpa [Spec.staticOk, hb, hro] using h

/-- `static_no_write` (world level): under Byzantium rules a StaticCall frame — and any call made from read-only context
    that does not itself carry value — returns with every observation `view` of the world unchanged, provided the
    zero-value Call plumbing (CreateAccount of a non-existent address, Transfer of 0: "touch") is invisible to `view`
    (balance, nonce, code, storage and logs are such a view; account existence is not). -/
theorem static_call_preserves_view (env : Env) (hE : EnvOK env) (hB : env.byzantium = true) (o : Nat → StepIn W) (view : W → V)
    (hN : ∀ t w, view ((o t).neutralEff w) = view w) (fuel : Nat) (k : CallKind) (i : StepIn W)
    (hNi : ∀ w, view (i.neutralEff w) = view w)
    (depth : Nat) (ro : Bool) (gas : Nat) (valueNZ : Bool) (db : Db W) (t : Nat) (hw : db.WF) (hg : gas < two64)
    (hst : (ro || k == .static) = true) (hnv : (k == .call && valueNZ) = false) :
    view (callWrap env (run env o fuel) k i depth ro gas valueNZ db t).db.cur = view db.cur :=
  (callWrap_good (run_good hE o view hN fuel) hw hg hNi _ rfl).1.static hB (by simp [hst, hnv])

-- a top-level StaticCall into the storing program: SSTORE is refused, nothing changes
example : (topCall envSpring (oStore 0x00) 30001 .static 30000 false db0).out = .fail .writeProtection ∧
          (topCall envSpring (oStore 0x00) 30001 .static 30000 false db0).db.cur = 0 := by decide

/-- Gap, recorded not flagged (DESIGN §4 C07): between HF5 and HF7 the instruction set already contains STATICCALL while
    `IsByzantium` is false, so enforceRestrictions does nothing: a static frame writes. The property speaks of static calls
    "under Byzantium rules"; the theorems above carry that hypothesis and it is necessary. -/
theorem static_unenforced_without_byzantium_witness :
    (topCall envSpringPre7 (oStore 0x00) 30001 .static 30000 false db0).out = .ok ∧
    (topCall envSpringPre7 (oStore 0x00) 30001 .static 30000 false db0).db.cur = 1 := by decide

/-- `static_subtree_readonly`: no state-changing operation executes under a STATICCALL at any depth. Every step executed
    anywhere below a StaticCall frame — in the frame itself and in every frame it reaches through any nesting of CALL, CALLCODE,
    DELEGATECALL, STATICCALL and CREATE — runs with interpreter.readOnly = true (the flag is inherited by every callee and
    survives every return: `run_ro`, by induction over the call tree), and therefore, under Byzantium rules, is neither SSTORE,
    LOGn, SELFDESTRUCT, CREATE nor a value-bearing CALL. For every program, caller flag, depth and gas. -/
theorem static_subtree_readonly (env : Env) (hE : EnvOK env) (o : Nat → StepIn W) (fuel : Nat) (i : StepIn W)
    (depth : Nat) (ro : Bool) (gas : Nat) (valueNZ : Bool) (db : Db W) (t : Nat) (hw : db.WF) (hg : gas < two64) :
    ∀ e ∈ (callWrap env (run env o fuel) .static i depth ro gas valueNZ db t).trace,
      e.ro = true ∧ (env.byzantium = true → e.writesWorld = false) := by
  intro e he
  have hro := callWrap_ro (env := env) (run_ro env o fuel) .static i depth ro gas valueNZ db t (by simp) e he
  exact ⟨hro, fun hb => static_no_write env hE o fuel .static i depth ro gas valueNZ db t hw hg e he hb hro⟩

/-- StaticCall → 7×PUSH, CALL (value 0) → callee: PUSH PUSH SSTORE; then the caller STOPs -/
def oNested : Nat → StepIn Nat := fun t =>
  match t with
  | 0 => { op := 0, args := [] }
  | 8 => { op := 0xf1, args := [50000, 0xbb, 0, 0, 0, 0, 0] }
  | 11 => { op := 0x55, args := [], sstoreKind := 0, eff := fun w => w + 1 }
  | n => if n < 12 then { op := 0x60, args := [] } else { op := 0x00, args := [] }

-- the SSTORE two frames below the StaticCall is refused; both frames ran read-only; the world is untouched
example : ((topCall envSpring oNested 100001 .static 100000 false db0).trace.map (fun e => (e.depth, e.op, e.ro))) =
    [(1, 0x60, true), (1, 0x60, true), (1, 0x60, true), (1, 0x60, true), (1, 0x60, true), (1, 0x60, true), (1, 0x60, true),
     (1, 0xf1, true), (2, 0x60, true), (2, 0x60, true), (1, 0x00, true)] := by decide
example : (topCall envSpring oNested 100001 .static 100000 false db0).out = .ok ∧
          (topCall envSpring oNested 100001 .static 100000 false db0).db.cur = 0 := by decide
-- the same program entered by a plain Call writes (so the theorem is about the static subtree, not vacuous)
set_option maxRecDepth 8192 in
example : (topCall envSpring oNested 100001 .call 100000 false db0).db.cur = 1 := by decide

/-! ## depth -/

/-- `depth_le_1024`: every frame that executes a step runs at evm.depth ≤ CallCreateDepth + 1 = 1025, i.e. at most 1024
    frames are nested below the outermost one. -/
theorem depth_le_1024 (env : Env) (hE : EnvOK env) (o : Nat → StepIn W) (fuel : Nat) (k : CallKind) (i : StepIn W)
    (depth : Nat) (ro : Bool) (gas : Nat) (valueNZ : Bool) (db : Db W) (t : Nat) (hw : db.WF) (hg : gas < two64) :
    callCreateDepth = 1024 ∧
    ∀ e ∈ (callWrap env (run env o fuel) k i depth ro gas valueNZ db t).trace, e.depth ≤ 1025 := by
  refine ⟨by decide, fun e he => ?_⟩
  have h := ((callWrap_good (run_good hE o (fun _ => ()) (fun _ _ => rfl) fuel) hw hg (fun _ => rfl) _ rfl).1.events e he).2.1
  have hc : callCreateDepth = 1024 := by decide
  simp only [Spec.depthOk, decide_eq_true_eq, hc] at h
  exact h

theorem depth_le_1024_create (env : Env) (hE : EnvOK env) (o : Nat → StepIn W) (fuel : Nat) (i : StepIn W)
    (depth : Nat) (ro : Bool) (gas : Nat) (db : Db W) (t : Nat) (hw : db.WF) (hg : gas < two64) :
    ∀ e ∈ (createWrap env (run env o fuel) i depth ro gas db t).trace, e.depth ≤ 1025 := by
  intro e he
  have h := ((createWrap_good (run_good hE o (fun _ => ()) (fun _ _ => rfl) fuel) hw hg _ rfl).1.events e he).2.1
  have hc : callCreateDepth = 1024 := by decide
  simp only [Spec.depthOk, decide_eq_true_eq, hc] at h
  exact h

-- a call attempted from a frame at depth 1025 is refused with ErrDepth and returns all its gas
example : (callWrap envSpring (run envSpring (oStore 0) 10) .call (oStore 0 0) 1025 false 500 false db0 1).out = .fail .depth ∧
          (callWrap envSpring (run envSpring (oStore 0) 10) .call (oStore 0 0) 1025 false 500 false db0 1).gas = 500 := by decide
example : ((topCall envSpring (oStore 0x00) 30001 .call 30000 false db0).trace.map (·.depth)) = [1, 1, 1, 1, 1, 1, 1, 1, 1] := by decide

/-! ## no modelled panic -/

/-- `no_modelled_panic` (revision ids): RevertToSnapshot — which panics on an unknown revision id — is always applied to a live
    id by the five wrappers, for every program and nesting. -/
theorem no_modelled_panic (env : Env) (hE : EnvOK env) (o : Nat → StepIn W) (fuel : Nat) (k : CallKind) (i : StepIn W)
    (depth : Nat) (ro : Bool) (gas : Nat) (valueNZ : Bool) (db : Db W) (t : Nat) (hw : db.WF) (hg : gas < two64) :
    (callWrap env (run env o fuel) k i depth ro gas valueNZ db t).out ≠ .panic ∧
    (createWrap env (run env o fuel) i depth ro gas db t).out ≠ .panic :=
  ⟨(callWrap_good (run_good hE o (fun _ => ()) (fun _ _ => rfl) fuel) hw hg (fun _ => rfl) _ rfl).1.no_panic,
   (createWrap_good (run_good hE o (fun _ => ()) (fun _ _ => rfl) fuel) hw hg _ rfl).1.no_panic⟩

-- the panic outcome is reachable in the model when the discipline is broken: reverting to an id that was never issued
example : (finishCall (⟨.fail .outOfGas, 5, db0, 0, 0, []⟩ : Res Nat) 7).out = .panic := by decide

/-- `no_modelled_panic` (stack and memory accesses): whenever an iteration of Run gets past validateStack, the restrictions,
    the memory-size computation and UseGas (`pre … = .go`), in any frame of any program: every stack access of the
    memory-size function, the gas function and the execute function stays within the current stack, and every memory range
    the execute function dereferences (length > 0) lies inside the memory as resized by Run. Depths and ranges are the
    generated ones (derived from the source of core/vm on every run), so no hand transcription is involved. -/
theorem no_modelled_panic_stack_memory (env : Env) (i : StepIn W) (fr : Frame) (db : Db W) (t : Nat)
    (f : OpF) (g : GasOut) (memorySize : Nat) (db1 : Db W) (hpre : pre env i fr db t = .go f g memorySize db1) :
    f.memReads ≤ fr.stack ∧ f.gasReads ≤ fr.stack ∧ f.execReads ≤ fr.stack ∧
    ∀ r ∈ f.execRanges, 0 < r.2.eval i.args → r.1.eval i.args + r.2.eval i.args ≤ (paidFrame fr f g memorySize).mem.len := by
  obtain ⟨hl, hst, _, hms, _, _, _⟩ := pre_go hpre
  obtain ⟨h1, h2, h3⟩ := stack_reads_within_validated_height env.ep f (lookup_mem hl).1
  refine ⟨by omega, by omega, by omega, fun r hr hpos => ?_⟩
  have hcov := exec_ranges_covered (lookup_mem hl).1 i.args memorySize hms r hr hpos
  have hlen : memorySize ≤ (paidFrame fr f g memorySize).mem.len := by
    simp only [paidFrame]
    split <;> omega
  omega

/-- `mem_operand_conversions_exact_partial`: the big.Int → int64/uint64 conversions of the operands that feed the generated
    memory ranges are exact whenever the range is dereferenced (length > 0): offset + length ≤ memorySize ≤ 0xffffffffe0 < 2^63,
    because every opcode with a memory-size function has a gas function that went through memoryGasCost.
    PARTIAL: this theorem covers the memory operands; all other conversions of the execute functions (opJump's pos, getDataBig's
    slices and RightPadBytes size, return-data slicing, shifts, BYTE, SIGNEXTEND, BLOCKHASH) are classified by
    `conversions_guarded` below. NOT derived, by name: makePush's slicing of contract.Code (plain int arithmetic with explicit
    min-clamps, no big.Int conversion), the polarity of a dominating check (which branch the conversion sits on), the bodies
    of common.RightPadBytes/LeftPadBytes/PaddedBigBytes, destinations.has/codeBitmap, and contracts.go (precompile bodies) — for
    these the harness' recover() on the real code is the only check. -/
theorem mem_operand_conversions_exact_partial (env : Env) (i : StepIn W) (fr : Frame) (db : Db W) (t : Nat)
    (f : OpF) (g : GasOut) (memorySize : Nat) (db1 : Db W) (hpre : pre env i fr db t = .go f g memorySize db1) :
    ∀ r ∈ f.execRanges, 0 < r.2.eval i.args → r.1.eval i.args + r.2.eval i.args ≤ 0xffffffffe0 := by
  obtain ⟨hl, _, _, hms, hg, _, _⟩ := pre_go hpre
  intro r hr hpos
  have hcov := exec_ranges_covered (lookup_mem hl).1 i.args memorySize hms r hr hpos
  have hne : f.memFn ≠ .none := by
    intro h
    rw [h] at hms
    have : memorySize = 0 := by simp [memReq, memorySizeOf] at hms; omega
    omega
  have hch := memory_resizing_ops_charge_memory env.ep f (lookup_mem hl).1 hne
  obtain ⟨fee, hmg, _⟩ := (gasCost_spec hg).2.1 hch
  have := memoryGasCost_some_bound hmg
  omega

-- MSTORE at offset 0x40 in a fresh frame passes `pre` with memorySize 0x60: the hypotheses of the two theorems above hold
example : ∃ f g db1, pre envSpring (⟨0x52, [0x40, 7], 2, true, false, false, id, false, id, true, none, false, false, 0, id, id, id, false, id⟩ : StepIn Nat)
    ⟨1000, 2, ⟨0, 0⟩, 1000, 1, false⟩ db0 0 = .go f g 0x60 db1 ∧ f.execRanges = [(.back 0 0, .const 32)] ∧
    (paidFrame ⟨1000, 2, ⟨0, 0⟩, 1000, 1, false⟩ f g 0x60).mem.len = 0x60 := by
  refine ⟨_, _, _, rfl, rfl, rfl⟩

/-! ## big.Int → machine-integer conversions of the execute functions -/

/-- `conversions_guarded`: every `(*big.Int).Uint64()` / `Int64()` call in every execute function of core/vm (and in the helpers
    they hand operands to: getDataBig, bigUint64, callGas) — GENERATED from the source by the go/ssa pass vmaccess: receiver
    (entry operand Back(k) / big.Int computed from operands / BigMin result / helper parameter / other), what the result feeds,
    and the dominating check — falls in one of the classes of `convOK`; every `size` handed to getDataBig is big32 or the
    size operand of a generated memory range of the same function (`helperOK`); no function was left unanalysed. By op:
    * opSha3, opMload, opMstore, opMstore8 (offset), opCallDataCopy/opCodeCopy/opExtCodeCopy/opReturnDataCopy (memOffset, length),
      opCreate, opCall/opCallCode/opDelegateCall/opStaticCall, opReturn, opRevert, makeLog: feed Memory accessors only — class B,
      bounded and exact by `mem_access_in_bounds` / `mem_operand_conversions_exact_partial` (the memory-size check of Run);
    * opMstore8 (value `& 0xff`), makeLog (evm.BlockNumber → Log.BlockNumber): stored as data — class B;
    * opJump / opJumpi: `pos.Uint64()` → `*pc` and → contract.GetOp (bounds-checked itself): dominated by destinations.has(pos),
      which rejects BitLen ≥ 63 — class A;
    * opReturnDataCopy: `end.Uint64()` (slice bound, comparison) dominated by `end.BitLen() > 64`; `dataOffset.Uint64()` (slice
      bound) and `length.Uint64()` are addends of that checked sum — class A (`sum`);
    * opBlockhash (Cmp window), opByte (Cmp 32), opSignExtend (Cmp 31), opSHL/opSHR/opSAR (Cmp 256): class A;
    * getDataBig: both slice bounds are results of math.BigMin with len(data) — class A (`min`); `size.Uint64()` → RightPadBytes:
      class D, per call site: opCallDataLoad passes big32, the three copy opcodes pass their `length` operand, which is the size
      of their generated memory range;
    * bigUint64: returns `v.BitLen() > 64` with the value (class C; its callers — Run and the gas functions — test the flag: modelled
      as the `≥ 2^64` checks of `memorySizeOf` / `gasCost`, tied by trace replay); callGas: dominated by BitLen — class A. -/
theorem conversions_guarded :
    convs.all convOK = true ∧ helperCalls.all (fun h => helperOK h && helperKnown h) = true ∧ convUnanalysed = [] :=
  ⟨convs_ok, helpers_ok, conv_all_analysed⟩

-- the table is not trivial: a slice bound from a bare operand with no check would be rejected
example : convOK ⟨"opX", "Uint64", .back 1, [.slice], .none, "", ""⟩ = false := by decide
-- … and so would one whose only "check" compares the already truncated value
example : convOK ⟨"opX", "Uint64", .back 1, [.slice], .direct, "Uint64", ""⟩ = false := by decide
example : convs.any (fun c => c.fn == "opReturnDataCopy" && c.src == .back 1 && c.uses == [.slice] && c.guard == .sum) = true := by decide
example : convs.any (fun c => c.fn == "opJump" && c.uses == [.pc] && c.guard == .direct) = true := by decide
example : helperCalls.any (fun h => h.fn == "opCodeCopy" && h.helper == "getDataBig" && h.arg == 2 && h.opnd == some 2) = true := by decide

/-! ## precompiles: buffers materialised from announced lengths are paid for -/

/-- `modexp_alloc_bounded_by_gas`: for every input byte string and every gas budget below MaxUint64 under which
    RunPrecompiledContract gets past `UseGas(RequiredGas(input))`, the bytes bigModExp.Run materialises from the three ANNOUNCED
    lengths of the header (the getData buffers, each right-padded to its announced uint64 size, and the LeftPadBytes output;
    nothing on the `baseLen == 0 && modLen == 0` early return) are at most 64·(gas charged + 1) + 32. The early return is
    essential: with base and modulus length 0 the charged gas is 0 whatever exponent length is announced. -/
theorem modexp_alloc_bounded_by_gas (input : Aqv.Bytes) (gas : Nat) (hgas : gas < Pre.two64 - 1)
    (hrun : (Pre.runPrecompile 5 input gas).1 = true) :
    Pre.modexpRunBuffers (Pre.hdrWord input 0) (Pre.hdrWord input 32) (Pre.hdrWord input 64)
      ≤ 64 * (gas - (Pre.runPrecompile 5 input gas).2 + 1) + 32 := by
  unfold Pre.runPrecompile at hrun ⊢
  simp only at hrun ⊢
  split at hrun
  · cases hrun
  · next hge =>
    simp only [hge, if_false]
    have hreq : Pre.requiredGas 5 input = Pre.modexpRequiredGas input := rfl
    rw [hreq] at hge ⊢
    have hcore := Pre.modexp_core (Pre.hdrWord input 0) (Pre.hdrWord input 32) (Pre.hdrWord input 64)
      (Pre.msbOf (Pre.modexpExpHead input)) (Pre.modexpRequiredGas input) rfl (by omega)
    omega

-- header announcing baseLen = 0, expLen = 2^26, modLen = 0: gas 0, and (thanks to the early return) nothing materialised
example : Pre.modexpGas 0 (2 ^ 26) 0 0 = 0 ∧ Pre.modexpRunBuffers 0 (2 ^ 26) 0 = 0 := by decide
-- baseLen = 0, expLen = 2^16, modLen = 1: 26201 gas for 65538 materialised bytes
example : Pre.modexpGas 0 (2 ^ 16) 1 0 = 26201 ∧ Pre.modexpRunBuffers 0 (2 ^ 16) 1 = 65538 := by decide
-- hypotheses satisfiable: a 96-byte header (1, 1, 1) with 10000 gas runs and is charged 0 (1·1·1/20)
example : (Pre.runPrecompile 5 ((List.replicate 31 0 ++ [1]) ++ (List.replicate 31 0 ++ [1]) ++ (List.replicate 31 0 ++ [1])) 10000) = (true, 10000) := by decide

/-- `precompile_alloc_bounded_by_gas` for ecrecover (1), sha256 (2), ripemd160 (3), identity (4) and the bn256 stand-ins (6–8):
    the bytes `Run` materialises are a constant (≤ 225, plus constant-size hash / curve scratch), the output is 32 bytes, empty,
    or the input slice itself, and the number of block steps is at most the gas RequiredGas charges — for every input. What
    grows with the input is only the input itself, which is not allocated by the precompile: at top level it is the caller's
    slice, inside the EVM it is `memory.Get(inOffset, inSize)` of the CALL step, paid for by that step's memory expansion
    (next theorem). -/
theorem precompile_alloc_bounded_by_gas (addr : Nat) (h1 : 1 ≤ addr) (h8 : addr ≤ 8) (h5 : addr ≠ 5) (input : Aqv.Bytes) :
    Pre.runBuffers addr input ≤ 225 ∧
    (∀ n, Pre.outLen addr input = some n → n ≤ max 32 input.length) ∧
    Pre.runSteps addr input ≤ Pre.requiredGas addr input :=
  ⟨Pre.runBuffers_const addr h5 input, fun n h => Pre.outLen_le addr h5 input n h, Pre.runSteps_le_gas addr h5 h1 h8 input⟩

example : Pre.runBuffers 1 [] = 225 ∧ Pre.requiredGas 2 (List.replicate 100 0) = 108 ∧ Pre.runSteps 2 (List.replicate 100 0) = 3 := by decide

/-- `precompile_input_paid_by_call_memory`: the dependency made explicit. At a CALL-family (or any) step that gets past `pre`,
    every memory range the execute function dereferences — for opCall/opCallCode/opDelegateCall/opStaticCall the generated
    ranges are exactly the callee's input (inOffset, inSize) and the return area (retOffset, retSize) — has its length within
    the frame's memory, and that memory's total fee 3w + w²/512 plus the gas left is at most the gas the frame was given
    (`memory_paid`): the input a precompile receives was paid for by the caller's memory expansion. -/
theorem precompile_input_paid_by_call_memory (env : Env) (i : StepIn W) (fr : Frame) (db : Db W) (t : Nat)
    (f : OpF) (g : GasOut) (memorySize : Nat) (db1 : Db W) (hfr : FrameInv fr) (hpre : pre env i fr db t = .go f g memorySize db1) :
    ∀ r ∈ f.execRanges, 0 < r.2.eval i.args →
      r.2.eval i.args ≤ (paidFrame fr f g memorySize).mem.len ∧ Spec.memoryPaid (eventOf fr i f g memorySize) = true := by
  intro r hr hpos
  have h := (no_modelled_panic_stack_memory env i fr db t f g memorySize db1 hpre).2.2.2 r hr hpos
  exact ⟨by omega, (paid_inv hfr hpre).2.1.1⟩

-- CALL with 0x20 bytes of input at 0x40 from a fresh frame holding 10000 gas: passes `pre`; input and return ranges generated
example : ∃ f g db1, pre envSpring (⟨0xf1, [100, 2, 0, 0x40, 0x20, 0, 0], 2, true, false, false, id, false, id, true, none, false, false, 0, id, id, id, false, id⟩ : StepIn Nat)
    ⟨10000, 7, ⟨0, 0⟩, 10000, 1, false⟩ db0 0 = .go f g 0x60 db1 ∧ f.execRanges = [(.back 3 0, .back 4 0), (.back 5 0, .back 6 0)] := by
  refine ⟨_, _, _, rfl, rfl⟩

/-! ### tie by translation (T-gen `translated`, DESIGN 2.2 mini-translator)

core/vm.toWordSize and core/vm.memoryGasCost are translated from the go/ssa form of the tree under test on every run
(`Aqv.Gen.Translated`, UInt64 with Go's wrap-around); the theorems state that the translated code refines the `Nat` model the
theorems above are stated on (proofs in `Aqv.Lemmas.Translated.VmNat`). -/

/-- core/vm.toWordSize: for every uint64 the code computes the model's `toWordSize`. -/
theorem toWordSize_code_is_model (size : UInt64) :
    (Aqv.Gen.Translated.toWordSize size).toNat = toWordSize size.toNat :=
  Aqv.Lemmas.Translated.toWordSize_translated_nat size

example : (Aqv.Gen.Translated.toWordSize 0xffffffffffffffff).toNat = toWordSize 0xffffffffffffffff := by decide

/-- core/vm.memoryGasCost (with `(*Memory).Len`; `mem.lastGasCost` threaded as an extra argument/result): the code computes
    the model's `memoryGasCost` for every request of at most 0x1fffffffe0 bytes (2^32 − 1 words: the range in which the Go
    code's `words * words` does not wrap; memory of that size costs more gas than any frame can hold). -/
theorem memoryGasCost_code_refines_model (storeLen : Int64) (hs : 0 ≤ storeLen.toInt) (lastGasCost newMemSize : UInt64)
    (hn : newMemSize.toNat ≤ 0x1fffffffe0) :
    Aqv.Lemmas.Translated.memResNat storeLen.toInt.toNat (Aqv.Gen.Translated.memoryGasCost storeLen lastGasCost newMemSize)
      = memoryGasCost ⟨storeLen.toInt.toNat, lastGasCost.toNat⟩ newMemSize.toNat :=
  Aqv.Lemmas.Translated.memoryGasCost_translated_nat storeLen hs lastGasCost newMemSize hn

example : Aqv.Lemmas.Translated.memResNat 0 (Aqv.Gen.Translated.memoryGasCost 0 0 64) = memoryGasCost ⟨0, 0⟩ 64 := by decide

/-- the bound is sharp: at 2^37 bytes the Go code's square wraps to 0 (it charges 3·2^32) while the unbounded `Nat` model
    charges 3·2^32 + 2^55 (recorded for C08 as evm-memgas-square-wraps-uint64; unreachable within any gas limit the model's
    theorems consider, since both amounts exceed 2^33). -/
theorem memoryGasCost_code_diverges_above_bound_witness :
    Aqv.Lemmas.Translated.memResNat 0 (Aqv.Gen.Translated.memoryGasCost 0 0 0x2000000000) = some (12884901888, ⟨0, 12884901888⟩) ∧
    memoryGasCost ⟨0, 0⟩ 0x2000000000 = some (36028809903865856, ⟨0, 36028809903865856⟩) :=
  Aqv.Lemmas.Translated.memoryGasCost_nat_model_diverges_witness

/-- tie by translation, precompiles: `RequiredGas` of the seven non-modexp precompiled contracts (ecrecover, sha256hash,
    ripemd160hash, dataCopy, fakebn256Add, fakebn256ScalarMul, fakebn256Pairing — translated from go/ssa on every run; the input
    slice is visible only through `len`) computes the model's `Pre.requiredGas addr input` (addresses 1–4, 6–8) for every input
    below 2^48 bytes; and gasBalance / gasExtCodeSize / gasSLoad return exactly the gas-table field of their name. -/
theorem precompile_requiredGas_code_is_model (input : Aqv.Bytes) (h : input.length < 2 ^ 48) :
    (Aqv.Gen.Translated.ecrecover_RequiredGas (input_len := Int64.ofNat input.length)).toNat = Pre.requiredGas 1 input ∧
    (Aqv.Gen.Translated.sha256hash_RequiredGas (input_len := Int64.ofNat input.length)).toNat = Pre.requiredGas 2 input ∧
    (Aqv.Gen.Translated.ripemd160hash_RequiredGas (input_len := Int64.ofNat input.length)).toNat = Pre.requiredGas 3 input ∧
    (Aqv.Gen.Translated.dataCopy_RequiredGas (input_len := Int64.ofNat input.length)).toNat = Pre.requiredGas 4 input ∧
    (Aqv.Gen.Translated.fakebn256Add_RequiredGas (input_len := Int64.ofNat input.length)).toNat = Pre.requiredGas 6 input ∧
    (Aqv.Gen.Translated.fakebn256ScalarMul_RequiredGas (input_len := Int64.ofNat input.length)).toNat = Pre.requiredGas 7 input ∧
    (Aqv.Gen.Translated.fakebn256Pairing_RequiredGas (input_len := Int64.ofNat input.length)).toNat = Pre.requiredGas 8 input :=
  Aqv.Lemmas.Translated.requiredGas_translated_eq input h

example : (Aqv.Gen.Translated.sha256hash_RequiredGas (input_len := 33)).toNat = Pre.requiredGas 2 (List.replicate 33 0) ∧
    Aqv.Gen.Translated.fakebn256Pairing_RequiredGas (input_len := 384) = 260000 := by decide

theorem gasTableReads_code_is_model (x ms : UInt64) :
    Aqv.Gen.Translated.gasBalance (gt_Balance := x) ms = (x, none) ∧
    Aqv.Gen.Translated.gasExtCodeSize (gt_ExtcodeSize := x) ms = (x, none) ∧
    Aqv.Gen.Translated.gasSLoad (gt_SLoad := x) ms = (x, none) :=
  Aqv.Lemmas.Translated.gasTableReads_translated_eq x ms

end Aqv.Props.C07

/-
  Property C03 — "The canonical index describes exactly the chain that ends at the head".

  Model: `Aqv.Model.Chain` (`BlockChain.insertChain2 / WriteBlockWithState / reorg / insert / SetHead / Stop`,
  `HeaderChain.WriteHeader / InsertHeaderChain / SetHead`), mirroring /repo at 3f14ce8.  `U` is the static universe of
  blocks (hash ↦ block, `World U`: valid blocks — positive difficulty, no transaction twice along one chain);
  `SpecInv s` is the property as stated (number index = ancestry of the head and nothing above it; header, body, receipts
  and td retrievable for every canonical block; a lookup resolves iff the transaction is in a canonical block, at that
  position; header/fast heads on the block head); `Inv U s` is the inductive invariant implying it (`spec_of_inv`).

  Scope of the theorems (all for arbitrary histories, unbounded):
    * full imports, reorganisations to longer or SHORTER heavier branches, re-deliveries, side-chain imports on a pruned
      node, Stop+reopen: unconditional (`inv_reachable_imports`);
    * rewinds: `SetHead(n)` for ANY n.  When the block it lands on still has its state (always on an archive node) the
      three heads stay equal and `SpecInv` holds (`inv_setHead`, `inv_reachable`).  Otherwise `SetHead` deliberately leaves
      the block head on a lower block with state, below the header head (the header-first situation of the statement):
      `GInv` is the invariant for that — index and lookups describe the chain of the HEADER head, block head and fast head
      are blocks of that chain — and it is kept by every operation (`ginv_setHead` without premise, `ginv_insertChain`,
      `ginv_reopen`, `ginv_reachable`); the statement read with the header head as the head (`SpecLag`) follows
      (`spec_lag_reachable`).  Before fix 3f14ce8 an import after such a rewind broke the property (former finding
      `sethead-stateless-leaves-index`; pre-fix variant: `setHead_stateless_witness`);
    * ONE chain fed through `InsertChain` and `InsertHeaderChain` in any order: the number index is exactly the ancestry of
      the header head after every mixed history (`inv_reachable_mixed`; before 3f14ce8 it was not — former finding
      `mixed-import-stale-numbers-above-head`, pre-fix variants: `mixed_*_witness`);
    * after a rewind has orphaned side-chain blocks, `reorg` may return "invalid new chain": `inv_reachable` /
      `ginv_reachable` cover the histories in which that error is not returned (`Admissible`), and it is proved impossible
      without a rewind;
    * no import ever reaches a nil dereference (`insertChain_never_panics`, `hinv_insertHeaderChain`): the two crashes
      found earlier are fixed in /repo (7235ac1, 2ee9efd) and the header-chain theorems need no side condition.
-/
import Aqv.Lemmas.ChainHist
import Aqv.Lemmas.ChainHdr
import Aqv.Lemmas.ChainMixedIdx
import Aqv.Lemmas.ChainLag
import Aqv.Lemmas.ChainCoins
namespace Aqv.Props.C03
open Aqv.Chain

variable {U : Map Blk}

/-! ### the theorems -/

/-- a fresh chain satisfies the invariant -/
theorem inv_init (g : Blk) (archive : Bool) (hgU : U g.id = some g) (hg0 : g.number = 0) (hgt : g.txs = []) :
    Inv U (init g archive) := ⟨g, [], invC_init g archive hgU hg0 hgt⟩

/-- `WriteBlockWithState` of a valid block whose parent is stored and has state: extension of the head, reorganisation
    (to a longer OR shorter heavier branch, either coin), or side block -/
theorem inv_insertBlock (W : World U) {s : St} (h : Inv U s) {b p : Blk} (hbU : U b.id = some b)
    (hpar : parentOf s.store b = some p) (hps : s.hasState b.parent = true) (coin : Bool)
    (hok : (writeBlockWithState s b coin).err ≠ some .reorgFail) : Inv U (writeBlockWithState s b coin).st :=
  inv_wbws W h hbU hpar hps coin hok

/-- `InsertChain` of any batch (known blocks, pruned ancestors, non-contiguous batches, errors included) -/
theorem inv_insertChain (W : World U) {s : St} (h : Inv U s) (chain : List Blk) (hU : ∀ b ∈ chain, U b.id = some b)
    (coins : List (List Bool)) (hok : (importChain s chain coins).1.err ≠ some .reorgFail) :
    Inv U (importChain s chain coins).1.st := inv_importChain W h chain hU coins hok

/-- `SetHead(n)` onto a block that still has its state -/
theorem inv_setHead (W : World U) {s : St} (h : Inv U s) (n : Nat)
    (hst : ∀ i, s.canon n = some i → s.hasState i = true) : Inv U (setHead s n).st := Aqv.Chain.inv_setHead W h n hst

/-- `Stop` + reopen -/
theorem inv_reopen (W : World U) {s : St} (h : Inv U s) : Inv U (reopen s) := Aqv.Chain.inv_reopen W h

/-- the invariant holds after every admissible history -/
theorem inv_reachable (W : World U) (ops : List Op) {s : St} (h : Inv U s) (hadm : Admissible U s ops) :
    Inv U (run s ops) := inv_run W ops h hadm

/-- the property as stated follows from the invariant -/
theorem spec_of_inv (W : World U) {s : St} (h : Inv U s) : SpecInv s := Aqv.Chain.spec_of_inv W h

/-- C03 after every admissible history from genesis -/
theorem spec_reachable (W : World U) (g : Blk) (archive : Bool) (hgU : U g.id = some g) (hg0 : g.number = 0)
    (hgt : g.txs = []) (ops : List Op) (hadm : Admissible U (init g archive) ops) :
    SpecInv (run (init g archive) ops) :=
  spec_of_inv W (inv_reachable W ops (inv_init g archive hgU hg0 hgt) hadm)

/-- C03 after every history of imports (any tree, order, batching, coin resolution) and restarts -/
theorem inv_reachable_imports (W : World U) (g : Blk) (archive : Bool) (hgU : U g.id = some g) (hg0 : g.number = 0)
    (hgt : g.txs = []) (ops : List Op)
    (hops : ∀ op ∈ ops, match op with
      | .insert chain _ => ∀ b ∈ chain, U b.id = some b
      | .setHead _ => False
      | .reopen => True) :
    SpecInv (run (init g archive) ops) := by
  have hG := good_init (U := U) g archive hgU hg0 hgt
  have := imports_admissible W ops hG (fun op hop => by
    have := hops op hop
    cases op with
    | insert chain coins => exact ⟨trivial, this⟩
    | setHead n => exact this.elim
    | reopen => exact ⟨trivial, trivial⟩)
  exact spec_of_inv W this.2.1

/-! ### the block head may lag behind the header head (`SetHead` onto a block whose state is gone) -/

/-- the invariant with all heads equal is the special case -/
theorem ginv_of_inv (W : World U) {s : St} (h : Inv U s) : GInv U s := inv_toG W h

/-- `InsertChain` of any batch in a state in which the block head lags: since 3f14ce8 `insert` deletes the entries above
    the block it makes the head, re-points stale ones below and drops the lookups into the blocks it displaces -/
theorem ginv_insertChain (W : World U) {s : St} (h : GInv U s) (chain : List Blk) (hU : ∀ b ∈ chain, U b.id = some b)
    (coins : List (List Bool)) (hok : (importChain s chain coins).1.err ≠ some .reorgFail) :
    GInv U (importChain s chain coins).1.st := Aqv.Chain.ginv_importChain W h chain hU coins hok

/-- `SetHead(n)` for any `n`, also onto a block whose state is gone -/
theorem ginv_setHead (W : World U) {s : St} (h : GInv U s) (n : Nat) : GInv U (setHead s n).st :=
  Aqv.Chain.ginv_setHead W h n

theorem ginv_reopen (W : World U) {s : St} (h : GInv U s) : GInv U (reopen s) := Aqv.Chain.ginv_reopen W h

/-- after every history of imports, restarts and rewinds to ANY height -/
theorem ginv_reachable (W : World U) (ops : List Op) {s : St} (h : GInv U s) (hadm : AdmissibleG U s ops) :
    GInv U (run s ops) := ginv_run W ops h hadm

/-- the statement, read with the header head as the head, follows -/
theorem spec_lag_of_ginv (W : World U) {s : St} (h : GInv U s) : SpecLag s := spec_of_ginv W h

/-- C03 (header head as the head) after every admissible history from genesis, rewinds to any height included -/
theorem spec_lag_reachable (W : World U) (g : Blk) (archive : Bool) (hgU : U g.id = some g) (hg0 : g.number = 0)
    (hgt : g.txs = []) (ops : List Op) (hadm : AdmissibleG U (init g archive) ops) :
    SpecLag (run (init g archive) ops) :=
  spec_of_ginv W (ginv_run W ops (inv_toG W (inv_init g archive hgU hg0 hgt)) hadm)

/-- with the three heads equal `SpecLag` is the property as stated -/
theorem spec_of_spec_lag {s : St} (h : SpecLag s) (h1 : s.hhead = s.head) (h2 : s.fhead = s.head) : SpecInv s :=
  specInv_of_specLag h h1 h2

/-! ### queries are pure

The accessors (`GetBlockByHash`, `GetHeaderByHash`, `GetBody`, `GetTdByHash`, `HasBlock`, `HasHeader`, …) are functions of the
database in the model: asking for a block is not a step.  Stated explicitly for histories with queries interleaved, because
the Go accessors go through caches (`HeaderChain.numberCache`): the harness asks by hash for nodes BEFORE they are imported and
requires the same answers as the model, i.e. as if it had never asked. -/

/-- an operation, or a by-hash query for the block with hash `k` -/
inductive QOp
  | op (o : Op)
  | query (k : Nat)

/-- what the by-hash accessors return for the hash `k`: header and body, total difficulty, receipts -/
def answer (s : St) (k : Nat) : Option Blk × Option Nat × Bool := (s.store k, s.td k, s.receipts k)

def qstep (s : St) : QOp → St
  | .op o => (step s o).st
  | .query _ => s

def qrun (s : St) : List QOp → St
  | [] => s
  | o :: os => qrun (qstep s o) os

def eraseQueries : List QOp → List Op
  | [] => []
  | .op o :: os => o :: eraseQueries os
  | .query _ :: os => eraseQueries os

/-- a query leaves the database (hence every later answer and every later import) unchanged -/
theorem query_pure (s : St) (k : Nat) : qstep s (.query k) = s := rfl

/-- the database after a history with queries is the database after the history without them: what an accessor returns
    after an import does not depend on what was asked before -/
theorem queries_erase : ∀ (ops : List QOp) (s : St), qrun s ops = run s (eraseQueries ops) := by
  intro ops
  induction ops with
  | nil => intro s; rfl
  | cons o os ih =>
    intro s
    cases o with
    | op o => exact ih _
    | query k => exact ih _

theorem answers_independent_of_queries (ops : List QOp) (s : St) (k : Nat) :
    answer (qrun s ops) k = answer (run s (eraseQueries ops)) k := by rw [queries_erase]

/-! ### non-vacuity: a concrete tree with a longer-lighter and a shorter-heavier branch, the same transaction on both -/

def g : Blk := ⟨0, 0, 0, 100, []⟩
def a1 : Blk := ⟨1, 0, 1, 10, [1]⟩
def a2 : Blk := ⟨2, 1, 2, 10, [2]⟩
def a3 : Blk := ⟨3, 2, 3, 10, [3]⟩
def a4 : Blk := ⟨6, 3, 4, 10, []⟩
def b1 : Blk := ⟨4, 0, 1, 20, [1]⟩      -- sibling of a1 carrying the same transaction 1
def b2 : Blk := ⟨5, 4, 2, 20, [4]⟩      -- total difficulty 140 > 130 of a3: shorter but heavier
def c1 : Blk := ⟨7, 0, 1, 15, []⟩
def blocks : List Blk := [g, a1, a2, a3, b1, b2, a4, c1]
def U0 : Map Blk := mapOf blocks

theorem world0 : World U0 := world_of_check (by decide)

def history : List Op := [.insert [a1, a2, a3] [], .insert [b1] [], .insert [b2] [], .setHead 1, .insert [b2] []]

example : Admissible U0 (init g true) history := by decide

/-- the hypotheses of `spec_reachable` are satisfiable on a history with a reorganisation to a shorter heavier branch,
    a rewind and a re-import; the final head is the heavier block b2 -/
example : SpecInv (run (init g true) history) ∧ (run (init g true) history).head = 5 :=
  ⟨spec_reachable world0 g true (by decide) rfl rfl history (by decide), by decide⟩

/-- after the reorganisation to the SHORTER branch nothing is indexed at the old height 3, transaction 1 points into the
    new branch and the transactions of the dropped branch no longer resolve -/
example :
    let s := run (init g true) [.insert [a1, a2, a3] [], .insert [b1] [], .insert [b2] []]
    s.head = 5 ∧ s.canon 3 = none ∧ s.lookup 1 = some ⟨4, 1, 0⟩ ∧ s.lookup 2 = none ∧ s.lookup 3 = none := by decide

/-! ### witnesses: what the fixes changed (pre-fix variants of `insert` / `reorg` next to the model) -/

/-- `BlockChain.insert` BEFORE 3f14ce8: the number entry and the head markers are written; nothing is deleted, nothing is
    re-pointed, no lookup is dropped -/
def insertHeadPre (s : St) (b : Blk) : St :=
  let moves := s.canon b.number != some b.id
  { s with
    canon := upd s.canon b.number (some b.id)
    head := b.id
    hhead := if moves then b.id else s.hhead
    fhead := if moves then b.id else s.fhead }

/-- Why 4152cc7 and then 3f14ce8 were needed: with an `insert` that only writes, re-inserting the shorter heavier branch
    [b2, b1] over the chain a1–a2–a3 leaves the head on b2 (height 2) while height 3 still maps to a3.  4152cc7 added a
    deletion loop to `reorg`; since 3f14ce8 `insert` itself deletes the entries above (and the loop in `reorg` is gone). -/
theorem reinsert_leaves_stale_entry_witness :
    let s := run (init g true) [.insert [a1, a2, a3] [], .insert [b1] []]
    let pre := [b2, b1].foldr (fun x st => insertHeadPre st x) s
    let now := [b2, b1].foldr reorgStep s
    (pre.head = 5 ∧ pre.canon 2 = some 5 ∧ pre.canon 3 = some 3) ∧
    (now.head = 5 ∧ now.canon 1 = some 4 ∧ now.canon 2 = some 5 ∧ now.canon 3 = none) := by
  decide

/-- Former finding `sethead-stateless-leaves-index`, fixed by 3f14ce8.  On a pruning node that was restarted, `SetHead(2)`
    lands on a block whose state is gone; the block head falls back to genesis while the header head, the number index
    and the lookups stay at height 2 (by design: `GInv`).  Importing the sibling c1 then moves every head to c1
    (height 1): the old `insert` left height 2 mapped to a2 and the lookups of a1, a2 resolvable; now height 2 is
    unmapped and those lookups are gone. -/
theorem setHead_stateless_witness :
    let s := run (init g false) [.insert [a1, a2, a3, a4] [], .reopen, .setHead 2]
    let pre := insertHeadPre s c1
    let now := run s [.insert [c1] []]
    (s.head = 0 ∧ s.hhead = 2 ∧ s.canon 2 = some 2 ∧ s.lookup 2 = some ⟨2, 2, 0⟩) ∧
    (pre.head = 7 ∧ pre.hhead = 7 ∧ pre.canon 1 = some 7 ∧ pre.canon 2 = some 2 ∧ pre.lookup 1 = some ⟨1, 1, 0⟩) ∧
    (now.head = 7 ∧ now.hhead = 7 ∧ now.fhead = 7 ∧ now.canon 1 = some 7 ∧ now.canon 2 = none ∧ now.lookup 1 = none ∧
      now.lookup 2 = none) := by
  decide

/-- the same history is covered by the theorems: rewind onto the stateless block, import of the sibling, re-import of the
    old branch -/
example :
    let ops : List Op := [.insert [a1, a2, a3, a4] [], .reopen, .setHead 2, .insert [c1] [], .insert [a1, a2] []]
    AdmissibleG U0 (init g false) ops ∧ SpecLag (run (init g false) ops) :=
  ⟨by decide, spec_lag_reachable world0 g false (by decide) rfl rfl _ (by decide)⟩

/-- `InsertChain` never reaches a nil dereference, whatever rewinds left behind (fix 7235ac1) -/
theorem insertChain_never_panics (W : World U) {s : St} (h : Inv U s) (chain : List Blk)
    (hU : ∀ b ∈ chain, U b.id = some b) (coins : List (List Bool)) :
    (importChain s chain coins).1.err ≠ some .modelPanic := importChain_no_panic W h chain hU coins

/-- Formerly finding `insertchain-pruned-orphan-nil-deref`, fixed by 7235ac1: after a restart and a rewind that removed
    the lower part of a stored side chain, importing a child of that side chain used to walk into the missing ancestor
    (`parent.Root()` on nil).  Now the import is refused with ErrUnknownAncestor and nothing changes. -/
theorem import_orphan_refused_witness :
    let o1 : Blk := ⟨8, 1, 2, 5, []⟩       -- side chain o1–o2 on top of a1, lighter than a1–a2–a3
    let o2 : Blk := ⟨9, 8, 3, 5, []⟩
    let o3 : Blk := ⟨10, 9, 4, 5, []⟩
    let s := run (init g false) [.insert [a1, a2, a3] [], .insert [o1, o2] [], .reopen, .setHead 0]
    -- the rewind removed a1..a3; o1, o2 stay behind without state and without their ancestor a1
    let r := importOne s o3 []
    s.head = 0 ∧ (s.store 8).isSome = true ∧ s.store 1 = none ∧
      r.err = some .unknownAncestor ∧ r.st.head = 0 ∧ r.st.canon 1 = none ∧ r.st.store 10 = none ∧ r.st.td 10 = none := by
  decide

/-! ### header-first imports (`InsertHeaderChain` / `SetHead` on a chain without blocks) -/

theorem hinv_init (g : Blk) (hgU : U g.id = some g) (hg0 : g.number = 0) : HInv U (hinit g) :=
  ⟨g, [], hinvC_init g hgU hg0⟩

/-- `HeaderChain.WriteHeader`: deletion of the numbers above, the backwards loop over stale assignments, either coin -/
theorem hinv_writeHeader (W : World U) {s : HSt} (h : HInv U s) {hd p : Blk} (hU : U hd.id = some hd)
    (hpar : parentOf s.store hd = some p) (coin : Bool) :
    HInv U (writeHeader s hd coin).st ∧ (writeHeader s hd coin).err ≠ some .modelPanic :=
  ⟨(Aqv.Chain.hinv_writeHeader W h hU hpar coin).1, (Aqv.Chain.hinv_writeHeader W h hU hpar coin).2.1⟩

/-- a refused header (fix 2ee9efd: hole in its stored ancestry) leaves the number index and the header head untouched -/
theorem writeHeader_refusal_keeps_index (W : World U) {s : HSt} (h : HInv U s) {hd p : Blk} (hU : U hd.id = some hd)
    (hpar : parentOf s.store hd = some p) (coin : Bool) (herr : (writeHeader s hd coin).err ≠ none) :
    (writeHeader s hd coin).st.canon = s.canon ∧ (writeHeader s hd coin).st.hhead = s.hhead :=
  writeHeader_refusal W h hU hpar coin herr

/-- `InsertHeaderChain` of any batch: invariant kept, never a crash -/
theorem hinv_insertHeaderChain (W : World U) {s : HSt} (h : HInv U s) (chain : List Blk)
    (hU : ∀ x ∈ chain, U x.id = some x) (coins : List Bool) :
    HInv U (hImportChain s chain coins).1.st ∧ (hImportChain s chain coins).1.err ≠ some .modelPanic :=
  ⟨(hstep_importChain W h chain hU coins).inv, (hstep_importChain W h chain hU coins).noPanic⟩

theorem hinv_setHead (W : World U) {s : HSt} (h : HInv U s) (n : Nat) : HInv U (hSetHead s n).st :=
  Aqv.Chain.hinv_setHead W h n

/-- the number index describes exactly the chain of the header head after every admissible header history -/
theorem hspec_reachable (W : World U) (g : Blk) (hgU : U g.id = some g) (hg0 : g.number = 0) (ops : List HOp)
    (hadm : HAdmissible U (hinit g) ops) : HSpecInv (hrun (hinit g) ops) :=
  hspec_of_inv W (hinv_run W ops (hinv_init g hgU hg0) hadm)

example : HAdmissible U0 (hinit g) [.insert [a1, a2, a3] [], .insert [b1, b2] [], .setHead 1, .insert [b2] []] := by
  decide

/-- header-first: the shorter heavier branch takes over, height 3 is unmapped; rewind and re-import -/
example :
    let s := hrun (hinit g) [.insert [a1, a2, a3] [], .insert [b1, b2] []]
    s.hhead = 5 ∧ s.canon 1 = some 4 ∧ s.canon 2 = some 5 ∧ s.canon 3 = none := by decide

/-- Formerly finding `writeheader-orphan-nil-deref`, fixed by 2ee9efd: after `SetHead(0)` the side headers o1, o2 stay
    behind without their ancestor a1; writing the header o3 on top of them used to crash after rewriting part of the
    number index.  Now it is refused with ErrUnknownAncestor: the header and its td are stored, the index and the
    header head are untouched. -/
theorem writeHeader_orphan_refused_witness :
    let o1 : Blk := ⟨8, 1, 2, 5, []⟩
    let o2 : Blk := ⟨9, 8, 3, 5, []⟩
    let o3 : Blk := ⟨10, 9, 4, 5, []⟩
    let s := hrun (hinit g) [.insert [a1, a2, a3] [], .insert [o1, o2] [], .setHead 0]
    let r := (hImportChain s [o3] []).1
    s.hhead = 0 ∧ s.store 1 = none ∧ r.err = some .unknownAncestor ∧ (r.st.store 10).isSome = true ∧
      r.st.canon 1 = none ∧ r.st.canon 2 = none ∧ r.st.canon 3 = none ∧ r.st.canon 4 = none ∧ r.st.hhead = 0 := by
  decide

/-! ### mixed histories: `InsertChain` and `InsertHeaderChain` on ONE chain

Model: `XSt` (`Aqv.Model.ChainMixed`): the full-import database plus the header store; a block batch runs the full-import
model, a header batch the header-chain model, over the shared td records / number index / head header.  The index clauses of
C03 are read with the header head as "the head" (`HSpecInv` of the projection `toH`).

Before 3f14ce8 the property FAILED in mixed histories (former finding `mixed-import-stale-numbers-above-head`, reproduced on
the real code; exhaustive small-scope evidence in `.work/patches/C03-insert-clears-numbers-above.evidence.txt`):
`BlockChain.insert` re-pointed the heads to a block without deleting the number entries above it or re-pointing those below
it, and `reorg`'s clean-up loop deleted entries of a header chain that was ahead.  With the fix the full statement holds. -/

/-- every mixed history — block batches and header batches of any forks, lighter, equal or heavier, in any order, any
    coin: the number index is exactly the ancestry of the header head, nothing is indexed above it, and every indexed
    header has its td -/
theorem inv_reachable_mixed (W : World U) (g : Blk) (hgU : U g.id = some g) (hg0 : g.number = 0)
    (ops : List MOp) (hops : ∀ op ∈ ops, MOpOk U op) : HSpecInv (toH (xrun (xinit g) ops)) :=
  hspec_of_inv W (mixInv_run W ops (mixInv_init g hgU hg0) hops).hinv

/-- no block batch of a mixed history fails with "invalid new chain" or reaches a nil dereference, and no header batch
    reaches a nil dereference -/
theorem mixed_never_fails (W : World U) {x : XSt} (h : MixInv U x) (chain : List Blk)
    (hU : ∀ b ∈ chain, U b.id = some b) :
    (∀ coins, (xImportChain x chain coins).2.1 ≠ some .reorgFail ∧ (xImportChain x chain coins).2.1 ≠ some .modelPanic) ∧
    (∀ coins, (xImportHeaders x chain coins).2.1 ≠ some .modelPanic) := by
  constructor
  · intro coins
    have h1 := stable_importChain W (mixP_stable W x.hdrs) (mixP_raiseTop h chain) chain hU coins
    exact ⟨h1.2.1 trivial, h1.2.2⟩
  · intro coins
    exact (hstep_importChain W h.hinv chain hU coins).noPanic

example : ∀ op ∈ ([.headers [a1, a2] [], .blocks [b1] [], .blocks [a1, a2, a3] [], .headers [b1, b2] []] : List MOp),
    MOpOk U0 op := by decide

/-- (a1) entries ABOVE the head header: headers a1–a2, then the block b1 (sibling of a1): every head moves to b1
    (height 1) — a block import forces the heads onto its branch.  The old `insert` left height 2 mapped to a2; now the
    entry is deleted. -/
theorem mixed_stale_number_above_witness :
    let x0 := xrun (xinit g) [.headers [a1, a2] []]
    let pre := insertHeadPre x0.full b1
    let x := xrun (xinit g) [.headers [a1, a2] [], .blocks [b1] []]
    (pre.hhead = 4 ∧ pre.canon 1 = some 4 ∧ pre.canon 2 = some 2) ∧
    (x.full.head = 4 ∧ x.full.hhead = 4 ∧ x.full.canon 1 = some 4 ∧ x.full.canon 2 = none) := by
  decide

/-- (a2) a stale entry BELOW the head header: block a1, headers b1–b2 (heavier: the index follows them), then blocks a1–a2:
    a2 extends the block head without a reorganisation and `insert` moves the head header to a2.  The old `insert` wrote
    height 2 only, height 1 still mapped to b1; now height 1 is re-pointed to a1. -/
theorem mixed_stale_number_below_witness :
    let x1 := xrun (xinit g) [.blocks [a1] [], .headers [b1, b2] []]
    let pre := insertHeadPre x1.full a2
    let x := xrun (xinit g) [.blocks [a1] [], .headers [b1, b2] [], .blocks [a1, a2] []]
    (x1.full.hhead = 5 ∧ x1.full.canon 1 = some 4) ∧
    (pre.hhead = 2 ∧ pre.canon 2 = some 2 ∧ pre.canon 1 = some 4) ∧
    (x.full.head = 2 ∧ x.full.hhead = 2 ∧ x.full.canon 2 = some 2 ∧ x.full.canon 1 = some 1 ∧ x.full.canon 3 = none) := by
  decide

/-- (a3) entries of the header chain ahead: block a1, headers b1–b2–x3 (heavier, ahead), then the block b1 (td 120, beats
    a1 with td 110): `reorg` re-inserts b1 — already indexed at height 1, so the head header stays on x3.  The clean-up
    loop that `reorg` had before 3f14ce8 deleted heights 2 and 3, which belong to the header chain; now nothing above an
    already indexed block is touched. -/
theorem mixed_header_entries_deleted_witness :
    let x3 : Blk := ⟨20, 5, 3, 20, []⟩
    let x2 := xrun (xinit g) [.blocks [a1] [], .headers [b1, b2, x3] []]
    let x := xrun (xinit g) [.blocks [a1] [], .headers [b1, b2, x3] [], .blocks [b1] []]
    (x2.full.hhead = 20 ∧ x2.full.canon 1 = some 4 ∧
      delCanonAbove x2.full.canon 4 2 2 = none ∧ delCanonAbove x2.full.canon 4 2 3 = none) ∧
    (x.full.head = 4 ∧ x.full.hhead = 20 ∧ x.full.canon 1 = some 4 ∧ x.full.canon 2 = some 5 ∧
      x.full.canon 3 = some 20) := by
  decide

/-! ### the coin resolutions followed by the replay driver

`mrand.Float64() < 0.5` is the only nondeterminism of an import.  The driver (`Aqv.Model.ChainReplay`) follows coin vectors
per `importOne` (one coin per `WriteBlockWithState` call: the re-imported stateless ancestors, then the block itself) and per
header batch.  These theorems say which resolutions it covers and why that suffices; when an observed outcome is produced only
by a resolution outside the enumeration the driver reports `too-many-ties` instead of a model disagreement. -/

/-- every resolution with at most 3 coins `true` is followed, and every resolution whatsoever up to 6 calls (8 headers) -/
theorem coin_enumeration_complete (n : Nat) (v : List Bool) (hv : v.length = n) :
    ((n ≤ 6 ∨ v.count true ≤ 3) → v ∈ Aqv.ChainReplay.coinVecs n) ∧
    ((n ≤ 8 ∨ v.count true ≤ 3) → v ∈ Aqv.ChainReplay.hdrCoinVecs n) :=
  ⟨coinVecs_complete n v hv, hdrCoinVecs_complete n v hv⟩

/-- `WriteBlockWithState` reads its coin only at an exact total-difficulty tie with the head at equal height: resolutions
    that differ at other calls give the same database, so only the coins at ties have to be enumerated -/
theorem coin_only_read_at_tie (s : St) (b : Blk) (h : ¬ tieAt s b) (c c' : Bool) :
    writeBlockWithState s b c = writeBlockWithState s b c' := wbws_coin_irrelevant s b h c c'

theorem header_coin_only_read_at_tie (s : HSt) (hd : Blk)
    (hne : ∀ ptd lt, s.td hd.parent = some ptd → s.td s.hhead = some lt → ptd + hd.diff ≠ lt) (c c' : Bool) :
    writeHeader s hd c = writeHeader s hd c' := writeHeader_coin_irrelevant s hd hne c c'

/-- the resolution the driver missed before (false alarm of the thorough tier): six re-imported ancestors, then the block
    itself wins its tie — the SEVENTH coin -/
example : [false, false, false, false, false, false, true] ∈ Aqv.ChainReplay.coinVecs 7 := by decide

/-- non-vacuity: at a tie the coin does decide (t1 is a twin of a1: same parent, height and difficulty) … -/
example :
    let t1 : Blk := ⟨30, 0, 1, 10, []⟩
    let s := run (init g true) [.insert [a1] []]
    (writeBlockWithState s t1 true).st.head = 30 ∧ (writeBlockWithState s t1 false).st.head = 1 := by decide

/-- … and away from one it does not (c1 is heavier than a1) -/
example :
    let s := run (init g true) [.insert [a1] []]
    (writeBlockWithState s c1 true).st.head = 7 ∧ (writeBlockWithState s c1 false).st.head = 7 := by decide

end Aqv.Props.C03

/-
  C12 — A transaction is bound to its signer and to its chain.  Property theorems only.
  Model: Aqv.Model.TxSign (core/types/transaction_signing.go, transaction.go, gen_tx_json.go, crypto.ValidateSignatureValues).
  Keccak-256 (`H`) and ECDSA over secp256k1 (`Ecdsa`: sign / recover / addr) are parameters; every theorem holds for all
  instantiations, cryptographic facts appear as explicit hypotheses (`Ecdsa.SignOK`: Ecrecover inverts crypto.Sign and
  crypto.Sign returns canonical values; `Ecdsa.Symmetric`: the (s, v) <-> (N-s, 1-v) symmetry of ECDSA).

  Clause map
    "signed with a key => attributed to exactly that key's address"       sign_then_sender (all signer kinds, every chain id != 0,
                                                                           no bound on the size of V), sign_chain0_uses_frontier_hash
    "changing any signed field ... changes what was signed"               sighash_injective (+ unforgeable_partial: the rest is a
                                                                           reduction to an ECDSA forgery / Keccak collision)
    "replay-protected tx attributed only under its own chain id"          eip155_rejects_foreign_chain, eip155_sender_only_own_chain
    "out-of-range signatures are rejected"                                sender_only_if_valid_vrs
    "malleable (high-S) signatures are rejected"                          homestead_rejects_high_s (Homestead signer and unprotected
                                                                           txs under the EIP-155 signer); FALSE for protected txs under
                                                                           the EIP-155 signer: eip155_high_s_malleable,
                                                                           eip155_accepts_high_s_witness (known finding)
    "cached sender queried under a different signer"                      cache_transparent, senderCached_sound, withSignature_clears_caches,
                                                                           object_lifetime_transparent (hash / size / sender caches of one
                                                                           object across re-signing)
    "hash and sender survive RLP and JSON re-encoding"                    hash_sender_stable_under_reencoding, rlp_decode_canonical,
                                                                           json_roundtrip, json_accepts_sender_ok
    MakeSigner by height                                                   makeSigner_spec
    "rejected by Homestead-and-later rules" at ApplyTransaction acceptance makeSigner_from_homestead, highS_rejected_from_homestead,
                                                                           applySeq_history_free (the signer of a call, hence the
                                                                           high-S verdict, depends on (config, height) only — not on
                                                                           the calls processed before)
-/
import Aqv.Lemmas.TxSign
import Aqv.Model.TxApply
import Aqv.Props.C11
import Aqv.Lemmas.Translated.TxSign
namespace Aqv.Props.C12
open Aqv Aqv.Rlp Aqv.TxSign

/-! ## 1. what is signed determines every signed field and the chain id -/

/-- The signed byte string (RLP of nonce, price, gas, to, value, data [, chainId, 0, 0]) determines nonce, gas price, gas limit,
    recipient, value, data and the chain id (and whether there is one): two transactions / signers with the same signed bytes
    agree on all of them.  Corollary of C11 `enc_injective`. -/
theorem sighash_injective (sg sg' : Signer) (a b : Signed) (ha : a.WF) (hb : b.WF)
    (hsa : (sg.payload a).sizeOk = true) (hsb : (sg'.payload b).sizeOk = true)
    (h : enc (sg.payload a) = enc (sg'.payload b)) : a = b ∧ Signer.domain sg = Signer.domain sg' := by
  have hp := C11.enc_injective _ _ hsa hsb h
  have key : ∀ (x y : Signed) (c : Nat), baseFields x ≠ baseFields y ++ [.str (beBytes c), .str [], .str []] := by
    intro x y c hxy
    have := congrArg List.length hxy
    simp [baseFields] at this
  cases sg <;> cases sg' <;> simp only [Signer.payload, payloadFrontier, payload155, Item.list.injEq] at hp
  · exact ⟨baseFields_inj ha hb hp, rfl⟩
  · exact ⟨baseFields_inj ha hb hp, rfl⟩
  · exact absurd hp (key _ _ _)
  · exact ⟨baseFields_inj ha hb hp, rfl⟩
  · exact ⟨baseFields_inj ha hb hp, rfl⟩
  · exact absurd hp (key _ _ _)
  · exact absurd hp.symm (key _ _ _)
  · exact absurd hp.symm (key _ _ _)
  · rename_i c c'
    have hl : (baseFields a).length = (baseFields b).length := by simp [baseFields]
    have h1 := List.append_inj_left hp hl
    have h2 := List.append_inj_right hp hl
    simp only [List.cons.injEq, Item.str.injEq, and_true] at h2
    exact ⟨baseFields_inj ha hb h1, by rw [Signer.domain, Signer.domain, beBytes_inj h2]⟩

/-! ## 2. sign, then recover -/

/-- For every key, every transaction content, every signer kind and EVERY chain id other than 0 (no size bound: V may exceed
    8, 64 or 256 bits): `SignTx` succeeds, leaves the signed fields untouched, and `Sender` under the same signer returns
    exactly the key's address. -/
theorem sign_then_sender (E : Ecdsa) (hE : E.SignOK) (H : Bytes → Bytes) (sg : Signer) (hsg : sg ≠ .eip155 0) (t : Tx) (k : Nat) :
    ∃ t', signTx E H sg t k = .ok t' ∧ t'.signed = t.signed ∧ senderOf E H sg t' = .ok (E.addr k) := by
  obtain ⟨hr1, hr2⟩ := hE.r_range k (sigHash H sg t)
  obtain ⟨hs1, hs2⟩ := hE.s_range k (sigHash H sg t)
  have hv := hE.v_range k (sigHash H sg t)
  have hrec := hE.recover_sign k (sigHash H sg t)
  have hlt := halfN_lt
  have hval : ∀ hs, validateSignatureValues (E.sign k (sigHash H sg t)).2.2 (E.sign k (sigHash H sg t)).1
      (E.sign k (sigHash H sg t)).2.1 hs = true := by
    intro hs
    rw [validate_iff]
    exact ⟨hv, hr1, hr2, hs1, by omega, fun _ => hs2⟩
  have main : senderOf E H sg (withSignature sg t (E.sign k (sigHash H sg t)).1 (E.sign k (sigHash H sg t)).2.1
      (E.sign k (sigHash H sg t)).2.2) = .ok (E.addr k) := by
    generalize hrid : (E.sign k (sigHash H sg t)).2.2 = rid at *
    generalize hrr : (E.sign k (sigHash H sg t)).1 = r at *
    generalize hss : (E.sign k (sigHash H sg t)).2.1 = s at *
    cases sg with
    | frontier =>
      simp only [withSignature, signatureValues, senderOf]
      have e : (rid + 27) % 256 = rid + 27 := by omega
      rw [e]
      exact recoverPlain_of (by simp) hv (hval false) hrec
    | homestead =>
      simp only [withSignature, signatureValues, senderOf]
      have e : (rid + 27) % 256 = rid + 27 := by omega
      rw [e]
      exact recoverPlain_of (by simp) hv (hval true) hrec
    | eip155 c =>
      have hc : c ≠ 0 := by intro h0; subst h0; exact hsg rfl
      simp only [withSignature, signatureValues, senderOf, hc, ne_eq, not_false_eq_true, if_true]
      have e : (rid + 35) % 256 = rid + 35 := by omega
      rw [e]
      have hp : isProtectedV (rid + 35 + 2 * c) = true := by
        unfold isProtectedV
        split
        · simp only [Bool.and_eq_true, bne_iff_ne, ne_eq]; omega
        · rfl
      have hd : deriveChainId (rid + 35 + 2 * c) = c := by
        unfold deriveChainId
        split
        · rw [if_neg (by omega)]; omega
        · omega
      simp only [hp, Bool.not_true, Bool.false_eq_true, if_false, hd, not_true_eq_false]
      exact recoverPlain_of (by push_cast; omega) hv (hval false) hrec
  refine ⟨_, ?_, ?_, main⟩
  · unfold signTx
    simp only [main]
    simp
  · cases sg <;> simp [withSignature, signatureValues, Tx.signed] <;> split <;> rfl

/-- Chain id 0 is the exception: `SignatureValues` then writes a Homestead `V` (27/28), so `Sender` recovers over the
    6-field Frontier payload although the signature was made over the 9-field EIP-155 payload; unless that happens to
    recover the same address, `SignTx` reports a sender mismatch.  (No misattribution: an error.) -/
theorem sign_chain0_uses_frontier_hash (E : Ecdsa) (H : Bytes → Bytes) (t : Tx) (r s rid : Nat) (hrid : rid ≤ 1) :
    senderOf E H (.eip155 0) (withSignature (.eip155 0) t r s rid) =
      recoverPlain E (sigHash H .homestead (withSignature (.eip155 0) t r s rid)) r s ((rid : Int) + 27) true := by
  have e : (rid + 27) % 256 = rid + 27 := by omega
  have hp : isProtectedV (rid + 27) = false := by
    unfold isProtectedV
    have : rid = 0 ∨ rid = 1 := by omega
    rcases this with h | h <;> subst h <;> rfl
  simp only [withSignature, signatureValues, senderOf, ne_eq, not_true_eq_false, if_false, e, hp, Bool.not_false, if_true]
  rfl

/-! ## 3. replay protection -/

/-- A protected transaction of chain `c` (V = 35 + 2c + recovery id) is rejected with ErrInvalidChainId by the EIP-155 signer
    of every other chain, and with ErrInvalidSig by the Homestead and Frontier signers — for every chain id, whatever R, S. -/
theorem eip155_rejects_foreign_chain (E : Ecdsa) (H : Bytes → Bytes) (t : Tx) (c c' rid : Nat) (hrid : rid ≤ 1)
    (hv : t.v = rid + 35 + 2 * c) (hne : c' ≠ c) :
    senderOf E H (.eip155 c') t = .error .invalidChainId ∧
    senderOf E H .homestead t = .error .invalidSig ∧ senderOf E H .frontier t = .error .invalidSig := by
  have hp : isProtectedV t.v = true := by
    rw [hv]; unfold isProtectedV
    split
    · simp only [Bool.and_eq_true, bne_iff_ne, ne_eq]; omega
    · rfl
  have hd : deriveChainId t.v = c := by
    rw [hv]; unfold deriveChainId
    split
    · rw [if_neg (by omega)]; omega
    · omega
  have plain : ∀ h hs, recoverPlain E h t.r t.s (t.v : Int) hs = .error .invalidSig := by
    intro h hs
    exact recoverPlain_nat_invalid (Or.inl (by omega))
  refine ⟨?_, ?_, ?_⟩
  · simp only [senderOf, hp, Bool.not_true, Bool.false_eq_true, if_false, hd]
    rw [if_pos (fun h => hne h.symm)]
  · simp only [senderOf]; exact plain _ _
  · simp only [senderOf]; exact plain _ _

/-- Conversely, whenever the EIP-155 signer of chain `c` attributes a protected transaction to anybody, the transaction's own
    chain id (derived from V) is `c`. -/
theorem eip155_sender_only_own_chain (E : Ecdsa) (H : Bytes → Bytes) (t : Tx) (c : Nat) (a : Bytes)
    (hp : isProtectedV t.v = true) (h : senderOf E H (.eip155 c) t = .ok a) : deriveChainId t.v = c := by
  simp only [senderOf, hp, Bool.not_true, Bool.false_eq_true, if_false] at h
  by_cases hd : deriveChainId t.v = c
  · exact hd
  · rw [if_pos hd] at h; cases h

/-! ## 4. accepted signatures are in range -/

/-- If `Sender` accepts (any signer), then R and S are in [1, N-1], V encodes a recovery id 0/1 in exactly the form of the
    signer (27/28, or 35 + 2·chainId + id for a protected transaction under its EIP-155 signer), the address is what
    Ecrecover returns for that id, and — for the Homestead signer and for unprotected transactions under the EIP-155
    signer — S is in the lower half.  (Protected transactions under the EIP-155 signer are NOT held to low S: see below.) -/
theorem sender_only_if_valid_vrs (E : Ecdsa) (H : Bytes → Bytes) (sg : Signer) (t : Tx) (a : Bytes)
    (h : senderOf E H sg t = .ok a) :
    ∃ rid, rid ≤ 1 ∧ 1 ≤ t.r ∧ t.r < secpN ∧ 1 ≤ t.s ∧ t.s < secpN ∧
      (t.v = rid + 27 ∨ ∃ c, sg = .eip155 c ∧ isProtectedV t.v = true ∧ t.v = rid + 35 + 2 * c) ∧
      ((sg = .homestead ∨ (∃ c, sg = .eip155 c ∧ isProtectedV t.v = false)) → t.s ≤ secpHalfN) ∧
      (∃ hash, E.recover hash t.r t.s rid = some a) := by
  cases sg with
  | frontier =>
    simp only [senderOf] at h
    obtain ⟨h1, h2, h3⟩ := recoverPlain_ok h
    rw [validate_iff] at h2
    have hn : (t.v : Int).natAbs = t.v := by simp
    rw [hn] at h1 h2 h3
    refine ⟨(t.v + 229) % 256, h2.1, h2.2.1, h2.2.2.1, h2.2.2.2.1, h2.2.2.2.2.1, Or.inl (by omega), ?_, ⟨_, h3⟩⟩
    intro hh
    rcases hh with hh | ⟨c, hh, _⟩ <;> cases hh
  | homestead =>
    simp only [senderOf] at h
    obtain ⟨h1, h2, h3⟩ := recoverPlain_ok h
    rw [validate_iff] at h2
    have hn : (t.v : Int).natAbs = t.v := by simp
    rw [hn] at h1 h2 h3
    exact ⟨(t.v + 229) % 256, h2.1, h2.2.1, h2.2.2.1, h2.2.2.2.1, h2.2.2.2.2.1, Or.inl (by omega),
      fun _ => h2.2.2.2.2.2 rfl, ⟨_, h3⟩⟩
  | eip155 c =>
    simp only [senderOf] at h
    by_cases hp : isProtectedV t.v = true
    · simp only [hp, Bool.not_true, Bool.false_eq_true, if_false] at h
      by_cases hd : deriveChainId t.v = c
      · rw [if_neg (by simpa using hd)] at h
        obtain ⟨h1, h2, h3⟩ := recoverPlain_ok h
        rw [validate_iff] at h2
        -- the chain-id equation excludes the negative branch of V - 2c - 8
        have hvform : t.v = ((((t.v : Int) - 2 * (c : Int) - 8).natAbs + 229) % 256) + 35 + 2 * c := by
          unfold deriveChainId at hd
          split at hd
          · split at hd
            · unfold isProtectedV at hp
              rename_i h27
              rw [if_pos (by omega)] at hp
              simp only [Bool.and_eq_true, bne_iff_ne, ne_eq] at hp
              omega
            · omega
          · omega
        refine ⟨_, h2.1, h2.2.1, h2.2.2.1, h2.2.2.2.1, h2.2.2.2.2.1, Or.inr ⟨c, rfl, hp, hvform⟩, ?_, ⟨_, h3⟩⟩
        intro hh
        rcases hh with hh | ⟨c', _, hh⟩
        · cases hh
        · rw [hp] at hh; cases hh
      · rw [if_pos hd] at h; cases h
    · have hp' : isProtectedV t.v = false := by simpa using hp
      simp only [hp', Bool.not_false, if_true] at h
      obtain ⟨h1, h2, h3⟩ := recoverPlain_ok h
      rw [validate_iff] at h2
      have hn : (t.v : Int).natAbs = t.v := by simp
      rw [hn] at h1 h2 h3
      exact ⟨(t.v + 229) % 256, h2.1, h2.2.1, h2.2.2.1, h2.2.2.2.1, h2.2.2.2.2.1, Or.inl (by omega),
        fun _ => h2.2.2.2.2.2 rfl, ⟨_, h3⟩⟩

/-- High-S (malleable) signatures are rejected by the Homestead signer, and by the EIP-155 signer for unprotected
    transactions. -/
theorem homestead_rejects_high_s (E : Ecdsa) (H : Bytes → Bytes) (t : Tx) (hs : t.s > secpHalfN) :
    senderOf E H .homestead t = .error .invalidSig ∧
    ∀ c, isProtectedV t.v = false → senderOf E H (.eip155 c) t = .error .invalidSig := by
  have plain : ∀ h, recoverPlain E h t.r t.s (t.v : Int) true = .error .invalidSig := by
    intro h
    exact recoverPlain_nat_invalid (Or.inr ⟨rfl, hs⟩)
  refine ⟨by simp only [senderOf]; exact plain _, ?_⟩
  intro c hp
  simp only [senderOf, hp, Bool.not_false, if_true]
  exact plain _

/-- V is checked UNREDUCED: under the Frontier and Homestead signers (and for unprotected transactions under EIP-155) a V
    other than exactly 27 or 28 — in particular 27/28 + 256·k, whose low byte minus 27 would still be a recovery id, or
    anything with higher bits set — is `ErrInvalidSig`, whatever R and S.  (So a second V, hence a second hash, for the same
    signed content and sender does not exist.) -/
theorem v_out_of_range_rejected (E : Ecdsa) (H : Bytes → Bytes) (t : Tx) (hv : t.v ≠ 27 ∧ t.v ≠ 28) :
    senderOf E H .frontier t = .error .invalidSig ∧ senderOf E H .homestead t = .error .invalidSig ∧
    ∀ c, isProtectedV t.v = false → senderOf E H (.eip155 c) t = .error .invalidSig := by
  refine ⟨?_, ?_, ?_⟩
  · simp only [senderOf]; exact recoverPlain_nat_invalid (Or.inl hv)
  · simp only [senderOf]; exact recoverPlain_nat_invalid (Or.inl hv)
  · intro c hp
    simp only [senderOf, hp, Bool.not_false, if_true]
    exact recoverPlain_nat_invalid (Or.inl hv)

/-- v_out_of_range_rejected: 283 = 27 + 256 is such a V. -/
example : (283 : Nat) ≠ 27 ∧ (283 : Nat) ≠ 28 := by decide

/-- the malleated twin of a protected transaction: S replaced by N - S and the recovery bit inside V flipped. -/
def malleate (t : Tx) (c : Nat) : Tx :=
  { t with s := secpN - t.s, v := if t.v = 35 + 2 * c then 36 + 2 * c else 35 + 2 * c }

/-- The clause "malleable (high-S) signatures are rejected" FAILS for protected transactions under the EIP-155 signer
    (`EIP155Signer.Sender` calls `recoverPlain(..., homestead=false)`): whenever such a transaction is accepted, its malleated
    twin — a DIFFERENT transaction (different S, V, hence different encoding and hash), with S in the upper half if the
    original's was in the lower — is accepted too and attributed to the SAME sender.  Needs only the (true) ECDSA symmetry. -/
theorem eip155_high_s_malleable (E : Ecdsa) (hE : E.Symmetric) (H : Bytes → Bytes) (t : Tx) (c : Nat) (a : Bytes)
    (hp : isProtectedV t.v = true) (h : senderOf E H (.eip155 c) t = .ok a) :
    senderOf E H (.eip155 c) (malleate t c) = .ok a ∧ malleate t c ≠ t ∧
    (t.s ≤ secpHalfN → (malleate t c).s > secpHalfN) := by
  obtain ⟨rid, hrid, hr1, hr2, hs1, hs2, hv, _, _⟩ := sender_only_if_valid_vrs E H _ t a h
  have hvf : t.v = rid + 35 + 2 * c := by
    rcases hv with hv | ⟨c', hc', _, hv⟩
    · unfold isProtectedV at hp
      rw [if_pos (by omega)] at hp
      simp only [Bool.and_eq_true, bne_iff_ne, ne_eq] at hp
      omega
    · injection hc' with hc'
      subst hc'
      exact hv
  have hodd := N_odd
  -- the original, unfolded
  have hd : deriveChainId t.v = c := eip155_sender_only_own_chain E H t c a hp h
  simp only [senderOf, hp, Bool.not_true, Bool.false_eq_true, if_false, hd, ne_eq, not_true_eq_false] at h
  obtain ⟨_, _, hrec⟩ := recoverPlain_ok h
  have e0 : ((((t.v : Int) - 2 * (c : Int) - 8).natAbs + 229) % 256) = rid := by omega
  rw [e0] at hrec
  refine ⟨?_, ?_, ?_⟩
  · -- the twin
    have hv' : (malleate t c).v = (1 - rid) + 35 + 2 * c := by
      simp only [malleate]
      split <;> omega
    have hp' : isProtectedV (malleate t c).v = true := by
      rw [hv']; unfold isProtectedV
      split
      · simp only [Bool.and_eq_true, bne_iff_ne, ne_eq]; omega
      · rfl
    have hd' : deriveChainId (malleate t c).v = c := by
      rw [hv']; unfold deriveChainId
      split
      · rw [if_neg (by omega)]; omega
      · omega
    have hsig : sigHash H (.eip155 c) (malleate t c) = sigHash H (.eip155 c) t := rfl
    simp only [senderOf, hp', Bool.not_true, Bool.false_eq_true, if_false, hd', ne_eq, not_true_eq_false, hsig]
    have hr' : (malleate t c).r = t.r := rfl
    have hs' : (malleate t c).s = secpN - t.s := rfl
    rw [hr', hs']
    apply recoverPlain_of (rid := 1 - rid) (by rw [hv']; push_cast; omega) (by omega)
    · rw [validate_iff]
      exact ⟨by omega, hr1, hr2, by omega, by omega, fun hh => by cases hh⟩
    · rw [hE _ _ _ _ hs1 hs2 hrid]
      exact hrec
  · intro heq
    have := congrArg Tx.s heq
    simp only [malleate] at this
    omega
  · intro hlow
    show secpN - t.s > secpHalfN
    omega

/-- a concrete instance: recover ignores everything and names one address; the transaction with S = N - 1 (upper half) and a
    protected V for chain 1 is accepted by the EIP-155 signer of chain 1, while the Homestead rule would reject that S. -/
def toyE : Ecdsa := { sign := fun _ _ => (1, 1, 0), recover := fun _ _ _ _ => some [0xAA], addr := fun _ => [0xAA] }

theorem eip155_accepts_high_s_witness :
    let t : Tx := ⟨0, 1, 21000, none, 0, [], 37, 1, secpN - 1⟩
    t.s > secpHalfN ∧ senderOf toyE id (.eip155 1) t = .ok [0xAA] ∧
    validateSignatureValues 0 t.r t.s true = false := by
  refine ⟨by decide, by decide, by decide⟩

/-! ## 5. the sender cache -/

/-- `Equal` holds only between identical signers (same kind, same chain id). -/
theorem signer_equal_iff (a b : Signer) : a.equal b = true ↔ a = b := by
  cases a <;> cases b <;> simp [Signer.equal]

/-- a cache entry is sound if it is what `Sender` under the cached signer computes. -/
def CacheOK (E : Ecdsa) (H : Bytes → Bytes) (t : Tx) (c : Cache) : Prop :=
  ∀ cs a, c = some (cs, a) → senderOf E H cs t = .ok a

/-- one call of the caching `types.Sender`: the answer is the uncached one and the cache stays sound. -/
theorem senderCached_sound (E : Ecdsa) (H : Bytes → Bytes) (t : Tx) (c : Cache) (hc : CacheOK E H t c) (sg : Signer) :
    (senderCached E H c sg t).1 = senderOf E H sg t ∧ CacheOK E H t (senderCached E H c sg t).2 := by
  unfold senderCached
  cases c with
  | none =>
    simp only
    cases hs : senderOf E H sg t with
    | ok a =>
      refine ⟨rfl, ?_⟩
      intro cs a' hca
      injection hca with hca
      injection hca with h1 h2
      subst h1; subst h2
      exact hs
    | error e => exact ⟨rfl, hc⟩
  | some p =>
    obtain ⟨cs, a⟩ := p
    simp only
    by_cases heq : cs.equal sg = true
    · rw [if_pos heq]
      have := (signer_equal_iff cs sg).mp heq
      subst this
      exact ⟨(hc cs a rfl).symm, hc⟩
    · rw [if_neg heq]
      cases hs : senderOf E H sg t with
      | ok a2 =>
        refine ⟨rfl, ?_⟩
        intro cs' a' hca
        injection hca with hca
        injection hca with h1 h2
        subst h1; subst h2
        exact hs
      | error e => exact ⟨rfl, hc⟩

/-- Whatever sequence of signers a transaction object is queried under — same signer again, another kind, another chain
    id — every answer of the caching `types.Sender` equals the uncached `signer.Sender(tx)`: the cache never answers
    for a different signer. -/
theorem cache_transparent (E : Ecdsa) (H : Bytes → Bytes) (t : Tx) (c : Cache) (hc : CacheOK E H t c) (qs : List Signer) :
    senderSeq E H t c qs = qs.map (fun sg => senderOf E H sg t) := by
  induction qs generalizing c with
  | nil => rfl
  | cons sg rest ih =>
    simp only [senderSeq, List.map_cons]
    have step := senderCached_sound E H t c hc sg
    rw [step.1, ih _ step.2]

/-- all three caches of a transaction object are sound: what is stored is what would be computed from the object's data. -/
def ObjOK (E : Ecdsa) (H : Bytes → Bytes) (o : TxObj) : Prop :=
  (∀ h, o.hashC = some h → h = txHash H o.data) ∧ (∀ n, o.sizeC = some n → n = (encodeTx o.data).length) ∧
  CacheOK E H o.data o.fromC

/-- `WithSignature` returns a NEW object: its data carries the new signature values, its hash, size and sender caches are
    EMPTY — whatever the receiver had cached (even unsound entries) — hence sound.  (A shallow copy `cpy := *tx` would
    carry the old hash / sender over to the re-signed transaction.) -/
theorem withSignature_clears_caches (E : Ecdsa) (H : Bytes → Bytes) (sg : Signer) (o : TxObj) (r s rid : Nat) :
    (objWithSignature sg o r s rid).hashC = none ∧ (objWithSignature sg o r s rid).sizeC = none ∧
    (objWithSignature sg o r s rid).fromC = none ∧
    (objWithSignature sg o r s rid).data = withSignature sg o.data r s rid ∧
    ObjOK E H (objWithSignature sg o r s rid) := by
  refine ⟨rfl, rfl, rfl, rfl, ?_, ?_, ?_⟩
  · intro h hh; cases hh
  · intro n hn; cases hn
  · intro cs a hh; cases hh

/-- Object lifetime: any sequence of Hash / Size / Sender(any signer) / WithSignature(any signer, any signature values) on
    one object with sound caches (a fresh, decoded or re-signed one) — following the new object after each re-signing —
    observes exactly what the cache-free functions give on the current data: the hash of the own encoding, its length, the
    uncached sender.  Extends `cache_transparent` from the sender cache to all three caches and across re-signing. -/
theorem object_lifetime_transparent (E : Ecdsa) (H : Bytes → Bytes) (o : TxObj) (ho : ObjOK E H o) (ops : List Op) :
    runOps E H o ops = pureOps E H o.data ops := by
  induction ops generalizing o with
  | nil => rfl
  | cons op rest ih =>
    obtain ⟨h1, h2, h3⟩ := ho
    cases op with
    | hash =>
      simp only [runOps, pureOps, objHash]
      cases hc : o.hashC with
      | some h =>
        simp only
        rw [h1 h hc, ih o ⟨h1, h2, h3⟩]
      | none =>
        simp only
        rw [ih { o with hashC := some (txHash H o.data) } ⟨by intro h hh; injection hh with hh; exact hh.symm, h2, h3⟩]
    | size =>
      simp only [runOps, pureOps, objSize]
      cases hc : o.sizeC with
      | some n =>
        simp only
        rw [h2 n hc, ih o ⟨h1, h2, h3⟩]
      | none =>
        simp only
        rw [ih { o with sizeC := some (encodeTx o.data).length } ⟨h1, by intro n hn; injection hn with hn; exact hn.symm, h3⟩]
    | sender sg =>
      simp only [runOps, pureOps, objSender]
      have step := senderCached_sound E H o.data o.fromC h3 sg
      rw [step.1, ih { o with fromC := (senderCached E H o.fromC sg o.data).2 } ⟨h1, h2, step.2⟩]
    | withSig sg r s rid =>
      simp only [runOps, pureOps]
      rw [ih _ (withSignature_clears_caches E H sg o r s rid).2.2.2.2]
      rfl

/-! ## 6. re-encoding -/

/-- RLP: decoding the encoding of a well-formed transaction returns the transaction itself — hence its hash and its sender
    under every signer are unchanged; and JSON: if any signer attributes the transaction to somebody (so its signature
    values are in range) and its big-integer fields fit hexutil's 256-bit limit, unmarshalling the marshalled JSON
    returns the transaction itself. -/
theorem hash_sender_stable_under_reencoding (E : Ecdsa) (H : Bytes → Bytes) (t : Tx) (hw : t.WF)
    (hsz : (itemOfTx t).sizeOk = true) :
    decodeTx (encodeTx t) = some t ∧
    (∀ t', decodeTx (encodeTx t) = some t' → txHash H t' = txHash H t ∧ ∀ sg, senderOf E H sg t' = senderOf E H sg t) ∧
    (∀ sg a, senderOf E H sg t = .ok a →
      t.price < 2 ^ 256 → t.value < 2 ^ 256 → t.v < 2 ^ 256 → txOfJson (jsonOfTx t) = some t) := by
  have hdec : decodeTx (encodeTx t) = some t := by
    unfold decodeTx encodeTx
    rw [C11.dec_enc _ hsz]
    exact txOfItem_itemOfTx t hw
  refine ⟨hdec, ?_, ?_⟩
  · intro t' ht'
    rw [hdec] at ht'
    injection ht' with ht'
    subst ht'
    exact ⟨rfl, fun _ => rfl⟩
  · intro sg a hs hp hval hv
    obtain ⟨rid, hrid, hr1, hr2, hs1, hs2, hvform, _, _⟩ := sender_only_if_valid_vrs E H sg t a hs
    obtain ⟨hn, hg, hto⟩ := hw
    have h64 : (16 : Nat) ^ 16 = 2 ^ 64 := by decide
    have h256 : (16 : Nat) ^ 64 = 2 ^ 256 := by decide
    have hN : secpN < 2 ^ 256 := by decide
    -- the recovery id JSON computes is the real one
    have hjr : jsonRecId t.v = rid := by
      unfold jsonRecId
      rcases hvform with hv27 | ⟨c, _, hpr, hvc⟩
      · have hnp : isProtectedV t.v = false := by
          rw [hv27]; unfold isProtectedV
          have : rid = 0 ∨ rid = 1 := by omega
          rcases this with h | h <;> subst h <;> rfl
        rw [hnp]
        simp only [Bool.false_eq_true, if_false]
        omega
      · rw [hpr]
        simp only [if_true]
        have hd : deriveChainId t.v = c := by
          rw [hvc]; unfold deriveChainId
          split
          · rw [if_neg (by omega)]; omega
          · omega
        rw [hd]
        omega
    have hvalid : validateSignatureValues (jsonRecId t.v) t.r t.s false = true := by
      rw [hjr, validate_iff]
      exact ⟨hrid, hr1, hr2, hs1, hs2, fun hh => by cases hh⟩
    unfold txOfJson jsonOfTx
    simp only
    rw [decQuantity_encQuantity 16 t.nonce (by omega) (by omega), decQuantity_encQuantity 64 t.price (by omega) (by omega),
      decQuantity_encQuantity 16 t.gas (by omega) (by omega), decQuantity_encQuantity 64 t.value (by omega) (by omega),
      decData_encData, decQuantity_encQuantity 64 t.v (by omega) (by omega),
      decQuantity_encQuantity 64 t.r (by omega) (by omega), decQuantity_encQuantity 64 t.s (by omega) (by omega)]
    simp only [hvalid, if_true]
    cases hto' : t.to with
    | none =>
      simp only [Option.map_none]
      cases t
      simp only at hto'
      subst hto'
      rfl
    | some a' =>
      simp only [Option.map_some, decData_encData, hto a' hto', if_true]
      cases t
      simp only at hto'
      subst hto'
      rfl

/-- RLP canonicity at the transaction level: a byte string that decodes to a transaction IS that transaction's encoding, so
    `tx.Hash()` of the decoded transaction is the hash of the received bytes (one encoding, one hash per transaction). -/
theorem rlp_decode_canonical (bs : Bytes) (t : Tx) (h : decodeTx bs = some t) : encodeTx t = bs ∧ t.WF := by
  unfold decodeTx at h
  split at h
  · rename_i it hd
    obtain ⟨h1, h2⟩ := txOfItem_some h
    exact ⟨by unfold encodeTx; rw [h1]; exact C11.enc_dec bs it hd, h2⟩
  · cases h

/-- JSON field codec round trip on its own (hexutil quantities, data, address), for any in-range signature. -/
theorem json_roundtrip (t : Tx) (hw : t.WF) (hp : t.price < 2 ^ 256) (hval : t.value < 2 ^ 256) (hv : t.v < 2 ^ 256)
    (hr : t.r < 2 ^ 256) (hs : t.s < 2 ^ 256)
    (hsig : validateSignatureValues (jsonRecId t.v) t.r t.s false = true) : txOfJson (jsonOfTx t) = some t := by
  obtain ⟨hn, hg, hto⟩ := hw
  have h64 : (16 : Nat) ^ 16 = 2 ^ 64 := by decide
  have h256 : (16 : Nat) ^ 64 = 2 ^ 256 := by decide
  unfold txOfJson jsonOfTx
  simp only
  rw [decQuantity_encQuantity 16 t.nonce (by omega) (by omega), decQuantity_encQuantity 64 t.price (by omega) (by omega),
    decQuantity_encQuantity 16 t.gas (by omega) (by omega), decQuantity_encQuantity 64 t.value (by omega) (by omega),
    decData_encData, decQuantity_encQuantity 64 t.v (by omega) (by omega),
    decQuantity_encQuantity 64 t.r (by omega) (by omega), decQuantity_encQuantity 64 t.s (by omega) (by omega)]
  simp only [hsig, if_true]
  cases hto' : t.to with
  | none =>
    simp only [Option.map_none]
    cases t
    simp only at hto'
    subst hto'
    rfl
  | some a' =>
    simp only [Option.map_some, decData_encData, hto a' hto', if_true]
    cases t
    simp only at hto'
    subst hto'
    rfl

/-- and JSON's own signature check never rejects a transaction some signer accepts. -/
theorem json_accepts_sender_ok (E : Ecdsa) (H : Bytes → Bytes) (sg : Signer) (t : Tx) (a : Bytes)
    (hs : senderOf E H sg t = .ok a) : validateSignatureValues (jsonRecId t.v) t.r t.s false = true := by
  obtain ⟨rid, hrid, hr1, hr2, hs1, hs2, hvform, _, _⟩ := sender_only_if_valid_vrs E H sg t a hs
  have hjr : jsonRecId t.v = rid := by
    unfold jsonRecId
    rcases hvform with hv27 | ⟨c, _, hpr, hvc⟩
    · have hnp : isProtectedV t.v = false := by
        rw [hv27]; unfold isProtectedV
        have : rid = 0 ∨ rid = 1 := by omega
        rcases this with h | h <;> subst h <;> rfl
      rw [hnp]
      simp only [Bool.false_eq_true, if_false]
      omega
    · rw [hpr]
      simp only [if_true]
      have hd : deriveChainId t.v = c := by
        rw [hvc]; unfold deriveChainId
        split
        · rw [if_neg (by omega)]; omega
        · omega
      rw [hd]
      omega
  rw [hjr, validate_iff]
  exact ⟨hrid, hr1, hr2, hs1, hs2, fun hh => by cases hh⟩

/-! ## 7. unforgeability, as far as it is not cryptography -/

/-- PARTIAL (the full clause "a mutated signed transaction is never attributed to the same address" is a cryptographic
    statement): if a transaction `t'` differing from `t` in some signed field (or in the chain id it is signed for) is
    attributed to address `a`, then EITHER Keccak collides on two different signed byte strings, OR there is a signature that
    recovers to `a` on a hash different from the one `t` was signed over — i.e. an ECDSA forgery for a fresh message.
    What is missing for the full statement: collision resistance of Keccak-256 and unforgeability of secp256k1 ECDSA. -/
theorem unforgeable_partial (E : Ecdsa) (H : Bytes → Bytes) (sg sg' : Signer) (t t' : Tx) (a : Bytes)
    (hw : t.signed.WF) (hw' : t'.signed.WF)
    (hsz : (sg.payload t.signed).sizeOk = true) (hsz' : (sg'.payload t'.signed).sizeOk = true)
    (hne : t'.signed ≠ t.signed ∨ Signer.domain sg' ≠ Signer.domain sg)
    (hs' : senderOf E H sg' t' = .ok a) :
    (enc (sg'.payload t'.signed) ≠ enc (sg.payload t.signed) ∧
        H (enc (sg'.payload t'.signed)) = H (enc (sg.payload t.signed))) ∨
    (∃ hash r s rid, hash ≠ sigHash H sg t ∧ E.recover hash r s rid = some a) ∨
    (∃ c, sg' = .eip155 c ∧ isProtectedV t'.v = false) := by
  have hdiff : enc (sg'.payload t'.signed) ≠ enc (sg.payload t.signed) := by
    intro heq
    obtain ⟨h1, h2⟩ := sighash_injective sg' sg t'.signed t.signed hw' hw hsz' hsz heq
    rcases hne with h | h
    · exact h h1
    · exact h h2
  by_cases hH : H (enc (sg'.payload t'.signed)) = H (enc (sg.payload t.signed))
  · exact Or.inl ⟨hdiff, hH⟩
  · -- the hash t' is verified against
    cases sg' with
    | frontier =>
      simp only [senderOf] at hs'
      obtain ⟨_, _, h3⟩ := recoverPlain_ok hs'
      exact Or.inr (Or.inl ⟨_, _, _, _, hH, h3⟩)
    | homestead =>
      simp only [senderOf] at hs'
      obtain ⟨_, _, h3⟩ := recoverPlain_ok hs'
      exact Or.inr (Or.inl ⟨_, _, _, _, hH, h3⟩)
    | eip155 c =>
      by_cases hp : isProtectedV t'.v = true
      · simp only [senderOf, hp, Bool.not_true, Bool.false_eq_true, if_false] at hs'
        by_cases hd : deriveChainId t'.v = c
        · rw [if_neg (by simpa using hd)] at hs'
          obtain ⟨_, _, h3⟩ := recoverPlain_ok hs'
          exact Or.inr (Or.inl ⟨_, _, _, _, hH, h3⟩)
        · rw [if_pos hd] at hs'; cases hs'
      · exact Or.inr (Or.inr ⟨c, rfl, by simpa using hp⟩)

/-! ## 8. MakeSigner -/

/-- MakeSigner: EIP-155 (with the configured chain id) from the EIP-155 block on, Homestead from the Homestead block on,
    Frontier before; an unset fork block or a nil block number never counts as forked. -/
theorem makeSigner_spec (hb eb : Option Nat) (c : Nat) (num : Option Nat) :
    makeSigner hb eb c num =
      (match eb, num with
       | some e, some n => if e ≤ n then Signer.eip155 c else
           (match hb with | some h => if h ≤ n then .homestead else .frontier | none => .frontier)
       | none, some n => (match hb with | some h => if h ≤ n then .homestead else .frontier | none => .frontier)
       | _, none => .frontier) := by
  cases eb <;> cases num <;> cases hb <;> simp [makeSigner, isForked] <;> split <;> simp_all

/-! ## 8b. block processing: the signer, and so the high-S verdict, is a function of (config, height) only -/

/-- From the Homestead block on `MakeSigner` never hands out the Frontier signer: it is Homestead's or the chain's EIP-155 signer,
    whatever the EIP-155 block is (unset, below, at or above the height). -/
theorem makeSigner_from_homestead (hb : Nat) (eb : Option Nat) (c n : Nat) (hn : hb ≤ n) :
    makeSigner (some hb) eb c (some n) = .homestead ∨ makeSigner (some hb) eb c (some n) = .eip155 c := by
  unfold makeSigner
  cases isForked eb (some n)
  · left; simp [isForked, hn]
  · right; simp

/-- the Frontier signer is only ever selected strictly below the Homestead block (or when no Homestead block is configured). -/
theorem makeSigner_frontier_only_before_homestead (hb : Nat) (eb : Option Nat) (c n : Nat)
    (h : makeSigner (some hb) eb c (some n) = .frontier) : n < hb := by
  rcases Nat.lt_or_ge n hb with hlt | hge
  · exact hlt
  · rcases makeSigner_from_homestead hb eb c n hge with h' | h' <;> rw [h'] at h <;> cases h

/-- "malleable (high-S) signatures are rejected by Homestead-and-later rules", at block-processing acceptance: for EVERY height at or
    above the configured Homestead block — and every EIP-155 block, chain id, ECDSA instance — an unprotected transaction whose S is
    in the upper half is refused with `ErrInvalidSig` by the signer `MakeSigner(config, height)` selects. -/
theorem highS_rejected_from_homestead (E : Ecdsa) (H : Bytes → Bytes) (hb : Nat) (eb : Option Nat) (c n : Nat) (hn : hb ≤ n)
    (t : Tx) (hs : t.s > secpHalfN) (hp : isProtectedV t.v = false) :
    applySender E H ⟨⟨some hb, eb, c⟩, n, t⟩ = .error .invalidSig := by
  have hr := homestead_rejects_high_s E H t hs
  simp only [applySender, blockSigner]
  rcases makeSigner_from_homestead hb eb c n hn with h | h <;> rw [h]
  · exact hr.1
  · exact hr.2 c hp

/-- History freedom: in ANY sequence of `ApplyTransaction` calls (any configs, heights, transactions, in any order) the verdict of a
    call is `senderOf` under `MakeSigner(its config, its height)` — the calls before (and after) it have no influence.  In particular
    a Frontier-height call before a Homestead-height call cannot make the latter accept a high-S signature. -/
theorem applySeq_history_free (E : Ecdsa) (H : Bytes → Bytes) (pre post : List ApplyCall) (call : ApplyCall) :
    (applySeq E H (pre ++ call :: post))[pre.length]? =
      some (senderOf E H (makeSigner call.cfg.homesteadBlock call.cfg.eip155Block call.cfg.chainId (some call.num)) call.tx) := by
  simp [applySeq, applySender, blockSigner]

/-- … so a high-S unprotected transaction at a Homestead height is refused after any prefix of calls. -/
theorem highS_rejected_after_any_history (E : Ecdsa) (H : Bytes → Bytes) (pre post : List ApplyCall) (hb : Nat) (eb : Option Nat)
    (c n : Nat) (hn : hb ≤ n) (t : Tx) (hs : t.s > secpHalfN) (hp : isProtectedV t.v = false) :
    (applySeq E H (pre ++ ⟨⟨some hb, eb, c⟩, n, t⟩ :: post))[pre.length]? = some (.error .invalidSig) := by
  have h := highS_rejected_from_homestead E H hb eb c n hn t hs hp
  simp only [applySender, blockSigner] at h
  rw [applySeq_history_free, h]

/-! ## Non-vacuity -/

/-- an ECDSA instance satisfying SignOK and Symmetric (recover names the key that `sign` encodes in r). -/
def toyE2 : Ecdsa where
  sign := fun k _ => (k % 1000 + 1, 1, 0)
  recover := fun _ r _ _ => some [UInt8.ofNat r]
  addr := fun k => [UInt8.ofNat (k % 1000 + 1)]

example : toyE2.SignOK := ⟨fun _ _ => ⟨by simp [toyE2], by simp [toyE2, secpN]; omega⟩,
  fun _ _ => ⟨by simp [toyE2], by simp [toyE2, secpHalfN, secpN]⟩, fun _ _ => by simp [toyE2], fun _ _ => rfl⟩
example : toyE2.Symmetric := fun _ _ _ _ _ _ _ => rfl

/-- sighash_injective: hypotheses hold for two concrete signed contents (the conclusion then says they are equal). -/
example : (Signer.payload (.eip155 61717561) ⟨3, 7, 21000, some (List.replicate 20 9), 5, [1, 2]⟩).sizeOk = true := by decide
example : (⟨3, 7, 21000, some (List.replicate 20 9), 5, [1, 2]⟩ : Signed).WF := by
  intro a h; injection h with h; subst h; rfl

/-- sign_then_sender on a chain id whose V exceeds 64 bits. -/
example : ∃ t', signTx toyE2 id (.eip155 (2 ^ 70)) ⟨3, 7, 21000, none, 5, [1], 0, 0, 0⟩ 41 = .ok t' ∧ t'.v = 35 + 2 ^ 71 := by
  exact ⟨⟨3, 7, 21000, none, 5, [1], 35 + 2 ^ 71, 42, 1⟩, by decide, by decide⟩

/-- eip155_rejects_foreign_chain / eip155_sender_only_own_chain / sender_only_if_valid_vrs / eip155_high_s_malleable: a protected
    transaction of chain 5 accepted under its own signer (hypotheses satisfiable), rejected under chain 6. -/
example : senderOf toyE2 id (.eip155 5) ⟨0, 1, 21000, none, 0, [], 45, 42, 1⟩ = .ok [42] := by decide
example : senderOf toyE2 id (.eip155 6) ⟨0, 1, 21000, none, 0, [], 45, 42, 1⟩ = .error .invalidChainId := by decide
example : isProtectedV 45 = true := by decide

/-- homestead_rejects_high_s: the hypothesis is satisfiable. -/
example : (⟨0, 1, 21000, none, 0, [], 27, 1, secpN - 1⟩ : Tx).s > secpHalfN := by decide

/-- makeSigner_from_homestead / makeSigner_frontier_only_before_homestead / highS_rejected_from_homestead / highS_rejected_after_any_history:
    a config with HomesteadBlock 10 (EIP-155 unset, or at 20): Frontier at 9, Homestead at 10 and 5000, EIP-155 from 20; the high-S
    unprotected transaction (hypotheses hold) IS accepted at the Frontier height 9 (so the theorems are not vacuous: the verdict does
    change at the fork) and refused at 10 although the call at 9 came first. -/
example : makeSigner (some 10) none 1337 (some 9) = .frontier ∧ makeSigner (some 10) none 1337 (some 10) = .homestead ∧
    makeSigner (some 10) none 1337 (some 5000) = .homestead ∧ makeSigner (some 10) (some 20) 1337 (some 19) = .homestead ∧
    makeSigner (some 10) (some 20) 1337 (some 20) = .eip155 1337 := by decide
example : isProtectedV (⟨0, 1, 21000, none, 0, [], 27, 42, secpN - 1⟩ : Tx).v = false := by decide
example : applySeq toyE2 id [⟨⟨some 10, none, 1337⟩, 9, ⟨0, 1, 21000, none, 0, [], 27, 42, secpN - 1⟩⟩,
                             ⟨⟨some 10, none, 1337⟩, 10, ⟨0, 1, 21000, none, 0, [], 27, 42, secpN - 1⟩⟩] =
    [.ok [42], .error .invalidSig] := by decide

/-- cache_transparent: the empty cache is sound, and so is a cache filled by a previous call. -/
example (E : Ecdsa) (H : Bytes → Bytes) (t : Tx) : CacheOK E H t none := by intro _ _ h; cases h

/-- object_lifetime_transparent: a fresh object is sound; a life that hashes, asks the sender, re-signs for another chain and
    asks again is non-trivial. -/
example (E : Ecdsa) (H : Bytes → Bytes) (t : Tx) : ObjOK E H (TxObj.fresh t) := by
  refine ⟨?_, ?_, ?_⟩
  · intro h hh; cases hh
  · intro n hn; cases hn
  · intro cs a hh; cases hh

/-- re-encoding: hypotheses satisfiable on a signed transaction with recipient. -/
example : (⟨3, 7, 21000, some (List.replicate 20 9), 5, [1, 2], 45, 42, 1⟩ : Tx).WF :=
  ⟨by decide, by decide, by intro a h; injection h with h; subst h; rfl⟩
example : (itemOfTx ⟨3, 7, 21000, some (List.replicate 20 9), 5, [1, 2], 45, 42, 1⟩).sizeOk = true := by decide
example : decodeTx (encodeTx ⟨3, 7, 21000, some (List.replicate 20 9), 5, [1, 2], 45, 42, 1⟩) =
    some ⟨3, 7, 21000, some (List.replicate 20 9), 5, [1, 2], 45, 42, 1⟩ := by decide
example : txOfJson (jsonOfTx ⟨3, 7, 21000, some (List.replicate 20 9), 5, [1, 2], 45, 42, 1⟩) =
    some ⟨3, 7, 21000, some (List.replicate 20 9), 5, [1, 2], 45, 42, 1⟩ := by decide

/-- unforgeable_partial: hypotheses satisfiable (two contents differing in the nonce, the second accepted). -/
example : (⟨4, 1, 21000, none, 0, []⟩ : Signed) ≠ ⟨0, 1, 21000, none, 0, []⟩ := by decide

/-! ### tie by translation (T-gen `translated`, DESIGN 2.2 mini-translator): the V arithmetic and the signature range check

core/types.isProtectedV, core/types.deriveChainId and crypto.ValidateSignatureValues are translated from the go/ssa form of the
tree under test on every run (`Aqv.Gen.Translated`; a non-nil `*big.Int` is an `Int`, `BitLen`/`Uint64`/`Cmp` as math/big
defines them on the magnitude).  On the non-negative values the model ranges over, the translated code computes the model
functions the theorems above are stated on (proofs in `Aqv.Lemmas.Translated.TxSign`).  `Fits v`: the bit length of `v` fits
Go's `int` — true of every value that exists in memory; for transaction fields (< 2^256) it is proved, not assumed. -/

theorem vArith_code_is_model (v : Nat) (hv : v < 2 ^ 256) :
    Aqv.Gen.Translated.isProtectedV (v : Int) = isProtectedV v ∧
    Aqv.Gen.Translated.deriveChainId (v : Int) = (deriveChainId v : Int) :=
  have hf := Aqv.Lemmas.Translated.fits_of_lt v 256 (by decide) hv
  ⟨Aqv.Lemmas.Translated.isProtectedV_translated_eq v hf, Aqv.Lemmas.Translated.deriveChainId_translated_eq v hf⟩

example : Aqv.Gen.Translated.isProtectedV 27 = false ∧ Aqv.Gen.Translated.isProtectedV 37 = true ∧
    Aqv.Gen.Translated.deriveChainId 37 = 1 ∧ Aqv.Gen.Translated.deriveChainId 28 = 0 := by decide

/-- crypto.ValidateSignatureValues: the package-level variables it reads (common.Big1, secp256k1_N, secp256k1_halfN) are
    explicit parameters of the translated definition; at the model's constants the code is the model's range check. -/
theorem validateSignatureValues_code_is_model (v : UInt8) (r s : Nat) (homestead : Bool) :
    Aqv.Gen.Translated.ValidateSignatureValues ((1 : Nat) : Int) (secpN : Nat) (secpHalfN : Nat) v (r : Int) (s : Int) homestead
      = validateSignatureValues v.toNat r s homestead :=
  Aqv.Lemmas.Translated.ValidateSignatureValues_translated_eq v r s homestead

example : validateSignatureValues (1 : UInt8).toNat 1 (secpHalfN + 1) true = false ∧
    validateSignatureValues (1 : UInt8).toNat 1 (secpHalfN + 1) false = true := by decide

end Aqv.Props.C12

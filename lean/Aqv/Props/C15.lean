/-
  Aqv.Props.C15 — "The pool's pending transactions are always executable, in order and bounded".

  Model: Aqv.Model.TxPool (txSortedMap/txList and the TxPool state machine of core/tx_list.go, core/tx_pool.go; the
  eviction policy is an oracle carried by every operation, so "for all ops" below means "under every resolution of the
  nondeterminism").  Spec: `Inv`, `Limits`, `ReplacementOK` in the model file — the clauses of the property statement.

  `Pool.step true`  = the code at HEAD (since commit c2af732 demoteUnexecutables postpones everything from the FIRST missing
  nonce on).  `inv_step` / `inv_reachable` are the full-strength invariant theorems for it.
  `Pool.step false` = the demotion before c2af732 (only a gap in FRONT of a pending list was detected), kept as
  documentation of the defect this property check found: `pre_c2af732_reset_gap_witness` (the statement was false,
  reproduced against the real code at the time) and `pre_c2af732_inv_step_partial` (it held on the histories in which no
  re-injection left a hole).  Likewise `removeTxG false` / `prefix_removeTx_witness` document the defect fixed by f30bc16.
  Sequential semantics under `pool.mu` only: data races are not expressible in this model (they are exercised by the
  harness with the race detector).
-/
import Aqv.Lemmas.TxPoolCount
import Aqv.Lemmas.TxPricedLedger
import Aqv.Lemmas.TxSortedMap
namespace Aqv.Props.C15
open Aqv.TxPool

/-! ## list lemmas (txSortedMap / txList) -/

/-- txSortedMap.Ready on a sorted list whose nonces are all ≥ `start`: the ready part is a gap-free run starting exactly
    at `start`, it is a prefix of the list, and it is maximal — every remaining nonce lies strictly above the run. -/
theorem ready_is_maximal_run {start : Nat} {l : List Tx} (hs : Sorted l) (hge : ∀ t ∈ l, start ≤ t.nonce) :
    (ready start l).1 ++ (ready start l).2 = l ∧ IsRun start (ready start l).1 ∧
    (∀ t ∈ (ready start l).2, start + (ready start l).1.length < t.nonce ∨ ((ready start l).1 = [] ∧ start < t.nonce)) :=
  ⟨ready_append start l, (ready_spec hs hge).1, (ready_spec hs hge).2.2⟩

example : Sorted [⟨0,3,1,1,1⟩, ⟨0,4,1,1,1⟩, ⟨0,6,1,1,1⟩] ∧ (ready 3 [⟨0,3,1,1,1⟩, ⟨0,4,1,1,1⟩, ⟨0,6,1,1,1⟩]).1.length = 2 := by
  refine ⟨?_, by decide⟩
  unfold Sorted; decide

/-- txList.Filter in strict mode: of a gap-free run it keeps a gap-free run with the same start (the longest payable
    prefix); what it keeps is payable; the invalidated transactions lie above everything kept. -/
theorem filter_strict_keeps_prefix (l : TxL) (costLimit gasLimit c0 : Nat) (hst : l.strict = true)
    (hrun : IsRun c0 l.items) (hcaps : CapsOK l) :
    IsRun c0 (l.filter costLimit gasLimit).2.2.items ∧
    (∀ t ∈ (l.filter costLimit gasLimit).2.2.items, t.cost ≤ costLimit ∧ t.gas ≤ gasLimit) ∧
    (∀ t ∈ (l.filter costLimit gasLimit).2.1, ∀ u ∈ (l.filter costLimit gasLimit).2.2.items, u.nonce < t.nonce) ∧
    (∀ t ∈ l.items, t ∈ (l.filter costLimit gasLimit).2.2.items ∨ t ∈ (l.filter costLimit gasLimit).1 ∨
                    t ∈ (l.filter costLimit gasLimit).2.1) :=
  have h := TxL.filter_spec l costLimit gasLimit
  ⟨h.run hst c0 hrun, h.kept_pay hcaps, h.inv_above hrun.sorted.1, h.cover⟩

example : ((⟨true, [⟨0,0,1,1,1⟩, ⟨0,1,1,1,50⟩, ⟨0,2,1,1,1⟩], 60, 1⟩ : TxL).filter 10 5).2.2.items.length = 1 := by decide

/-- txSortedMap.Cap keeps a prefix: of a run it keeps a run, and nothing is lost between kept and dropped. -/
theorem cap_keeps_prefix {c : Nat} {l : List Tx} (k : Nat) (h : IsRun c l) :
    IsRun c (capL k l).2 ∧ (capL k l).2 ++ (capL k l).1 = l :=
  ⟨h.take k, List.take_append_drop k l⟩

example : IsRun 5 [⟨0,5,1,1,1⟩, ⟨0,6,1,1,1⟩] := by decide

/-- txSortedMap.Forward removes exactly the nonces below the threshold; of a run it leaves a run starting at
    max(start, threshold). -/
theorem forward_spec (th : Nat) (l : List Tx) :
    (∀ t, t ∈ (forward th l).1 ↔ t ∈ l ∧ t.nonce < th) ∧ (∀ t, t ∈ (forward th l).2 ↔ t ∈ l ∧ th ≤ t.nonce) ∧
    (∀ c, IsRun c l → IsRun (max c th) (forward th l).2) := by
  refine ⟨fun t => ?_, fun t => ?_, fun c h => h.filter_ge th⟩
  · simp [forward, List.mem_filter]
  · simp [forward, List.mem_filter, Nat.not_lt]

/-- txList.Add: a transaction for an occupied nonce is inserted iff it is strictly dearer than the old one and reaches
    old·(100+bump)/100; then it takes exactly the slot of the old one. An unoccupied nonce is always inserted. -/
theorem add_bump_rule (l : TxL) (t : Tx) (bump : Nat) (hs : Sorted l.items) :
    (∀ o, getN l.items t.nonce = some o → ((l.add t bump).1 = true ↔ bumpOK o t bump = true)) ∧
    (getN l.items t.nonce = none → (l.add t bump).1 = true) ∧
    ((l.add t bump).1 = true → ∀ u, u ∈ (l.add t bump).2.2.items ↔ u = t ∨ (u ∈ l.items ∧ u.nonce ≠ t.nonce)) ∧
    ((l.add t bump).1 = false → (l.add t bump).2.2 = l) := by
  have h := TxL.add_spec l t bump hs
  simp only at h
  refine ⟨fun o ho => ?_, fun hn => ?_, fun hi => (h.1 hi).1, fun hf => (h.2.1 hf).1⟩
  · constructor
    · intro hi
      exact (h.2.2.1 o (TxL.add_old ho hi)).2.1
    · intro hb
      cases hi : (l.add t bump).1 with
      | true => rfl
      | false =>
        obtain ⟨o', ho', hb'⟩ := (h.2.1 hi).2
        rw [ho] at ho'; cases ho'; rw [hb] at hb'; cases hb'
  · cases hi : (l.add t bump).1 with
    | true => rfl
    | false => obtain ⟨o', ho', _⟩ := (h.2.1 hi).2; rw [hn] at ho'; cases ho'

example : bumpOK ⟨0,1,100,1,1⟩ ⟨0,1,110,1,1⟩ 10 = true ∧ bumpOK ⟨0,1,100,1,1⟩ ⟨0,1,109,1,1⟩ 10 = false ∧
    bumpOK ⟨0,1,1,1,1⟩ ⟨0,1,1,1,1⟩ 10 = false := by decide

/-- costcap/gascap stay upper bounds of the list content through Add, Filter and Remove (soundness of the Filter
    short circuit). -/
theorem costcap_upper_bound (l : TxL) (h : CapsOK l) (t : Tx) (bump c g : Nat) :
    CapsOK (l.add t bump).2.2 ∧ CapsOK (l.filter c g).2.2 ∧ CapsOK (l.remove t).2.2 :=
  ⟨TxL.add_caps l t bump h, (TxL.filter_spec l c g).caps h, by
    have hr := TxL.remove_spec l t
    intro u hu
    have := h u (hr.kept_sub u hu).1
    rw [hr.caps_eq.1, hr.caps_eq.2]; exact this⟩

example : CapsOK (⟨true, [⟨0,0,2,10,5⟩], 25, 10⟩ : TxL) := by
  intro t ht; simp at ht; subst ht; decide

/-! ## the invariant -/

/-- the inductive invariant implies the state clauses of the property -/
theorem good_inv {s : Pool} (h : Good s) : Inv s :=
  { run := fun a => (h.1 a).run
    afford := fun a t ht => (h.1 a).afford t ht
    owner := fun a t ht => ht.elim ((h.1 a).powner t) ((h.1 a).qowner t)
    unique := fun a t u ht hu e => by
      have hs := h.1 a
      rcases ht with h1 | h1 <;> rcases hu with h2 | h2
      · exact hs.psorted.nonce_inj h1 h2 e
      · exact absurd e (hs.disj t h1 u h2)
      · exact absurd e.symm (hs.disj u h2 t h1)
      · exact hs.qsorted.nonce_inj h1 h2 e }

theorem good_init (c : Cfg) (v : View) : Good (Pool.init c v) ∧ AllOK (Pool.init c v) := by
  refine ⟨⟨fun a => ?_, fun a _ => ⟨rfl, rfl⟩⟩, fun t => ?_⟩
  · exact { Weak.empty a with run := trivial, pn_le := Nat.le_refl _, afford := fun t ht => by cases ht }
  · constructor
    · intro h; cases h
    · intro h; rcases h with h | h <;> cases h

/-- NewTxPool starts in a state satisfying the property. -/
theorem inv_init (c : Cfg) (v : View) : Inv (Pool.init c v) := good_inv (good_init c v).1

/-- Every operation — local/remote add, batch add, SetGasPrice, reset with re-injection, idle eviction — under every
    resolution of the eviction nondeterminism keeps the inductive invariant — the code at HEAD. -/
theorem inv_step (s : Pool) (op : Op) (h : Good s) : Good (s.step true op) ∧ Inv (s.step true op) := by
  have : Good (s.step true op) := by
    cases op with
    | add t loc sh vs sl qo => exact addTx_pres addClosed_good s t loc sh vs sl qo h
    | adds ts loc vs sl qo => exact addTxs_pres addClosed_good s ts _ vs sl qo h
    | setGasPrice p => exact setGasPrice_good s p h
    | setGasPriceO p drops => exact foldl_pres Good _ (fun s t hs => removeTx_good t hs) _ _ (show Good { s with gasPrice := p } from h)
    | reset v o n r d i orc => exact reset_good s v o n r d i orc h
    | evictIdle a => exact evictIdle_good s a h
  exact ⟨this, good_inv this⟩

example : Good (Pool.init ⟨1, 10, 16, 4096, 64, 1024, false, 21000⟩ ⟨fun _ => 0, fun _ => 1000, 100000⟩) :=
  (good_init _ _).1

theorem good_reachable (c : Cfg) (v : View) (ops : List Op) : Good (ops.foldl (Pool.step true) (Pool.init c v)) := by
  have : ∀ (ops : List Op) (s : Pool), Good s → Good (ops.foldl (Pool.step true) s) := by
    intro ops
    induction ops with
    | nil => intro s h; exact h
    | cons op rest ih => intro s h; exact ih _ (inv_step s op h).1
  exact this ops _ (good_init c v).1

/-- The state clauses of the property hold in every state reachable by any sequence of operations — the code at HEAD. -/
theorem inv_reachable (c : Cfg) (v : View) (ops : List Op) : Inv (ops.foldl (Pool.step true) (Pool.init c v)) :=
  good_inv (good_reachable c v ops)

/-! ### the demotion before commit c2af732 (documentation of the defect that commit fixed) -/

def wCfg : Cfg := ⟨1, 10, 16, 4096, 64, 1024, false, 21000⟩
def wView2 : View := ⟨fun _ => 2, fun _ => 1000000000, 100000⟩
def wView0 : View := ⟨fun _ => 0, fun _ => 1000000000, 100000⟩
def wOracle : ResetOracle := ⟨[], [], [], [], []⟩
/-- chain nonce 2, price floor 3, the pool holds nonce 2 -/
def w0 : Pool := (((Pool.init wCfg wView2).step false (.setGasPrice 3)).step false (.add ⟨0,2,5,21000,100⟩ false .wellformed [] [] []))
/-- the chain reorganises to a branch on which nonces 0 (price 5) and 1 (price 1) are not included -/
def w1 : Pool := w0.step false (.reset wView0 1 1 true [⟨0,0,5,21000,100⟩, ⟨0,1,1,21000,100⟩] [] wOracle)

/-- Before c2af732 the first clause was false: after this reset the pending list of sender 0 is [0, 2] — nonce 1 was
    refused on re-injection (below the price floor), nonce 0 was promoted in front of the old pending nonce 2, and
    demoteUnexecutables only looked for a gap in FRONT of the list. (Reproduced against the real pool at the time; the
    history is kept as regression seed `corpus/C15/02-reinject-hole.json`.) -/
theorem pre_c2af732_reset_gap_witness : ¬ Inv w1 := by
  intro h
  have := h.run 0
  revert this
  decide

/-- the same history on the code at HEAD satisfies the property -/
example : IsRun ((w0.step true (.reset wView0 1 1 true [⟨0,0,5,21000,100⟩, ⟨0,1,1,21000,100⟩] [] wOracle)).cnonce 0)
    ((w0.step true (.reset wView0 1 1 true [⟨0,0,5,21000,100⟩, ⟨0,1,1,21000,100⟩] [] wOracle)).pending 0).items := by decide

/-- a reset was admissible for the pre-c2af732 demotion when the re-injection left no hole in any pending list -/
def OpOK (s : Pool) : Op → Prop
  | .reset v o n r d i orc => NoHole (s.resetMid v o n r d i orc)
  | _ => True

/-- `inv_step` for the pre-c2af732 demotion, with the excluded set explicit: resets whose re-injection phase leaves a hole. -/
theorem pre_c2af732_inv_step_partial (s : Pool) (op : Op) (h : Good s) (hop : OpOK s op) :
    Good (s.step false op) ∧ Inv (s.step false op) := by
  have : s.step false op = s.step true op := by
    cases op with
    | reset v o n r d i orc => exact reset_agree s v o n r d i orc h hop
    | _ => rfl
  rw [this]; exact inv_step s op h

/-- resets that re-inject nothing (head advance, deep reorg, nothing dropped out) are always admissible -/
theorem opOK_of_no_reinjection (s : Pool) (v : View) (o n : Nat) (r : Bool) (d i : List Tx) (orc : ResetOracle) (h : Good s)
    (hre : (if r && decide ((if o ≤ n then n - o else o - n) ≤ 64) then txDifference d i else []) = []) :
    OpOK s (.reset v o n r d i orc) := by
  show NoHole (s.resetMid v o n r d i orc)
  unfold Pool.resetMid
  simp only [hre, List.isEmpty_nil, if_true]
  intro a
  exact ⟨s.cnonce a, (h.1 a).run⟩

example : OpOK (Pool.init wCfg wView0) (.reset wView2 0 1 false [] [⟨0,0,5,21000,100⟩] wOracle) :=
  opOK_of_no_reinjection _ _ _ _ _ _ _ _ (good_init _ _).1 rfl

/-- histories all of whose resets are admissible -/
def RunOK : Pool → List Op → Prop
  | _, [] => True
  | s, op :: ops => OpOK s op ∧ RunOK (s.step false op) ops

/-- `inv_reachable` for the pre-c2af732 demotion on the histories without a re-injection hole. -/
theorem pre_c2af732_inv_reachable_partial (c : Cfg) (v : View) (ops : List Op) (h : RunOK (Pool.init c v) ops) :
    Inv (ops.foldl (Pool.step false) (Pool.init c v)) := by
  have : ∀ (ops : List Op) (s : Pool), Good s → RunOK s ops → Good (ops.foldl (Pool.step false) s) := by
    intro ops
    induction ops with
    | nil => intro s h _; exact h
    | cons op rest ih => intro s h hr; exact ih _ (pre_c2af732_inv_step_partial s op h hr.1).1 hr.2
  exact good_inv (this ops _ (good_init c v).1 h)

example : RunOK (Pool.init wCfg wView0) [.add ⟨0,0,5,21000,100⟩ false .wellformed [] [] [], .setGasPrice 3] := ⟨trivial, trivial, trivial⟩

/-! ## internal bookkeeping behind the reorg clause: `all` is exactly pending ∪ queue -/

/-- no phantom entries: every operation keeps `all` = pending ∪ queue (both demotion variants). `add` refuses what is in
    `all`, so this is what lets a transaction that dropped out of the chain be pooled again. -/
theorem all_ok_step (g : Bool) (s : Pool) (op : Op) (h : Good s) (ha : AllOK s) : AllOK (s.step g op) := by
  have hwa : WA s := ⟨h.weakAll, ha⟩
  cases op with
  | add t loc sh vs sl qo => exact (addTx_pres addClosed_wa s t loc sh vs sl qo hwa).2
  | adds ts loc vs sl qo => exact (addTxs_pres addClosed_wa s ts _ vs sl qo hwa).2
  | setGasPrice p =>
    exact (foldl_pres WA _ (fun s t hs => addClosed_wa.rem s t hs) _ _
      (show WA { s with gasPrice := p } from hwa)).2
  | setGasPriceO p drops =>
    exact (foldl_pres WA _ (fun s t hs => addClosed_wa.rem s t hs) _ _
      (show WA { s with gasPrice := p } from hwa)).2
  | reset v o n r d i orc => exact reset_allok g s v o n r d i orc h ha
  | evictIdle a =>
    show AllOK (s.evictIdle a)
    unfold Pool.evictIdle
    split
    · exact ha
    · exact (dropQueued_pres addClosed_wa.toClosed _ _ _ hwa).2

example : AllOK (Pool.init wCfg wView0) := (good_init _ _).2

/-! ### the defect fixed by f30bc16, on the model -/

def rT0 : Tx := ⟨0,0,1,21000,100⟩
def rT1 : Tx := ⟨0,1,5,21000,100⟩
def rT0' : Tx := ⟨0,0,7,21000,100⟩
def rViewB : View := ⟨fun a => if a = 0 then 2 else 0, fun _ => 1000000000, 100000⟩
/-- AddRemotes(t0 price 1, t1 price 5) -/
def r1 : Pool := (Pool.init wCfg wView0).step false (.adds [rT0, rT1] false [] [] [])
/-- SetGasPrice with the removeTx before (`false`) / after (`true`) commit f30bc16 -/
def setGasPriceG (fixed : Bool) (s : Pool) (p : Nat) : Pool :=
  let s := { s with gasPrice := p }
  (s.all.filter (fun t => decide (t.price < p) && !s.isLocal t.sender)).foldl (fun s t => s.removeTxG fixed t) s
/-- SetGasPrice(3); the chain includes (t0', t1); then it reorganises to an empty branch -/
def r4 (fixed : Bool) : Pool :=
  ((setGasPriceG fixed r1 3).step false (.reset rViewB 0 1 false [] [rT0', rT1] wOracle)).step false
    (.reset wView0 1 1 true [rT0', rT1] [] wOracle)

/-- Before f30bc16: t1 dropped out of the chain, still validates, and is in neither pending nor queue (it stayed in `all`
    when removeTx emptied the pending list, so its re-injection is refused as "known"). After the fix it is pooled. -/
theorem prefix_removeTx_witness :
    (r4 false).validateTx rT1 false .wellformed = .ok ∧ ¬ (r4 false).pooled rT1 ∧ (r4 true).pooled rT1 := by decide

/-! ## reorg re-injection -/

/-- `accts` and `all` model Go maps: they hold no duplicates, in every reachable state (needed for counting). -/
theorem nd_step (g : Bool) (s : Pool) (op : Op) (h : ND s) : ND (s.step g op) := by
  cases op with
  | add t loc sh vs sl qo => exact addTx_pres addClosed_nd s t loc sh vs sl qo h
  | adds ts loc vs sl qo => exact addTxs_pres addClosed_nd s ts _ vs sl qo h
  | setGasPrice p =>
    exact foldl_pres ND _ (fun s t hs => removeTx_nd t hs) _ _ (show ND { s with gasPrice := p } from h)
  | setGasPriceO p drops =>
    exact foldl_pres ND _ (fun s t hs => removeTx_nd t hs) _ _ (show ND { s with gasPrice := p } from h)
  | reset v o n r d i orc =>
    show ND (s.reset g v o n r d i orc)
    rw [reset_eq]
    have h1 : ND (s.resetMid v o n r d i orc) := by
      unfold Pool.resetMid
      simp only
      have h0 : ND ({ s with cnonce := v.nonce, balance := v.balance, maxGas := v.maxGas, pnonce := v.nonce } : Pool) := h
      generalize ({ s with cnonce := v.nonce, balance := v.balance, maxGas := v.maxGas, pnonce := v.nonce } : Pool) = s0 at h0 ⊢
      generalize (if (r && decide ((if o ≤ n then n - o else o - n) ≤ 64)) = true then txDifference d i else []) = reinject
      split
      · exact h0
      · exact addTxs_pres addClosed_nd _ _ _ _ _ _ h0
    have h2 : ND ((s.resetMid v o n r d i orc).demoteUnexecutables g) :=
      foldl_pres ND _ (fun s a hs => demoteAcct_nd g a hs) _ _ h1
    exact promoteExecutables_pres addClosed_nd.toClosed _ none orc.slots2 orc.qorder2 (syncNonces_nd h2)
  | evictIdle a =>
    show ND (s.evictIdle a)
    unfold Pool.evictIdle
    split
    · exact h
    · exact dropQueued_pres addClosed_nd.toClosed _ _ _ h

/-- every reachable state satisfies the inductive invariant, has an exact lookup table and duplicate-free maps -/
theorem tight_reachable (c : Cfg) (v : View) (ops : List Op) :
    Good (ops.foldl (Pool.step true) (Pool.init c v)) ∧ AllOK (ops.foldl (Pool.step true) (Pool.init c v)) ∧
    ND (ops.foldl (Pool.step true) (Pool.init c v)) := by
  have : ∀ (ops : List Op) (s : Pool), Good s → AllOK s → ND s →
      Good (ops.foldl (Pool.step true) s) ∧ AllOK (ops.foldl (Pool.step true) s) ∧ ND (ops.foldl (Pool.step true) s) := by
    intro ops
    induction ops with
    | nil => intro s h1 h2 h3; exact ⟨h1, h2, h3⟩
    | cons op rest ih =>
      intro s h1 h2 h3
      exact ih _ (inv_step s op h1).1 (all_ok_step true s op h1 h2) (nd_step true s op h3)
  exact this ops _ (good_init c v).1 (good_init c v).2 ⟨List.nodup_nil, List.nodup_nil⟩

/-- **After a chain reorganisation the transactions that dropped out of the canonical chain are pooled again if still
    valid** — every sender kind, both demotion variants, every eviction oracle.  After `reset` across a reorganisation
    within the pool's 64-block horizon, every transaction of `discarded \ included` that validates against the new head
    (validateTx, price floor included) is in pending ∪ queue, provided the pool has room: what is pooled plus what is
    re-injected fits the per-account queue cap, the pool-wide queue cap and the pending-slot limit.  Then the pool never
    fills up and no limit binds; the only way the code refuses a still-valid transaction with a free slot is the
    full-pool-and-underpriced path, made explicit in `reinject_refused_only_when_full_and_underpriced`.  The dropped
    transactions occupy distinct slots that are free in the pool (on a real chain they lie below the old chain nonce, the
    pool above it). -/
theorem reorg_reinjects (g : Bool) (s : Pool) (v : View) (oldNum newNum : Nat) (disc inc : List Tx) (orc : ResetOracle)
    (h : Good s) (ha : AllOK s) (hnd : ND s)
    (hdepth : (if oldNum ≤ newNum then newNum - oldNum else oldNum - newNum) ≤ 64)
    (t : Tx) (ht : t ∈ txDifference disc inc)
    (hval : ({ s with cnonce := v.nonce, balance := v.balance, maxGas := v.maxGas, pnonce := v.nonce } : Pool).validateTx t false .wellformed = .ok)
    (hfresh : Fresh s (txDifference disc inc)) (hdistinct : (txDifference disc inc).Pairwise SlotNe)
    (hroom : (s.all ++ txDifference disc inc).length ≤ s.cfg.accountQueue ∧
             (s.all ++ txDifference disc inc).length ≤ s.cfg.globalQueue ∧
             (s.all ++ txDifference disc inc).length ≤ s.cfg.globalSlots) :
    (s.step g (.reset v oldNum newNum true disc inc orc)).pooled t :=
  reset_reinjects g s v oldNum newNum disc inc orc h ha hnd hdepth t ht hval hfresh hdistinct hroom

/-- The exception, as the code has it: a well-formed transaction that validates and whose slot is free is accepted by `add`
    and pooled — or refused as underpriced, and that only when the pool is full (|all| ≥ GlobalSlots + GlobalQueue) and the
    transaction is underpriced (sender not local, price ≤ the cheapest pooled price). No other refusal exists. -/
theorem reinject_refused_only_when_full_and_underpriced (s : Pool) (t : Tx) (loc : Bool) (vs : List Tx) (h : Good s)
    (ha : AllOK s) (hval : s.validateTx t loc .wellformed = .ok)
    (hfree : ∀ p, s.pooled p → p.sender = t.sender → p.nonce ≠ t.nonce) :
    ((s.add t loc .wellformed vs).1 = .ok ∧ (s.add t loc .wellformed vs).2.2.pooled t) ∨
    ((s.add t loc .wellformed vs).1 = .underpriced ∧ s.cfg.globalSlots + s.cfg.globalQueue ≤ s.all.length ∧
      s.underpriced t = true) :=
  add_refusal_only_underpriced t loc vs ⟨h.weakAll, ha⟩ hval hfree

/-  For LOCAL senders no capacity condition is needed at all (they are exempt from every limit and never underpriced): -/
theorem reorg_reinjects_local (g : Bool) (s : Pool) (v : View) (oldNum newNum : Nat) (disc inc : List Tx) (orc : ResetOracle)
    (h : Good s) (ha : AllOK s)
    (hdepth : (if oldNum ≤ newNum then newNum - oldNum else oldNum - newNum) ≤ 64)
    (t : Tx) (ht : t ∈ txDifference disc inc) (hl : t.sender ∈ s.locals)
    (hval : ({ s with cnonce := v.nonce, balance := v.balance, maxGas := v.maxGas, pnonce := v.nonce } : Pool).validateTx t false .wellformed = .ok)
    (hfresh : Fresh s (txDifference disc inc)) (hdistinct : (txDifference disc inc).Pairwise SlotNe) :
    (s.step g (.reset v oldNum newNum true disc inc orc)).pooled t :=
  reset_reinjects_local g s v oldNum newNum disc inc orc h ha hdepth t ht hl hval hfresh hdistinct

/-- a pool whose local sender 0 holds nonce 2 while the chain (nonce 2) had included its nonces 0 and 1 -/
def q0 : Pool := (Pool.init wCfg wView2).step true (.add ⟨0,2,5,21000,100⟩ true .wellformed [] [] [])

example : Good q0 ∧ AllOK q0 ∧ ND q0 ∧ (0 : Addr) ∈ q0.locals ∧
    (q0.all ++ txDifference [⟨0,0,5,21000,100⟩, ⟨0,1,5,21000,100⟩] []).length ≤ q0.cfg.accountQueue ∧
    Fresh q0 (txDifference [⟨0,0,5,21000,100⟩, ⟨0,1,5,21000,100⟩] []) ∧
    (txDifference [⟨0,0,5,21000,100⟩, ⟨0,1,5,21000,100⟩] []).Pairwise SlotNe := by
  have hg : Good q0 := (inv_step _ _ (good_init wCfg wView2).1).1
  have ha : AllOK q0 := all_ok_step true _ _ (good_init wCfg wView2).1 (good_init wCfg wView2).2
  refine ⟨hg, ha, nd_step true _ _ ⟨List.nodup_nil, List.nodup_nil⟩, by decide, by decide, ?_, ?_⟩
  · intro x hx p hp hs
    have hpa : p ∈ q0.all := (ha p).mpr hp
    have hall : q0.all = [⟨0,2,5,21000,100⟩] := by decide
    rw [hall] at hpa
    simp only [List.mem_singleton] at hpa
    subst hpa
    have : x = ⟨0,0,5,21000,100⟩ ∨ x = ⟨0,1,5,21000,100⟩ := by
      have : txDifference [(⟨0,0,5,21000,100⟩ : Tx), ⟨0,1,5,21000,100⟩] [] = [⟨0,0,5,21000,100⟩, ⟨0,1,5,21000,100⟩] := by decide
      rw [this] at hx; simpa using hx
    rcases this with rfl | rfl <;> decide
  · have : txDifference [(⟨0,0,5,21000,100⟩ : Tx), ⟨0,1,5,21000,100⟩] [] = [⟨0,0,5,21000,100⟩, ⟨0,1,5,21000,100⟩] := by decide
    rw [this]
    refine List.Pairwise.cons ?_ (List.Pairwise.cons (by simp) List.Pairwise.nil)
    intro y hy
    simp only [List.mem_singleton] at hy
    subst hy
    intro _; decide

/-! ## limits -/

/-- Every reset ends with the pool-wide enforcement: afterwards the per-account queue cap, the pool-wide queue cap and the
    pending-slot bound hold for non-local senders, under every eviction oracle — the code at HEAD. -/
theorem limits_after_reset (s : Pool) (v : View) (o n : Nat) (r : Bool) (d i : List Tx) (orc : ResetOracle)
    (h : Good s) (ha : AllOK s) : Limits (s.step true (.reset v o n r d i orc)) :=
  (limits_after_reset_true s v o n r d i orc ⟨h, ha⟩).1

/-- the same for the pre-c2af732 demotion on admissible resets -/
theorem pre_c2af732_limits_after_reset_partial (s : Pool) (v : View) (o n : Nat) (r : Bool) (d i : List Tx) (orc : ResetOracle)
    (h : Good s) (ha : AllOK s) (hop : OpOK s (.reset v o n r d i orc)) : Limits (s.step false (.reset v o n r d i orc)) := by
  have : s.step false (.reset v o n r d i orc) = s.step true (.reset v o n r d i orc) := reset_agree s v o n r d i orc h hop
  rw [this]; exact limits_after_reset s v o n r d i orc h ha

/-- any pool-wide promoteExecutables establishes the limits -/
theorem limits_after_enforcement (s : Pool) (slots qorder : List Addr) (h : Good s) (ha : AllOK s) :
    Limits (s.promoteExecutables none slots qorder) := (limits_after_promote s slots qorder ⟨h, ha⟩).1

/-- A successful AddLocal/AddRemote that is not a replacement ends with the enforcement for the sender and pool-wide:
    afterwards the sender's queue cap (if it is not local) and both pool-wide limits hold, for every eviction oracle. -/
theorem limits_after_add (s : Pool) (t : Tx) (loc : Bool) (sh : Shape) (vs : List Tx) (sl qo : List Addr)
    (h : Good s) (ha : AllOK s)
    (hok : (s.add t (loc && !s.cfg.noLocals) sh vs).1 = .ok) (hnew : (s.add t (loc && !s.cfg.noLocals) sh vs).2.1 = false) :
    let s' := (s.addTx t loc sh vs sl qo).2
    (t.sender ∉ s'.locals → (s'.queue t.sender).items.length ≤ s'.cfg.accountQueue) ∧
    sumLen s'.queue (s'.accts.filter (fun a => !s'.isLocal a)) ≤ s'.cfg.globalQueue ∧
    (s'.pendingCount ≤ s'.cfg.globalSlots ∨ ∀ a, a ∉ s'.locals → (s'.pending a).items.length ≤ s'.cfg.accountSlots) := by
  have hga : GA (s.add t (loc && !s.cfg.noLocals) sh vs).2.2 := add_pres addClosed_ga s t _ sh vs ⟨h, ha⟩
  unfold Pool.addTx
  simp only
  generalize s.add t (loc && !s.cfg.noLocals) sh vs = r at hok hnew hga ⊢
  rw [if_neg (fun hc => hc hok), hnew]
  simp only [Bool.not_false, if_true]
  have := limits_after_promote_some r.2.2 [t.sender] sl qo hga
  exact ⟨this.1 t.sender List.mem_cons_self, this.2.1, this.2.2.1⟩

example : ((Pool.init wCfg wView0).add ⟨0,0,5,21000,100⟩ false .wellformed []).1 = .ok ∧
    ((Pool.init wCfg wView0).add ⟨0,0,5,21000,100⟩ false .wellformed []).2.1 = false := by decide

def lCfg : Cfg := ⟨1, 10, 16, 4096, 1, 1024, false, 21000⟩
/-- AccountQueue = 1; three pending transactions; SetGasPrice evicts the first: the two followers are re-queued -/
def l1 : Pool := ((Pool.init lCfg wView0).step false (.adds [⟨0,0,1,21000,100⟩, ⟨0,1,5,21000,100⟩, ⟨0,2,5,21000,100⟩] false [] [] [])).step false (.setGasPrice 3)

/-- The limits are what the enforcement establishes, not an at-all-times invariant of the code: SetGasPrice re-queues the
    followers of an evicted transaction without running the enforcement, so the per-account queue cap is exceeded until
    the next add for that account or the next reset (same behaviour as upstream). -/
theorem limits_transient_witness : (l1.queue 0).items.length = 2 ∧ l1.cfg.accountQueue = 1 ∧ 0 ∉ l1.locals := by decide

/-! ## replacement -/

/-- A same-nonce replacement is accepted only with the configured price bump: after AddLocal/AddRemote on a pool that is
    not full, a (sender, nonce) slot whose occupant changed holds a transaction that met the bump rule against the
    previous occupant (when the pool is full an eviction followed by a fresh insert is possible and is not a replacement). -/
theorem replacement_needs_bump (s : Pool) (t : Tx) (loc : Bool) (sh : Shape) (vs : List Tx) (sl qo : List Addr) (h : Good s)
    (hnf : s.all.length < s.cfg.globalSlots + s.cfg.globalQueue) :
    ReplacementOK s (s.step true (.add t loc sh vs sl qo)) := addTx_replacement s t loc sh vs sl qo h hnf

example : (Pool.init wCfg wView0).all.length < wCfg.globalSlots + wCfg.globalQueue := by decide

/-! ## journal -/

/-- tx_journal.go: a rotation writes `pool.local()`, and that is exactly the pooled transactions of the local senders
    (no transaction of a non-local sender, none that is not pooled, none missing). -/
theorem journal_rotate_exact (s : Pool) (h : Good s) : ∀ t, t ∈ s.localTxs ↔ s.pooled t ∧ t.sender ∈ s.locals := by
  intro t
  unfold Pool.localTxs
  rw [List.mem_flatMap, pooled_iff]
  constructor
  · rintro ⟨a, ha, ht⟩
    have hw := (h.1 a).toWeak
    rcases List.mem_append.mp ht with h1 | h1
    · have := hw.powner t h1; subst this; exact ⟨Or.inl h1, ha⟩
    · have := hw.qowner t h1; subst this; exact ⟨Or.inr h1, ha⟩
  · rintro ⟨hp, hl⟩
    exact ⟨t.sender, hl, List.mem_append.mpr hp⟩

/-! ## the price heap (`txPricedList`) refines the eviction oracle

  Aqv.Model.TxPriced models the price heap with its stale counter one level more concretely: `Put`, `Removed`,
  `Underpriced`, `Discard`, `Cap` statement by statement over a priority queue whose pops are those of Go's
  container/heap on the same array (checked at run time, with a correct fallback), and the concrete machine `CPool` =
  pool + heap, in which the victims of `add` and `SetGasPrice` come from the heap. -/

/-- `priced_consistent` is an invariant of the concrete machine, and the concrete machine is the oracle machine with the
    heap's victims as the oracle: one step. -/
theorem priced_step_refines (c : CPool) (op : COp) (h : Cov c) :
    (c.step op).2.pool = c.pool.step true (c.step op).1 ∧ Cov (c.step op).2 := cstep_refines c op h

example : Cov (CPool.init wCfg wView0) := cinit_cov _ _

/-- `priced_consistent` (every pooled transaction has an entry in the price heap) holds in every reachable state of the
    concrete machine, its pool component is a run of the oracle machine — so every theorem above applies to it — and in
    particular satisfies the state clauses of the property. -/
theorem priced_consistent (cfg : Cfg) (v : View) (cops : List COp) :
    Cov ((CPool.init cfg v).runOps cops).2 ∧
    ((CPool.init cfg v).runOps cops).2.pool = ((CPool.init cfg v).runOps cops).1.foldl (Pool.step true) (Pool.init cfg v) ∧
    Inv ((CPool.init cfg v).runOps cops).2.pool := by
  obtain ⟨h1, h2⟩ := crun_refines cops (CPool.init cfg v) (cinit_cov cfg v)
  refine ⟨h2, h1, ?_⟩
  rw [h1]
  exact inv_reachable cfg v _

/-- Underpriced: with a consistent heap the heap-based answer (skip stale heads, compare with the root) is the comparison
    with the cheapest pooled price; locals are never underpriced. -/
theorem priced_underpriced_refines (s : Pool) (P : Priced) (t : Tx) (hcov : ∀ x ∈ s.all, x ∈ P.items) (hheap : IsHeap P.items) :
    (P.underpriced s.all s.locals t).1 = s.underpriced t :=
  (underpriced_refines (b := false) s P t hcov ⟨hheap, fun h => Bool.noConfusion h⟩).1

/-- Discard: every eviction the heap performs is one the oracle permits (pooled, not local, at most `count`; the model's
    `add` with these victims performs exactly these removals), it evicts cheapest first, and it leaves the heap covering
    everything pooled but the victims.  The pops are the array algorithm of container/heap (`hPop`); that they return
    minima is `heap_push_pop_spec`, from the hypothesis that the array is a heap — an invariant of the concrete machine
    (`priced_consistent`).  No run-time check is involved. -/
theorem priced_discard_refines_oracle (s : Pool) (P : Priced) (count : Nat) (hcov : ∀ x ∈ s.all, x ∈ P.items)
    (hheap : IsHeap P.items) :
    (∀ v ∈ (P.discard s.all s.locals count).1, v ∈ s.all ∧ v.sender ∉ s.locals) ∧
    (P.discard s.all s.locals count).1.length ≤ count ∧
    s.sanitizeVictims count (P.discard s.all s.locals count).1 = (P.discard s.all s.locals count).1 ∧
    (∀ v ∈ (P.discard s.all s.locals count).1, ∀ u ∈ s.all, u.sender ∉ s.locals →
        u ∉ (P.discard s.all s.locals count).1 → v.price ≤ u.price) := by
  have := discard_refines (b := false) s P count hcov ⟨hheap, fun h => Bool.noConfusion h⟩
  simp only at this
  exact ⟨this.1, this.2.1, this.2.2.1, this.2.2.2.1⟩

/-- Cap (SetGasPrice): the heap drops exactly the pooled non-local transactions below the new floor. -/
theorem priced_cap_refines (s : Pool) (P : Priced) (th : Nat) (hcov : ∀ x ∈ s.all, x ∈ P.items) (hheap : IsHeap P.items) :
    ∀ v, v ∈ (P.cap s.all s.locals th).1 ↔ v ∈ s.all ∧ v.price < th ∧ v.sender ∉ s.locals := by
  have := cap_refines (b := false) s P th hcov ⟨hheap, fun h => Bool.noConfusion h⟩
  simp only at this
  exact this.1

example : (∀ x ∈ (Pool.init wCfg wView0).all, x ∈ ({ items := [], stales := 0 } : Priced).items) ∧
    IsHeap ({ items := [], stales := 0 } : Priced).items :=
  ⟨fun x hx => (by cases hx), isHeap_nil⟩

/-! ## container/heap on the heap array (`hUp hDown hPush hPop hInit` of Aqv.Model.TxPriced, statement by statement the Go
    `up`, `down`, `Push`, `Pop`, `Init`; `priceHeap.Less` of this code base compares the gas price only) -/

/-- heap.up: if the heap order holds everywhere except between `j` and its parent, and `j`'s children respect `j`'s
    parent, then after `up(j)` the whole array is a min-heap by price. -/
theorem heap_up_preserves (f : Nat) (l : List Tx) (j : Nat) (hf : j ≤ f) (hj : j < l.length)
    (h1 : ∀ k, 0 < k → k < l.length → k ≠ j → hkey l ((k - 1) / 2) ≤ hkey l k)
    (h2 : ∀ k, 0 < k → k < l.length → (k - 1) / 2 = j → 0 < j → hkey l ((j - 1) / 2) ≤ hkey l k) :
    IsHeap (hUp f l j) ∧ (hUp f l j).Perm l :=
  ⟨Aqv.TxPool.heap_up_preserves f l j hf hj h1 h2, hUp_perm f l j hj⟩

/-- heap.down(i, n): if the heap order holds among the first `n` entries for every node whose parent index is at least
    `lo`, except between `i` and its children, and `i`'s children respect `i`'s parent, then after `down` it holds for
    every such node; the array is permuted and the entries from `n` on are untouched. -/
theorem heap_down_preserves (f : Nat) (l : List Tx) (i n lo : Nat) (hf : n ≤ f + i) (hn : n ≤ l.length) (hlo : lo ≤ i)
    (h1 : ∀ k, 0 < k → k < n → lo ≤ (k - 1) / 2 → (k - 1) / 2 ≠ i → hkey l ((k - 1) / 2) ≤ hkey l k)
    (h2 : ∀ k, 0 < k → k < n → (k - 1) / 2 = i → 0 < i → lo ≤ (i - 1) / 2 → hkey l ((i - 1) / 2) ≤ hkey l k) :
    (∀ k, 0 < k → k < n → lo ≤ (k - 1) / 2 → hkey (hDown f l i n) ((k - 1) / 2) ≤ hkey (hDown f l i n) k) ∧
    (hDown f l i n).Perm l ∧ (∀ k, n ≤ k → (hDown f l i n).getD k txDefault = l.getD k txDefault) :=
  ⟨Aqv.TxPool.heap_down_preserves f l i n lo hf hn hlo h1 h2, hDown_perm f l i n hn, fun k hk => hDown_getD_ge f l i n k hn hk⟩

/-- heap.Init turns any array into a min-heap by price with the same elements. -/
theorem heap_init_establishes (l : List Tx) : IsHeap (hInit l) ∧ (hInit l).Perm l :=
  ⟨Aqv.TxPool.heap_init_establishes l, hInit_perm l⟩

/-- Push / Pop on a heap: the array stays a min-heap by price, the multiset of elements changes by exactly the pushed /
    popped element, Pop returns a minimum and fails only on the empty array; the executable heap test of the driver is
    the heap order. -/
theorem heap_push_pop_spec :
    (∀ t l, IsHeap l → IsHeap (hPush t l) ∧ (hPush t l).Perm (t :: l)) ∧
    (∀ l x rest, IsHeap l → hPop l = some (x, rest) → l.Perm (x :: rest) ∧ (∀ y ∈ l, x.price ≤ y.price) ∧ IsHeap rest) ∧
    (∀ l, hPop l = none ↔ l = []) ∧
    (∀ l, isHeap l = true ↔ IsHeap l) :=
  ⟨Aqv.TxPool.heap_push_pop_spec.1, Aqv.TxPool.heap_push_pop_spec.2.1, Aqv.TxPool.heap_push_pop_spec.2.2.1, isHeap_iff⟩

example : IsHeap (hPush ⟨0, 0, 3, 0, 0⟩ (hPush ⟨0, 1, 7, 0, 0⟩ (hPush ⟨0, 2, 5, 0, 0⟩ []))) :=
  (isHeap_iff _).mp (by decide)
example : (hPop (hPush ⟨0, 0, 3, 0, 0⟩ (hPush ⟨0, 1, 7, 0, 0⟩ (hPush ⟨0, 2, 5, 0, 0⟩ [])))).map (·.1.price) = some 3 := by decide

/-- The driver's assertion never fires: in every reachable state of the concrete machine the heap array is a min-heap by
    price and the monitor bit accumulated over all heap operations (`exact`) is still set — the run-time check is dead
    code on the theorem path, and a cleared bit in the driver can only come from an observed array that was not a heap. -/
theorem priced_check_never_fires (cfg : Cfg) (v : View) (cops : List COp) :
    IsHeap ((CPool.init cfg v).runOps cops).2.priced.items ∧ ((CPool.init cfg v).runOps cops).2.priced.exact = true :=
  ⟨(crun_refines cops (CPool.init cfg v) (cinit_cov cfg v)).2.2.1, (crun_refines cops (CPool.init cfg v) (cinit_cov cfg v)).2.2.2 rfl⟩

/-! ## the stale counter

`txPricedList.stales` is documented as the number of heap entries whose transaction has left `all`.  In this code base it is
only a heuristic and the equality is NOT an invariant, in either direction:
* `enqueueTx` always calls `priced.Put`, also for a transaction that `demoteUnexecutables` moves back to the queue and
  that is still in `all`: the heap then holds the transaction twice, and its later removal makes two entries dead while
  the counter goes up by one (under-count; popping both as stale heads can even drive the counter negative);
* `Discard`/`Cap` pop a live victim and the following `removeTx` calls `Removed()` for an entry that is already gone
  (over-count).
Neither affects a clause of the property (dead and duplicate entries are skipped by the `∈ all` test and disappear at the
next re-heap); what does hold is that a re-heap makes the heap exactly `all` again. -/

/-- heap entries whose transaction is no longer pooled -/
def deadCount (items all : List Tx) : Nat := (items.filter (fun x => decide (x ∉ all))).length

/-- the event `enqueueTx` generates contains `Put(t)` whether or not `t` is already in `all` -/
theorem enqueueTx_puts_known (s : Pool) (t : Tx) (h : ((s.queue t.sender).add t s.cfg.priceBump).1 = true) :
    LEv.insPut t ∈ evEnqueueTx s t := by
  unfold evEnqueueTx
  simp [h]

private def wTx (n p : Nat) : Tx := ⟨0, n, p, 21000, 0⟩
private def wL8 : Ledger :=
  (⟨[], { items := [], stales := 0 }⟩ : Ledger).run ((List.range 8).map (fun n => LEv.insPut (wTx n (10 + n))))

/-- `stales = number of dead entries` is not an invariant (so `stales_counts_dead_entries` is not provable for this code):
    (1) under-count — eight pooled transactions, `Put` of one of them again (what re-enqueueing a demoted transaction does),
    then its removal: two dead entries, counter 1; (2) over-count — `Discard(1)` pops the cheapest live entry and the
    removal of the victim calls `Removed()`: no dead entry, counter 1. -/
theorem stales_not_dead_count_witness :
    (let L := wL8.run [LEv.insPut (wTx 0 10), LEv.del (wTx 0 10)]
     deadCount L.priced.items L.all = 2 ∧ L.priced.stales = 1) ∧
    (let d := wL8.priced.discard wL8.all [] 1
     let L := (⟨wL8.all, d.2⟩ : Ledger).run (d.1.map LEv.del)
     d.1 = [wTx 0 10] ∧ deadCount L.priced.items L.all = 0 ∧ L.priced.stales = 1) := by
  decide

/-- What the counter does guarantee: `Removed()` either just counts, or — once the counter exceeds a quarter of the heap —
    rebuilds the heap from `all`: afterwards the array is a min-heap with exactly the pooled transactions (no dead and no
    duplicate entry) and the counter is 0. -/
theorem stales_reheap_exact (P : Priced) (all : List Tx) :
    ((P.removed all).items = P.items ∧ (P.removed all).stales = P.stales + 1 ∧ P.stales + 1 ≤ ((P.items.length / 4 : Nat) : Int)) ∨
    ((P.removed all).items.Perm all ∧ IsHeap (P.removed all).items ∧ (P.removed all).stales = 0 ∧
      deadCount (P.removed all).items all = 0 ∧ ((P.items.length / 4 : Nat) : Int) < P.stales + 1) := by
  unfold Priced.removed
  simp only
  split
  · rename_i h; exact Or.inl ⟨rfl, rfl, h⟩
  · rename_i h
    rw [initC_eq]
    refine Or.inr ⟨hInit_perm all, Aqv.TxPool.heap_init_establishes all, rfl, ?_, by omega⟩
    unfold deadCount
    rw [List.length_eq_zero_iff, List.filter_eq_nil_iff]
    intro x hx
    simp only [decide_not, Bool.not_eq_true', decide_eq_false_iff_not, Classical.not_not]
    exact (hInit_perm all).mem_iff.mp hx

/-! ## the sorted-list cache of txSortedMap (`m.cache`, handed out by `Flatten` — i.e. by `Pending()`, `Content()`, the journal
    rotation and every reset) as explicit state (Aqv.Model.TxSortedMap) -/

/-- One method call (`Put Forward Filter Cap Remove Ready Flatten`, `Filter` with an arbitrary predicate) keeps the contents
    nonce-sorted and the cache coherent: a cache that is present equals the nonce-sorted contents. -/
theorem sortedmap_step_coherent (m : SMap) (op : SOp) (hs : Sorted m.items) (hc : m.Coherent) :
    Sorted (m.step op).2.items ∧ (m.step op).2.Coherent := SMap.step_ok m op ⟨hs, hc⟩

/-- **cached sorted list = sort of items after any op sequence**: after any sequence of method calls on a new map the cache,
    if present, is the nonce-sorted contents; hence `Flatten` returns the nonce-sorted contents whether it hits the cache or
    not, and does not change the contents. -/
theorem sortedmap_cache_coherent (ops : List SOp) :
    Sorted (SMap.empty.run ops).items ∧ (SMap.empty.run ops).Coherent ∧
    ((SMap.empty.run ops).step .flatten).1 = (SMap.empty.run ops).items ∧
    ((SMap.empty.run ops).step .flatten).2.items = (SMap.empty.run ops).items := by
  have h := SMap.run_ok ops SMap.empty SMap.empty_ok
  exact ⟨h.1, h.2, SMap.flatten_spec _ h.2⟩

private def sTx (n p : Nat) : Tx := ⟨0, n, p, 21000, 0⟩

/-- non-vacuity: a run in which the cache survives a Forward and a Cap (shifted front, cut back) and is still the contents -/
example : (SMap.empty.run [.put (sTx 3 1), .put (sTx 1 1), .put (sTx 2 1), .put (sTx 5 1), .flatten, .forward 2, .cap 2]).cache
    = some [sTx 2 1, sTx 3 1] := by decide

/-- The `Put` of seeded change C15-8 (keep the cache and append when the new nonce is not below the cache's last nonce)
    breaks coherence exactly in the scenario of the seed: flatten, then replace the highest nonce — the cache then lists the
    replaced transaction next to its replacement. -/
theorem c15_8_put_keeps_stale_cache_witness :
    let m := SMap.empty.run [.put (sTx 0 10), .put (sTx 1 10), .flatten]
    m.coherentB = true ∧ (m.putKeepCache (sTx 1 12)).coherentB = false ∧
    (m.putKeepCache (sTx 1 12)).cache = some [sTx 0 10, sTx 1 10, sTx 1 12] ∧
    (m.putKeepCache (sTx 1 12)).items = [sTx 0 10, sTx 1 12] := by decide

end Aqv.Props.C15

/-
  Aqv.Props.C05 — "Coins are created only by the block reward schedule".

  Clause map (statement of C05 → theorem):
    executing transactions alone never increases Σ ......... prim_trace_nonincreasing (any finite word over the alphabet, any
                                                             snapshot/revert nesting — program independent: this is how "for all
                                                             bytecode" is discharged), tx_conserves, tx_supply_nonincreasing
    Σ' ≤ Σ + issuance(height, uncles) ...................... block_supply_bound
    … with equality when no contract self-destructs ........ prim_trace_exact_without_selfdestruct, block_supply_exact_without_selfdestruct
    issuance = 1 AQUA below 42,000,000 + (8+u−h)/8 + 1/32 .. reward_exact, issuance_schedule, issuance_matches_probes, cutoff_is_maxMoney
    HF4 only lowers ........................................ hf4_only_lowers, block_supply_bound_hf4
    nothing else writes balances ........................... sites_eq_alphabet, state_writers_eq (T-gen inventory)
    self-destruct to self burns (why "≤", not "=") ......... suicide_to_self_burns
-/
import Aqv.Lemmas.Supply
import Aqv.Lemmas.TxVmInv
import Aqv.Lemmas.TxVm
import Aqv.Props.C06
namespace Aqv.Props.C05
open Aqv.Tx Aqv.Supply

/-! ## the primitive alphabet never creates coins -/

/-- every state the machine can return to (the current one and all live snapshots) holds at most `B`. -/
def Bounded (B : Nat) (M : Machine) : Prop := total M.cur.bal ≤ B ∧ ∀ s ∈ M.snaps, total s.bal ≤ B

theorem step_bounded {B : Nat} {M : Machine} (h : Bounded B M) (op : Op) : Bounded B (step M op) := by
  obtain ⟨hc, hs⟩ := h
  cases op with
  | transfer a b v => exact ⟨by simp only [step]; rw [total_transfer]; exact hc, hs⟩
  | suicide a b => exact ⟨Nat.le_trans (total_suicide_le _ _ _) hc, hs⟩
  | createAccount a => exact ⟨hc, hs⟩
  | snapshot =>
    refine ⟨hc, ?_⟩
    intro s hmem
    simp only [step] at hmem
    rcases List.mem_append.mp hmem with h | h
    · exact hs s h
    · rw [List.mem_singleton.mp h]; exact hc
  | revert k =>
    simp only [step]
    cases hk : M.snaps[k]? with
    | none => exact ⟨hc, hs⟩
    | some s =>
      refine ⟨hs s (List.mem_of_getElem? hk), fun s' hmem => hs s' (List.mem_of_mem_take hmem)⟩

theorem runOps_bounded {B : Nat} (ops : List Op) {M : Machine} (h : Bounded B M) : Bounded B (runOps M ops) := by
  induction ops generalizing M with
  | nil => exact h
  | cons op ops ih => exact ih (step_bounded h op)

/-- **prim_trace_nonincreasing.** Any finite sequence of value transfers (guarded by CanTransfer), SELFDESTRUCTs, account
    (re)creations, snapshots and reverts to any live snapshot — whatever program produced it — leaves Σ balances at most
    where it started; so does the Finalise that follows. -/
theorem prim_trace_nonincreasing (s : SState) (ops : List Op) :
    total (runOps { cur := s, snaps := [] } ops).cur.bal ≤ total s.bal ∧
    total (finalise (runOps { cur := s, snaps := [] } ops).cur).bal ≤ total s.bal := by
  have h := (runOps_bounded ops (B := total s.bal) (M := { cur := s, snaps := [] }) ⟨Nat.le_refl _, fun _ h => by cases h⟩).1
  exact ⟨h, Nat.le_trans (total_finalise_le _) h⟩

/-- every reachable state holds exactly `B` and nobody is marked suicided. -/
def Conserved (B : Nat) (M : Machine) : Prop :=
  (total M.cur.bal = B ∧ M.cur.suicided = []) ∧ ∀ s ∈ M.snaps, total s.bal = B ∧ s.suicided = []

theorem step_conserved {B : Nat} {M : Machine} (h : Conserved B M) (op : Op) (hop : op.isSuicide = false) : Conserved B (step M op) := by
  obtain ⟨⟨hc, hn⟩, hs⟩ := h
  cases op with
  | transfer a b v => exact ⟨⟨by simp only [step]; rw [total_transfer]; exact hc, by simp only [step]; rw [transfer_suicided]; exact hn⟩, hs⟩
  | suicide a b => cases hop
  | createAccount a => exact ⟨⟨hc, by simp only [step, createAccount]; rw [hn]; rfl⟩, hs⟩
  | snapshot =>
    refine ⟨⟨hc, hn⟩, ?_⟩
    intro s hmem
    simp only [step] at hmem
    rcases List.mem_append.mp hmem with h | h
    · exact hs s h
    · rw [List.mem_singleton.mp h]; exact ⟨hc, hn⟩
  | revert k =>
    simp only [step]
    cases hk : M.snaps[k]? with
    | none => exact ⟨⟨hc, hn⟩, hs⟩
    | some s => exact ⟨hs s (List.mem_of_getElem? hk), fun s' hmem => hs s' (List.mem_of_mem_take hmem)⟩

theorem runOps_conserved {B : Nat} (ops : List Op) (hno : ∀ op ∈ ops, op.isSuicide = false) {M : Machine} (h : Conserved B M) :
    Conserved B (runOps M ops) := by
  induction ops generalizing M with
  | nil => exact h
  | cons op ops ih =>
    exact ih (fun o ho => hno o (List.mem_cons_of_mem _ ho)) (step_conserved h op (hno op List.mem_cons_self))

/-- **prim_trace_exact_without_selfdestruct.** Without SELFDESTRUCT the same traces conserve Σ exactly (through Finalise too). -/
theorem prim_trace_exact_without_selfdestruct (s : SState) (hs : s.suicided = []) (ops : List Op) (hno : ∀ op ∈ ops, op.isSuicide = false) :
    total (runOps { cur := s, snaps := [] } ops).cur.bal = total s.bal ∧
    (runOps { cur := s, snaps := [] } ops).cur.suicided = [] ∧
    total (finalise (runOps { cur := s, snaps := [] } ops).cur).bal = total s.bal := by
  have h := (runOps_conserved ops hno (B := total s.bal) (M := { cur := s, snaps := [] }) ⟨⟨rfl, hs⟩, fun _ h => by cases h⟩).1
  exact ⟨h.1, h.2, by rw [finalise_nil _ h.2]; exact h.1⟩

/-- **suicide_to_self_burns.** Why the statement says "at most": SELFDESTRUCT with the contract itself as beneficiary
    credits the balance and then zeroes the account — the coins are gone. -/
theorem suicide_to_self_burns : ∃ (s : SState) (a : Addr), total (suicide s a a).bal < total s.bal :=
  ⟨{ bal := [(1, 5), (2, 7)], suicided := [] }, 1, by decide⟩

example : total (runOps { cur := { bal := [(1, 5), (2, 7)], suicided := [] }, snaps := [] }
    [.snapshot, .transfer 1 2 3, .suicide 2 3, .snapshot, .transfer 3 1 4, .revert 1, .createAccount 2]).cur.bal = 12 := by decide
example : total (runOps { cur := { bal := [(1, 5), (2, 7)], suicided := [] }, snaps := [] }
    [.snapshot, .suicide 2 2, .revert 0]).cur.bal = 12 := by decide
example : total (finalise (runOps { cur := { bal := [(1, 5), (2, 7)], suicided := [] }, snaps := [] }
    [.suicide 2 3, .transfer 1 2 4]).cur).bal = 8 := by decide   -- value sent to an account after it self-destructed is deleted with it

/-! ## one transaction -/

/-- **tx_conserves.** The fee machinery is balanced: what `buyGas` takes (gasLimit·price) is exactly what `refundGas` and the
    fee credit give back, for every gasUsed / refund — so a transaction changes Σ by exactly what its EVM run changed it. -/
theorem tx_conserves {ρ : Type} {env : Env ρ} (hE : EvmOk env) {m : Msg} {gp : Nat} {w : World ρ} {r : TxOk ρ}
    (h : transitionDb env m gp w = .ok r) :
    ∃ ig, intrinsicGas m.data m.to.isNone env.homestead = some ig ∧
      total r.world.bal = total (evmOut env m w ig).world.bal + m.gas * m.gasPrice ∧
      total (preWorld m w).bal + m.gas * m.gasPrice = total w.bal ∧
      r.world.rest = (evmOut env m w ig).world.rest := by
  obtain ⟨_, hb, _, ig, hig, hle, _, rfl⟩ := transitionDb_ok h
  obtain ⟨_, g2, _, _, _⟩ := C06.gas_facts hE m w hle
  refine ⟨ig, hig, ?_, preWorld_total m w hb, by simp⟩
  simp only []
  rw [total_addBal, total_addBal]
  have : gasBack env m w ig * m.gasPrice + (m.gas - (m.gas - gasBack env m w ig)) * m.gasPrice = gasBack env m w ig * m.gasPrice + gasBack env m w ig * m.gasPrice := by
    congr 2; omega
  have e : gasBack env m w ig * m.gasPrice + (m.gas - gasBack env m w ig) * m.gasPrice = m.gas * m.gasPrice := by
    rw [← Nat.add_mul]; congr 1; omega
  omega

/-- an EVM that never increases Σ (whatever the reason). -/
def SupplyEvm (env : Env (List Addr)) : Prop := ∀ m g w, total (env.run m g w).world.bal ≤ total w.bal

/-- a trace EVM is one, by `prim_trace_nonincreasing`. -/
theorem traceEvm_supplyEvm {env : Env (List Addr)} (hT : TraceEvm env) : SupplyEvm env := by
  intro m g w
  obtain ⟨ops, hb, _⟩ := hT m g w
  rw [hb]; exact (prim_trace_nonincreasing (toS w) ops).1

theorem tx_supply_nonincreasing_of_supplyEvm {env : Env (List Addr)} (hE : EvmOk env) (hS : SupplyEvm env) {m : Msg} {gp : Nat} {w : SWorld}
    {r : TxOk (List Addr)} (h : transitionDb env m gp w = .ok r) :
    total r.world.bal ≤ total w.bal ∧ total (finWorld r.world).bal ≤ total w.bal := by
  obtain ⟨ig, _, h1, h2, _⟩ := tx_conserves hE h
  have h4 : total (evmOut env m w ig).world.bal ≤ total (preWorld m w).bal := hS m (m.gas - ig) (preWorld m w)
  have h5 : total r.world.bal ≤ total w.bal := by omega
  exact ⟨h5, Nat.le_trans (total_finalise_le _) h5⟩

/-- **tx_supply_nonincreasing.** With an EVM whose balance effects are a word over the alphabet, a whole transaction
    (buy gas, execute, refund, pay the fee, Finalise) never increases Σ. -/
theorem tx_supply_nonincreasing {env : Env (List Addr)} (hE : EvmOk env) (hT : TraceEvm env) {m : Msg} {gp : Nat} {w : SWorld} {r : TxOk (List Addr)}
    (h : transitionDb env m gp w = .ok r) :
    total r.world.bal ≤ total w.bal ∧ total (finWorld r.world).bal ≤ total w.bal :=
  tx_supply_nonincreasing_of_supplyEvm hE (traceEvm_supplyEvm hT) h

/-- an EVM that conserves Σ exactly and leaves no suicide marks when started without marks. -/
def ExactEvm (env : Env (List Addr)) : Prop :=
  ∀ m g w, w.rest = [] → total (env.run m g w).world.bal = total w.bal ∧ (env.run m g w).world.rest = []

theorem traceEvmNoSuicide_exactEvm {env : Env (List Addr)} (hT : TraceEvmNoSuicide env) : ExactEvm env := by
  intro m g w hw
  obtain ⟨ops, hno, hb, hr⟩ := hT m g w
  obtain ⟨e1, e2, _⟩ := prim_trace_exact_without_selfdestruct (toS w) (by simp only [toS]; exact hw) ops hno
  exact ⟨by rw [hb]; exact e1, by rw [hr]; exact e2⟩

theorem tx_supply_exact_of_exactEvm {env : Env (List Addr)} (hE : EvmOk env) (hX : ExactEvm env) {m : Msg} {gp : Nat} {w : SWorld}
    {r : TxOk (List Addr)} (h : transitionDb env m gp w = .ok r) (hw : w.rest = []) :
    total (finWorld r.world).bal = total w.bal ∧ (finWorld r.world).rest = [] := by
  obtain ⟨ig, _, h1, h2, hrest⟩ := tx_conserves hE h
  obtain ⟨h4, h5'⟩ := hX m (m.gas - ig) (preWorld m w) (by rw [preWorld_rest]; exact hw)
  have h4' : total (evmOut env m w ig).world.bal = total (preWorld m w).bal := h4
  have h5 : r.world.rest = [] := by rw [hrest]; exact h5'
  refine ⟨?_, rfl⟩
  simp only [finWorld]
  rw [finalise_nil _ (by simp only [toS]; exact h5)]
  simp only [toS]; omega

/-- … and conserves it exactly when the EVM never self-destructs (and nothing was marked before). -/
theorem tx_supply_exact {env : Env (List Addr)} (hE : EvmOk env) (hT : TraceEvmNoSuicide env) {m : Msg} {gp : Nat} {w : SWorld} {r : TxOk (List Addr)}
    (h : transitionDb env m gp w = .ok r) (hw : w.rest = []) :
    total (finWorld r.world).bal = total w.bal ∧ (finWorld r.world).rest = [] :=
  tx_supply_exact_of_exactEvm hE (traceEvmNoSuicide_exactEvm hT) h hw

/-! ## rewards and hard fork 4 -/

/-- **reward_exact.** `accumulateRewards` adds exactly the scheduled issuance to Σ: below the cut-off height the block reward,
    (u + 8 − h)·R/8 for each uncle's miner and R/32 per uncle for the miner; from the cut-off on, nothing. -/
theorem reward_exact (h : Nat) (coinbase : Addr) (uncles : List Uncle) (w : SWorld) :
    total (accumulateRewards h coinbase uncles w).bal = total w.bal + issuance h uncles := by
  unfold accumulateRewards issuance
  split
  · rw [total_addBal, total_payUncles]; omega
  · rfl

/-- **issuance_schedule** (T-gen). The constants of the compiled packages are the ones of the statement: 1 AQUA = 10¹⁸ wei per
    block, cut-off at height 42,000,000, uncle divisor 8, nephew divisor 32. -/
theorem issuance_schedule :
    Gen.Supply.blockReward = 1000000000000000000 ∧ Gen.Supply.maxMoney = 42000000 ∧ Gen.Supply.big8 = 8 ∧ Gen.Supply.big32 = 32 := by
  decide

/-- the issuance in the words of the statement. -/
theorem issuance_formula (h : Nat) (uncles : List Uncle) :
    issuance h uncles =
      if h < 42000000 then
        1000000000000000000 + 31250000000000000 * uncles.length + uncleSum h uncles
      else 0 := by
  unfold issuance
  have e1 : Gen.Supply.maxMoney = 42000000 := rfl
  have e2 : nephewReward = 31250000000000000 := by decide
  have e3 : Gen.Supply.blockReward = 1000000000000000000 := rfl
  by_cases hh : h < 42000000
  · rw [if_pos hh, if_pos (by rw [e1]; exact hh), e2, e3]
  · rw [if_neg hh, if_neg (by rw [e1]; exact hh)]

theorem uncleReward_formula (h u : Nat) : uncleReward h u = 1000000000000000000 * (u + 8 - h) / 8 := by
  unfold uncleReward; simp only [Gen.Supply.blockReward, Gen.Supply.big8]

/-- **cutoff_is_maxMoney** (T-gen). The height found by bisection on the compiled `accumulateRewards` (first height that pays
    nothing) is `params.MaxMoney`. -/
theorem cutoff_is_maxMoney : Gen.Supply.cutoff = Gen.Supply.maxMoney := by decide

/-- replay of one probe of the compiled function on the model: miner 1000, miner of uncle i = 2000 + i. -/
def probeOk (p : Nat × List Nat × List Nat) : Bool :=
  let (h, us, paid) := p
  let uncles : List Uncle := (List.range us.length).zip us |>.map (fun (i, u) => (u, 2000 + i))
  let w := accumulateRewards h 1000 uncles { bal := [], nonce := [], rest := [] }
  paid == (lookup w.bal 1000 :: (List.range us.length).map (fun i => lookup w.bal (2000 + i)))

/-- **issuance_matches_probes** (T-gen). The model's `accumulateRewards` reproduces every probe dumped from the compiled
    function (heights 1 … 2·MaxMoney, 0–2 uncles at distances 0 … 8 and beyond the block itself). -/
theorem issuance_matches_probes : Gen.Supply.probes.all probeOk = true := by decide

/-- **hf4_only_lowers.** Hard fork 4 zeroes the listed accounts: no balance grows, the listed ones end at zero, Σ does not grow. -/
theorem hf4_only_lowers (dealloc : List Addr) (w : SWorld) :
    total (applyHF4 dealloc w).bal ≤ total w.bal ∧
    (∀ a, lookup (applyHF4 dealloc w).bal a ≤ lookup w.bal a) ∧
    (∀ a ∈ dealloc, lookup (applyHF4 dealloc w).bal a = 0) ∧
    (∀ a, a ∉ dealloc → lookup (applyHF4 dealloc w).bal a = lookup w.bal a) ∧
    (applyHF4 dealloc w).nonce = w.nonce ∧ (applyHF4 dealloc w).rest = w.rest :=
  ⟨total_zeroAll_le _ _, fun a => lookup_zeroAll_le _ _ a, fun a ha => lookup_zeroAll_mem _ _ a ha,
   fun a ha => lookup_zeroAll_not_mem _ _ a ha, rfl, rfl⟩

example : total (applyHF4 [1, 3] { bal := [(1, 5), (2, 7)], nonce := [], rest := [] }).bal = 7 := by decide

/-- **hf5_is_noop.** `misc.ApplyHardFork5` as written (it calls the getter `StateDB.Empty` on every listed account) leaves the
    state — every balance, nonce and mark — exactly as it was. A change that makes it "remove the presale accounts" (as its
    doc comment says) breaks this obligation, the call-site inventory (`sites_eq_alphabet`) and the block sums of the harness. -/
theorem hf5_is_noop (dealloc : List Addr) (w : SWorld) : applyHF5 dealloc w = w := by
  induction dealloc generalizing w with
  | nil => rfl
  | cons a as ih => simp only [applyHF5]; exact ih w

/-- the hard-fork edits are the HF4 zeroing only. -/
theorem hardForkEdits_eq (c : BlockCtx) (w : SWorld) :
    hardForkEdits c w = if c.hf4Height = some c.height then applyHF4 c.dealloc w else w := by
  unfold hardForkEdits
  simp only [hf5_is_noop]
  split <;> rfl

example : (applyHF5 [5, 6] { bal := [(5, 77), (6, 1)], nonce := [], rest := [] }).bal = [(5, 77), (6, 1)] := by decide

/-! ## whole blocks -/

theorem processTxs_supply_le {env : Env (List Addr)} (hE : EvmOk env) (hT : SupplyEvm env) (hfin : env.fin = finWorld)
    (ms : List Msg) (gp : Nat) (w : SWorld) (used : Nat) {b : BlockOk (List Addr)}
    (h : processTxs env ms gp w used = .ok b) : total b.world.bal ≤ total w.bal := by
  induction ms generalizing gp w used b with
  | nil => simp only [processTxs] at h; cases h; exact Nat.le_refl _
  | cons m ms ih =>
    simp only [processTxs] at h
    cases ha : applyTransaction env m gp w used with
    | error e => rw [ha] at h; cases h
    | ok a =>
      rw [ha] at h; dsimp only at h
      cases hb : processTxs env ms a.gp a.world a.usedGas with
      | error e => rw [hb] at h; cases h
      | ok b' =>
        rw [hb] at h; cases h
        obtain ⟨r, hr, _, _, _, _, _, _, _, hw⟩ := C06.receipt_fields ha
        have h1 := (tx_supply_nonincreasing_of_supplyEvm hE hT hr).2
        have h2 := ih a.gp a.world a.usedGas hb
        rw [hw, hfin] at h2
        exact Nat.le_trans h2 h1

theorem processTxs_supply_eq {env : Env (List Addr)} (hE : EvmOk env) (hT : ExactEvm env) (hfin : env.fin = finWorld)
    (ms : List Msg) (gp : Nat) (w : SWorld) (used : Nat) (hw0 : w.rest = []) {b : BlockOk (List Addr)}
    (h : processTxs env ms gp w used = .ok b) : total b.world.bal = total w.bal := by
  induction ms generalizing gp w used b with
  | nil => simp only [processTxs] at h; cases h; rfl
  | cons m ms ih =>
    simp only [processTxs] at h
    cases ha : applyTransaction env m gp w used with
    | error e => rw [ha] at h; cases h
    | ok a =>
      rw [ha] at h; dsimp only at h
      cases hb : processTxs env ms a.gp a.world a.usedGas with
      | error e => rw [hb] at h; cases h
      | ok b' =>
        rw [hb] at h; cases h
        obtain ⟨r, hr, _, _, _, _, _, _, _, hw⟩ := C06.receipt_fields ha
        obtain ⟨h1, h1r⟩ := tx_supply_exact_of_exactEvm hE hT hr hw0
        have h2 := ih a.gp a.world a.usedGas (by rw [hw, hfin]; exact h1r) hb
        rw [hw, hfin] at h2
        exact h2.trans h1

/-- **block_supply_bound.** Applying a block — hard fork 4 at its height, any transactions over any bytecode, Finalise after
    each, then the rewards — changes Σ balances by at most the issuance scheduled for (height, uncles). -/
theorem block_supply_bound_of_supplyEvm {env : Env (List Addr)} (hE : EvmOk env) (hT : SupplyEvm env) (hfin : env.fin = finWorld)
    (c : BlockCtx) (txs : List Msg) (w : SWorld) {b : BlockOk (List Addr)} (h : processBlock env c txs w = .ok b) :
    total b.world.bal ≤ total w.bal + issuance c.height c.uncles := by
  unfold processBlock process at h
  simp only [hardForkEdits_eq] at h
  cases hg : addGas 0 c.gasLimit with
  | none => rw [hg] at h; cases h
  | some gp =>
    rw [hg] at h; dsimp only at h
    cases hp : processTxs env txs gp (if c.hf4Height = some c.height then applyHF4 c.dealloc w else w) 0 with
    | error e => rw [hp] at h; cases h
    | ok b' =>
      rw [hp] at h; cases h
      simp only []
      rw [reward_exact]
      have h1 := processTxs_supply_le hE hT hfin txs gp _ 0 hp
      have h2 : total (if c.hf4Height = some c.height then applyHF4 c.dealloc w else w).bal ≤ total w.bal := by
        split
        · exact (hf4_only_lowers c.dealloc w).1
        · exact Nat.le_refl _
      omega

theorem block_supply_bound {env : Env (List Addr)} (hE : EvmOk env) (hT : TraceEvm env) (hfin : env.fin = finWorld)
    (c : BlockCtx) (txs : List Msg) (w : SWorld) {b : BlockOk (List Addr)} (h : processBlock env c txs w = .ok b) :
    total b.world.bal ≤ total w.bal + issuance c.height c.uncles :=
  block_supply_bound_of_supplyEvm hE (traceEvm_supplyEvm hT) hfin c txs w h

theorem block_supply_exact_of_exactEvm {env : Env (List Addr)} (hE : EvmOk env) (hT : ExactEvm env) (hfin : env.fin = finWorld)
    (c : BlockCtx) (txs : List Msg) (w : SWorld) (hw0 : w.rest = []) {b : BlockOk (List Addr)} (h : processBlock env c txs w = .ok b) :
    total b.world.bal =
      total (if c.hf4Height = some c.height then applyHF4 c.dealloc w else w).bal + issuance c.height c.uncles ∧
    (c.hf4Height ≠ some c.height → total b.world.bal = total w.bal + issuance c.height c.uncles) := by
  unfold processBlock process at h
  simp only [hardForkEdits_eq] at h
  cases hg : addGas 0 c.gasLimit with
  | none => rw [hg] at h; cases h
  | some gp =>
    rw [hg] at h; dsimp only at h
    cases hp : processTxs env txs gp (if c.hf4Height = some c.height then applyHF4 c.dealloc w else w) 0 with
    | error e => rw [hp] at h; cases h
    | ok b' =>
      rw [hp] at h; cases h
      simp only []
      rw [reward_exact]
      have hr : (if c.hf4Height = some c.height then applyHF4 c.dealloc w else w).rest = [] := by
        split
        · exact hw0
        · exact hw0
      have h1 := processTxs_supply_eq hE hT hfin txs gp _ 0 hr hp
      refine ⟨by omega, fun hne => ?_⟩
      rw [if_neg hne] at h1
      omega

/-- **block_supply_exact_without_selfdestruct.** If no contract self-destructs in the block, Σ grows by exactly the issuance
    (relative to the state after the one-time HF4 zeroing, when the block is the HF4 block; HF5 changes nothing). -/
theorem block_supply_exact_without_selfdestruct {env : Env (List Addr)} (hE : EvmOk env) (hT : TraceEvmNoSuicide env) (hfin : env.fin = finWorld)
    (c : BlockCtx) (txs : List Msg) (w : SWorld) (hw0 : w.rest = []) {b : BlockOk (List Addr)} (h : processBlock env c txs w = .ok b) :
    total b.world.bal =
      total (if c.hf4Height = some c.height then applyHF4 c.dealloc w else w).bal + issuance c.height c.uncles ∧
    (c.hf4Height ≠ some c.height → total b.world.bal = total w.bal + issuance c.height c.uncles) :=
  block_supply_exact_of_exactEvm hE (traceEvmNoSuicide_exactEvm hT) hfin c txs w hw0 h

/-- **block_supply_bound_hf4.** At the HF4 block the bound tightens by what was zeroed: Σ' ≤ Σ(after zeroing) + issuance ≤ Σ + issuance. -/
theorem block_supply_bound_hf4 {env : Env (List Addr)} (hE : EvmOk env) (hT : TraceEvm env) (hfin : env.fin = finWorld)
    (c : BlockCtx) (txs : List Msg) (w : SWorld) (hhf : c.hf4Height = some c.height) {b : BlockOk (List Addr)} (h : processBlock env c txs w = .ok b) :
    total b.world.bal ≤ total (applyHF4 c.dealloc w).bal + issuance c.height c.uncles ∧
    total (applyHF4 c.dealloc w).bal ≤ total w.bal := by
  refine ⟨?_, (hf4_only_lowers c.dealloc w).1⟩
  unfold processBlock process at h
  simp only [hardForkEdits_eq] at h
  cases hg : addGas 0 c.gasLimit with
  | none => rw [hg] at h; cases h
  | some gp =>
    rw [hg] at h; dsimp only at h
    rw [if_pos hhf] at h
    cases hp : processTxs env txs gp (applyHF4 c.dealloc w) 0 with
    | error e => rw [hp] at h; cases h
    | ok b' =>
      rw [hp] at h; cases h
      simp only []
      rw [reward_exact]
      have h1 := processTxs_supply_le hE (traceEvm_supplyEvm hT) hfin txs gp _ 0 hp
      omega

/-! ## nothing else writes balances (T-gen inventory) -/

/-- **sites_eq_alphabet** (T-gen). Every mention of AddBalance / SubBalance / SetBalance / Suicide / CreateAccount outside
    core/state (go/ast inventory of the tree under test) is one of the modelled sites; a new balance mutator anywhere breaks this. -/
theorem sites_eq_alphabet : Gen.Supply.balanceMutatorSites = modelledSites := by rfl

/-- **state_writers_eq** (T-gen). Inside core/state the functions that write a balance are exactly the mutators of the alphabet
    and their journal undo entries. -/
theorem state_writers_eq : Gen.Supply.stateBalanceWriters = modelledStateWriters := by rfl

/-! ## non-vacuity: a trace EVM that obeys all the hypotheses -/

/-- an EVM that performs the top-level transfer (to account 9 for creations) and then lets the callee self-destruct to itself
    when `burn` is set: a word over the alphabet. -/
def demoEnv (cb : Addr) (burn : Bool) : Env (List Addr) :=
  { run := fun m g w =>
      if lookup w.bal m.sender < m.value then { world := w, gasLeft := g, err := some .insufficientBalance }
      else
        let t := m.to.getD 9
        let M := runOps { cur := toS w, snaps := [] } ([.snapshot, .transfer m.sender t m.value] ++ (if burn then [.suicide t t] else []))
        { world := { w with bal := M.cur.bal, rest := M.cur.suicided }, gasLeft := g, err := none }
    refund := fun _ => 0, fin := finWorld, coinbase := cb, homestead := true, byzantium := true }

theorem demoEnv_ok (cb : Addr) (burn : Bool) : EvmOk (demoEnv cb burn) := by
  constructor
  · intro m g w; simp only [demoEnv]; split <;> exact Nat.le_refl _
  · intro m g w; simp only [demoEnv]; split
    · next h => simp [h]
    · next h => simp [h]
  · intro m g w e _ herr hne; simp only [demoEnv] at herr; split at herr
    · cases herr; exact absurd rfl hne
    · cases herr
  · intro _ m g w e _ herr hne; simp only [demoEnv] at herr; split at herr
    · cases herr; exact absurd rfl hne
    · cases herr

theorem demoEnv_trace (cb : Addr) (burn : Bool) : TraceEvm (demoEnv cb burn) := by
  intro m g w
  simp only [demoEnv]
  split
  · exact ⟨[], rfl, rfl⟩
  · exact ⟨_, rfl, rfl⟩

theorem demoEnv_trace_nosuicide (cb : Addr) : TraceEvmNoSuicide (demoEnv cb false) := by
  intro m g w
  simp only [demoEnv]
  split
  · exact ⟨[], fun _ h => (by cases h), rfl, rfl⟩
  · refine ⟨[.snapshot, .transfer m.sender (m.to.getD 9) m.value], ?_, rfl, rfl⟩
    intro op hop
    simp only [List.mem_cons, List.not_mem_nil, or_false] at hop
    rcases hop with h | h <;> rw [h] <;> rfl

def w0 : SWorld := { bal := [(1, 1000000), (2, 50), (5, 77)], nonce := [(1, 5)], rest := [] }
def m0 : Msg := { sender := 1, to := some 3, nonce := 5, checkNonce := true, gasPrice := 2, gas := 30000, value := 100, data := [] }
def c0 : BlockCtx := { height := 10, coinbase := 2, uncles := [(9, 7), (4, 8)], hf4Height := some 10, dealloc := [5, 6], gasLimit := 100000 }

def sumAfter (x : Except TxErr (BlockOk (List Addr))) : Option Nat :=
  match x with
  | .ok b => some (total b.world.bal)
  | .error _ => none

-- a block at the HF4 height with two uncles, no self-destruct: Σ = Σ − 77 (zeroed) + R + 7R/8 + 2R/8 + 2·R/32, exactly
example : sumAfter (processBlock (demoEnv 2 false) c0 [m0] w0) =
    some (1000127 - 77 + (1000000000000000000 + 875000000000000000 + 250000000000000000 + 2 * 31250000000000000)) := by decide
-- the same block when the callee self-destructs to itself: the 100 wei it received are burnt
example : sumAfter (processBlock (demoEnv 2 true) c0 [m0] w0) =
    some (1000127 - 77 - 100 + (1000000000000000000 + 875000000000000000 + 250000000000000000 + 2 * 31250000000000000)) := by decide
-- at the cut-off height nothing is issued
example : sumAfter (processBlock (demoEnv 2 false) { c0 with height := 42000000, hf4Height := none, uncles := [] } [m0] w0) = some 1000127 := by decide
example : issuance 41999999 [] = 1000000000000000000 ∧ issuance 42000000 [(41999999, 1)] = 0 := by decide

/-! ## over the modelled interpreter (C07): the machine's run is a trace over the alphabet -/

open Aqv.TxVm in
/-- every effect function of an oracle entry acts on balances as some finite word over the alphabet (which word may depend on
    the world it is applied to). This is the semantic content of "opcodes reach balances only through the inventoried sites"
    (`sites_eq_alphabet` checks it syntactically): SSTORE/LOG/AddRefund/SetNonce/SetCode effects are the empty word, the
    transfer legs of CALL/CREATE are `transfer`, CreateAccount is `createAccount`, SELFDESTRUCT is `suicide`. -/
def AlphabetEffect (f : SWorld → SWorld) : Prop :=
  ∀ w, ∃ ops : List Op, (f w).bal = (runOps { cur := toS w, snaps := [] } ops).cur.bal

def AlphabetOracle (o : Nat → Vm.StepIn SWorld) : Prop :=
  ∀ t, AlphabetEffect (o t).eff ∧ AlphabetEffect (o t).gasEff ∧ AlphabetEffect (o t).neutralEff ∧ AlphabetEffect (o t).xferEff ∧
    AlphabetEffect (o t).nonceEff ∧ AlphabetEffect (o t).setCodeEff

theorem alphabetEffect_le {f : SWorld → SWorld} (hf : AlphabetEffect f) (B : Nat) (w : SWorld) (hw : total w.bal ≤ B) :
    total (f w).bal ≤ B := by
  obtain ⟨ops, h⟩ := hf w
  rw [h]; exact Nat.le_trans (prim_trace_nonincreasing (toS w) ops).1 hw

theorem alphabetOracle_effOk {o : Nat → Vm.StepIn SWorld} (hA : AlphabetOracle o) (B : Nat) :
    TxVm.EffOk (fun w : SWorld => total w.bal ≤ B) o := by
  intro t w hw
  obtain ⟨a1, a2, a3, a4, a5, a6⟩ := hA t
  exact ⟨alphabetEffect_le a1 B w hw, alphabetEffect_le a2 B w hw, alphabetEffect_le a3 B w hw, alphabetEffect_le a4 B w hw,
    alphabetEffect_le a5 B w hw, alphabetEffect_le a6 B w hw⟩

/-- **vm_run_supply_nonincreasing.** The C07 machine — `Interpreter.Run` on any frame, with any oracle (program, inputs,
    state answers) whose effects are words over the alphabet, from any StateDB whose current world and live snapshots hold at
    most B — ends in a StateDB whose current world and live snapshots hold at most B: the interleaving of the effects with the
    machine's own snapshots and reverts is again a trace over the alphabet, and `prim_trace_nonincreasing` is program independent.
    Same for `evm.Call` and `evm.Create` at depth 0 from a fresh journal: Σ after ≤ Σ before. -/
theorem vm_run_supply_nonincreasing (venv : Vm.Env) (o : Nat → Vm.StepIn SWorld) (hA : AlphabetOracle o) (B : Nat) :
    (∀ fuel fr db t, TxVm.DbInv (fun w : SWorld => total w.bal ≤ B) db →
      TxVm.DbInv (fun w : SWorld => total w.bal ≤ B) (Vm.run venv o fuel fr db t).db) ∧
    (∀ fuel k gas v (w : SWorld), total w.bal ≤ B → total (Vm.topCall venv o fuel k gas v ⟨w, [], 0⟩).db.cur.bal ≤ B) ∧
    (∀ fuel gas (w : SWorld), total w.bal ≤ B → total (Vm.topCreate venv o fuel gas ⟨w, [], 0⟩).db.cur.bal ≤ B) := by
  have hO := alphabetOracle_effOk hA B
  refine ⟨fun fuel fr db t h => TxVm.run_inv venv hO fuel fr db t h, fun fuel k gas v w hw => ?_, fun fuel gas w hw => ?_⟩
  · exact (TxVm.topCall_inv venv hO fuel k gas v (db := ⟨w, [], 0⟩) ⟨hw, fun _ h => by cases h⟩).cur
  · exact (TxVm.topCreate_inv venv hO fuel gas (db := ⟨w, [], 0⟩) ⟨hw, fun _ h => by cases h⟩).cur

/-- the C06 environment over the machine never increases Σ. -/
theorem vmEnv_supplyEvm (venv : Vm.Env) (orc : TxVm.Oracle (List Addr)) (hA : ∀ m g w, AlphabetOracle (orc m g w))
    (refund : SWorld → Nat) (cb : Addr) : SupplyEvm (TxVm.vmEnv venv orc refund finWorld cb) := by
  intro m g w
  show total (TxVm.machine venv orc m g w).db.cur.bal ≤ total w.bal
  unfold TxVm.machine
  cases m.to with
  | none => exact (vm_run_supply_nonincreasing venv _ (hA m g w) (total w.bal)).2.2 _ _ w (Nat.le_refl _)
  | some t => exact (vm_run_supply_nonincreasing venv _ (hA m g w) (total w.bal)).2.1 _ _ _ _ w (Nat.le_refl _)

/-- **tx_supply_nonincreasing_over_vm.** `TransitionDb` over the modelled interpreter (no `EvmOk`, no `TraceEvm` hypothesis):
    buy gas, run the C07 machine, refund, pay the fee, Finalise — Σ never increases. -/
theorem tx_supply_nonincreasing_over_vm (venv : Vm.Env) (hE : Vm.EnvOK venv) (orc : TxVm.Oracle (List Addr)) (hO : TxVm.OracleOk orc)
    (hA : ∀ m g w, AlphabetOracle (orc m g w)) (refund : SWorld → Nat) (cb : Addr) {m : Msg} {gp : Nat} {w : SWorld} {r : TxOk (List Addr)}
    (h : transitionDb (TxVm.vmEnv venv orc refund finWorld cb) m gp w = .ok r) :
    total r.world.bal ≤ total w.bal ∧ total (finWorld r.world).bal ≤ total w.bal :=
  tx_supply_nonincreasing_of_supplyEvm (TxVm.vmEnv_ok venv hE orc hO refund finWorld cb) (vmEnv_supplyEvm venv orc hA refund cb) h

/-- **block_supply_bound_over_vm.** Whole blocks over the modelled interpreter: Σ' ≤ Σ + issuance. -/
theorem block_supply_bound_over_vm (venv : Vm.Env) (hE : Vm.EnvOK venv) (orc : TxVm.Oracle (List Addr)) (hO : TxVm.OracleOk orc)
    (hA : ∀ m g w, AlphabetOracle (orc m g w)) (refund : SWorld → Nat) (c : BlockCtx) (txs : List Msg) (w : SWorld)
    {b : BlockOk (List Addr)} (h : processBlock (TxVm.vmEnv venv orc refund finWorld c.coinbase) c txs w = .ok b) :
    total b.world.bal ≤ total w.bal + issuance c.height c.uncles :=
  block_supply_bound_of_supplyEvm (TxVm.vmEnv_ok venv hE orc hO refund finWorld c.coinbase) (vmEnv_supplyEvm venv orc hA refund c.coinbase) rfl c txs w h

/-- … a word without the letter `suicide` (and the effect reports the marks of the word's final state). -/
def AlphabetEffectNoSuicide (f : SWorld → SWorld) : Prop :=
  ∀ w, ∃ ops : List Op, (∀ op ∈ ops, op.isSuicide = false) ∧
    (f w).bal = (runOps { cur := toS w, snaps := [] } ops).cur.bal ∧ (f w).rest = (runOps { cur := toS w, snaps := [] } ops).cur.suicided

def AlphabetOracleNoSuicide (o : Nat → Vm.StepIn SWorld) : Prop :=
  ∀ t, AlphabetEffectNoSuicide (o t).eff ∧ AlphabetEffectNoSuicide (o t).gasEff ∧ AlphabetEffectNoSuicide (o t).neutralEff ∧
    AlphabetEffectNoSuicide (o t).xferEff ∧ AlphabetEffectNoSuicide (o t).nonceEff ∧ AlphabetEffectNoSuicide (o t).setCodeEff

theorem alphabetEffectNoSuicide_conserves {f : SWorld → SWorld} (hf : AlphabetEffectNoSuicide f) (B : Nat) (w : SWorld)
    (hw : total w.bal = B ∧ w.rest = []) : total (f w).bal = B ∧ (f w).rest = [] := by
  obtain ⟨ops, hno, hb, hr⟩ := hf w
  obtain ⟨e1, e2, _⟩ := prim_trace_exact_without_selfdestruct (toS w) (by simp only [toS]; exact hw.2) ops hno
  exact ⟨by rw [hb, e1]; exact hw.1, by rw [hr]; exact e2⟩

/-- **vm_run_supply_exact_without_selfdestruct.** If no effect word contains `suicide`, any run of the C07 machine keeps
    "Σ = B and no marks" for the current world and every live snapshot; `evm.Call` / `evm.Create` at depth 0 conserve Σ exactly. -/
theorem vm_run_supply_exact_without_selfdestruct (venv : Vm.Env) (o : Nat → Vm.StepIn SWorld) (hA : AlphabetOracleNoSuicide o) (B : Nat) :
    (∀ fuel fr db t, TxVm.DbInv (fun w : SWorld => total w.bal = B ∧ w.rest = []) db →
      TxVm.DbInv (fun w : SWorld => total w.bal = B ∧ w.rest = []) (Vm.run venv o fuel fr db t).db) ∧
    (∀ fuel k gas v (w : SWorld), total w.bal = B → w.rest = [] →
      total (Vm.topCall venv o fuel k gas v ⟨w, [], 0⟩).db.cur.bal = B ∧ (Vm.topCall venv o fuel k gas v ⟨w, [], 0⟩).db.cur.rest = []) ∧
    (∀ fuel gas (w : SWorld), total w.bal = B → w.rest = [] →
      total (Vm.topCreate venv o fuel gas ⟨w, [], 0⟩).db.cur.bal = B ∧ (Vm.topCreate venv o fuel gas ⟨w, [], 0⟩).db.cur.rest = []) := by
  have hO : TxVm.EffOk (fun w : SWorld => total w.bal = B ∧ w.rest = []) o := by
    intro t w hw
    obtain ⟨a1, a2, a3, a4, a5, a6⟩ := hA t
    exact ⟨alphabetEffectNoSuicide_conserves a1 B w hw, alphabetEffectNoSuicide_conserves a2 B w hw, alphabetEffectNoSuicide_conserves a3 B w hw,
      alphabetEffectNoSuicide_conserves a4 B w hw, alphabetEffectNoSuicide_conserves a5 B w hw, alphabetEffectNoSuicide_conserves a6 B w hw⟩
  refine ⟨fun fuel fr db t h => TxVm.run_inv venv hO fuel fr db t h, fun fuel k gas v w hw hr => ?_, fun fuel gas w hw hr => ?_⟩
  · exact (TxVm.topCall_inv venv hO fuel k gas v (db := ⟨w, [], 0⟩) ⟨⟨hw, hr⟩, fun _ h => by cases h⟩).cur
  · exact (TxVm.topCreate_inv venv hO fuel gas (db := ⟨w, [], 0⟩) ⟨⟨hw, hr⟩, fun _ h => by cases h⟩).cur

theorem vmEnv_exactEvm (venv : Vm.Env) (orc : TxVm.Oracle (List Addr)) (hA : ∀ m g w, AlphabetOracleNoSuicide (orc m g w))
    (refund : SWorld → Nat) (cb : Addr) : ExactEvm (TxVm.vmEnv venv orc refund finWorld cb) := by
  intro m g w hw
  show total (TxVm.machine venv orc m g w).db.cur.bal = total w.bal ∧ (TxVm.machine venv orc m g w).db.cur.rest = []
  unfold TxVm.machine
  cases m.to with
  | none => exact (vm_run_supply_exact_without_selfdestruct venv _ (hA m g w) (total w.bal)).2.2 _ _ w rfl hw
  | some t => exact (vm_run_supply_exact_without_selfdestruct venv _ (hA m g w) (total w.bal)).2.1 _ _ _ _ w rfl hw

/-- **block_supply_exact_without_selfdestruct_over_vm.** Whole blocks over the modelled interpreter, no `EvmOk`/`TraceEvm`
    hypothesis: if no effect word of any step contains the letter `suicide`, Σ' = Σ(after the HF4 zeroing, if any) + issuance. -/
theorem block_supply_exact_without_selfdestruct_over_vm (venv : Vm.Env) (hE : Vm.EnvOK venv) (orc : TxVm.Oracle (List Addr)) (hO : TxVm.OracleOk orc)
    (hA : ∀ m g w, AlphabetOracleNoSuicide (orc m g w)) (refund : SWorld → Nat) (c : BlockCtx) (txs : List Msg) (w : SWorld) (hw0 : w.rest = [])
    {b : BlockOk (List Addr)} (h : processBlock (TxVm.vmEnv venv orc refund finWorld c.coinbase) c txs w = .ok b) :
    total b.world.bal =
      total (if c.hf4Height = some c.height then applyHF4 c.dealloc w else w).bal + issuance c.height c.uncles ∧
    (c.hf4Height ≠ some c.height → total b.world.bal = total w.bal + issuance c.height c.uncles) :=
  block_supply_exact_of_exactEvm (TxVm.vmEnv_ok venv hE orc hO refund finWorld c.coinbase) (vmEnv_exactEvm venv orc hA refund c.coinbase) rfl c txs w hw0 h

/-- non-vacuity: an oracle for a callee that is `STOP`, whose call transfers the value to account 3 and whose other effects
    are empty words; under the spring rule set of C07. -/
def stopOrc : TxVm.Oracle (List Addr) := fun m _ w _ =>
  { op := 0, args := [], canTransfer := decide (m.value ≤ lookup w.bal m.sender),
    nonceEff := fun w' => setNonce w' m.sender (nonceInc (lookup w'.nonce m.sender)),
    xferEff := fun w' => { w' with bal := (transfer (toS w') m.sender 3 m.value).bal } }

theorem stopOrc_ok : TxVm.OracleOk stopOrc := ⟨fun _ _ _ => rfl, fun _ _ _ _ => rfl⟩

theorem stopOrc_alphabet (m : Msg) (g : Nat) (w : SWorld) : AlphabetOracle (stopOrc m g w) := by
  intro t
  refine ⟨fun w' => ⟨[], rfl⟩, fun w' => ⟨[], rfl⟩, fun w' => ⟨[], rfl⟩, fun w' => ⟨[.transfer m.sender 3 m.value], rfl⟩,
    fun w' => ⟨[], rfl⟩, fun w' => ⟨[], rfl⟩⟩

example : (match transitionDb (TxVm.vmEnv Props.C07.envSpring stopOrc (fun _ => 0) finWorld 2) m0 100000 w0 with
    | .ok r => some (r.usedGas, r.failed, total r.world.bal, lookup r.world.bal 3) | .error _ => none) = some (21000, false, 1000127, 100) := by decide

/-! ### the run's NET balance effect as ONE word -/

/-- letters that act on the current state only (the machine's own revision stack does the snapshots and reverts). -/
def _root_.Aqv.Supply.Op.isFlat : Op → Bool
  | .snapshot => false
  | .revert _ => false
  | _ => true

theorem runOps_append (M : Machine) (a b : List Op) : runOps M (a ++ b) = runOps (runOps M a) b := by
  induction a generalizing M with
  | nil => rfl
  | cons op ops ih => simp only [List.cons_append, runOps]; exact ih _

theorem step_flat_cur {M M' : Machine} {op : Op} (hf : op.isFlat = true) (h : M.cur = M'.cur) : (step M op).cur = (step M' op).cur := by
  cases op with
  | transfer a b v => simp only [step]; rw [h]
  | suicide a b => simp only [step]; rw [h]
  | createAccount a => simp only [step]; rw [h]
  | snapshot => cases hf
  | revert k => cases hf

theorem runOps_flat_cur (ops : List Op) (hf : ∀ op ∈ ops, op.isFlat = true) {M M' : Machine} (h : M.cur = M'.cur) :
    (runOps M ops).cur = (runOps M' ops).cur := by
  induction ops generalizing M M' with
  | nil => exact h
  | cons op ops ih =>
    simp only [runOps]
    exact ih (fun o ho => hf o (List.mem_cons_of_mem _ ho)) (step_flat_cur (hf op List.mem_cons_self) h)

/-- an effect that is a word of flat letters, on balances AND marks. -/
def FlatEffect (f : SWorld → SWorld) : Prop :=
  ∀ w, ∃ ops : List Op, (∀ op ∈ ops, op.isFlat = true) ∧ toS (f w) = (runOps { cur := toS w, snaps := [] } ops).cur

def FlatOracle (o : Nat → Vm.StepIn SWorld) : Prop :=
  ∀ t, FlatEffect (o t).eff ∧ FlatEffect (o t).gasEff ∧ FlatEffect (o t).neutralEff ∧ FlatEffect (o t).xferEff ∧
    FlatEffect (o t).nonceEff ∧ FlatEffect (o t).setCodeEff

/-- reachable from `s0` by one flat word. -/
def WordFrom (s0 : SState) (w : SWorld) : Prop :=
  ∃ ops : List Op, (∀ op ∈ ops, op.isFlat = true) ∧ toS w = (runOps { cur := s0, snaps := [] } ops).cur

theorem flatEffect_wordFrom {f : SWorld → SWorld} (hf : FlatEffect f) (s0 : SState) (w : SWorld) (hw : WordFrom s0 w) : WordFrom s0 (f w) := by
  obtain ⟨ops, h1, h2⟩ := hw
  obtain ⟨ops', h1', h2'⟩ := hf w
  refine ⟨ops ++ ops', fun op hop => ?_, ?_⟩
  · rcases List.mem_append.mp hop with h | h
    · exact h1 op h
    · exact h1' op h
  · rw [h2', runOps_append]
    exact runOps_flat_cur ops' h1' (M := { cur := toS w, snaps := [] }) (M' := runOps { cur := s0, snaps := [] } ops) h2

/-- **vm_run_is_word.** The NET effect of `evm.Call` / `evm.Create` of the C07 machine on balances and suicide marks — whatever
    the program, however its frames nest, snapshot and revert — is ONE finite word over the alphabet applied to the entry
    state (the machine's reverts only ever return to a world that was itself reached by such a word). -/
theorem vm_run_is_word (venv : Vm.Env) (o : Nat → Vm.StepIn SWorld) (hF : FlatOracle o) (w : SWorld) :
    (∀ fuel k gas v, WordFrom (toS w) (Vm.topCall venv o fuel k gas v ⟨w, [], 0⟩).db.cur) ∧
    (∀ fuel gas, WordFrom (toS w) (Vm.topCreate venv o fuel gas ⟨w, [], 0⟩).db.cur) := by
  have hO : TxVm.EffOk (WordFrom (toS w)) o := by
    intro t w' hw'
    obtain ⟨a1, a2, a3, a4, a5, a6⟩ := hF t
    exact ⟨flatEffect_wordFrom a1 _ w' hw', flatEffect_wordFrom a2 _ w' hw', flatEffect_wordFrom a3 _ w' hw', flatEffect_wordFrom a4 _ w' hw',
      flatEffect_wordFrom a5 _ w' hw', flatEffect_wordFrom a6 _ w' hw'⟩
  have h0 : TxVm.DbInv (WordFrom (toS w)) (⟨w, [], 0⟩ : Vm.Db SWorld) := ⟨⟨[], fun _ h => (by cases h), rfl⟩, fun _ h => by cases h⟩
  exact ⟨fun fuel k gas v => (TxVm.topCall_inv venv hO fuel k gas v h0).cur, fun fuel gas => (TxVm.topCreate_inv venv hO fuel gas h0).cur⟩

/-- the word gives the bound back: a run that is one word cannot increase Σ (`prim_trace_nonincreasing` on the extracted word),
    and conserves it when the word has no `suicide`. -/
theorem wordFrom_supply {s0 : SState} {w : SWorld} (h : WordFrom s0 w) : total w.bal ≤ total s0.bal := by
  obtain ⟨ops, _, h2⟩ := h
  have : w.bal = (runOps { cur := s0, snaps := [] } ops).cur.bal := congrArg SState.bal h2
  rw [this]; exact (prim_trace_nonincreasing s0 ops).1

theorem stopOrc_flat (m : Msg) (g : Nat) (w : SWorld) : FlatOracle (stopOrc m g w) := by
  intro t
  refine ⟨fun w' => ⟨[], fun _ h => (by cases h), rfl⟩, fun w' => ⟨[], fun _ h => (by cases h), rfl⟩, fun w' => ⟨[], fun _ h => (by cases h), rfl⟩,
    fun w' => ⟨[.transfer m.sender 3 m.value], fun op h => (by simp only [List.mem_singleton] at h; rw [h]; rfl), ?_⟩,
    fun w' => ⟨[], fun _ h => (by cases h), rfl⟩, fun w' => ⟨[], fun _ h => (by cases h), rfl⟩⟩
  simp only [stopOrc, toS, runOps, step, transfer]
  by_cases hlt : lookup w'.bal m.sender < m.value <;> simp [hlt]

theorem stopOrc_alphabet_nosuicide (m : Msg) (g : Nat) (w : SWorld) : AlphabetOracleNoSuicide (stopOrc m g w) := by
  intro t
  refine ⟨fun w' => ⟨[], fun _ h => (by cases h), rfl, rfl⟩, fun w' => ⟨[], fun _ h => (by cases h), rfl, rfl⟩, fun w' => ⟨[], fun _ h => (by cases h), rfl, rfl⟩,
    fun w' => ⟨[.transfer m.sender 3 m.value], fun op h => (by simp only [List.mem_singleton] at h; rw [h]; rfl), rfl, ?_⟩,
    fun w' => ⟨[], fun _ h => (by cases h), rfl, rfl⟩, fun w' => ⟨[], fun _ h => (by cases h), rfl, rfl⟩⟩
  simp only [stopOrc, toS, runOps, step, transfer]
  by_cases hlt : lookup w'.bal m.sender < m.value <;> simp [hlt]

-- a block over the real machine, HF4 height, two uncles, no self-destruct: exact
example : sumAfter (processBlock (TxVm.vmEnv Props.C07.envSpring stopOrc (fun _ => 0) finWorld 2) c0 [m0] w0) =
    some (1000127 - 77 + (1000000000000000000 + 875000000000000000 + 250000000000000000 + 2 * 31250000000000000)) := by decide


end Aqv.Props.C05

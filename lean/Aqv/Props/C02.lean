/-
  Property C02 — "The head is always a heaviest fully validated block".

  Model: `Aqv.Model.Chain` — `WriteBlockWithState` (fork choice `externTd > localTd`, exact tie: lower number wins, equal
  number: coin), the import loop `insertChain2` with the known-block and the ErrPrunedAncestor side-chain branches
  (blocks written without state while lighter, re-imported with state when the branch overtakes), Stop+reopen;
  `HeaderChain.WriteHeader` for header-first imports (`>` or tie → coin).  `seen` is the ghost set of blocks that went
  through `WriteBlockWithState` successfully (fully validated).  The theorems quantify over ALL block universes `U`
  (`World U`: any branching, lengths, difficulties), ALL import histories (orders, batchings, re-deliveries, restarts of a
  pruning node) and ALL resolutions of the coin (`coins` inside the operations).
-/
import Aqv.Lemmas.ChainHist
import Aqv.Lemmas.ChainHdr
import Aqv.Lemmas.ChainMixed
namespace Aqv.Props.C02
open Aqv.Chain

variable {U : Map Blk}

/-- an operation of an import history: `InsertChain` of blocks of the universe, or a restart (no rewind) -/
def ImportOk (U : Map Blk) : Op → Prop
  | .insert chain _ => ∀ b ∈ chain, U b.id = some b
  | .setHead _ => False
  | .reopen => True

instance (U : Map Blk) : (op : Op) → Decidable (ImportOk U op)
  | .insert chain _ => inferInstanceAs (Decidable (∀ b ∈ chain, U b.id = some b))
  | .setHead _ => isFalse (fun h => h)
  | .reopen => isTrue trivial

def Imports (U : Map Blk) (ops : List Op) : Prop := ∀ op ∈ ops, ImportOk U op

instance (U : Map Blk) (ops : List Op) : Decidable (Imports U ops) :=
  inferInstanceAs (Decidable (∀ op ∈ ops, ImportOk U op))

theorem good_of_imports (W : World U) (g : Blk) (archive : Bool) (hgU : U g.id = some g) (hg0 : g.number = 0)
    (hgt : g.txs = []) (ops : List Op) (hops : Imports U ops) :
    Admissible U (init g archive) ops ∧ Good U g g.diff (run (init g archive) ops) := by
  apply imports_admissible W ops (good_init g archive hgU hg0 hgt)
  intro op hop
  have := hops op hop
  cases op with
  | insert chain coins => exact ⟨trivial, this⟩
  | setHead n => exact this.elim
  | reopen => exact ⟨trivial, trivial⟩

/-- Every stored block's total difficulty equals its parent's total difficulty plus its own difficulty (the parent of
    every stored block is stored and has a record; the genesis record is its difficulty). -/
theorem td_recurrence (W : World U) (g : Blk) (archive : Bool) (hgU : U g.id = some g) (hg0 : g.number = 0)
    (hgt : g.txs = []) (ops : List Op) (hops : Imports U ops) :
    let s := run (init g archive) ops
    s.td g.id = some g.diff ∧
    ∀ k x, s.store k = some x → x.id ≠ g.id →
      ∃ p tp, parentOf s.store x = some p ∧ s.td p.id = some tp ∧ s.td k = some (tp + x.diff) := by
  intro s
  obtain ⟨_, ⟨hb, C, hI⟩, hcl, _, _, _, hgen⟩ := good_of_imports W g archive hgU hg0 hgt ops hops
  constructor
  · obtain ⟨tg, htg⟩ := Option.isSome_iff_exists.mp (hI.storeTd _ _ (hI.genStored W))
    obtain ⟨x, l, hx, hp, ht⟩ := hI.tdIntr _ _ htg
    rw [hgen] at htg hx hp ht
    rw [hgU] at hx; cases hx
    have : l = [] := by
      have := hp.number
      cases hl : l with
      | nil => rfl
      | cons a l' => rw [hl] at this; simp at this
    subst this
    rw [htg, ht]; simp [diffSum]
  · intro k x hx hne
    obtain ⟨l, hl⟩ := hcl k x hx
    have hxid := hI.storeIds W k x hx
    cases hl with
    | nil => rw [hgen] at hne; exact absurd rfl hne
    | cons hpar hrest =>
      rename_i p l'
      have hps := (parentOf_some hpar).1
      have hpid := hI.storeIds W _ _ hps
      obtain ⟨tp, htp⟩ := Option.isSome_iff_exists.mp (hI.storeTd _ _ hps)
      obtain ⟨tx, htx⟩ := Option.isSome_iff_exists.mp (hI.storeTd _ _ hx)
      have hxU : U x.id = some x := by rw [hxid]; exact hI.sub _ _ hx
      have := hI.tdParent W hxU (parentOf_mono hI.sub hpar) (by rw [hxid]; exact htx) (by rw [hpid]; exact htp)
      exact ⟨p, tp, hpar, by rw [hpid]; exact htp, by rw [htx, this]⟩

/-- the recurrence also holds after rewinds, wherever both records exist -/
theorem td_recurrence_any (W : World U) {s : St} (h : Inv U s) {k : Nat} {x p : Blk} {tx tp : Nat}
    (hx : s.store k = some x) (hpar : parentOf s.store x = some p) (htx : s.td k = some tx)
    (htp : s.td p.id = some tp) : tx = tp + x.diff := by
  obtain ⟨hb, C, hI⟩ := h
  have hxid := hI.storeIds W k x hx
  have hxU : U x.id = some x := by rw [hxid]; exact hI.sub _ _ hx
  exact hI.tdParent W hxU (parentOf_mono hI.sub hpar) (by rw [hxid]; exact htx) htp

/-- After any import history, whatever the coin did, the head is a fully validated block whose total difficulty is
    at least that of every fully validated block. -/
theorem head_is_max (W : World U) (g : Blk) (archive : Bool) (hgU : U g.id = some g) (hg0 : g.number = 0)
    (hgt : g.txs = []) (ops : List Op) (hops : Imports U ops) :
    let s := run (init g archive) ops
    s.seen s.head = true ∧
    ∀ k t, s.seen k = true → s.td k = some t → ∃ th, s.td s.head = some th ∧ t ≤ th := by
  intro s
  obtain ⟨_, ⟨hb, C, hI⟩, _, hmax, _, _, _⟩ := good_of_imports W g archive hgU hg0 hgt ops hops
  refine ⟨?_, hmax⟩
  have := hI.canonSeen hb (by
    rcases hI.path.head_eq with ⟨h1, h2⟩ | ⟨l', h1⟩
    · rw [h2]; simp
    · rw [h1]; simp)
  rwa [hI.headId W] at this

/-- a block that `WriteBlockWithState` accepted is in the fully validated set -/
theorem validated_is_seen (s : St) (b : Blk) (coin : Bool) (h : (writeBlockWithState s b coin).err = none) :
    (writeBlockWithState s b coin).st.seen b.id = true := by
  rcases wbws_cases s b coin with ⟨e, he, _⟩ | ⟨ptd, _, _, _, _, he⟩ | ⟨ptd, s2, cur, lt, _, _, _, _, hs2, he⟩ |
      ⟨ptd, cur, lt, _, _, _, _, he⟩
  · rw [he] at h; cases h
  · rw [he] at h; cases h
  · rw [he]; rw [(afterCanon_fields hs2).2.2.1]; simp
  · rw [he]; simp [afterSide]

/-- in an import history no call ever fails to reorganise: every validated block is accounted for -/
theorem imports_never_fail (W : World U) (g : Blk) (archive : Bool) (hgU : U g.id = some g) (hg0 : g.number = 0)
    (hgt : g.txs = []) (ops : List Op) (hops : Imports U ops) : Admissible U (init g archive) ops :=
  (good_of_imports W g archive hgU hg0 hgt ops hops).1

/-- The head's total difficulty never decreases as further blocks are imported. -/
theorem head_td_monotone (W : World U) (g : Blk) (archive : Bool) (hgU : U g.id = some g) (hg0 : g.number = 0)
    (hgt : g.txs = []) (ops : List Op) (op : Op) (hops : Imports U (ops ++ [op])) :
    let s := run (init g archive) ops
    let s' := (step s op).st
    ∃ th th', s.td s.head = some th ∧ s'.td s'.head = some th' ∧ th ≤ th' := by
  intro s s'
  have hops1 : Imports U ops := fun o ho => hops o (List.mem_append_left _ ho)
  have hop := hops op (by simp)
  obtain ⟨_, hG⟩ := good_of_imports W g archive hgU hg0 hgt ops hops1
  obtain ⟨th, hth, _⟩ := hG.2.2.2.2.1
  have hG' := good_retarget hG hth
  have hstep : Good U g th s' := by
    cases op with
    | insert chain coins =>
      have := stable_importChain W (good_stable W g th) hG' chain hop coins
      exact this.1 (this.2.1 trivial)
    | setHead n => exact hop.elim
    | reopen => exact good_reopen W hG'
  obtain ⟨th', hth', hle⟩ := hstep.2.2.2.2.1
  exact ⟨th, th', hth, hth', hle⟩

/-! ### non-vacuity: a longer-lighter and a shorter-heavier branch, an exact tie resolved both ways -/

def g : Blk := ⟨0, 0, 0, 100, []⟩
def a1 : Blk := ⟨1, 0, 1, 10, [1]⟩
def a2 : Blk := ⟨2, 1, 2, 10, [2]⟩
def a3 : Blk := ⟨3, 2, 3, 10, [3]⟩       -- td 130, height 3
def b1 : Blk := ⟨4, 0, 1, 20, [1]⟩
def b2 : Blk := ⟨5, 4, 2, 20, [4]⟩       -- td 140, height 2: shorter but heavier
def t2 : Blk := ⟨6, 4, 2, 20, []⟩        -- sibling of b2 with the same difficulty: exact tie at equal height
def blocks : List Blk := [g, a1, a2, a3, b1, b2, t2]
def U0 : Map Blk := mapOf blocks

theorem world0 : World U0 := world_of_check (by decide)

def hist (coin : Bool) : List Op :=
  [.insert [b1] [], .insert [a1, a2, a3] [], .reopen, .insert [b2] [], .insert [t2] [[coin]]]

example (coin : Bool) : Imports U0 (hist coin) := by cases coin <;> decide

/-- the shorter-heavier branch wins over the longer-lighter one (arriving child-chain-first, then the long branch, then
    the overtaking block); the exact tie between b2 and t2 resolves either way, and both outcomes satisfy the theorem -/
example :
    (run (init g false) (hist false)).head = 5 ∧ (run (init g false) (hist true)).head = 6 ∧
    (run (init g false) (hist true)).td 6 = some 140 ∧ (run (init g false) (hist true)).td 3 = some 130 := by decide

example (coin : Bool) :
    let s := run (init g false) (hist coin)
    ∀ k t, s.seen k = true → s.td k = some t → ∃ th, s.td s.head = some th ∧ t ≤ th :=
  (head_is_max world0 g false (by decide) rfl rfl (hist coin) (by cases coin <;> decide)).2

/-! ### the header chain (`HeaderChain.WriteHeader`: `>` or exact tie → coin) -/

/-- header chain: every record is the parent's record plus the header's difficulty -/
theorem header_td_recurrence (W : World U) {s : HSt} (h : HInv U s) {x p : Blk} {tx tp : Nat}
    (hx : s.store x.id = some x) (hpar : parentOf s.store x = some p) (htx : s.td x.id = some tx)
    (htp : s.td p.id = some tp) : tx = tp + x.diff := by
  obtain ⟨hb, C, hI⟩ := h
  exact hI.tdParent W (hI.sub _ _ hx) (parentOf_mono hI.sub hpar) htx htp

/-- After any history of header imports, whatever the coin did: no call crashed, every stored header has a record, the
    header head is at least as heavy as every stored header, and its total difficulty is at least the genesis's. -/
theorem header_head_is_max (W : World U) (g : Blk) (hgU : U g.id = some g) (hg0 : g.number = 0) (ops : List HOp)
    (hops : HImports U ops) :
    let s := hrun (hinit g) ops
    HAdmissible U (hinit g) ops ∧
    (∀ k x, s.store k = some x → (s.td k).isSome = true) ∧
    (∀ k t, s.td k = some t → ∃ th, s.td s.hhead = some th ∧ t ≤ th) := by
  intro s
  obtain ⟨ha, ⟨hb, C, hI⟩, _, hm, _⟩ :=
    himports_run W ops ⟨g, [], hinvC_init g hgU hg0⟩ (hclosed_init g) (hmax_init g) hops
  exact ⟨ha, hI.storeTd, hm⟩

/-- the header head's total difficulty never decreases as further headers are imported -/
theorem header_head_td_monotone (W : World U) (g : Blk) (hgU : U g.id = some g) (hg0 : g.number = 0)
    (ops ops' : List HOp) (hops : HImports U (ops ++ ops')) :
    let s := hrun (hinit g) ops
    let s' := hrun s ops'
    ∃ th th', s.td s.hhead = some th ∧ s'.td s'.hhead = some th' ∧ th ≤ th' := by
  intro s s'
  have h1 : HImports U ops := fun o ho => hops o (List.mem_append_left _ ho)
  have h2 : HImports U ops' := fun o ho => hops o (List.mem_append_right _ ho)
  obtain ⟨_, hI, hc, hm, _⟩ := himports_run W ops ⟨g, [], hinvC_init g hgU hg0⟩ (hclosed_init g) (hmax_init g) h1
  obtain ⟨hb, C, hI'⟩ := hI
  obtain ⟨th, hth⟩ := Option.isSome_iff_exists.mp (hI'.storeTd _ _ hI'.headStored)
  obtain ⟨_, _, _, _, hmono⟩ := himports_run W ops' ⟨hb, C, hI'⟩ hc hm h2
  obtain ⟨th', hth', hle⟩ := hmono th hth
  exact ⟨th, th', hth, hth', hle⟩

/-- header-first non-vacuity: the shorter heavier branch wins; the exact tie between b2 and t2 goes either way -/
example :
    (hrun (hinit g) [.insert [a1, a2, a3] [], .insert [b1, b2] [], .insert [t2] [false]]).hhead = 5 ∧
    (hrun (hinit g) [.insert [a1, a2, a3] [], .insert [b1, b2] [], .insert [t2] [true]]).hhead = 6 := by decide

example : HImports U0 [.insert [a1, a2, a3] [], .insert [b1, b2] [], .insert [t2] [true]] := by
  intro op hop
  simp at hop
  rcases hop with rfl | rfl | rfl <;> decide

/-! ### mixed histories: ONE chain fed through `InsertChain` and `InsertHeaderChain`

The two import paths share the `HeaderChain` state (header store, td records, the head header from which `WriteHeader`
takes the local total difficulty).  Model: `Aqv.Model.ChainMixed` (td level; where block imports leave the head header is
an input like the coin).  The theorems hold for every interleaving of block and header batches, every coin and every such
choice. -/

/-- a mixed history: every batch consists of blocks of the universe -/
def Mixed (U : Map Blk) (ops : List MOp) : Prop := ∀ op ∈ ops, MOpOk U op

instance (U : Map Blk) (ops : List MOp) : Decidable (Mixed U ops) :=
  inferInstanceAs (Decidable (∀ op ∈ ops, MOpOk U op))

theorem mrun_append (s : MSt) (a b : List MOp) : mrun s (a ++ b) = mrun (mrun s a) b := by
  induction a generalizing s with
  | nil => rfl
  | cons op a ih => exact ih _

theorem mixed_reachable (W : World U) (g : Blk) (hgU : U g.id = some g) (ops : List MOp) (hops : Mixed U ops) :
    MInv U (mrun (minit g) ops) := (mstep_run W ops (minv_init g hgU) hops).inv

/-- every record is the parent's record plus the difficulty, whichever path wrote it -/
theorem mixed_td_recurrence (W : World U) (g : Blk) (hgU : U g.id = some g) (ops : List MOp) (hops : Mixed U ops) :
    let s := mrun (minit g) ops
    ∀ k x p tx tp, s.hdr k = some x → parentOf s.hdr x = some p → s.td k = some tx → s.td p.id = some tp →
      tx = tp + x.diff := by
  intro s k x p tx tp hx hpar htx htp
  have h := mixed_reachable W g hgU ops hops
  have hxU := h.sub _ _ hx
  have hxid := W.ids _ _ hxU
  obtain ⟨x', lx, hx', hpx, htx'⟩ := h.tdI _ _ htx
  obtain ⟨p', lp, hp', hpp, htp'⟩ := h.tdI _ _ htp
  rw [hxU] at hx'; cases hx'
  have hpU := h.sub _ _ (parentOf_some hpar).1
  rw [W.ids _ _ hpU] at hp'
  rw [hpU] at hp'; cases hp'
  have := (Path.cons (parentOf_mono h.sub hpar) hpp).det hpx rfl
  rw [← this.1] at htx'
  rw [htx', htp', diffSum_cons]
  omega

/-- the head block is a fully validated block at least as heavy as every fully validated block, whatever headers were
    imported in between -/
theorem mixed_head_is_max (W : World U) (g : Blk) (hgU : U g.id = some g) (ops : List MOp) (hops : Mixed U ops) :
    let s := mrun (minit g) ops
    s.blk s.head = true ∧ ∀ k t, s.blk k = true → s.td k = some t → ∃ th, s.td s.head = some th ∧ t ≤ th := by
  intro s
  have h := mixed_reachable W g hgU ops hops
  exact ⟨h.headBlk, h.headMax⟩

/-- the head block's total difficulty never decreases along a mixed history -/
theorem mixed_head_td_monotone (W : World U) (g : Blk) (hgU : U g.id = some g) (ops ops' : List MOp)
    (hops : Mixed U (ops ++ ops')) :
    let s := mrun (minit g) ops
    let s' := mrun (minit g) (ops ++ ops')
    ∃ th th', s.td s.head = some th ∧ s'.td s'.head = some th' ∧ th ≤ th' := by
  intro s s'
  have h1 : Mixed U ops := fun o ho => hops o (List.mem_append_left _ ho)
  have h2 : Mixed U ops' := fun o ho => hops o (List.mem_append_right _ ho)
  have hI := mixed_reachable W g hgU ops h1
  obtain ⟨x, hx⟩ := Option.isSome_iff_exists.mp (hI.blkHdr _ hI.headBlk)
  obtain ⟨th, hth⟩ := Option.isSome_iff_exists.mp (hI.hdrTd _ _ hx)
  obtain ⟨th', hth', hle⟩ := (mstep_run W ops' hI h2).headMono th hth
  refine ⟨th, th', hth, ?_, hle⟩
  have e : s' = mrun (mrun (minit g) ops) ops' := mrun_append _ _ _
  rw [e]; exact hth'

/-- `InsertHeaderChain` at any point of a mixed history: the head block is untouched, the head header's total difficulty
    does not decrease, and afterwards it is at least as heavy as every header the call has newly stored (the local total
    difficulty is that of the CURRENT head header, wherever block imports have put it) -/
theorem mixed_header_import_monotone (W : World U) {s : MSt} (h : MInv U s) (chain : List Blk)
    (hU : ∀ x ∈ chain, U x.id = some x) (coins : List Bool) :
    let s' := (mImportHeaders s chain coins).1.st
    s'.head = s.head ∧
    (∀ th, s.td s.hhead = some th → ∃ th', s'.td s'.hhead = some th' ∧ th ≤ th') ∧
    (∀ k, s.hdr k = none → (s'.hdr k).isSome = true → ∃ t th, s'.td k = some t ∧ s'.td s'.hhead = some th ∧ t ≤ th) := by
  intro s'
  have := mhstep_importHeaders W h chain hU coins
  exact ⟨this.headSame, this.hheadMono, this.newMax⟩

/-- non-vacuity: full blocks of the long branch a1–a2–a3 (td 130), then bare headers of the lighter fork b1 (td 120): the
    head header stays on a3; headers of the heavier fork b1–b2 (td 140) move it to b2 while the head block stays a3 -/
example :
    let follow : List (Bool × Option Nat) := [(false, some 0), (false, some 0), (false, some 0)]  -- head header follows
    let s1 := mrun (minit g) [.blocks [a1, a2, a3] follow, .headers [b1] [true]]
    let s2 := mrun (minit g) [.blocks [a1, a2, a3] follow, .headers [b1, b2] []]
    s1.head = 3 ∧ s1.hhead = 3 ∧ s2.head = 3 ∧ s2.hhead = 5 ∧ s2.td 5 = some 140 := by decide

example : Mixed U0 [.blocks [a1, a2, a3] [], .headers [b1, b2] []] := by decide

/-! ### concurrency: the fork choice has to be made under the lock

The models treat `WriteBlockWithState` as ONE atomic step: the local total difficulty it compares with is that of the head
at the moment the block is written (`bc.mu` is held from before `CurrentBlock()` is read until `insert` returns).  This is
an ASSUMPTION of every theorem above about concurrent callers (`InsertChain` is serialised by `chainmu`, the miner calls
`WriteBlockWithState` directly); the harness ties it to the code with a controlled two-writer schedule.  The witness below
shows what the assumption buys: a writer that sampled the head's total difficulty BEFORE another writer made the heavier
sibling X head, and applies its decision afterwards, reorganises to its lighter block M. -/

/-- a write whose fork-choice decision was sampled in state `old` and is applied in state `s` -/
def staleWrite (old s : MSt) (b : Blk) : MSt :=
  match old.td old.head, s.td b.parent with
  | some sampled, some ptd =>
    let s1 : MSt := { s with td := upd s.td b.id (some (ptd + b.diff)), hdr := upd s.hdr b.id (some b),
                             blk := updB s.blk b.id true }
    if ptd + b.diff > sampled then { s1 with head := b.id, hhead := b.id } else s1
  | _, _ => s

theorem fork_choice_not_atomic_witness :
    let x : Blk := ⟨7, 4, 2, 30, []⟩        -- heavier sibling X of b2 on top of b1 (td 150)
    let s0 := mrun (minit g) [.blocks [b1] []]
    let sX := mrun s0 [.blocks [x] []]
    -- atomic (the model, the code under bc.mu): the lighter b2 (td 140) stays a side block
    (mrun sX [.blocks [b2] []]).head = 7 ∧
    -- decision sampled before X became head, applied after: the head moves to the lighter block, its td decreases
    (staleWrite s0 sX b2).head = 5 ∧ (staleWrite s0 sX b2).td 5 = some 140 ∧ sX.td 7 = some 150 := by decide

end Aqv.Props.C02

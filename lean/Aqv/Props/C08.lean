/-
  C08 — EVM instructions compute what the specification defines.   Property theorems only (helpers: Aqv/Lemmas/Evm*.lean).

  Impl  = Aqv.Model.EvmOps   (core/vm/instructions.go op*, gas_table.go, gas.go, common.go, analysis.go as written, over
                              Int with the math/big fragment of Aqv.Base.Big, and over UInt64 with Go's wrap-around)
          Aqv.Model.EvmSelect (NewInterpreter's epoch switch, ChainConfig.GasTable)
          Aqv.Gen.VmTable     (the five instruction sets, gas constants, fork heights — REGENERATED from the compiled code)
  Spec  = Aqv.Model.EvmSpec   (Yellow Paper: BitVec 256 results, Nat gas formulas, D(c), hand-written opcode tables)

  Every `opX_spec` reads: for ALL 256-bit operands the Go computation returns exactly the specified word.
  Two clauses are falsified by the code as written; for each there is a witness theorem and a `_partial` theorem whose
  excluded operand set is explicit:
    * SAR(shift ≥ 256, value = 0) returns 2^256 − 1                       (sar_zero_witness, opSAR_spec_partial)
    * memoryGasCost wraps uint64 for 2^37−31 … 2^40−32 requested bytes     (memgas_wrap_witness, memoryGasCost_spec_partial)
-/
import Aqv.Lemmas.EvmOps
import Aqv.Lemmas.EvmGas
import Aqv.Lemmas.EvmBitmap
import Aqv.Model.EvmSelect
import Aqv.Lemmas.EvmRun
import Aqv.Lemmas.EvmMemTotal
import Aqv.Lemmas.Translated.Vm
import Aqv.Lemmas.Translated.Params
namespace Aqv.Props.C08
open Aqv Aqv.Big Aqv.Evm Aqv.Gen.VmTable

abbrev W := BitVec 256

/-! ## results of the computational opcodes (operands in pop order; `↑a.toNat` is the stack word as the Go big.Int) -/

theorem opAdd_spec (a b : W) : opAdd a.toNat b.toNat = (EvmSpec.add a b).toNat := Evm.opAdd_spec a b
theorem opSub_spec (a b : W) : opSub a.toNat b.toNat = (EvmSpec.sub a b).toNat := Evm.opSub_spec a b
theorem opMul_spec (a b : W) : opMul a.toNat b.toNat = (EvmSpec.mul a b).toNat := Evm.opMul_spec a b
theorem opDiv_spec (a b : W) : opDiv a.toNat b.toNat = (EvmSpec.div a b).toNat := Evm.opDiv_spec a b
/-- including −2²⁵⁵ / −1 = −2²⁵⁵ and division by zero = 0 -/
theorem opSdiv_spec (a b : W) : opSdiv a.toNat b.toNat = (EvmSpec.sdiv a b).toNat := Evm.opSdiv_spec a b
theorem opMod_spec (a b : W) : opMod a.toNat b.toNat = (EvmSpec.mod a b).toNat := Evm.opMod_spec a b
theorem opSmod_spec (a b : W) : opSmod a.toNat b.toNat = (EvmSpec.smod a b).toNat := Evm.opSmod_spec a b
/-- the intermediate sum is not reduced modulo 2²⁵⁶ -/
theorem opAddmod_spec (a b n : W) : opAddmod a.toNat b.toNat n.toNat = (EvmSpec.addmod a b n).toNat := Evm.opAddmod_spec a b n
theorem opMulmod_spec (a b n : W) : opMulmod a.toNat b.toNat n.toNat = (EvmSpec.mulmod a b n).toNat := Evm.opMulmod_spec a b n
/-- the square-and-multiply loop of common/math.Exp over the 64-bit words of the exponent is a^e mod 2²⁵⁶ -/
theorem opExp_spec (a e : W) : opExp a.toNat e.toNat = (EvmSpec.exp a e).toNat := Evm.opExp_spec a e
theorem opSignExtend_spec (b x : W) : opSignExtend b.toNat x.toNat = (EvmSpec.signextend b x).toNat := Evm.opSignExtend_spec b x
theorem opLt_spec (a b : W) : opLt a.toNat b.toNat = (EvmSpec.lt a b).toNat := Evm.opLt_spec a b
theorem opGt_spec (a b : W) : opGt a.toNat b.toNat = (EvmSpec.gt a b).toNat := Evm.opGt_spec a b
theorem opSlt_spec (a b : W) : opSlt a.toNat b.toNat = (EvmSpec.slt a b).toNat := Evm.opSlt_spec a b
theorem opSgt_spec (a b : W) : opSgt a.toNat b.toNat = (EvmSpec.sgt a b).toNat := Evm.opSgt_spec a b
theorem opEq_spec (a b : W) : opEq a.toNat b.toNat = (EvmSpec.eq a b).toNat := Evm.opEq_spec a b
theorem opIszero_spec (a : W) : opIszero a.toNat = (EvmSpec.iszero a).toNat := Evm.opIszero_spec a
theorem opAnd_spec (a b : W) : opAnd a.toNat b.toNat = (EvmSpec.and a b).toNat := Evm.opAnd_spec a b
theorem opOr_spec (a b : W) : opOr a.toNat b.toNat = (EvmSpec.or a b).toNat := Evm.opOr_spec a b
theorem opXor_spec (a b : W) : opXor a.toNat b.toNat = (EvmSpec.xor a b).toNat := Evm.opXor_spec a b
theorem opNot_spec (a : W) : opNot a.toNat = (EvmSpec.not a).toNat := Evm.opNot_spec a
theorem opByte_spec (i x : W) : opByte i.toNat x.toNat = (EvmSpec.byte i x).toNat := Evm.opByte_spec i x
theorem opSHL_spec (s v : W) : opSHL s.toNat v.toNat = (EvmSpec.shl s v).toNat := Evm.opSHL_spec s v
theorem opSHR_spec (s v : W) : opSHR s.toNat v.toNat = (EvmSpec.shr s v).toNat := Evm.opSHR_spec s v

/-- FULL STATEMENT (false for the code as written): ∀ s v, opSAR s.toNat v.toNat = (EvmSpec.sar s v).toNat.
    Witness: an arithmetic shift of ZERO by 256 returns 2²⁵⁶ − 1 (`value.Sign() > 0` should be `>= 0`), the specification says 0. -/
theorem sar_zero_witness : opSAR 256 0 = 2 ^ 256 - 1 ∧ ((EvmSpec.sar 256 0).toNat : Int) = 0 ∧
    opSAR 256 0 ≠ ((EvmSpec.sar 256 0).toNat : Int) := Evm.sar_zero_witness

/-- SAR is correct for every operand pair outside exactly {(shift, value) | shift ≥ 256 ∧ value = 0}. -/
theorem opSAR_spec_partial (s v : W) (h : ¬ (s.toNat ≥ 256 ∧ v = 0)) :
    opSAR s.toNat v.toNat = (EvmSpec.sar s v).toNat := Evm.opSAR_spec_partial s v h
-- non-vacuity: the negative boundary value with an oversized shift is inside the covered set and gives −1
example : ¬ ((BitVec.ofNat 256 300).toNat ≥ 256 ∧ (BitVec.ofNat 256 (2 ^ 255)) = 0) := by decide
example : opSAR 300 (2 ^ 255) = 2 ^ 256 - 1 := by unfold opSAR; simp only [u256_eq_emod]; decide

/-! what the evaluable Spec definitions mean (they carry explicit `shift ≥ 256` clauses and a binary exponentiation) -/
theorem exp_meaning (a e : W) : (EvmSpec.exp a e).toNat = a.toNat ^ e.toNat % 2 ^ 256 := Evm.exp_meaning a e
theorem shl_meaning (s v : W) : EvmSpec.shl s v = v <<< s.toNat := Evm.shl_meaning s v
theorem shr_meaning (s v : W) : EvmSpec.shr s v = v >>> s.toNat := Evm.shr_meaning s v
theorem sar_meaning (s v : W) : EvmSpec.sar s v = v.sshiftRight s.toNat := Evm.sar_meaning s v

/-! ## gas -/

/-- toWordSize = ⌈size / 32⌉ for every uint64 (the special case for size > 2⁶⁴ − 32 included) -/
theorem toWordSize_spec (s : UInt64) : (toWordSize s).toNat = (s.toNat + 31) / 32 := Evm.toWordSize_spec s

/-- FULL STATEMENT (false for the code as written): for a fully paid memory of `cur` words and EVERY requested size n,
    memoryGasCost returns C_mem(max cur ⌈n/32⌉) − C_mem(cur) or reports overflow.
    Witness: growing an empty memory to 2³⁷ bytes is charged 3·2³² gas; the Yellow Paper says 3·2³² + 2⁵⁵. The guard
    `newMemSize > 0xffffffffe0` lets `words*words` wrap uint64 for 2³² ≤ words < 2³⁵. -/
theorem memgas_wrap_witness :
    memoryGasCost ⟨0, 0⟩ 0x2000000000 = some (12884901888, ⟨0, 12884901888⟩) ∧
    EvmSpec.cmem (EvmSpec.words 0x2000000000) - EvmSpec.cmem 0 = 12884901888 + 2 ^ 55 := Evm.memgas_wrap_witness

/-- memoryGasCost is the Yellow Paper's quadratic memory fee for every request outside (0x1fffffffe0, 0xffffffffe0]:
    below it the fee is exactly C_mem(new) − C_mem(cur) and `lastGasCost` stays C_mem of the active words … -/
theorem memoryGasCost_spec_partial (mem : Mem) (cur : Nat) (n : UInt64) (hok : MemOk mem cur) (hn : n.toNat ≤ 0x1fffffffe0) :
    ∃ fee mem', memoryGasCost mem n = some (fee, mem') ∧
      fee.toNat = EvmSpec.cmem (max cur (EvmSpec.words n.toNat)) - EvmSpec.cmem cur ∧
      mem'.len = mem.len ∧ mem'.lastGasCost.toNat = EvmSpec.cmem (max cur (EvmSpec.words n.toNat)) :=
  Evm.memoryGasCost_spec_partial mem cur n hok hn
example : MemOk ⟨64, 6⟩ 2 := ⟨by decide, by decide⟩

/-- … and above it the function reports overflow (→ out of gas), where the specified fee is at least 2⁶¹. -/
theorem memoryGasCost_overflow (mem : Mem) (n : UInt64) (hn : n.toNat > 0xffffffffe0) :
    memoryGasCost mem n = none ∧ EvmSpec.cmem (EvmSpec.words n.toNat) ≥ 2 ^ 61 := Evm.memoryGasCost_overflow mem n hn
example : (0x10000000000 : UInt64).toNat > 0xffffffffe0 := by decide

/-- memory growth (calcMemSize → size prologue of Run → memoryGasCost → Resize): touching [off, off+len) leaves
    M(cur, off, len) active words, fully paid, for the fee C_mem(new) − C_mem(cur); zero-length accesses never expand. -/
theorem memory_growth_spec_partial (mem : Mem) (cur off len : Nat) (hok : MemOk mem cur)
    (hsmall : (if len = 0 then 0 else off + len) ≤ 0x1fffffffe0) :
    ∃ r fee mem', memorySizeOf (calcMemSize (off : Int) (len : Int)) = some r ∧ memoryGasCost mem r = some (fee, mem') ∧
      fee.toNat = EvmSpec.cmem (EvmSpec.memExpand cur off len) - EvmSpec.cmem cur ∧
      MemOk (memResize mem' r) (EvmSpec.memExpand cur off len) := Evm.memory_growth_spec_partial mem cur off len hok hsmall
example : (if (32 : Nat) = 0 then 0 else 2 ^ 256 - 1 + 32) > 0x1fffffffe0 ∧ (if (0 : Nat) = 0 then 0 else 2 ^ 256 - 1 + 0) ≤ 0x1fffffffe0 := by decide

/-- the size prologue reports "gas uint64 overflow" only for requests whose word-rounded size does not fit 64 bits -/
theorem memorySizeOf_spec (n : Nat) :
    (∀ r, memorySizeOf (n : Int) = some r → r.toNat = 32 * EvmSpec.words n) ∧
    (memorySizeOf (n : Int) = none → 32 * EvmSpec.words n ≥ 2 ^ 64) := Evm.memorySizeOf_spec n

/-- EXP: G_exp + G_expbyte · bytes(exponent), for every 256-bit exponent and both gas tables' per-byte prices -/
theorem gasExp_spec (eb : UInt64) (e : Nat) (he : e < 2 ^ 256) (heb : 32 * eb.toNat + 10 < 2 ^ 64) :
    ∃ g, gasExp eb (e : Int) = some g ∧ g.toNat = EvmSpec.gasExp eb.toNat e := Evm.gasExp_ok eb e he heb
example : 32 * (UInt64.ofNat gasTableHF1.expByte).toNat + 10 < 2 ^ 64 ∧ 32 * (UInt64.ofNat gasTableHomestead.expByte).toNat + 10 < 2 ^ 64 := by decide

/-- SHA3: memory fee + G_sha3 + G_sha3word·⌈size/32⌉ when a value is returned; overflow only where that sum is ≥ 2⁶⁰ -/
theorem gasSha3_spec (mem : Mem) (m fee : UInt64) (mem' : Mem) (size : Nat) (hm : memoryGasCost mem m = some (fee, mem')) :
    (∀ g, gasSha3 mem m (size : Int) = some g → g.toNat = fee.toNat + EvmSpec.gasSha3 size) ∧
    (gasSha3 mem m (size : Int) = none → fee.toNat + EvmSpec.gasSha3 size ≥ 2 ^ 60) := Evm.gasSha3_spec mem m fee mem' size hm
example : memoryGasCost ⟨0, 0⟩ 64 = some (6, ⟨0, 6⟩) := by decide

/-- CALLDATACOPY / CODECOPY / RETURNDATACOPY (base 3) and EXTCODECOPY (base from the gas table): memory + base + G_copy·words -/
theorem gasCopy_spec (base : UInt64) (mem : Mem) (m fee : UInt64) (mem' : Mem) (size : Nat) (hm : memoryGasCost mem m = some (fee, mem')) :
    (∀ g, gasCopy base mem m (size : Int) = some g → g.toNat = fee.toNat + EvmSpec.gasCopy base.toNat size) ∧
    (gasCopy base mem m (size : Int) = none → fee.toNat + EvmSpec.gasCopy base.toNat size ≥ 2 ^ 60) :=
  Evm.gasCopy_spec base mem m fee mem' size hm

/-- MLOAD / MSTORE / MSTORE8: memory + G_verylow -/
theorem gasMemVeryLow_spec (mem : Mem) (m fee : UInt64) (mem' : Mem) (hm : memoryGasCost mem m = some (fee, mem')) :
    (∀ g, gasMemVeryLow mem m = some g → g.toNat = fee.toNat + 3) ∧ (gasMemVeryLow mem m = none → fee.toNat + 3 ≥ 2 ^ 64) :=
  Evm.gasMemVeryLow_spec mem m fee mem' hm

/-- LOGn: memory + G_log + n·G_logtopic + G_logdata·size -/
theorem gasLog_spec (n : UInt64) (hn : n.toNat ≤ 4) (mem : Mem) (m fee : UInt64) (mem' : Mem) (size : Nat)
    (hm : memoryGasCost mem m = some (fee, mem')) :
    (∀ g, gasLog n mem m (size : Int) = some g → g.toNat = fee.toNat + EvmSpec.gasLog n.toNat size) ∧
    (gasLog n mem m (size : Int) = none → fee.toNat + EvmSpec.gasLog n.toNat size ≥ 2 ^ 60) :=
  Evm.gasLog_spec n hn mem m fee mem' size hm

/-- CREATE: memory + G_create;  RETURN / REVERT: memory only -/
theorem gasCreate_spec (mem : Mem) (m fee : UInt64) (mem' : Mem) (hm : memoryGasCost mem m = some (fee, mem')) :
    (∀ g, gasCreate mem m = some g → g.toNat = fee.toNat + 32000) ∧ (gasCreate mem m = none → fee.toNat + 32000 ≥ 2 ^ 64) :=
  Evm.gasCreate_spec mem m fee mem' hm
theorem gasReturn_spec (mem : Mem) (m fee : UInt64) (mem' : Mem) (hm : memoryGasCost mem m = some (fee, mem')) :
    gasReturn mem m = some fee := Evm.gasReturn_spec mem m fee mem' hm

/-- callGas under EIP-150 pricing (every built-in gas table): min(requested, available − base − ⌊(available − base)/64⌋),
    for every requested amount (also ≥ 2⁶⁴) -/
theorem callGas_spec (cbs avail base : UInt64) (cost : Nat) (hc : cbs.toNat > 0) (hb : base.toNat ≤ avail.toNat) :
    ∃ g, callGas cbs avail base (cost : Int) = some g ∧ g.toNat = EvmSpec.callGasCap avail.toNat base.toNat cost :=
  Evm.callGas_eip150 cbs avail base cost hc hb
example : (UInt64.ofNat gasTableHF1.createBySuicide).toNat > 0 ∧ (UInt64.ofNat gasTableHomestead.createBySuicide).toNat > 0 := by decide

/-- the literal gas constants used by the model are the ones the compiled packages have now (T-gen) -/
theorem model_constants_match_gen :
    memoryGas.toNat = MemoryGas ∧ quadCoeffDiv.toNat = QuadCoeffDiv ∧ gasFastestStep.toNat = GasFastestStep ∧
    gasSlowStep.toNat = GasSlowStep ∧ Sha3Gas = 30 ∧ Sha3WordGas = 6 ∧ CopyGas = 3 ∧ LogGas = 375 ∧ LogTopicGas = 375 ∧
    LogDataGas = 8 ∧ CreateGas = 32000 ∧ StackLimit = 1024 ∧ ExpGas = 10 := by decide

/-- the two gas tables are EIP-150 prices with EXP at 10 per byte, resp. 50 per byte (EIP-160) from HF1 -/
theorem gasTables_match_spec :
    gasTableHomestead = ⟨700, 700, 400, 200, 700, 5000, 10, 25000⟩ ∧ gasTableHF1 = ⟨700, 700, 400, 200, 700, 5000, 50, 25000⟩ := by decide

/-! ## jump destinations -/

/-- codeBitmap marks exactly the positions inside PUSH data: a position of the code is a "code segment" iff it holds an
    instruction when the code is decoded from position 0 (PUSH data running past the end of the code included). -/
theorem codeBitmap_spec (code : Array UInt8) (i : Nat) (hi : i < code.size) :
    codeSegment (codeBitmap code) i = (EvmSpec.isCode code.toList).getD i false := Evm.codeBitmap_testBit code i hi
example : codeSegment (codeBitmap #[0x60, 0x5b, 0x5b]) 1 = false ∧ codeSegment (codeBitmap #[0x60, 0x5b, 0x5b]) 2 = true := by decide

/-- destinations.has(dest) ⇔ dest ∈ D(c): a JUMPDEST byte not inside PUSH data — for EVERY 256-bit destination
    (the `BitLen() >= 63` shortcut and the uint64 truncation of dest never disagree with the specification). -/
theorem jumpdest_valid_iff (code : Array UInt8) (dest : Nat) (hsize : code.size < 2 ^ 62) :
    hasJumpdest code (dest : Int) = EvmSpec.validJumpdest code.toList dest := Evm.hasJumpdest_eq code dest hsize
example : hasJumpdest #[0x5b] ((2 ^ 64 : Nat) : Int) = false ∧ hasJumpdest #[0x5b] ((0 : Nat) : Int) = true := by decide


/-! ## stack, memory, call-data / code / return-data access, control flow: the Go bodies against the Yellow Paper

  `implExec` mirrors makePush, Stack.dup/swap (slice with the top LAST), Memory.Get/GetPtr/Set with their Uint64() truncations
  and panics, getDataBig + RightPadBytes, PaddedBigBytes, opReturnDataCopy's bounds check, destinations.has.
  `specExec` is pointwise: `specRead d off n` = bytes d[off+i] (0 past the end), `specWrite` = memory with a range replaced. -/

/-- CALLDATALOAD / CALLDATACOPY / CODECOPY source bytes: getDataBig (clamp start and end to the data, right-pad) reads
    data[start+i], zero past the end — for EVERY start (also ≥ 2⁶⁴, ≥ len) and every size below 2⁶⁴ -/
theorem getDataBig_spec (data : Bytes) (start size : Nat) (h : size < 2 ^ 64) :
    getDataBig data start size = specRead data start size := Evm.getDataBig_spec data start size h
example : getDataBig [1, 2, 3] 2 4 = [3, 0, 0, 0] ∧ getDataBig [1, 2, 3] (2 ^ 200) 2 = [0, 0] := by decide

/-- PUSHn: the operand is the n code bytes after the opcode, zero where the code has ended (makePush's startMin/endMin) -/
theorem opPush_spec (code : Bytes) (pc n : Nat) :
    rightPad ((code.drop (min code.length (pc + 1))).take (min code.length (min code.length (pc + 1) + n) - min code.length (pc + 1))) n
      = specRead code (pc + 1) n := Evm.pushSlice_eq code pc n

/-- DUPn on the Go slice (top last) pushes the n-th word from the top -/
theorem opDup_spec (st : List Int) (n : Nat) (h1 : 1 ≤ n) (h2 : n ≤ st.length) :
    st.reverse.getD (st.reverse.length - n) 0 = st.getD (n - 1) 0 := Evm.dup_spec st n h1 h2
example : (1 : Nat) ≤ 16 ∧ 16 ≤ (List.replicate 16 (7 : Int)).length := by decide

/-- SWAPk on the Go slice exchanges the top with the k-th word below it and nothing else -/
theorem opSwap_spec (st : List Int) (k : Nat) (h1 : 1 ≤ k) (h2 : k + 1 ≤ st.length) :
    ((st.reverse.set (st.reverse.length - (k + 1)) (st.reverse.getD (st.reverse.length - 1) 0)).set (st.reverse.length - 1)
        (st.reverse.getD (st.reverse.length - (k + 1)) 0)).reverse
      = (st.set 0 (st.getD k 0)).set k (st.getD 0 0) := Evm.swap_spec st k h1 h2

/-- MLOAD / SHA3 / RETURN source: Memory.Get / GetPtr never panics and returns exactly mem[off .. off+size) once the
    prologue has grown the memory over the range -/
theorem memoryGet_spec (mem : Bytes) (off size : Nat) (h : size ≠ 0 → off + size ≤ mem.length) :
    memGet mem off size = some (specRead mem off size) := Evm.memGet_spec mem off size h

/-- MSTORE / *COPY destination: Memory.Set never panics and replaces exactly [off, off+size) -/
theorem memorySet_spec (mem : Bytes) (off size : Nat) (value : Bytes) (hv : value.length = size)
    (h : size ≠ 0 → off + size ≤ mem.length) : memSet mem off size value = some (specWrite mem off value) :=
  Evm.memSet_spec mem off size value hv h

/-- MSTORE writes the 32-byte big-endian word (math.PaddedBigBytes) -/
theorem opMstore_word_spec (v : Nat) (hv : v < 2 ^ 256) : paddedBigBytes v 32 = specWord v := Evm.paddedBigBytes_spec v hv

/-- RETURNDATACOPY: the exceptional halt happens exactly when the copy reads past the end of the return-data buffer -/
theorem returnDataCopy_oob_iff (rdLen doff len : Nat) (hrd : rdLen < 2 ^ 64) :
    (bitLen ((doff : Int) + (len : Int)) > 64 ∨ rdLen < uint64 ((doff : Int) + (len : Int))) ↔ doff + len > rdLen :=
  Evm.returnDataCopy_oob_iff rdLen doff len hrd

/-- the five generated tables, decoded by the FUNCTION NAMES they hold (which memory-size function, which gas function), are
    the hand-written specification tables — so the loop of both interpreters sees the same entry for every opcode -/
theorem tables_decode_to_spec : ∀ e ∈ Epoch.all,
    (table e).map (fun i => (i.op, implEntry i)) = (EvmSpec.opcodeTable (epochLevel e)).map (fun r => (r.op, specEntry r)) :=
  Evm.tables_entries_agree

/-- prologue of one step (memory size request with its uint64 overflow checks, quadratic memory fee, gas function,
    lastGasCost): Go and Yellow Paper decide the same — both accept with the same size / cost / lastGasCost, or both halt
    exceptionally, or the opcode is outside the modelled subset — on every machine that satisfies the run invariant and whose
    operands are not in the memory-wrap deviation set -/
theorem step_prologue_spec (gt : GasTable) (eb : Nat) (hgt : gt.expByte = eb) (heb : eb = 10 ∨ eb = 50)
    (en : Entry) (hwf : wfEntry en) (opc : Nat) (m : Machine) (hinv : Inv m) (hdev : devSet en opc m = false) :
    PreRel m.gas (PreFacts en m) (implPre gt en opc m) (specPre eb en opc m) :=
  Evm.pre_agree gt eb hgt heb en hwf opc m hinv hdev

/-- one executed instruction (all of: PUSH1‥32, DUP1‥16, SWAP1‥16, POP, the 25 computational opcodes, SHA3, ADDRESS, ORIGIN,
    CALLER, CALLVALUE, CALLDATALOAD/SIZE/COPY, CODESIZE/COPY, GASPRICE, RETURNDATASIZE/COPY, COINBASE, TIMESTAMP, NUMBER,
    DIFFICULTY, GASLIMIT, MLOAD, MSTORE, MSTORE8, JUMP, JUMPI, PC, MSIZE, GAS, JUMPDEST, STOP, RETURN, REVERT): the Go body and
    the Yellow-Paper definition give the same step — same stack, memory, pc, return data, same exceptional halt (bad jump
    destination, return-data out of bounds), and the Go slice operations cannot panic — once the memory spans the touched
    range and the operands are not SAR's deviation set -/
theorem step_exec_spec (env : Env) (H : Bytes → Bytes) (en : Entry) (opc : Nat) (m : Machine) (h : ExecHyp env H en opc m) :
    implExec env H en opc m = specExec env H en opc m := Evm.exec_agree env H en opc m h

/-- WHOLE PROGRAMS, guarded form: for every code, call data, return-data buffer, epoch, gas table, fuel and start machine
    satisfying the invariant (in particular the empty machine with any gas budget below 2⁶⁰), the Go-mirroring interpreter
    and the Spec interpreter — both stopping with `deviation` when a step's operands lie in `devSet` — produce the same outcome
    (return data, gas left, stack at the halting instruction, halt class up to the kind of exceptional halt). -/
theorem run_refines_spec_guarded (env : Env) (H : Bytes → Bytes) (hE : EnvOk env H) (e : Epoch) (gt : GasTable) (eb : Nat)
    (hgt : gt.expByte = eb) (heb : eb = 10 ∨ eb = 50) (fuel : Nat) (m : Machine) (hinv : Inv m) :
    (runImpl env H e gt devSet fuel m).norm = (runSpec env H (epochLevel e) eb devSet fuel m).norm :=
  Evm.run_agree env H hE e gt eb hgt heb fuel m hinv

/-- FULL STATEMENT (false for the code as written, by `sar_zero_witness` and `memgas_wrap_witness`): the two unguarded
    interpreters agree on every program.
    PARTIAL: they agree on every program whose (Spec) execution never reaches a step with operands in one of exactly two sets
    (`devSet`): (1) SAR with shift ≥ 256 and value 0; (2) a memory request whose word-rounded size lies in
    (0x1fffffffe0, 0xffffffffe0] bytes. Hypotheses besides that: gas below 2⁶⁰ (assumption A1), code shorter than 2⁶² bytes,
    Keccak output 32 bytes long (Keccak itself is a parameter). -/
theorem run_refines_spec_partial (env : Env) (H : Bytes → Bytes) (hE : EnvOk env H) (e : Epoch) (gt : GasTable) (eb : Nat)
    (hgt : gt.expByte = eb) (heb : eb = 10 ∨ eb = 50) (fuel : Nat) (m : Machine) (hinv : Inv m)
    (hnodev : runSpec env H (epochLevel e) eb devSet fuel m ≠ .deviation) :
    (runImpl env H e gt noGuard fuel m).norm = (runSpec env H (epochLevel e) eb noGuard fuel m).norm := by
  have hg := Evm.run_agree env H hE e gt eb hgt heb fuel m hinv
  have hs := run_guard_irrelevant env (specLookup (epochLevel e)) (specPre eb) (specExec env H) devSet fuel m hnodev
  have hi : run env (implLookup e) (implPre gt) (implExec env H) devSet fuel m ≠ .deviation := by
    intro hd
    have : (run env (specLookup (epochLevel e)) (specPre eb) (specExec env H) devSet fuel m).norm = .deviation := by
      rw [← hg, hd]; rfl
    exact hnodev ((norm_eq_deviation _).1 this)
  have hi' := run_guard_irrelevant env (implLookup e) (implPre gt) (implExec env H) devSet fuel m hi
  unfold runImpl runSpec
  rw [← hi', ← hs]
  exact hg
-- non-vacuity: the empty machine with 100 000 gas satisfies the invariant; both built-in gas tables satisfy the price hypotheses;
-- a program PUSH1 1 PUSH1 2 ADD PUSH1 0 MSTORE PUSH1 32 PUSH1 0 RETURN runs to `ok` in the guarded Spec interpreter
example : Inv (startMachine 100000) := inv_start 100000 (by decide)
example : gasTableHF1.expByte = 50 ∧ gasTableHomestead.expByte = 10 := by decide
example : runSpec ⟨#[0x60, 1, 0x60, 2, 0x01, 0x60, 0, 0x52, 0x60, 32, 0x60, 0, 0xf3], [], [], 1, 2, 2, 0, 1, 0, 1000, 0, 1, 10000000⟩
    (fun _ => List.replicate 32 0) 3 50 devSet 20 (startMachine 100000) ≠ .deviation := by decide

/-! ## instruction tables and their selection -/

/-- each of the five generated instruction sets is, column by column (opcode, items popped, items pushed, constant gas
    tier, halts, jumps, reverts), the hand-written table of the specification for its fork level; in particular the set of
    valid opcodes is exactly the specified one. -/
theorem jumpTable_matches_spec : ∀ e ∈ Epoch.all, (table e).map projRow = EvmSpec.opcodeTable (epochLevel e) := by decide

/-- NewInterpreter's switch selects, for EVERY chain configuration and EVERY height, the table the fork schedule prescribes
    (forks cumulative; aquachain's HF5 = Byzantium opcodes + EIP-145 shifts). -/
theorem epoch_selection (c : ChainCfg) (n : Nat) :
    (table (selectEpoch c n)).map projRow = EvmSpec.opcodeTable (specLevel c n) := by
  have ht := jumpTable_matches_spec
  unfold selectEpoch specLevel
  cases h5 : isHF c 5 n <;> cases hc : isForked c.constantinople n <;> cases hb : isForked c.byzantium n <;>
    cases hh : isForked c.homestead n <;> simp only [if_true, if_false, Bool.false_eq_true]
  all_goals first
    | exact ht .spring (by decide)
    | exact ht .constantinople (by decide)
    | exact ht .byzantium (by decide)
    | exact ht .homestead (by decide)
    | exact ht .frontier (by decide)

/-- ChainConfig.GasTable: EXP costs 50 per exponent byte from HF1 on, 10 before — for every configuration and height -/
theorem gasTable_selection (c : ChainCfg) (n : Nat) : (gasTableOf (selectGasTable c n)).expByte = specExpByte c n := by
  unfold selectGasTable specExpByte
  cases isHF c 1 n <;> decide

/-- T-gen cross-check: at every probe height around every fork of every built-in chain config, the table the real
    NewInterpreter selected and the gas table ChainConfig.GasTable returned are the ones the model of the switch computes. -/
theorem probes_match_model :
    ∀ p ∈ probes, (p.sets.contains (selectEpoch p.cfg p.height) && decide (selectGasTable p.cfg p.height = p.gasTable)) = true := by decide

/-- the published mainnet schedule: Homestead rules from genesis, EIP-160 EXP price from HF1 (3600), the Byzantium opcodes and
    the shifts from HF5 (22800) — for every height. -/
theorem mainnet_schedule (n : Nat) :
    specLevel cfg_mainnet n = (if n ≥ 22800 then 3 else 1) ∧ specExpByte cfg_mainnet n = (if n ≥ 3600 then 50 else 10) := by
  unfold specLevel specExpByte isHF hfHeight isForked cfg_mainnet
  simp only [List.find?, Option.map]
  constructor
  · by_cases h1 : n ≥ 22800
    · have : 36050 ≤ n ∨ ¬ 36050 ≤ n := by omega
      rcases this with h | h <;> simp [h1, h] <;> try omega
    · have : ¬ 36050 ≤ n := by omega
      simp [h1, this] <;> try omega
  · by_cases h1 : n ≥ 3600 <;> simp [h1] <;> try omega

/-! ### tie by translation (T-gen `translated`, DESIGN 2.2 mini-translator)

The functions below are translated from the go/ssa form of the tree under test on every run (`Aqv.Gen.Translated`); the
theorems state that the translated code IS the model function the theorems above are stated on (proofs in
`Aqv.Lemmas.Translated.Vm` / `.Params`).  A change of the Go source that changes the meaning of one of them breaks its theorem. -/

/-- core/vm.toWordSize: the code is the model. -/
theorem toWordSize_code_is_model : Aqv.Gen.Translated.toWordSize = toWordSize :=
  Aqv.Lemmas.Translated.toWordSize_translated_eq

example : Aqv.Gen.Translated.toWordSize 33 = 2 ∧ Aqv.Gen.Translated.toWordSize 0xffffffffffffffff = 0x800000000000000 := by decide

/-- common/math.SafeAdd / SafeMul / SafeSub: the code is the model (`SafeMul` never panics: its division is guarded). -/
theorem safe_arith_code_is_model :
    Aqv.Gen.Translated.SafeAdd = safeAdd ∧ (∀ x y, Aqv.Gen.Translated.SafeMul x y = some (safeMul x y)) ∧
    (∀ x y, Aqv.Gen.Translated.SafeSub x y = (x - y, decide (x < y))) :=
  ⟨Aqv.Lemmas.Translated.SafeAdd_translated_eq, Aqv.Lemmas.Translated.SafeMul_translated_eq,
   Aqv.Lemmas.Translated.SafeSub_translated_eq⟩

/-- core/vm.memoryGasCost (with `(*Memory).Len`; `mem.lastGasCost` is threaded as an extra argument/result): reading
    `(gas, err, lastGasCost')` as the model's `Option (gas × Mem)` gives the model function. -/
theorem memoryGasCost_code_is_model (storeLen : Int64) (lastGasCost newMemSize : UInt64) :
    Aqv.Lemmas.Translated.memRes (Aqv.Lemmas.Translated.memLen storeLen)
        (Aqv.Gen.Translated.memoryGasCost storeLen lastGasCost newMemSize)
      = memoryGasCost ⟨Aqv.Lemmas.Translated.memLen storeLen, lastGasCost⟩ newMemSize :=
  Aqv.Lemmas.Translated.memoryGasCost_translated_eq storeLen lastGasCost newMemSize

example : Aqv.Gen.Translated.memoryGasCost 0 0 64 = (6, none, 6) := by decide

/-- the gas functions built on memoryGasCost: gasMLoad / gasMStore / gasMStore8 (+ GasFastestStep), gasCreate (+ CreateGas),
    gasReturn / gasRevert. -/
theorem memory_gas_functions_code_is_model (storeLen : Int64) (lgc n : UInt64) :
    let mem : Mem := ⟨Aqv.Lemmas.Translated.memLen storeLen, lgc⟩
    let rd := fun r => (Aqv.Lemmas.Translated.memRes (Aqv.Lemmas.Translated.memLen storeLen) r).map Prod.fst
    rd (Aqv.Gen.Translated.gasMLoad storeLen lgc n) = gasMemVeryLow mem n ∧
    rd (Aqv.Gen.Translated.gasMStore storeLen lgc n) = gasMemVeryLow mem n ∧
    rd (Aqv.Gen.Translated.gasMStore8 storeLen lgc n) = gasMemVeryLow mem n ∧
    rd (Aqv.Gen.Translated.gasCreate storeLen lgc n) = gasCreate mem n ∧
    rd (Aqv.Gen.Translated.gasReturn storeLen lgc n) = gasReturn mem n ∧
    rd (Aqv.Gen.Translated.gasRevert storeLen lgc n) = gasReturn mem n :=
  ⟨Aqv.Lemmas.Translated.gasMLoad_translated_eq _ _ _, Aqv.Lemmas.Translated.gasMStore_translated_eq _ _ _,
   Aqv.Lemmas.Translated.gasMStore8_translated_eq _ _ _, Aqv.Lemmas.Translated.gasCreate_translated_eq _ _ _,
   Aqv.Lemmas.Translated.gasReturn_translated_eq _ _ _, Aqv.Lemmas.Translated.gasRevert_translated_eq _ _ _⟩

/-- core/vm.callGas, bigUint64 (for every big integer whose bit length fits Go's `int`, i.e. every value that exists),
    calcMemSize and common/math.S256 (at the initial values of the package-level variables they read). -/
theorem callGas_code_is_model (createBySuicide availableGas base : UInt64) (callCost : Int)
    (h : Aqv.Lemmas.Translated.Fits callCost) :
    Aqv.Lemmas.Translated.errRes (Aqv.Gen.Translated.callGas createBySuicide availableGas base callCost)
      = callGas createBySuicide availableGas base callCost ∧
    Aqv.Gen.Translated.bigUint64 callCost = bigUint64 callCost ∧
    (∀ off l, Aqv.Gen.Translated.calcMemSize 0 off l = calcMemSize off l) ∧
    (∀ x, Aqv.Gen.Translated.S256 tt255 tt256 x = s256 x) :=
  ⟨Aqv.Lemmas.Translated.callGas_translated_eq _ _ _ _ h, Aqv.Lemmas.Translated.bigUint64_translated_eq _ h,
   Aqv.Lemmas.Translated.calcMemSize_translated_eq, Aqv.Lemmas.Translated.S256_translated_eq⟩

example : Aqv.Lemmas.Translated.Fits (2 ^ 256 - 1) ∧
    Aqv.Gen.Translated.callGas 1 6400 0 (2 ^ 256 - 1) = (6300, none) := by decide

/-- params.isForked and the block-number switches built on it (IsHomestead / IsByzantium / IsConstantinople): never panic on
    a non-nil head and compute the model's `isForked`. -/
theorem isForked_code_is_model (s : Option Nat) (head : Nat) :
    Aqv.Gen.Translated.isForked (s.map Nat.cast) (some (head : Int)) = some (isForked s head) ∧
    Aqv.Gen.Translated.ChainConfig_IsHomestead (s.map Nat.cast) (some (head : Int)) = some (isForked s head) ∧
    Aqv.Gen.Translated.ChainConfig_IsByzantium (s.map Nat.cast) (some (head : Int)) = some (isForked s head) ∧
    Aqv.Gen.Translated.ChainConfig_IsConstantinople (s.map Nat.cast) (some (head : Int)) = some (isForked s head) :=
  ⟨Aqv.Lemmas.Translated.isForked_translated_eq s head, Aqv.Lemmas.Translated.ChainConfig_IsHomestead_translated_eq s head,
   Aqv.Lemmas.Translated.ChainConfig_IsByzantium_translated_eq s head,
   Aqv.Lemmas.Translated.ChainConfig_IsConstantinople_translated_eq s head⟩

/-- tie by translation, remaining block-number switches of params/config.go: IsEIP150 / IsEIP155 / IsEIP158 / IsDAOFork are
    `isForked(c.<X>Block, num)`.  The field each switch reads is pinned by a named argument (`c_EIP150Block := …`): if the code
    starts reading another block number the statement no longer elaborates. -/
theorem eip_switches_code_is_model (blk : Option Nat) (num : Nat) :
    Aqv.Gen.Translated.ChainConfig_IsEIP150 (c_EIP150Block := blk.map Nat.cast) (some (num : Int)) = some (isForked blk num) ∧
    Aqv.Gen.Translated.ChainConfig_IsEIP155 (c_EIP155Block := blk.map Nat.cast) (some (num : Int)) = some (isForked blk num) ∧
    Aqv.Gen.Translated.ChainConfig_IsEIP158 (c_EIP158Block := blk.map Nat.cast) (some (num : Int)) = some (isForked blk num) ∧
    Aqv.Gen.Translated.ChainConfig_IsDAOFork (c_DAOForkBlock := blk.map Nat.cast) (some (num : Int)) = some (isForked blk num) :=
  Aqv.Lemmas.Translated.ChainConfig_eipSwitches_translated_eq blk num

example : Aqv.Gen.Translated.ChainConfig_IsEIP158 (c_EIP158Block := some 36050) (some 36050) = some true ∧
    Aqv.Gen.Translated.ChainConfig_IsEIP158 (c_EIP158Block := some 36050) (some 36049) = some false ∧
    Aqv.Gen.Translated.ChainConfig_IsEIP158 (c_EIP158Block := none) (some 1) = some false := by decide

/-! ## growth 6: memory growth for every offset/length outside the wrap range -/

/-- `memory_growth_spec_partial` only covered requests ≤ 0x1fffffffe0. For EVERY offset and length (any Nat, in particular every
    256-bit operand pair) whose word-rounded request is not in the recorded uint64-wrap range (0x1fffffffe0, 0xffffffffe0], exactly one
    of three things happens, and in each the Go chain calcMemSize → size prologue → memoryGasCost → Resize does what the Yellow Paper
    prescribes: (a) the size prologue reports "gas uint64 overflow", or (b) memoryGasCost does — in both the specified expansion fee
    is ≥ 2⁶⁰ (out of gas under A1) —, or (c) the fee is exactly C_mem(new) − C_mem(cur) and the resized memory has M(cur, off, len)
    words, fully paid. So the excluded operand set of the memory clause is now exactly the wrap range. -/
theorem memory_growth_spec_outside_wrap (mem : Mem) (cur off len : Nat) (hok : MemOk mem cur) (hcur : cur ≤ 0xffffffff)
    (hnw : ¬ (len ≠ 0 ∧ 0x1fffffffe0 < 32 * EvmSpec.words (off + len) ∧ 32 * EvmSpec.words (off + len) ≤ 0xffffffffe0)) :
    (memorySizeOf (calcMemSize (off : Int) (len : Int)) = none ∧
      EvmSpec.cmem (EvmSpec.memExpand cur off len) - EvmSpec.cmem cur ≥ 2 ^ 60) ∨
    (∃ r, memorySizeOf (calcMemSize (off : Int) (len : Int)) = some r ∧ memoryGasCost mem r = none ∧
      EvmSpec.cmem (EvmSpec.memExpand cur off len) - EvmSpec.cmem cur ≥ 2 ^ 60) ∨
    (∃ r fee mem', memorySizeOf (calcMemSize (off : Int) (len : Int)) = some r ∧ memoryGasCost mem r = some (fee, mem') ∧
      fee.toNat = EvmSpec.cmem (EvmSpec.memExpand cur off len) - EvmSpec.cmem cur ∧
      MemOk (memResize mem' r) (EvmSpec.memExpand cur off len)) :=
  Evm.memory_growth_total mem cur off len hok hcur hnw
-- non-vacuity: an MSTORE at offset 2^256−32 (case a), at 2^40 (case b) and at 64 (case c) all satisfy the hypothesis
example : ¬ ((32 : Nat) ≠ 0 ∧ 0x1fffffffe0 < 32 * EvmSpec.words (2 ^ 256 - 32 + 32) ∧ 32 * EvmSpec.words (2 ^ 256 - 32 + 32) ≤ 0xffffffffe0) := by decide
example : ¬ ((32 : Nat) ≠ 0 ∧ 0x1fffffffe0 < 32 * EvmSpec.words (2 ^ 40 + 32) ∧ 32 * EvmSpec.words (2 ^ 40 + 32) ≤ 0xffffffffe0) := by decide
example : ¬ ((32 : Nat) ≠ 0 ∧ 0x1fffffffe0 < 32 * EvmSpec.words (64 + 32) ∧ 32 * EvmSpec.words (64 + 32) ≤ 0xffffffffe0) := by decide

end Aqv.Props.C08
